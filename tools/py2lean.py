#!/venv/bin/python
"""
Translator (second generated part of the tie): regenerate lean/EdzedModel/Gen/Translated.lean from the
CURRENT source of a handful of small pure functions of edzed.

For each target the Python AST of the function (or lambda) is translated, statement by statement and
expression by expression, into a Lean definition in `namespace Edzed.Gen.Tr`.  The property files state
theorems `translated_…` saying that the translated definition IS the hand-written model's definition
(closed by `rfl` / `funext` / `decide`), so a semantic change of the Python function changes the generated
Lean text and breaks a proof obligation of the property that owns the function.

Supported Python subset (anything else: the translator fails, which the checks treat as a broken tie):
  statements   return, assignment to a local name, if/else with early returns, expression statements that
               are docstrings or calls in the target's `ignore` list (side effects outside the value computed)
  expressions  names, `self._attr`, declared subscripts/attributes (data['value'], self._in.override …),
               constants, comparison chains (< <= > >= == is / is not with UNDEF or None), and / or / not,
               conditional expressions, + - * / %, bool(x), x.startswith("lit"), "lit" + x,
               sum(1 for v in xs if v)
Types: ord (an abstract totally ordered type, comparisons go through the parameters lt/le), val (Edzed.Val),
bool, rat, optrat (Optional number), optx (any Optional), str, vals (List Val).

Usage: py2lean.py <output file>
"""
import ast
import inspect
import os
import sys
import textwrap

SRC = os.environ.get('EDZED_SRC', '/repo')
sys.path.insert(0, SRC)

import edzed                                                    # noqa: E402
from edzed import block, simulator                              # noqa: E402
from edzed.blocklib import cblocks, filters, sblocks1, timeinterval     # noqa: E402

assert os.path.realpath(edzed.__file__).startswith(os.path.realpath(SRC)), (edzed.__file__, SRC)


class Untranslatable(Exception):
    pass


LEAN_TYPE = {'ord': 'α', 'val': 'Val', 'bool': 'Bool', 'rat': 'Rat', 'optrat': 'Option Rat',
             'optx': 'Option Unit', 'str': 'String', 'vals': 'List Val', 'nat': 'Nat', 'data': 'Data',
             'strs': 'List String'}


def node_path(node):
    """textual access path of Name / Attribute / Subscript chains, e.g. self._in['_'][0]"""
    if isinstance(node, ast.Name):
        return node.id
    if isinstance(node, ast.Attribute):
        return node_path(node.value) + '.' + node.attr
    if isinstance(node, ast.Subscript):
        key = node.slice
        if isinstance(key, ast.Constant):
            return node_path(node.value) + '[' + repr(key.value) + ']'
    raise Untranslatable(ast.dump(node))


class Tr:
    def __init__(self, target):
        self.t = target
        self.names = dict(target['names'])          # python name / access path -> (lean name, type)

    # ---- access paths -------------------------------------------------------------
    def path(self, node):
        return node_path(node)

    # ---- expressions --------------------------------------------------------------
    def truthy(self, text, typ):
        if typ == 'bool':
            return text
        if typ == 'val':
            return f'({text}).truthy'
        if typ == 'rat':
            return f'(({text}) != 0)'
        if typ == 'nat':
            return f'(({text}) != 0)'
        raise Untranslatable(f'truthiness of {typ}')

    def expr(self, node, env):
        if isinstance(node, (ast.Name, ast.Attribute, ast.Subscript)):
            try:
                p = self.path(node)
            except Untranslatable:
                p = None
            if p is not None and p in env:
                return env[p]
            if p == 'block.UNDEF':
                return ('Val.undef', 'val')
            raise Untranslatable(f'unknown name {p or ast.dump(node)}')
        if isinstance(node, ast.Constant):
            v = node.value
            if v is True:
                return ('true', 'bool')
            if v is False:
                return ('false', 'bool')
            if isinstance(v, int):
                return (f'({v} : Rat)', 'rat')
            if isinstance(v, str):
                return ('"' + v.replace('\\', '\\\\').replace('"', '\\"') + '"', 'str')
            raise Untranslatable(f'constant {v!r}')
        if isinstance(node, ast.UnaryOp) and isinstance(node.op, ast.Not):
            t, ty = self.expr(node.operand, env)
            return (f'(!{self.truthy(t, ty)})', 'bool')
        if isinstance(node, ast.BoolOp):
            parts = [self.expr(v, env) for v in node.values]
            if not all(ty == 'bool' for _, ty in parts):
                raise Untranslatable('and/or over non-bool operands')
            op = ' && ' if isinstance(node.op, ast.And) else ' || '
            return ('(' + op.join(t for t, _ in parts) + ')', 'bool')
        if isinstance(node, ast.IfExp):
            nar = self.narrowing(node.test, env)
            if nar is not None:
                # `a if X is None else b`: in the branch where X is not None it is a plain number
                opt, inner, env_some, none_first = nar
                a, aty = self.expr(node.body, env if none_first else env_some)
                b, bty = self.expr(node.orelse, env_some if none_first else env)
                if aty != bty:
                    raise Untranslatable(f'conditional expression of types {aty}/{bty}')
                n_, s_ = (a, b) if none_first else (b, a)
                return (f'(match {opt} with | none => {n_} | some {inner} => {s_})', aty)
            c, cty = self.expr(node.test, env)
            a, aty = self.expr(node.body, env)
            b, bty = self.expr(node.orelse, env)
            if aty != bty:
                raise Untranslatable(f'conditional expression of types {aty}/{bty}')
            return (f'(if {self.truthy(c, cty)} then {a} else {b})', aty)
        if isinstance(node, ast.Compare):
            left = node.left
            out = []
            for op, right in zip(node.ops, node.comparators):
                out.append(self.compare(left, op, right, env))
                left = right
            return (out[0] if len(out) == 1 else '(' + ' && '.join(out) + ')', 'bool')
        if isinstance(node, ast.BinOp):
            a, aty = self.expr(node.left, env)
            b, bty = self.expr(node.right, env)
            if aty == bty == 'rat':
                if isinstance(node.op, ast.Mod):
                    return (f'(pyMod {a} {b})', 'rat')
                sym = {ast.Add: '+', ast.Sub: '-', ast.Mult: '*', ast.Div: '/'}.get(type(node.op))
                if sym:
                    return (f'({a} {sym} {b})', 'rat')
            if aty == bty == 'nat':
                sym = {ast.Add: '+', ast.Mult: '*'}.get(type(node.op))
                if sym:
                    return (f'({a} {sym} {b})', 'nat')
            if aty == 'nat' and bty == 'rat' and isinstance(node.op, ast.Mod) and isinstance(node.right, ast.Constant):
                return (f'({a} % {node.right.value})', 'nat')
            if aty == bty == 'str' and isinstance(node.op, ast.Add):
                return (f'({a} ++ {b})', 'str')
            raise Untranslatable(f'binary {type(node.op).__name__} on {aty}, {bty}')
        if isinstance(node, ast.Call):
            f = node.func
            if isinstance(f, ast.Name) and f.id == 'bool' and len(node.args) == 1:
                t, ty = self.expr(node.args[0], env)
                return (self.truthy(t, ty), 'bool')
            if (isinstance(f, ast.Attribute) and f.attr == 'startswith' and len(node.args) == 1
                    and isinstance(node.args[0], ast.Constant)):
                t, ty = self.expr(f.value, env)
                if ty == 'str':
                    lit = node.args[0].value
                    return (f'(List.isPrefixOf {chars(lit)} ({t}).toList)', 'bool')
            if (isinstance(f, ast.Name) and f.id == 'sum' and len(node.args) == 1
                    and isinstance(node.args[0], ast.GeneratorExp)):
                g = node.args[0]
                if (isinstance(g.elt, ast.Constant) and g.elt.value == 1 and len(g.generators) == 1):
                    gen = g.generators[0]
                    xs, xty = self.expr(gen.iter, env)
                    if (xty == 'vals' and isinstance(gen.target, ast.Name) and len(gen.ifs) == 1
                            and isinstance(gen.ifs[0], ast.Name) and gen.ifs[0].id == gen.target.id):
                        return (f'(({xs}).filter Val.truthy).length', 'nat')
            if isinstance(f, ast.Name) and f.id == 'len' and len(node.args) == 1:
                key = 'len(' + self.path(node.args[0]) + ')'
                if key in env:
                    return env[key]
            if (isinstance(f, ast.Attribute) and f.attr == 'get' and len(node.args) == 2
                    and isinstance(node.args[0], ast.Constant) and isinstance(node.args[0].value, str)):
                t, ty = self.expr(f.value, env)
                dflt, dty = self.expr(node.args[1], env)
                if ty == 'data' and dty == 'val':
                    return (f'((Data.get? {t} "{node.args[0].value}").getD {dflt})', 'val')
            try:
                fpath = self.path(f)
            except Untranslatable:
                fpath = None
            calls = self.t.get('calls', {})
            if fpath in calls and not node.keywords:
                lean, rty, atys = calls[fpath]
                args = [self.expr(a, env) for a in node.args]
                if [ty for _, ty in args] == list(atys):
                    return ('(' + lean + ''.join(' ' + t for t, _ in args) + ')', rty)
            raise Untranslatable('call ' + ast.dump(node)[:120])
        raise Untranslatable(ast.dump(node)[:120])

    def narrowing(self, test, env):
        """`X is None` / `X is not None` on an optional number -> (lean opt, inner name, env with X : rat,
        True if the test is `is None`)"""
        if (isinstance(test, ast.Compare) and len(test.ops) == 1 and isinstance(test.ops[0], (ast.Is, ast.IsNot))
                and isinstance(test.comparators[0], ast.Constant) and test.comparators[0].value is None):
            try:
                p = self.path(test.left)
            except Untranslatable:
                return None
            if p in env and env[p][1] == 'optrat':
                inner = env[p][0] + 'V'
                env_some = dict(env)
                env_some[p] = (inner, 'rat')
                return env[p][0], inner, env_some, isinstance(test.ops[0], ast.Is)
        return None

    def compare(self, left, op, right, env):
        # identity tests with the two singletons
        if isinstance(op, (ast.Is, ast.IsNot)):
            neg = isinstance(op, ast.IsNot)
            if isinstance(right, ast.Constant) and right.value is None:
                t, ty = self.expr(left, env)
                if ty in ('optrat', 'optx'):
                    return f'({t}).isSome' if neg else f'({t}).isNone'
                raise Untranslatable(f'is None on {ty}')
            t, ty = self.expr(left, env)
            r, rty = self.expr(right, env)
            if r == 'Val.undef' and ty == 'val':
                return f'(!({t}).isUndef)' if neg else f'({t}).isUndef'
            raise Untranslatable('identity test')
        a, aty = self.expr(left, env)
        b, bty = self.expr(right, env)
        if aty == bty == 'ord':
            return {ast.Lt: f'lt {a} {b}', ast.LtE: f'le {a} {b}', ast.Gt: f'lt {b} {a}',
                    ast.GtE: f'le {b} {a}'}[type(op)]
        if aty == bty == 'rat':
            return {ast.Lt: f'decide ({a} < {b})', ast.LtE: f'decide ({a} ≤ {b})', ast.Gt: f'decide ({b} < {a})',
                    ast.GtE: f'decide ({b} ≤ {a})', ast.Eq: f'({a} == {b})'}[type(op)]
        if aty == bty == 'val' and isinstance(op, ast.Eq):
            return f'Val.pyEq {a} {b}'
        if aty == 'optrat' and bty == 'rat' and isinstance(op, ast.Eq):
            return f'({a} == some {b})'        # None == number is False
        if aty == bty == 'nat':
            return {ast.Lt: f'decide ({a} < {b})', ast.LtE: f'decide ({a} ≤ {b})', ast.Gt: f'decide ({b} < {a})',
                    ast.GtE: f'decide ({b} ≤ {a})', ast.Eq: f'({a} == {b})'}[type(op)]
        raise Untranslatable(f'comparison {type(op).__name__} on {aty}, {bty}')

    # ---- statements ---------------------------------------------------------------
    def block(self, stmts, env, indent):
        """translate a statement list that must end in a return on every path"""
        pad = '  ' * indent
        if not stmts:
            raise Untranslatable('a path without return')
        s, rest = stmts[0], stmts[1:]
        if isinstance(s, ast.Expr):
            if isinstance(s.value, ast.Constant) and isinstance(s.value.value, str):
                return self.block(rest, env, indent)            # docstring
            if isinstance(s.value, ast.Call):
                f = s.value.func
                name = f.attr if isinstance(f, ast.Attribute) else getattr(f, 'id', None)
                if name in self.t.get('ignore', ()):
                    return self.block(rest, env, indent)
            raise Untranslatable('statement ' + ast.dump(s)[:100])
        if isinstance(s, ast.Return):
            t, ty = self.expr(s.value, env)
            self.rtypes.add(ty)
            return pad + t
        if isinstance(s, ast.Assign) and len(s.targets) == 1 and isinstance(s.targets[0], ast.Name):
            t, ty = self.expr(s.value, env)
            name = s.targets[0].id
            lean = name + "'" if name in [v[0] for v in env.values()] else name
            env2 = dict(env)
            env2[name] = (lean, ty)
            return f'{pad}let {lean} : {LEAN_TYPE.get(ty, "Nat")} := {t}\n' + self.block(rest, env2, indent)
        if isinstance(s, ast.If):
            c, cty = self.expr(s.test, env)
            then_ = self.block(trim(s.body) + ([] if returns(s.body) else rest), env, indent + 1)
            # assignments inside a branch are visible after it only if both branches assign: handled by
            # translating `rest` inside each branch with that branch's environment
            else_ = self.block(trim(s.orelse) + ([] if returns(s.orelse) else rest), env, indent + 1) \
                if (s.orelse or rest) else None
            if else_ is None:
                raise Untranslatable('if without else on a path without return')
            return f'{pad}if {self.truthy(c, cty)} then\n{then_}\n{pad}else\n{else_}'
        raise Untranslatable('statement ' + ast.dump(s)[:100])

    def branch_env(self, stmts, env):
        return env

    def function(self, fn_node):
        self.rtypes = set()
        env = dict(self.names)
        if isinstance(fn_node, ast.Lambda):
            t, ty = self.expr(fn_node.body, env)
            self.rtypes.add(ty)
            body = '  ' + t
        else:
            for arg, dflt in zip(fn_node.args.kwonlyargs, fn_node.args.kw_defaults):
                spec = self.t.get('defaults', {}).get(arg.arg)
                if spec is not None:
                    if dflt is None:
                        raise Untranslatable(f'{arg.arg}: no default in the signature')
                    d, dty = self.expr(dflt, env)
                    if dty != 'rat':
                        raise Untranslatable(f'default of {arg.arg}: {dty}')
                    env[arg.arg] = (f'({spec}.getD {d})', 'rat')
                elif arg.arg in self.t.get('required', ()) and dflt is not None:
                    raise Untranslatable(f'{arg.arg}: is no longer a required argument')
            body = self.block_with_assign_merge(fn_node.body, env)
        if len(self.rtypes) != 1:
            raise Untranslatable(f'return types {self.rtypes}')
        return body, self.rtypes.pop()

    def block_with_assign_merge(self, stmts, env):
        """`if c: x = a  else: x = b` followed by code using x  ==>  both branches continue with the rest
        (the generic rule of `block`), so nothing special is needed; kept as a hook"""
        return self.block(stmts, env, 1)


class TrEdit:
    """
    Second translation scheme: the edit functions that the `DataEdit` operations append to `_editlist`
    (an inner `def _edit(data)` or a `lambda data: …`).  The mapping `data` is threaded through the
    statements; the result is `Except Filters.Stop Data`: `.ok d` = the mapping returned, `.error .reject` =
    `None` returned (also by falling off the end), `.error (.raise .keyError)` = a failed lookup / `del`.

    statements   data[K] = data[K2] | data[K] = <value name> | NAME = data[K] | NAME = func(NAME) (the user's
                 function, modelled as `Val → ModRes`) | del data[K] | data.pop(K, None) | return data |
                 return None | if T: … else: … | for NAME in <strs name> / list(data): …
    tests        NAME not in <strs name> | NAME in <strs name> | NAME is self.REJECT | NAME is self.DELETE
    expressions  {**M, **M2} | {**M, K: V} | {K: V, **M}  (M: a mapping name, V: a value name)
    """
    KEYERR = '.error (.raise .keyError)'

    def __init__(self, target):
        self.t = target
        self.env = dict(target['names'])        # python name/path -> (lean, type)
        self.fresh = 0

    def path(self, node):
        return node_path(node)

    def name_of(self, node, types):
        p = self.path(node)
        if p in self.env and self.env[p][1] in types:
            return self.env[p]
        raise Untranslatable(f'{p}: expected one of {types}')

    def key(self, node):
        if isinstance(node, ast.Constant) and isinstance(node.value, str):
            return '"' + node.value + '"'
        return self.name_of(node, ('str',))[0]

    def value(self, node):
        t, ty = self.name_of(node, ('val', 'modres'))
        return f'(mrVal {t})' if ty == 'modres' else t

    def is_data_sub(self, node):
        return (isinstance(node, ast.Subscript) and isinstance(node.value, ast.Name) and node.value.id == 'data')

    def display(self, node):
        """dict display -> Data expression"""
        acc = None
        for k, v in zip(node.keys, node.values):
            if k is None:                   # **mapping
                m = self.name_of(v, ('data',))[0]
                acc = m if acc is None else f'(Filters.update {acc} {m})'
            else:
                acc = f'(Data.set {acc if acc is not None else "([] : Data)"} {self.key(k)} {self.value(v)})'
        if acc is None:
            acc = '([] : Data)'
        return acc

    def test(self, node):
        if isinstance(node, ast.Compare) and len(node.ops) == 1:
            op, right = node.ops[0], node.comparators[0]
            if isinstance(op, (ast.In, ast.NotIn)):
                k = self.key(node.left)
                xs = self.name_of(right, ('strs',))[0]
                return f'(!({xs}).contains {k})' if isinstance(op, ast.NotIn) else f'({xs}).contains {k}'
            if isinstance(op, (ast.Is, ast.IsNot)):
                r = self.name_of(node.left, ('modres',))[0]
                which = {'self.REJECT': 'mrIsReject', 'self.DELETE': 'mrIsDelete'}.get(self.path(right))
                if which:
                    return f'(!{which} {r})' if isinstance(op, ast.IsNot) else f'{which} {r}'
        raise Untranslatable('test ' + ast.dump(node)[:120])

    def block(self, stmts, fall, ind):
        """`fall`: the Lean term for leaving the statement list at its end"""
        pad = '  ' * ind
        if not stmts:
            return pad + fall
        s, rest = stmts[0], stmts[1:]
        if isinstance(s, ast.Expr) and isinstance(s.value, ast.Constant) and isinstance(s.value.value, str):
            return self.block(rest, fall, ind)
        if isinstance(s, ast.Return):
            v = s.value
            if v is None or (isinstance(v, ast.Constant) and v.value is None):
                return pad + '.error .reject'
            if isinstance(v, ast.Name) and v.id == 'data':
                return pad + '.ok data'
            if isinstance(v, ast.Dict):
                return pad + '.ok ' + self.display(v)
            raise Untranslatable('return ' + ast.dump(v)[:100])
        if isinstance(s, ast.Assign) and len(s.targets) == 1:
            tgt, val = s.targets[0], s.value
            if self.is_data_sub(tgt):
                k = self.key(tgt.slice)
                if self.is_data_sub(val):
                    k2 = self.key(val.slice)
                    self.fresh += 1
                    v = f'v{self.fresh}'
                    return (f'{pad}match Data.get? data {k2} with\n{pad}| none => {self.KEYERR}\n'
                            f'{pad}| some {v} =>\n{pad}  let data : Data := Data.set data {k} {v}\n'
                            + self.block(rest, fall, ind + 1))
                return f'{pad}let data : Data := Data.set data {k} {self.value(val)}\n' + self.block(rest, fall, ind)
            if isinstance(tgt, ast.Name):
                if self.is_data_sub(val):
                    k2 = self.key(val.slice)
                    self.env[tgt.id] = (tgt.id, 'val')
                    return (f'{pad}match Data.get? data {k2} with\n{pad}| none => {self.KEYERR}\n'
                            f'{pad}| some {tgt.id} =>\n' + self.block(rest, fall, ind + 1))
                if (isinstance(val, ast.Call) and len(val.args) == 1 and not val.keywords
                        and self.env.get(self.path(val.func), (None, None))[1] == 'modfunc'):
                    f = self.env[self.path(val.func)][0]
                    a = self.name_of(val.args[0], ('val',))[0]
                    self.env[tgt.id] = (tgt.id, 'modres')
                    return (f'{pad}match {f} {a} with\n{pad}| .raise e => .error (.raise e)\n'
                            f'{pad}| {tgt.id} =>\n' + self.block(rest, fall, ind + 1))
            raise Untranslatable('assignment ' + ast.dump(s)[:120])
        if isinstance(s, ast.Delete) and len(s.targets) == 1 and self.is_data_sub(s.targets[0]):
            k = self.key(s.targets[0].slice)
            return (f'{pad}if Data.has data {k} then\n{pad}  let data : Data := Data.erase data {k}\n'
                    + self.block(rest, fall, ind + 1) + f'\n{pad}else {self.KEYERR}')
        if (isinstance(s, ast.Expr) and isinstance(s.value, ast.Call) and isinstance(s.value.func, ast.Attribute)
                and s.value.func.attr == 'pop' and self.path(s.value.func.value) == 'data'
                and len(s.value.args) == 2 and isinstance(s.value.args[1], ast.Constant)
                and s.value.args[1].value is None):
            k = self.key(s.value.args[0])
            return f'{pad}let data : Data := Data.erase data {k}\n' + self.block(rest, fall, ind)
        if isinstance(s, ast.If):
            c = self.test(s.test)
            then_ = self.block(list(s.body) + ([] if returns(s.body) else rest), fall, ind + 1)
            else_ = self.block(list(s.orelse) + ([] if returns(s.orelse) else rest), fall, ind + 1)
            return f'{pad}if {c} then\n{then_}\n{pad}else\n{else_}'
        if isinstance(s, ast.For) and isinstance(s.target, ast.Name) and not s.orelse:
            it = s.iter
            if (isinstance(it, ast.Call) and getattr(it.func, 'id', None) == 'list' and len(it.args) == 1
                    and self.path(it.args[0]) == 'data'):
                xs = '(data.map (·.1))'             # a snapshot of the keys
            else:
                xs = self.name_of(it, ('strs',))[0]
            var = s.target.id
            self.env[var] = (var, 'str')
            body = self.block(list(s.body), '.ok data', ind + 2)
            return (f'{pad}match List.foldlM (m := Except Stop) (fun (data : Data) ({var} : String) =>\n{body}) data {xs} with\n'
                    f'{pad}| .error e => .error e\n{pad}| .ok data =>\n' + self.block(rest, fall, ind + 1))
        raise Untranslatable('statement ' + ast.dump(s)[:120])

    def function(self, node):
        if isinstance(node, ast.Lambda):
            if not isinstance(node.body, ast.Dict):
                raise Untranslatable('lambda body ' + ast.dump(node.body)[:100])
            return '  .ok ' + self.display(node.body)
        return self.block(list(node.body), '.error .reject', 1)


def find_edit(method):
    """the function appended to `self._editlist` by a DataEdit operation: `def _edit(data)` or a lambda"""
    fn = fn_ast(getattr(method, '__wrapped__', method))
    for node in ast.walk(fn):
        if (isinstance(node, ast.Call) and isinstance(node.func, ast.Attribute) and node.func.attr == 'append'
                and node_path(node.func.value) == 'self._editlist' and len(node.args) == 1):
            arg = node.args[0]
            if isinstance(arg, ast.Lambda):
                if [a.arg for a in arg.args.args] != ['data']:
                    raise Untranslatable('lambda parameters')
                return arg
            if isinstance(arg, ast.Name):
                for n2 in ast.walk(fn):
                    if isinstance(n2, ast.FunctionDef) and n2.name == arg.id:
                        if [a.arg for a in n2.args.args] != ['data']:
                            raise Untranslatable('parameters of the edit function')
                        return n2
    raise Untranslatable(f'no edit function in {method}')


def edit_targets():
    D = filters.DataEdit
    S, V, L, M = 'str', 'val', 'strs', 'data'
    return [
        dict(name='editAdd', doc='DataEdit.add', node=lambda: find_edit(D.add),
             params=[('data', 'Data'), ('kwargs', 'Data')], names={'data': ('data', M), 'kwargs': ('kwargs', M)}),
        dict(name='editAddOutput', doc='DataEdit.add_output (`out`: the source block\'s output at the call)',
             node=lambda: find_edit(D.add_output), params=[('data', 'Data'), ('key', 'String'), ('out', 'Val')],
             names={'data': ('data', M), 'key': ('key', S), 'src.block.output': ('out', V)}),
        dict(name='editCopy', doc='DataEdit.copy', node=lambda: find_edit(D.copy),
             params=[('data', 'Data'), ('src', 'String'), ('dst', 'String')],
             names={'data': ('data', M), 'src': ('src', S), 'dst': ('dst', S)}),
        dict(name='editDelete', doc='DataEdit.delete', node=lambda: find_edit(D.delete),
             params=[('data', 'Data'), ('args', 'List String')], names={'data': ('data', M), 'args': ('args', L)}),
        dict(name='editModify', doc='DataEdit.modify (`func`: the user\'s function)', node=lambda: find_edit(D.modify),
             params=[('data', 'Data'), ('key', 'String'), ('func', 'Val → ModRes')],
             names={'data': ('data', M), 'key': ('key', S), 'func': ('func', 'modfunc')}),
        dict(name='editPermit', doc='DataEdit.permit', node=lambda: find_edit(D.permit),
             params=[('data', 'Data'), ('args', 'List String')], names={'data': ('data', M), 'args': ('args', L)}),
        dict(name='editRename', doc='DataEdit.rename', node=lambda: find_edit(D.rename),
             params=[('data', 'Data'), ('src', 'String'), ('dst', 'String')],
             names={'data': ('data', M), 'src': ('src', S), 'dst': ('dst', S)}),
        dict(name='editSetdefault', doc='DataEdit.setdefault', node=lambda: find_edit(D.setdefault),
             params=[('data', 'Data'), ('kwargs', 'Data')], names={'data': ('data', M), 'kwargs': ('kwargs', M)}),
    ]


def write_if_changed(outfile, text):
    try:
        with open(outfile, encoding='utf-8') as f:
            if f.read() == text:
                return
    except FileNotFoundError:
        pass
    tmp = outfile + '.tmp'
    with open(tmp, 'w', encoding='utf-8') as f:
        f.write(text)
    os.replace(tmp, outfile)


def main_edit(outfile):
    L = ['/- GENERATED by tools/py2lean.py from the Python source of edzed (filters.DataEdit) -- do not edit -/',
         'import EdzedModel.Filters', '', 'namespace Edzed.Gen.TrF', 'open Edzed.Filters', '',
         '/-- `replacement is self.REJECT` -/',
         'def mrIsReject : ModRes → Bool | .reject => true | _ => false',
         '/-- `replacement is self.DELETE` -/',
         'def mrIsDelete : ModRes → Bool | .delete => true | _ => false',
         '/-- the object returned by the user\'s function, when it is neither of the two markers -/',
         'def mrVal : ModRes → Val | .value v => v | _ => Val.none', '']
    def translate(t):
        body = TrEdit(t).function(t['node']())
        params = ' '.join(f'({n} : {ty})' for n, ty in t['params'])
        return f"def {t['name']} {params} : Except Stop Data :=\n{body}"

    for t in edit_targets():
        emit(L, t, translate, ': the function appended to `_editlist`')
    L.append('end Edzed.Gen.TrF')
    write_if_changed(outfile, '\n'.join(L) + '\n')


def trim(stmts):
    """cut a statement list after its first return"""
    out = []
    for s in stmts:
        out.append(s)
        if isinstance(s, ast.Return):
            break
    return out


def returns(stmts):
    """does every path through the list end in a return?"""
    for s in stmts:
        if isinstance(s, ast.Return):
            return True
        if isinstance(s, ast.If) and s.orelse and returns(s.body) and returns(s.orelse):
            return True
    return False


def chars(s):
    return '[' + ', '.join("'" + c + "'" for c in s) + ']'


def fn_ast(obj):
    src = textwrap.dedent(inspect.getsource(obj))
    tree = ast.parse(src)
    node = tree.body[0]
    assert isinstance(node, (ast.FunctionDef, ast.AsyncFunctionDef)), type(node)
    return node


def find_lambda(cls, kwarg):
    """the lambda passed as keyword argument `kwarg` somewhere in the class body"""
    tree = ast.parse(textwrap.dedent(inspect.getsource(cls)))
    for node in ast.walk(tree):
        if isinstance(node, ast.keyword) and node.arg == kwarg and isinstance(node.value, ast.Lambda):
            return node.value
    raise Untranslatable(f'no lambda {kwarg}= in {cls.__name__}')


def find_assign_value(fn, attr):
    """the right-hand side of `self.<attr> = …` in a function"""
    for node in ast.walk(fn_ast(fn)):
        if (isinstance(node, ast.Assign) and len(node.targets) == 1 and isinstance(node.targets[0], ast.Attribute)
                and node.targets[0].attr == attr):
            return ast.Lambda(args=None, body=node.value)
    raise Untranslatable(f'no assignment to self.{attr}')


def find_local_assign(fn, name):
    """the right-hand side of the first `<name> = …` (a local variable) in a function"""
    for node in ast.walk(fn_ast(fn)):
        if (isinstance(node, ast.Assign) and len(node.targets) == 1 and isinstance(node.targets[0], ast.Name)
                and node.targets[0].id == name):
            return ast.Lambda(args=None, body=node.value)
    raise Untranslatable(f'no assignment to {name}')


def find_raise_test(fn, exc):
    """the condition of the first `if …: raise <exc>(…)` of a function"""
    for node in fn_ast(fn).body:
        if isinstance(node, ast.If) and node.body and isinstance(node.body[0], ast.Raise) and not node.orelse:
            r = node.body[0].exc
            if isinstance(r, ast.Call) and getattr(r.func, 'id', None) == exc:
                return ast.Lambda(args=None, body=node.test)
    raise Untranslatable(f'no `if …: raise {exc}` at the top level')


def targets():
    ordp = [('lt', 'α → α → Bool'), ('le', 'α → α → Bool')]
    return [
        dict(name='cmpOpen', doc='timeinterval._Interval._cmp_open', node=lambda: fn_ast(timeinterval._Interval._cmp_open),
             generic=True, params=ordp + [('low', 'α'), ('item', 'α'), ('high', 'α')],
             names={'low': ('low', 'ord'), 'item': ('item', 'ord'), 'high': ('high', 'ord')}),
        dict(name='cmpClosed', doc='timeinterval._Interval._cmp_closed', node=lambda: fn_ast(timeinterval._Interval._cmp_closed),
             generic=True, params=ordp + [('low', 'α'), ('item', 'α'), ('high', 'α')],
             names={'low': ('low', 'ord'), 'item': ('item', 'ord'), 'high': ('high', 'ord')}),
        dict(name='cmpNoWrap', doc='timeinterval.DateTimeInterval._cmp_open',
             node=lambda: fn_ast(timeinterval.DateTimeInterval._cmp_open),
             generic=True, params=ordp + [('low', 'α'), ('item', 'α'), ('high', 'α')],
             names={'low': ('low', 'ord'), 'item': ('item', 'ord'), 'high': ('high', 'ord')}),
        dict(name='edgeCall', doc='filters.Edge.__call__', node=lambda: fn_ast(filters.Edge.__call__),
             params=[('rise', 'Bool'), ('fall', 'Bool'), ('urise', 'Bool'), ('ufall', 'Bool'),
                     ('previous', 'Val'), ('value', 'Val')],
             names={'self._rise': ('rise', 'bool'), 'self._fall': ('fall', 'bool'), 'self._urise': ('urise', 'bool'),
                    'self._ufall': ('ufall', 'bool'), "data['previous']": ('previous', 'val'),
                    "data['value']": ('value', 'val')}),
        dict(name='compareCalc', doc='cblocks.Compare.calc_output', node=lambda: fn_ast(cblocks.Compare.calc_output),
             params=[('low', 'Rat'), ('high', 'Rat'), ('own', 'Val'), ('x', 'Rat')],
             names={'self._low': ('low', 'rat'), 'self._high': ('high', 'rat'), 'self._output': ('own', 'val'),
                    "self._in['_'][0]": ('x', 'rat')}),
        dict(name='overrideCalc', doc='cblocks.Override.calc_output', node=lambda: fn_ast(cblocks.Override.calc_output),
             params=[('null', 'Val'), ('input', 'Val'), ('override', 'Val')],
             names={'self._null': ('null', 'val'), 'self._in.input': ('input', 'val'),
                    'self._in.override': ('override', 'val')}),
        dict(name='xorFunc', doc='cblocks.Xor: func=lambda inputs: …', node=lambda: find_lambda(cblocks.Xor, 'func'),
             params=[('inputs', 'List Val')], names={'inputs': ('inputs', 'vals')}),
        dict(name='counterSetmod', doc='sblocks1.Counter._setmod (the value stored and returned)',
             node=lambda: fn_ast(sblocks1.Counter._setmod), ignore=('set_output',),
             params=[('mod', 'Option Rat'), ('value', 'Rat')],
             names={'self._mod': ('mod', 'optrat'), 'value': ('value', 'rat')}),
        dict(name='counterInc', doc='sblocks1.Counter._event_inc (the value returned)',
             node=lambda: fn_ast(sblocks1.Counter._event_inc), defaults={'amount': 'amount'},
             calls={'self._setmod': ('counterSetmod mod', 'rat', ['rat'])},
             params=[('mod', 'Option Rat'), ('output', 'Rat'), ('amount', 'Option Rat')],
             names={'self._output': ('output', 'rat')}),
        dict(name='counterDec', doc='sblocks1.Counter._event_dec (the value returned)',
             node=lambda: fn_ast(sblocks1.Counter._event_dec), defaults={'amount': 'amount'},
             calls={'self._setmod': ('counterSetmod mod', 'rat', ['rat'])},
             params=[('mod', 'Option Rat'), ('output', 'Rat'), ('amount', 'Option Rat')],
             names={'self._output': ('output', 'rat')}),
        dict(name='counterPut', doc='sblocks1.Counter._event_put (the value returned; `value` has no default)',
             node=lambda: fn_ast(sblocks1.Counter._event_put), required=('value',),
             calls={'self._setmod': ('counterSetmod mod', 'rat', ['rat'])},
             params=[('mod', 'Option Rat'), ('value', 'Rat')], names={'value': ('value', 'rat')}),
        dict(name='counterReset', doc='sblocks1.Counter._event_reset (the value returned)',
             node=lambda: fn_ast(sblocks1.Counter._event_reset),
             calls={'self._setmod': ('counterSetmod mod', 'rat', ['rat'])},
             params=[('mod', 'Option Rat'), ('initdef', 'Rat')], names={'self.initdef': ('initdef', 'rat')}),
        dict(name='counterRefusesModulo', doc='sblocks1.Counter.__init__: if …: raise ValueError("modulo must not be zero")',
             node=lambda: find_raise_test(sblocks1.Counter.__init__, 'ValueError'),
             params=[('modulo', 'Option Rat')], names={'modulo': ('modulo', 'optrat')}),
        dict(name='evalLimit', doc='simulator.Circuit._simulate: eval_limit = …',
             node=lambda: find_local_assign(simulator.Circuit._simulate, 'eval_limit'),
             params=[('maxEvalsPerBlock', 'Nat'), ('nBlocks', 'Nat')],
             names={'_MAX_EVALS_PER_BLOCK': ('maxEvalsPerBlock', 'nat'), 'len(self._blocks)': ('nBlocks', 'nat')}),
        dict(name='notFromUndef', doc='filters.not_from_undef', node=lambda: fn_ast(filters.not_from_undef),
             params=[('data', 'Data')], names={'data': ('data', 'data')}),
        dict(name='isReady', doc='simulator.Circuit.is_ready', node=lambda: fn_ast(simulator.Circuit.is_ready),
             params=[('simtask', 'Option Unit'), ('error', 'Option Unit')],
             names={'self._simtask': ('simtask', 'optx'), 'self._error': ('error', 'optx')}),
        dict(name='extSource', doc='block.ExtEvent.__init__: self._source = …',
             node=lambda: find_assign_value(block.ExtEvent.__init__, '_source'),
             params=[('source', 'String')], names={'source': ('source', 'str')}),
    ]


def emit(L, t, translate, header):
    """one target; a function outside the supported subset is OMITTED (with a comment), so that exactly the
    theorems that mention it stop compiling -- the checks of the other properties are not disturbed"""
    try:
        text = translate(t)
    except Exception as err:     # Untranslatable, or a finder that no longer finds its function
        L.append(f"-- UNTRANSLATABLE `{t['doc']}`: definition `{t['name']}` omitted ({' '.join(str(err).split())[:200]})")
        L.append('')
        print(f"UNTRANSLATABLE {t['name']} ({t['doc']}): {err}")
        return
    L.append(f"/-- translated from `{t['doc']}`{header} -/")
    L.append(text)
    L.append('')


def lazy(targets_fn):
    """the target lists evaluate `fn_ast`/`find_…` eagerly; a finder that fails must only lose its own target"""
    return targets_fn()


def main(outfile):
    L = ['/- GENERATED by tools/py2lean.py from the Python source of edzed -- do not edit -/',
         'import EdzedModel.Basic.Val', '', 'namespace Edzed.Gen.Tr', '',
         "/-- Python's `a % m` on numbers (floored) -/",
         'def pyMod (a m : Rat) : Rat := a - m * ((a / m).floor : Int)', '']

    def translate(t):
        tr = Tr(t)
        body, rty = tr.function(t['node']())
        params = ' '.join(f'({n} : {ty})' for n, ty in t['params'])
        generic = '{α : Type} ' if t.get('generic') else ''
        rt = {'nat': 'Nat'}.get(rty, LEAN_TYPE.get(rty, rty))
        return f"def {t['name']} {generic}{params} : {rt} :=\n{body}"

    for t in targets():
        emit(L, t, translate, '')
    L.append('end Edzed.Gen.Tr')
    write_if_changed(outfile, '\n'.join(L) + '\n')
    main_edit(os.path.join(os.path.dirname(outfile), 'TranslatedFilters.lean'))


if __name__ == '__main__':
    main(sys.argv[1])
