#!/venv/bin/python
"""
Translator (second generated part of the tie): regenerate lean/EdzedModel/Gen/Translated.lean from the
CURRENT source of a handful of small pure functions of edzed.

For each target the Python AST of the function (or lambda) is translated, statement by statement and
expression by expression, into a Lean definition in `namespace Edzed.Gen.Tr`.  The property files state
theorems `translated_…` saying that the translated definition IS the hand-written model's definition
(closed by `rfl` / `funext` / `decide`), so a semantic change of the Python function changes the generated
Lean text and breaks a proof obligation of the property that owns the function.

Supported Python subset (anything else: the translator fails, which the checks treat as a broken tie):
  statements   return, assignment to a local name, if/else with early returns, expression statements that
               are docstrings or calls in the target's `ignore` list (side effects outside the value computed)
  expressions  names, `self._attr`, declared subscripts/attributes (data['value'], self._in.override …),
               constants, comparison chains (< <= > >= == is / is not with UNDEF or None), and / or / not,
               conditional expressions, + - * / %, bool(x), x.startswith("lit"), "lit" + x,
               sum(1 for v in xs if v)
Types: ord (an abstract totally ordered type, comparisons go through the parameters lt/le), val (Edzed.Val),
bool, rat, optrat (Optional number), optx (any Optional), str, vals (List Val).

Usage: py2lean.py <output file>
"""
import ast
import inspect
import os
import sys
import textwrap

SRC = os.environ.get('EDZED_SRC', '/repo')
sys.path.insert(0, SRC)

import edzed                                                    # noqa: E402
from edzed import block, simulator                              # noqa: E402
from edzed.blocklib import cblocks, filters, sblocks1, timeinterval     # noqa: E402

assert os.path.realpath(edzed.__file__).startswith(os.path.realpath(SRC)), (edzed.__file__, SRC)


class Untranslatable(Exception):
    pass


LEAN_TYPE = {'ord': 'α', 'val': 'Val', 'bool': 'Bool', 'rat': 'Rat', 'optrat': 'Option Rat',
             'optx': 'Option Unit', 'str': 'String', 'vals': 'List Val'}


class Tr:
    def __init__(self, target):
        self.t = target
        self.names = dict(target['names'])          # python name / access path -> (lean name, type)

    # ---- access paths -------------------------------------------------------------
    def path(self, node):
        """textual access path of Name / Attribute / Subscript chains, e.g. self._in['_'][0]"""
        if isinstance(node, ast.Name):
            return node.id
        if isinstance(node, ast.Attribute):
            return self.path(node.value) + '.' + node.attr
        if isinstance(node, ast.Subscript):
            key = node.slice
            if isinstance(key, ast.Constant):
                return self.path(node.value) + '[' + repr(key.value) + ']'
        raise Untranslatable(ast.dump(node))

    # ---- expressions --------------------------------------------------------------
    def truthy(self, text, typ):
        if typ == 'bool':
            return text
        if typ == 'val':
            return f'({text}).truthy'
        if typ == 'rat':
            return f'(({text}) != 0)'
        if typ == 'nat':
            return f'(({text}) != 0)'
        raise Untranslatable(f'truthiness of {typ}')

    def expr(self, node, env):
        if isinstance(node, (ast.Name, ast.Attribute, ast.Subscript)):
            try:
                p = self.path(node)
            except Untranslatable:
                p = None
            if p is not None and p in env:
                return env[p]
            if p == 'block.UNDEF':
                return ('Val.undef', 'val')
            raise Untranslatable(f'unknown name {p or ast.dump(node)}')
        if isinstance(node, ast.Constant):
            v = node.value
            if v is True:
                return ('true', 'bool')
            if v is False:
                return ('false', 'bool')
            if isinstance(v, int):
                return (f'({v} : Rat)', 'rat')
            if isinstance(v, str):
                return ('"' + v.replace('\\', '\\\\').replace('"', '\\"') + '"', 'str')
            raise Untranslatable(f'constant {v!r}')
        if isinstance(node, ast.UnaryOp) and isinstance(node.op, ast.Not):
            t, ty = self.expr(node.operand, env)
            return (f'(!{self.truthy(t, ty)})', 'bool')
        if isinstance(node, ast.BoolOp):
            parts = [self.expr(v, env) for v in node.values]
            if not all(ty == 'bool' for _, ty in parts):
                raise Untranslatable('and/or over non-bool operands')
            op = ' && ' if isinstance(node.op, ast.And) else ' || '
            return ('(' + op.join(t for t, _ in parts) + ')', 'bool')
        if isinstance(node, ast.IfExp):
            nar = self.narrowing(node.test, env)
            if nar is not None:
                # `a if X is None else b`: in the branch where X is not None it is a plain number
                opt, inner, env_some, none_first = nar
                a, aty = self.expr(node.body, env if none_first else env_some)
                b, bty = self.expr(node.orelse, env_some if none_first else env)
                if aty != bty:
                    raise Untranslatable(f'conditional expression of types {aty}/{bty}')
                n_, s_ = (a, b) if none_first else (b, a)
                return (f'(match {opt} with | none => {n_} | some {inner} => {s_})', aty)
            c, cty = self.expr(node.test, env)
            a, aty = self.expr(node.body, env)
            b, bty = self.expr(node.orelse, env)
            if aty != bty:
                raise Untranslatable(f'conditional expression of types {aty}/{bty}')
            return (f'(if {self.truthy(c, cty)} then {a} else {b})', aty)
        if isinstance(node, ast.Compare):
            left = node.left
            out = []
            for op, right in zip(node.ops, node.comparators):
                out.append(self.compare(left, op, right, env))
                left = right
            return (out[0] if len(out) == 1 else '(' + ' && '.join(out) + ')', 'bool')
        if isinstance(node, ast.BinOp):
            a, aty = self.expr(node.left, env)
            b, bty = self.expr(node.right, env)
            if aty == bty == 'rat':
                if isinstance(node.op, ast.Mod):
                    return (f'(pyMod {a} {b})', 'rat')
                sym = {ast.Add: '+', ast.Sub: '-', ast.Mult: '*', ast.Div: '/'}.get(type(node.op))
                if sym:
                    return (f'({a} {sym} {b})', 'rat')
            if aty == 'nat' and bty == 'rat' and isinstance(node.op, ast.Mod) and isinstance(node.right, ast.Constant):
                return (f'({a} % {node.right.value})', 'nat')
            if aty == bty == 'str' and isinstance(node.op, ast.Add):
                return (f'({a} ++ {b})', 'str')
            raise Untranslatable(f'binary {type(node.op).__name__} on {aty}, {bty}')
        if isinstance(node, ast.Call):
            f = node.func
            if isinstance(f, ast.Name) and f.id == 'bool' and len(node.args) == 1:
                t, ty = self.expr(node.args[0], env)
                return (self.truthy(t, ty), 'bool')
            if (isinstance(f, ast.Attribute) and f.attr == 'startswith' and len(node.args) == 1
                    and isinstance(node.args[0], ast.Constant)):
                t, ty = self.expr(f.value, env)
                if ty == 'str':
                    lit = node.args[0].value
                    return (f'(List.isPrefixOf {chars(lit)} ({t}).toList)', 'bool')
            if (isinstance(f, ast.Name) and f.id == 'sum' and len(node.args) == 1
                    and isinstance(node.args[0], ast.GeneratorExp)):
                g = node.args[0]
                if (isinstance(g.elt, ast.Constant) and g.elt.value == 1 and len(g.generators) == 1):
                    gen = g.generators[0]
                    xs, xty = self.expr(gen.iter, env)
                    if (xty == 'vals' and isinstance(gen.target, ast.Name) and len(gen.ifs) == 1
                            and isinstance(gen.ifs[0], ast.Name) and gen.ifs[0].id == gen.target.id):
                        return (f'(({xs}).filter Val.truthy).length', 'nat')
            raise Untranslatable('call ' + ast.dump(node)[:120])
        raise Untranslatable(ast.dump(node)[:120])

    def narrowing(self, test, env):
        """`X is None` / `X is not None` on an optional number -> (lean opt, inner name, env with X : rat,
        True if the test is `is None`)"""
        if (isinstance(test, ast.Compare) and len(test.ops) == 1 and isinstance(test.ops[0], (ast.Is, ast.IsNot))
                and isinstance(test.comparators[0], ast.Constant) and test.comparators[0].value is None):
            try:
                p = self.path(test.left)
            except Untranslatable:
                return None
            if p in env and env[p][1] == 'optrat':
                inner = env[p][0] + 'V'
                env_some = dict(env)
                env_some[p] = (inner, 'rat')
                return env[p][0], inner, env_some, isinstance(test.ops[0], ast.Is)
        return None

    def compare(self, left, op, right, env):
        # identity tests with the two singletons
        if isinstance(op, (ast.Is, ast.IsNot)):
            neg = isinstance(op, ast.IsNot)
            if isinstance(right, ast.Constant) and right.value is None:
                t, ty = self.expr(left, env)
                if ty in ('optrat', 'optx'):
                    return f'({t}).isSome' if neg else f'({t}).isNone'
                raise Untranslatable(f'is None on {ty}')
            t, ty = self.expr(left, env)
            r, rty = self.expr(right, env)
            if r == 'Val.undef' and ty == 'val':
                return f'(!({t}).isUndef)' if neg else f'({t}).isUndef'
            raise Untranslatable('identity test')
        a, aty = self.expr(left, env)
        b, bty = self.expr(right, env)
        if aty == bty == 'ord':
            return {ast.Lt: f'lt {a} {b}', ast.LtE: f'le {a} {b}', ast.Gt: f'lt {b} {a}',
                    ast.GtE: f'le {b} {a}'}[type(op)]
        if aty == bty == 'rat':
            return {ast.Lt: f'decide ({a} < {b})', ast.LtE: f'decide ({a} ≤ {b})', ast.Gt: f'decide ({b} < {a})',
                    ast.GtE: f'decide ({b} ≤ {a})', ast.Eq: f'({a} == {b})'}[type(op)]
        if aty == bty == 'val' and isinstance(op, ast.Eq):
            return f'Val.pyEq {a} {b}'
        raise Untranslatable(f'comparison {type(op).__name__} on {aty}, {bty}')

    # ---- statements ---------------------------------------------------------------
    def block(self, stmts, env, indent):
        """translate a statement list that must end in a return on every path"""
        pad = '  ' * indent
        if not stmts:
            raise Untranslatable('a path without return')
        s, rest = stmts[0], stmts[1:]
        if isinstance(s, ast.Expr):
            if isinstance(s.value, ast.Constant) and isinstance(s.value.value, str):
                return self.block(rest, env, indent)            # docstring
            if isinstance(s.value, ast.Call):
                f = s.value.func
                name = f.attr if isinstance(f, ast.Attribute) else getattr(f, 'id', None)
                if name in self.t.get('ignore', ()):
                    return self.block(rest, env, indent)
            raise Untranslatable('statement ' + ast.dump(s)[:100])
        if isinstance(s, ast.Return):
            t, ty = self.expr(s.value, env)
            self.rtypes.add(ty)
            return pad + t
        if isinstance(s, ast.Assign) and len(s.targets) == 1 and isinstance(s.targets[0], ast.Name):
            t, ty = self.expr(s.value, env)
            name = s.targets[0].id
            lean = name + "'" if name in [v[0] for v in env.values()] else name
            env2 = dict(env)
            env2[name] = (lean, ty)
            return f'{pad}let {lean} : {LEAN_TYPE.get(ty, "Nat")} := {t}\n' + self.block(rest, env2, indent)
        if isinstance(s, ast.If):
            c, cty = self.expr(s.test, env)
            then_ = self.block(trim(s.body) + ([] if returns(s.body) else rest), env, indent + 1)
            # assignments inside a branch are visible after it only if both branches assign: handled by
            # translating `rest` inside each branch with that branch's environment
            else_ = self.block(trim(s.orelse) + ([] if returns(s.orelse) else rest), env, indent + 1) \
                if (s.orelse or rest) else None
            if else_ is None:
                raise Untranslatable('if without else on a path without return')
            return f'{pad}if {self.truthy(c, cty)} then\n{then_}\n{pad}else\n{else_}'
        raise Untranslatable('statement ' + ast.dump(s)[:100])

    def branch_env(self, stmts, env):
        return env

    def function(self, fn_node):
        self.rtypes = set()
        env = dict(self.names)
        if isinstance(fn_node, ast.Lambda):
            t, ty = self.expr(fn_node.body, env)
            self.rtypes.add(ty)
            body = '  ' + t
        else:
            body = self.block_with_assign_merge(fn_node.body, env)
        if len(self.rtypes) != 1:
            raise Untranslatable(f'return types {self.rtypes}')
        return body, self.rtypes.pop()

    def block_with_assign_merge(self, stmts, env):
        """`if c: x = a  else: x = b` followed by code using x  ==>  both branches continue with the rest
        (the generic rule of `block`), so nothing special is needed; kept as a hook"""
        return self.block(stmts, env, 1)


def trim(stmts):
    """cut a statement list after its first return"""
    out = []
    for s in stmts:
        out.append(s)
        if isinstance(s, ast.Return):
            break
    return out


def returns(stmts):
    """does every path through the list end in a return?"""
    for s in stmts:
        if isinstance(s, ast.Return):
            return True
        if isinstance(s, ast.If) and s.orelse and returns(s.body) and returns(s.orelse):
            return True
    return False


def chars(s):
    return '[' + ', '.join("'" + c + "'" for c in s) + ']'


def fn_ast(obj):
    src = textwrap.dedent(inspect.getsource(obj))
    tree = ast.parse(src)
    node = tree.body[0]
    assert isinstance(node, (ast.FunctionDef, ast.AsyncFunctionDef)), type(node)
    return node


def find_lambda(cls, kwarg):
    """the lambda passed as keyword argument `kwarg` somewhere in the class body"""
    tree = ast.parse(textwrap.dedent(inspect.getsource(cls)))
    for node in ast.walk(tree):
        if isinstance(node, ast.keyword) and node.arg == kwarg and isinstance(node.value, ast.Lambda):
            return node.value
    raise Untranslatable(f'no lambda {kwarg}= in {cls.__name__}')


def find_assign_value(fn, attr):
    """the right-hand side of `self.<attr> = …` in a function"""
    for node in ast.walk(fn_ast(fn)):
        if (isinstance(node, ast.Assign) and len(node.targets) == 1 and isinstance(node.targets[0], ast.Attribute)
                and node.targets[0].attr == attr):
            return ast.Lambda(args=None, body=node.value)
    raise Untranslatable(f'no assignment to self.{attr}')


def targets():
    ordp = [('lt', 'α → α → Bool'), ('le', 'α → α → Bool')]
    return [
        dict(name='cmpOpen', doc='timeinterval._Interval._cmp_open', node=fn_ast(timeinterval._Interval._cmp_open),
             generic=True, params=ordp + [('low', 'α'), ('item', 'α'), ('high', 'α')],
             names={'low': ('low', 'ord'), 'item': ('item', 'ord'), 'high': ('high', 'ord')}),
        dict(name='cmpClosed', doc='timeinterval._Interval._cmp_closed', node=fn_ast(timeinterval._Interval._cmp_closed),
             generic=True, params=ordp + [('low', 'α'), ('item', 'α'), ('high', 'α')],
             names={'low': ('low', 'ord'), 'item': ('item', 'ord'), 'high': ('high', 'ord')}),
        dict(name='cmpNoWrap', doc='timeinterval.DateTimeInterval._cmp_open',
             node=fn_ast(timeinterval.DateTimeInterval._cmp_open),
             generic=True, params=ordp + [('low', 'α'), ('item', 'α'), ('high', 'α')],
             names={'low': ('low', 'ord'), 'item': ('item', 'ord'), 'high': ('high', 'ord')}),
        dict(name='edgeCall', doc='filters.Edge.__call__', node=fn_ast(filters.Edge.__call__),
             params=[('rise', 'Bool'), ('fall', 'Bool'), ('urise', 'Bool'), ('ufall', 'Bool'),
                     ('previous', 'Val'), ('value', 'Val')],
             names={'self._rise': ('rise', 'bool'), 'self._fall': ('fall', 'bool'), 'self._urise': ('urise', 'bool'),
                    'self._ufall': ('ufall', 'bool'), "data['previous']": ('previous', 'val'),
                    "data['value']": ('value', 'val')}),
        dict(name='compareCalc', doc='cblocks.Compare.calc_output', node=fn_ast(cblocks.Compare.calc_output),
             params=[('low', 'Rat'), ('high', 'Rat'), ('own', 'Val'), ('x', 'Rat')],
             names={'self._low': ('low', 'rat'), 'self._high': ('high', 'rat'), 'self._output': ('own', 'val'),
                    "self._in['_'][0]": ('x', 'rat')}),
        dict(name='overrideCalc', doc='cblocks.Override.calc_output', node=fn_ast(cblocks.Override.calc_output),
             params=[('null', 'Val'), ('input', 'Val'), ('override', 'Val')],
             names={'self._null': ('null', 'val'), 'self._in.input': ('input', 'val'),
                    'self._in.override': ('override', 'val')}),
        dict(name='xorFunc', doc='cblocks.Xor: func=lambda inputs: …', node=find_lambda(cblocks.Xor, 'func'),
             params=[('inputs', 'List Val')], names={'inputs': ('inputs', 'vals')}),
        dict(name='counterSetmod', doc='sblocks1.Counter._setmod (the value stored and returned)',
             node=fn_ast(sblocks1.Counter._setmod), ignore=('set_output',),
             params=[('mod', 'Option Rat'), ('value', 'Rat')],
             names={'self._mod': ('mod', 'optrat'), 'value': ('value', 'rat')}),
        dict(name='isReady', doc='simulator.Circuit.is_ready', node=fn_ast(simulator.Circuit.is_ready),
             params=[('simtask', 'Option Unit'), ('error', 'Option Unit')],
             names={'self._simtask': ('simtask', 'optx'), 'self._error': ('error', 'optx')}),
        dict(name='extSource', doc='block.ExtEvent.__init__: self._source = …',
             node=find_assign_value(block.ExtEvent.__init__, '_source'),
             params=[('source', 'String')], names={'source': ('source', 'str')}),
    ]


def main(outfile):
    L = ['/- GENERATED by tools/py2lean.py from the Python source of edzed -- do not edit -/',
         'import EdzedModel.Basic.Val', '', 'namespace Edzed.Gen.Tr', '',
         "/-- Python's `a % m` on numbers (floored) -/",
         'def pyMod (a m : Rat) : Rat := a - m * ((a / m).floor : Int)', '']
    for t in targets():
        tr = Tr(t)
        body, rty = tr.function(t['node'])
        params = ' '.join(f'({n} : {ty})' for n, ty in t['params'])
        generic = '{α : Type} ' if t.get('generic') else ''
        rt = {'nat': 'Nat'}.get(rty, LEAN_TYPE.get(rty, rty))
        L.append(f"/-- translated from `{t['doc']}` -/")
        L.append(f"def {t['name']} {generic}{params} : {rt} :=")
        L.append(body)
        L.append('')
    L.append('end Edzed.Gen.Tr')
    text = '\n'.join(L) + '\n'
    try:
        with open(outfile, encoding='utf-8') as f:
            if f.read() == text:
                return
    except FileNotFoundError:
        pass
    tmp = outfile + '.tmp'
    with open(tmp, 'w', encoding='utf-8') as f:
        f.write(text)
    os.replace(tmp, outfile)


if __name__ == '__main__':
    main(sys.argv[1])
