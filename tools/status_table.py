#!/usr/bin/env python3
"""Regenerate the generated tables of DESIGN.md section 9 (between the `<!-- BEGIN x -->`/`<!-- END x -->`
markers) from evidence/*.json, known_findings.json, seeded/*/meta.json and the Lean sources."""
import glob
import json
import os
import re

ROOT = os.path.dirname(os.path.dirname(os.path.abspath(__file__)))


def lean_files(pid):
    seen, todo = [], [f'EdzedProps/{pid}.lean']
    while todo:
        rel = todo.pop()
        path = os.path.join(ROOT, 'lean', rel)
        if rel in seen or not os.path.exists(path):
            continue
        seen.append(rel)
        for line in open(path, encoding='utf-8'):
            m = re.match(r'\s*import\s+(Edzed\S+)', line)
            if m:
                todo.append(m.group(1).replace('.', '/') + '.lean')
    return seen


def loc(rel):
    return sum(1 for _ in open(os.path.join(ROOT, 'lean', rel), encoding='utf-8'))


def status():
    rows = ['| id | model (lines) | proofs+props (lines) | theorems (partial) | quick: scenarios / lines compared / s | corpus |',
            '|---|---|---|---|---|---|']
    for ev in sorted(glob.glob(os.path.join(ROOT, 'evidence', 'C*.json'))):
        e = json.load(open(ev))
        pid = e['property_id']
        cov = e['coverage']
        files = lean_files(pid)
        models = [f for f in files if f.startswith('EdzedModel/') and '/Drv/' not in f and '/Gen/' not in f
                  and '/Basic/' not in f]
        proofs = [f for f in files if f.startswith(('EdzedProofs/', 'EdzedProps/'))]
        part = cov.get('partial_theorems') or []
        rows.append('| {} | {} | {} | {}{} | {} / {} / {} | {} |'.format(
            pid,
            ', '.join(f"{os.path.basename(m)[:-5]} ({loc(m)})" for m in sorted(models)),
            sum(loc(p) for p in proofs),
            f"{cov['discharged']}/{cov['obligations']}",
            f" ({len(part)}: {', '.join(part)})" if part else '',
            cov['correspondence']['scenarios'], cov['correspondence']['lines_compared'], e['wall_s'],
            cov['correspondence']['corpus']))
    return '\n'.join(rows)


def findings():
    kf = json.load(open(os.path.join(ROOT, 'known_findings.json')))
    rows = ['| property | id | status | what | evidence |', '|---|---|---|---|---|']
    for e in kf:
        what = re.sub(r'^fixed: property=\S+ \S+ ', '', e['what'])
        ev = e.get('replay', '') + (' ; ' + e['patch'] if e.get('patch') else '')
        st = e['status'] + (' `' + e['commit'] + '`' if e.get('commit') else '')
        rows.append(f"| {e['property']} | {e['id']} | {st} | {what} | {ev or 'signature ' + json.dumps(e.get('signature'))} |")
    return '\n'.join(rows)


def seeded():
    rows = ['| seeded change | property | needs | repository tests | caught by | clause / how |', '|---|---|---|---|---|---|']
    for mp in sorted(glob.glob(os.path.join(ROOT, 'seeded', '*', 'meta.json'))):
        m = json.load(open(mp))
        tests = m.get('tests_patched', {})
        det = '; '.join(f"{c}: {v['detail'].split(':')[0]}" for c, v in m['checks'].items() if v['exit'] == 1)
        note = m.get('note', '')
        rows.append('| {} | {} | {} | {} | {} | {} |'.format(
            m['name'], m['property'], m['needs'], 'pass' if tests.get('ok') else tests.get('summary', '?'),
            ', '.join(m['caught_by']) or '**missed**', det + (' — ' + note if note else '')))
    return '\n'.join(rows)


def main():
    path = os.path.join(ROOT, 'DESIGN.md')
    text = open(path, encoding='utf-8').read()
    for name, fn in (('STATUS', status), ('FINDINGS', findings), ('SEEDED', seeded)):
        b, e = f'<!-- BEGIN {name} -->', f'<!-- END {name} -->'
        if b in text:
            i, j = text.index(b) + len(b), text.index(e)
            text = text[:i] + '\n' + fn() + '\n' + text[j:]
    open(path, 'w', encoding='utf-8').write(text)


if __name__ == '__main__':
    main()
