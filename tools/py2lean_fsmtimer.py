"""
Translator for the timer methods of the FSM (edzed/fsm.py):  -> lean/EdzedModel/Gen/TranslatedFsmTimer.lean

    FSM._set_timer  FSM._timer_expired  FSM._start_timer  FSM._stop_timer  FSM.stop  FSM.start
    FSM.get_state   FSM._restore_state  and the `t_STATE` statement of FSM.__init__

Called from tools/py2lean.py (same conventions: a method outside the supported subset is OMITTED with an
`UNTRANSLATABLE` comment, so that exactly the theorems mentioning it stop compiling).

Scheme: the statement programs of tools/py2lean_fsm.py (`Stmt (σ × L) X R` over the combinators seq / branch /
call / upd / assign / ret / raise / matchOpt of Gen/TranslatedFsm.lean).  Everything a method calls, reads or
writes outside the translated set is a field of the structure `TimerPrims`; a call of another TRANSLATED method
(`self._set_timer(…)` in `_start_timer`, `self._stop_timer()` in `stop`) becomes a call of its translation.
L is the record of the method's parameters (a0, a1, …; a parameter may be re-assigned); other locals are
λ-bound by the statement that assigns them (`x = <call>`, `(x := …) is not None`, `a, b, c = istate`,
`try: x = D[k] except KeyError: raise …`, `if c: x = A else: x = B`) and cannot be re-assigned.  One more kind of
local lives in L: a name that is set to `None` at the top level of the body and later to a pair
`(duration, timed event)` (`timer_args` of `_restore_state`): field `v<i> : Option (Dv × TE)`; `if x is not None:`
binds the pair for its branch (which must not re-assign x) and `self._set_timer(*x)` passes its two components.

Discrimination rules (see tools/py2lean_fsm.py): every comparison operator is kept (`duration <= 0.0` is the
may-raise primitive `cmpZero .le`, `<` would be `.lt`), `== INF_TIME` is not `is INF_TIME`, `is None` only on
Optional values (the duration value, the active timer, the saved expiry), truth values only of bools; every
operation that can raise is a may-raise primitive (time_period, the comparison with 0.0 -- None <= 0.0 raises --,
call_later, cancel, event, the subtraction of time.time(), super().stop()); the arguments of ignored logging
calls / exception messages must be effect-free; `check_targets` verifies that the translated methods are the
ones that run (defined in class FSM, not decorated, not overridden in Timer / InputExp) and that the module
globals they use are the expected objects (INF_TIME = +inf, utils.time_period = the function tied in C19, …).

Types: Dv duration value (None | number | str as handed over), TE timed event, SQ state or UNDEF (Option Q),
H timer handle, T time stamp, SD the `sdata` dictionary, V output value, IS a saved internal state.
"""
import ast

H = None        # helpers of py2lean


def U(msg):
    return H.Untranslatable(msg)


LEAN_T = {'Dv': 'Dv', 'TE': 'TE', 'SQ': 'Option Q', 'Q': 'Q', 'H': 'H', 'OH': 'Option H', 'T': 'T', 'OT': 'Option T',
          'B': 'Bool', 'SD': 'SD', 'V': 'V', 'IS': 'IS', 'Unit': 'Unit'}

TYPARAMS = 'σ Q TE Dv H T SD V IS X'

PRELUDE = r'''
/-- the comparison operators with `0.0` -/
inductive Cmp where
  | lt | le | gt | ge
  deriving DecidableEq, Repr

/-- everything the timer methods of the FSM call, read or write outside themselves -/
structure TimerPrims (σ Q TE Dv H T SD V IS X : Type) where
  /-- the exception object of a `raise <Name>(…)` / a failed `assert` -/
  exc : String → X
  /-- `self._state` (`none` = UNDEF) -/
  getState : σ → Option Q
  /-- `self._state = state` -/
  setState : Q → σ → σ
  /-- `self._active_timer` -/
  getActiveTimer : σ → Option H
  /-- `self._active_timer = …` -/
  setActiveTimer : Option H → σ → σ
  /-- `self._timers_enabled` -/
  timersEnabled : σ → Bool
  /-- `self._timers_enabled = …` -/
  setTimersEnabled : Bool → σ → σ
  /-- `self.persistent = …` (the switch of the persistence add-on: `save_persistent_state` and the sync save of
      `AddonPersistence.event` do nothing when it is off) -/
  setPersistent : Bool → σ → σ
  /-- `duration is None` -/
  durIsNone : Dv → Bool
  /-- `duration == INF_TIME` -/
  durEqInf : Dv → Bool
  /-- `self._duration.get(self._state)` -/
  durationOf : σ → Option Q → Dv
  /-- `utils.time_period(duration)` -/
  timePeriod : Dv → Eff σ X Dv
  /-- `duration <op> 0.0` (raises TypeError for None / a str) -/
  cmpZero : Cmp → Dv → Eff σ X Bool
  /-- `asyncio.get_running_loop().call_later(duration, self._timer_expired, timed_event)` -/
  callLater : Dv → TE → Eff σ X H
  /-- `timer.cancelled()` -/
  cancelled : σ → H → Bool
  /-- `timer.cancel()` -/
  cancel : H → Eff σ X Unit
  /-- `timer.when()` -/
  timerWhen : σ → H → T
  /-- `looptimes.loop_to_unixtime(t)` -/
  loopToUnix : T → T
  /-- `self.event(timed_event)` -/
  event : TE → Eff σ X Unit
  /-- `super().stop()` -/
  superStop : Eff σ X Unit
  /-- `super().start()` -/
  superStart : Eff σ X Unit
  /-- `self.sdata` -/
  getSdata : σ → SD
  /-- `self.sdata = …` -/
  setSdata : SD → σ → σ
  /-- `len(istate) == 2` and then `[*istate, {}]` -/
  istateLen2 : IS → Bool
  istatePad : IS → IS
  /-- `state, exp_timestamp, sdata = istate` (`none` = it cannot be unpacked into three) -/
  istateUnpack : IS → Option (Q × Option T × SD)
  /-- `self._check_state(state)` -/
  checkState : Q → Eff σ X Unit
  /-- `exp_timestamp - time.time()` as a duration value -/
  remaining : T → Eff σ X Dv
  /-- `self._ct_timed_event[state]` (`none` = KeyError) -/
  timedEvent : σ → Q → Option TE
  /-- `self.calc_output()` -/
  calcOutput : Eff σ X V
  /-- `output is block.UNDEF` -/
  isUndef : V → Bool
  /-- `self.set_output(output)` -/
  setOutput : V → Eff σ X Unit

/-- a procedure: falling off the end or `return` = `.ok`, an exception = `.error` -/
def runProc {S X R : Type} (r : S × Flow X R) (dflt : R) : S × Except X R :=
  match r with
  | (s, .ret v) => (s, .ok v)
  | (s, .raise x) => (s, .error x)
  | (s, _) => (s, .ok dflt)
'''

# parameter types by position (after self)
METHODS = [
    ('_set_timer', 'setTimer', ['Dv', 'TE'], 'Unit'),
    ('_timer_expired', 'timerExpired', ['TE'], 'Unit'),
    ('_start_timer', 'startTimer', ['Dv', 'TE'], 'Unit'),
    ('_stop_timer', 'stopTimer', [], 'Unit'),
    ('stop', 'stop', [], 'Unit'),
    ('start', 'start', [], 'Unit'),
    ('get_state', 'getState', [], 'GS'),
    ('_restore_state', 'restoreState', ['IS'], 'Unit'),
]
LEAN_NAME = {m[0]: m[1] for m in METHODS}
GS_TYPE = 'Option Q × Option T × SD'


class TrTimer:
    def __init__(self, fn, ptypes, rtype, done):
        self.fn = fn
        self.rtype = rtype
        self.done = done            # translated methods so far: python name -> (lean def, param types)
        self.nvar = 0
        a = fn.args
        if a.vararg or a.kwarg or a.kwonlyargs or a.defaults or a.kw_defaults:
            raise U('signature')
        names = [x.arg for x in a.posonlyargs + a.args]
        if names[:1] != ['self'] or len(names) - 1 != len(ptypes):
            raise U('parameters')
        self.params = [(n, f'a{i}', t) for i, (n, t) in enumerate(zip(names[1:], ptypes))]
        if fn.decorator_list:
            raise U('decorated')
        # locals that hold `None` or a pair (duration, timed event) and are RE-ASSIGNED: `x = None` at the top level of
        # the body (it dominates every later statement), later `x = (d, ev)`; they live in the record of locals
        self.mlocals = []
        for st in fn.body:
            if (isinstance(st, ast.Assign) and len(st.targets) == 1 and isinstance(st.targets[0], ast.Name)
                    and isinstance(st.value, ast.Constant) and st.value.value is None
                    and st.targets[0].id not in names and self.mlocal(st.targets[0].id) is None):
                name = st.targets[0].id
                for n in ast.walk(fn):
                    if isinstance(n, ast.Name) and n.id == name and (n.lineno, n.col_offset) < (st.lineno, st.col_offset):
                        raise U(f'{name} is used before `{name} = None`')
                    if isinstance(n, (ast.Global, ast.Nonlocal)) and name in n.names:
                        raise U(f'{name} is not a local')
                    if isinstance(n, (ast.FunctionDef, ast.Lambda, ast.AsyncFunctionDef)) and n is not fn:
                        raise U('nested function')
                self.mlocals.append((name, f'v{len(self.mlocals)}'))

    def mlocal(self, name):
        for m in self.mlocals:
            if m[0] == name:
                return m
        return None

    def assigns(self, stmts, name):
        return any(isinstance(n, ast.Name) and n.id == name and not isinstance(n.ctx, ast.Load)
                   for st in stmts for n in ast.walk(st))

    # ---- helpers ------------------------------------------------------------------
    def path(self, node):
        try:
            return H.node_path(node)
        except Exception:
            return None

    def fresh(self, prefix='x'):
        self.nvar += 1
        return f'{prefix}{self.nvar - 1}'

    def ind(self, text, n=1):
        pad = '  ' * n
        return '\n'.join(pad + l if l else l for l in text.split('\n'))

    def seq(self, a, b):
        if a is None:
            return b
        if b is None:
            return a
        return f'seq\n{self.ind("(" + a + ")")}\n{self.ind("(" + b + ")")}'

    def param(self, name):
        for p in self.params:
            if p[0] == name:
                return p
        return None

    def inert(self, node):
        if isinstance(node, (ast.Constant, ast.Name)):
            return True
        if isinstance(node, ast.Attribute):
            return self.inert(node.value)
        if isinstance(node, ast.Subscript):
            return self.inert(node.value) and isinstance(node.slice, ast.Constant)
        if isinstance(node, ast.JoinedStr):
            return all(self.inert(v) for v in node.values)
        if isinstance(node, ast.FormattedValue):
            return self.inert(node.value) and (node.format_spec is None or self.inert(node.format_spec))
        if isinstance(node, ast.Tuple):
            return all(self.inert(v) for v in node.elts)
        if isinstance(node, ast.BinOp) and isinstance(node.op, ast.Add):
            return all(self.inert(v) and isinstance(v, (ast.Constant, ast.JoinedStr, ast.BinOp))
                       for v in (node.left, node.right))
        if (isinstance(node, ast.Call) and self.path(node.func) == 'getattr' and len(node.args) == 3
                and not node.keywords and all(self.inert(a) for a in node.args)
                and isinstance(node.args[1], ast.Constant) and isinstance(node.args[2], ast.Constant)):
            return True         # getattr(x, 'name', default) never raises
        return False

    def check_inert(self, nodes, what):
        for n in nodes:
            if not self.inert(n):
                raise U(f'{what}: `{ast.unparse(n)[:60]}` is evaluated but not translated and is not '
                        'obviously free of effects')

    def is_log(self, s):
        return (isinstance(s, ast.Expr) and isinstance(s.value, ast.Call)
                and (self.path(s.value.func) or '').startswith('self.log_'))

    def ignorable(self, s):
        if isinstance(s, ast.Expr) and isinstance(s.value, ast.Constant) and isinstance(s.value.value, str):
            return True
        if self.is_log(s):
            self.check_inert(list(s.value.args) + [k.value for k in s.value.keywords], 'logging call')
            return True
        if isinstance(s, ast.Pass):
            return True
        if isinstance(s, ast.If) and all(self.ignorable(x) for x in s.body + s.orelse):
            # only logging inside: the test must be an effect-free expression
            self.check_inert([s.test], 'test of a logging-only if')
            return True
        return False

    # ---- pure expressions ---------------------------------------------------------
    def expr(self, node, env):
        p = self.path(node) if isinstance(node, (ast.Name, ast.Attribute)) else None
        if p is not None:
            if p in env:
                return env[p]
            q = self.param(p)
            if q is not None:
                return (f'sl.2.{q[1]}', q[2])
            table = {'self._state': ('(p.getState sl.1)', 'SQ'),
                     'self._active_timer': ('(p.getActiveTimer sl.1)', 'OH'),
                     'self._timers_enabled': ('(p.timersEnabled sl.1)', 'B'),
                     'self.sdata': ('(p.getSdata sl.1)', 'SD')}
            if p in table:
                return table[p]
            raise U(f'unknown name {p}')
        if isinstance(node, ast.Constant):
            if node.value is True:
                return ('true', 'B')
            if node.value is False:
                return ('false', 'B')
            if node.value is None:
                return ('none', 'None')
            raise U(f'constant {node.value!r}')
        if isinstance(node, ast.UnaryOp) and isinstance(node.op, ast.Not):
            t, ty = self.expr(node.operand, env)
            if ty != 'B':
                raise U(f'truth value of {ast.unparse(node.operand)} : {ty}')
            return (f'(!{t})', 'B')
        if isinstance(node, ast.BoolOp):
            # `X is None or X.m()` / `X is not None and X.m()`: the later operands see X narrowed
            is_and = isinstance(node.op, ast.And)
            return self.boolop(list(node.values), is_and, env)
        if isinstance(node, ast.Compare) and len(node.ops) == 1:
            return (self.compare(node.left, node.ops[0], node.comparators[0], env), 'B')
        if isinstance(node, ast.Tuple):
            parts = [self.expr(e, env) for e in node.elts]
            return ('(' + ', '.join(t for t, _ in parts) + ')', 'T:' + ','.join(ty for _, ty in parts))
        if isinstance(node, ast.Call) and not node.keywords:
            fp = self.path(node.func)
            if isinstance(node.func, ast.Attribute) and not node.args:
                base, bty = self.expr(node.func.value, env)
                if bty == 'H' and node.func.attr == 'cancelled':
                    return (f'(p.cancelled sl.1 {base})', 'B')
                if bty == 'H' and node.func.attr == 'when':
                    return (f'(p.timerWhen sl.1 {base})', 'T')
            if fp == 'looptimes.loop_to_unixtime' and len(node.args) == 1:
                t, ty = self.expr(node.args[0], env)
                if ty == 'T':
                    return (f'(p.loopToUnix {t})', 'T')
            if (fp == 'self._duration.get' and len(node.args) == 1):
                t, ty = self.expr(node.args[0], env)
                if ty == 'SQ':
                    return (f'(p.durationOf sl.1 {t})', 'Dv')
        raise U('expression ' + ast.unparse(node)[:100])

    def boolop(self, values, is_and, env):
        v, rest = values[0], values[1:]
        t, ty = self.expr(v, env)
        if ty != 'B':
            raise U(f'truth value of {ast.unparse(v)} : {ty}')
        if not rest:
            return (t, 'B')
        # narrowing by `NAME is None` (or) / `NAME is not None` (and) for an Optional handle
        if (isinstance(v, ast.Compare) and len(v.ops) == 1 and isinstance(v.left, ast.Name)
                and isinstance(v.comparators[0], ast.Constant) and v.comparators[0].value is None
                and isinstance(v.ops[0], ast.IsNot if is_and else ast.Is)):
            o, oty = self.expr(v.left, env)
            if oty == 'OH':
                var = self.fresh('h')
                env2 = {**env, v.left.id: (var, 'H')}
                r, _ = self.boolop(rest, is_and, env2)
                none_ = 'false' if is_and else 'true'
                return (f'(match {o} with | none => {none_} | some {var} => {r})', 'B')
        r, _ = self.boolop(rest, is_and, env)
        return (f'({t} {"&&" if is_and else "||"} {r})', 'B')

    def compare(self, left, op, right, env):
        t, ty = self.expr(left, env)
        if isinstance(op, (ast.Is, ast.IsNot)):
            neg = isinstance(op, ast.IsNot)
            if isinstance(right, ast.Constant) and right.value is None:
                if ty in ('OH', 'OT'):
                    return f'({t}).isSome' if neg else f'({t}).isNone'
                if ty == 'Dv':
                    return f'(!(p.durIsNone {t}))' if neg else f'(p.durIsNone {t})'
                raise U(f'is None on {ty}')
            if self.path(right) == 'block.UNDEF':
                if ty == 'SQ':
                    return f'({t}).isSome' if neg else f'({t}).isNone'
                if ty == 'V':
                    return f'(!(p.isUndef {t}))' if neg else f'(p.isUndef {t})'
            raise U('identity test ' + ast.unparse(left) + ' : ' + ty)
        if isinstance(op, (ast.Eq, ast.NotEq)) and self.path(right) == 'INF_TIME' and ty == 'Dv':
            return f'(p.durEqInf {t})' if isinstance(op, ast.Eq) else f'(!(p.durEqInf {t}))'
        raise U('comparison ' + ast.unparse(left) + ' ' + type(op).__name__ + ' ' + ast.unparse(right))

    # ---- may-raise operations yielding a value ----------------------------------------
    CMP = {ast.Lt: '.lt', ast.LtE: '.le', ast.Gt: '.gt', ast.GtE: '.ge'}

    def value_call(self, node, env):
        """-> (Eff term as a function body of sl, type) or None"""
        if isinstance(node, ast.Compare) and len(node.ops) == 1 and type(node.ops[0]) in self.CMP:
            r = node.comparators[0]
            if isinstance(r, ast.Constant) and r.value == 0 and isinstance(r.value, (int, float)) \
                    and not isinstance(r.value, bool):
                t, ty = self.expr(node.left, env)
                if ty == 'Dv':
                    return (f'p.cmpZero {self.CMP[type(node.ops[0])]} {t}', 'B')
            raise U('comparison ' + ast.unparse(node))
        if isinstance(node, ast.BinOp) and isinstance(node.op, ast.Sub):
            if (isinstance(node.right, ast.Call) and self.path(node.right.func) == 'time.time'
                    and not node.right.args and not node.right.keywords):
                t, ty = self.expr(node.left, env)
                if ty == 'T':
                    return (f'p.remaining {t}', 'Dv')
            raise U('subtraction ' + ast.unparse(node))
        if not isinstance(node, ast.Call) or node.keywords:
            return None
        fp = self.path(node.func)
        if fp == 'utils.time_period' and len(node.args) == 1:
            t, ty = self.expr(node.args[0], env)
            if ty == 'Dv':
                return (f'p.timePeriod {t}', 'Dv')
        if fp == 'self.calc_output' and not node.args:
            return ('p.calcOutput', 'V')
        if (fp == 'asyncio.get_running_loop().call_later' or
                (isinstance(node.func, ast.Attribute) and node.func.attr == 'call_later'
                 and isinstance(node.func.value, ast.Call)
                 and self.path(node.func.value.func) == 'asyncio.get_running_loop'
                 and not node.func.value.args and not node.func.value.keywords)):
            if len(node.args) == 3 and self.path(node.args[1]) == 'self._timer_expired':
                d, dty = self.expr(node.args[0], env)
                e, ety = self.expr(node.args[2], env)
                if (dty, ety) == ('Dv', 'TE'):
                    return (f'p.callLater {d} {e}', 'H')
            raise U('call_later ' + ast.unparse(node)[:80])
        return None

    def proc(self, call, env):
        """an expression statement that is a call -> Eff term"""
        if call.keywords:
            raise U('keyword arguments in ' + ast.unparse(call)[:80])
        fp = self.path(call.func)
        args = []
        for a in call.args:
            if isinstance(a, ast.Starred):
                # `*pair` where pair is a local narrowed to a (duration, timed event) tuple
                if isinstance(a.value, ast.Name) and env.get(a.value.id, (None, None))[1] == 'P':
                    t = env[a.value.id][0]
                    args += [(f'{t}.1', 'Dv'), (f'{t}.2', 'TE')]
                    continue
                raise U('starred argument ' + ast.unparse(a)[:40])
            args.append(self.expr(a, env))
        tys = [ty for _, ty in args]
        if 'P' in tys:
            raise U('a (duration, event) pair passed as one argument')
        txt = ''.join(' ' + t for t, _ in args)
        if fp is not None and fp.startswith('self.') and fp[5:] in self.done:
            lean, ptypes = self.done[fp[5:]]
            if tys != ptypes:
                raise U(f'arguments of {fp}: {tys}')
            return f'{lean} p{txt}'
        if fp is not None and fp.startswith('self.') and fp[5:] in LEAN_NAME:
            raise U(f'{fp} is called before it is translated (or it is untranslatable)')
        if fp == 'self.event' and tys == ['TE']:
            return f'p.event{txt}'
        if fp == 'self._check_state' and tys == ['Q']:
            return f'p.checkState{txt}'
        if fp == 'self.set_output' and tys == ['V']:
            return f'p.setOutput{txt}'
        if (isinstance(call.func, ast.Attribute) and call.func.attr in ('stop', 'start') and not call.args
                and isinstance(call.func.value, ast.Call) and self.path(call.func.value.func) == 'super'
                and not call.func.value.args and call.func.attr == self.fn.name):
            return 'p.superStop' if call.func.attr == 'stop' else 'p.superStart'
        if isinstance(call.func, ast.Attribute) and call.func.attr == 'cancel' and not call.args:
            base, bty = self.expr(call.func.value, env)
            if bty == 'H':
                return f'p.cancel {base}'
        raise U('call ' + ast.unparse(call)[:80])

    # ---- statements ---------------------------------------------------------------
    def ends(self, stmts):
        for s in stmts:
            if isinstance(s, (ast.Return, ast.Raise)):
                return True
            if isinstance(s, ast.If) and s.orelse and self.ends(s.body) and self.ends(s.orelse):
                return True
        return False

    def block(self, stmts, env):
        stmts = list(stmts)
        if not stmts:
            return None
        s, rest = stmts[0], stmts[1:]
        if self.ignorable(s):
            return self.block(rest, env)
        # --- statements that bind a name for the rest of the block
        if (isinstance(s, ast.If) and isinstance(s.test, ast.Compare) and len(s.test.ops) == 1
                and isinstance(s.test.ops[0], (ast.Is, ast.IsNot)) and isinstance(s.test.left, ast.Name)
                and isinstance(s.test.comparators[0], ast.Constant) and s.test.comparators[0].value is None
                and self.mlocal(s.test.left.id) is not None and s.test.left.id not in env):
            # if pair is [not] None: …      (the branch that sees the pair must not re-assign it)
            neg = isinstance(s.test.ops[0], ast.IsNot)
            name = s.test.left.id
            some_body, none_body = (s.body, s.orelse) if neg else (s.orelse, s.body)
            if self.assigns(some_body, name):
                raise U(f'{name} is re-assigned where it is known to be a pair')
            var = self.fresh('t')
            some_ = self.nested(some_body, {**env, name: (var, 'P')})
            none_ = self.nested(none_body, env)
            first = (f'matchOpt (fun sl => sl.2.{self.mlocal(name)[1]})\n{self.ind("(" + none_ + ")")}\n  (fun {var} =>\n'
                     f'{self.ind(some_, 2)})')
            return self.seq(first, self.block(rest, env))
        if isinstance(s, ast.Assign) and len(s.targets) == 1 and isinstance(s.targets[0], ast.Name) \
                and self.param(s.targets[0].id) is None and self.mlocal(s.targets[0].id) is None:
            name = s.targets[0].id
            if name in env:
                raise U(f'{name} is assigned twice')
            vc = self.value_call(s.value, env)
            var = self.fresh()
            if vc is not None:
                body = self.block(rest, {**env, name: (var, vc[1])}) or 'skip'
                return f'call (fun sl => {vc[0]}) (fun {var} =>\n{self.ind(body)})'
            if isinstance(s.value, ast.IfExp):
                val, ty = self.ite_value(s.value.test, s.value.body, s.value.orelse, env)
                body = self.block(rest, {**env, name: (var, ty)}) or 'skip'
                return f'bindv (fun sl => ({val} : {LEAN_T[ty]})) (fun {var} =>\n{self.ind(body)})'
            t, ty = self.expr(s.value, env)
            if ty == 'None' or ty.startswith('T:'):
                raise U(f'{name} = {ast.unparse(s.value)[:40]}')
            body = self.block(rest, {**env, name: (var, ty)}) or 'skip'
            return f'bindv (fun sl => {t}) (fun {var} =>\n{self.ind(body)})'
        if (isinstance(s, ast.Assign) and len(s.targets) == 1 and isinstance(s.targets[0], ast.Tuple)
                and all(isinstance(e, ast.Name) for e in s.targets[0].elts) and len(s.targets[0].elts) == 3):
            t, ty = self.expr(s.value, env)
            names = [e.id for e in s.targets[0].elts]
            if ty == 'IS' and not any(n in env or self.param(n) for n in names):
                var = self.fresh('u')
                env2 = {**env, names[0]: (f'{var}.1', 'Q'), names[1]: (f'{var}.2.1', 'OT'), names[2]: (f'{var}.2.2', 'SD')}
                body = self.block(rest, env2) or 'skip'
                return (f'matchOpt (fun sl => p.istateUnpack {t}) (raise (p.exc "ValueError")) (fun {var} =>\n'
                        f'{self.ind(body)})')
            raise U('unpacking ' + ast.unparse(s)[:60])
        if (isinstance(s, ast.If) and len(s.body) == 1 and len(s.orelse) == 1
                and all(isinstance(b, ast.Assign) and len(b.targets) == 1 and isinstance(b.targets[0], ast.Name)
                        for b in (s.body[0], s.orelse[0]))
                and s.body[0].targets[0].id == s.orelse[0].targets[0].id
                and self.param(s.body[0].targets[0].id) is None):
            # if c: x = A else: x = B   (both pure)
            name = s.body[0].targets[0].id
            if name in env:
                raise U(f'{name} is assigned twice')
            val, ty = self.ite_value(s.test, s.body[0].value, s.orelse[0].value, env)
            var = self.fresh()
            body = self.block(rest, {**env, name: (var, ty)}) or 'skip'
            return f'bindv (fun sl => ({val} : {LEAN_T[ty]})) (fun {var} =>\n{self.ind(body)})'
        if (isinstance(s, ast.Try) and not s.finalbody and not s.orelse and len(s.handlers) == 1
                and self.path(s.handlers[0].type) == 'KeyError' and s.handlers[0].name is None
                and len(s.body) == 1 and isinstance(s.body[0], ast.Assign) and len(s.body[0].targets) == 1
                and isinstance(s.body[0].targets[0], ast.Name) and isinstance(s.body[0].value, ast.Subscript)
                and self.path(s.body[0].value.value) == 'self._ct_timed_event'):
            # try: x = self._ct_timed_event[state]  except KeyError: raise X(…) from None
            name = s.body[0].targets[0].id
            k, kty = self.expr(s.body[0].value.slice, env)
            h = s.handlers[0].body
            if (kty == 'Q' and len(h) == 1 and isinstance(h[0], ast.Raise) and isinstance(h[0].exc, ast.Call)
                    and isinstance(h[0].exc.func, ast.Name)
                    and isinstance(h[0].cause, ast.Constant) and h[0].cause.value is None
                    and name not in env and self.param(name) is None):
                self.check_inert(list(h[0].exc.args), 'exception message')
                var = self.fresh()
                body = self.block(rest, {**env, name: (var, 'TE')}) or 'skip'
                return (f'matchOpt (fun sl => p.timedEvent sl.1 {k}) (raise (p.exc "{h[0].exc.func.id}")) (fun {var} =>\n'
                        f'{self.ind(body)})')
            raise U('try ' + ast.unparse(s)[:60])
        if (isinstance(s, ast.If) and isinstance(s.test, ast.Compare) and len(s.test.ops) == 1
                and isinstance(s.test.ops[0], (ast.Is, ast.IsNot)) and isinstance(s.test.left, ast.Name)
                and isinstance(s.test.comparators[0], ast.Constant) and s.test.comparators[0].value is None
                and env.get(s.test.left.id, (None, None))[1] in ('OT', 'OH')):
            neg = isinstance(s.test.ops[0], ast.IsNot)
            o = env[s.test.left.id][0]
            var = self.fresh('t')
            inner = 'T' if env[s.test.left.id][1] == 'OT' else 'H'
            some_ = self.nested(s.body if neg else s.orelse, {**env, s.test.left.id: (var, inner)})
            none_ = self.nested(s.orelse if neg else s.body, env)
            first = (f'matchOpt (fun sl => {o})\n{self.ind("(" + none_ + ")")}\n  (fun {var} =>\n'
                     f'{self.ind(some_, 2)})')
            return self.seq(first, self.block(rest, env))
        if isinstance(s, ast.If):
            w = self.walrus_test(s.test)
            if w is not None:
                # if (x := E) is not None: body [else: orelse]      x is bound in body
                name, val, neg = w
                if name in env or self.param(name):
                    raise U(f'{name} is assigned twice')
                vc = self.value_call(val, env)
                var = self.fresh()
                if vc is not None and vc[1] == 'V':
                    # (output := self.calc_output()) is not block.UNDEF
                    raise U('walrus with a call: handled below')
                o, oty = self.expr(val, env)
                if oty != 'OH':
                    raise U('walrus on ' + oty)
                some_ = self.nested(s.body if neg else s.orelse, {**env, name: (var, 'H')})
                none_ = self.nested(s.orelse if neg else s.body, env)
                first = (f'matchOpt (fun sl => {o})\n{self.ind("(" + none_ + ")")}\n  (fun {var} =>\n'
                         f'{self.ind(some_, 2)})')
                return self.seq(first, self.block(rest, env))
        first = self.stmt(s, env)
        return self.seq(first, self.block(rest, env))

    def ite_value(self, test, a_node, b_node, env):
        """`A if test else B` as a value; `X is None or rest`: B (and rest) see X narrowed to the handle"""
        if (isinstance(test, ast.BoolOp) and isinstance(test.op, ast.Or) and len(test.values) >= 2):
            v = test.values[0]
            if (isinstance(v, ast.Compare) and len(v.ops) == 1 and isinstance(v.ops[0], ast.Is)
                    and isinstance(v.left, ast.Name) and isinstance(v.comparators[0], ast.Constant)
                    and v.comparators[0].value is None):
                o, oty = self.expr(v.left, env)
                if oty == 'OH':
                    var = self.fresh('h')
                    env2 = {**env, v.left.id: (var, 'H')}
                    r, _ = self.boolop(test.values[1:], False, env2)
                    a, aty = self.expr(a_node, env)
                    b, bty = self.expr(b_node, env2)
                    ty = self.join_type(aty, bty)
                    a, b = self.coerce(a, aty, ty), self.coerce(b, bty, ty)
                    return (f'match {o} with | none => {a} | some {var} => if {r} then {a} else {b}', ty)
        c, cty = self.expr(test, env)
        if cty != 'B':
            raise U('truth value of ' + ast.unparse(test))
        a, aty = self.expr(a_node, env)
        b, bty = self.expr(b_node, env)
        ty = self.join_type(aty, bty)
        return (f'if {c} then {self.coerce(a, aty, ty)} else {self.coerce(b, bty, ty)}', ty)

    def nested(self, stmts, env):
        return self.block(list(stmts), dict(env)) or 'skip'

    def walrus_test(self, test):
        if (isinstance(test, ast.Compare) and len(test.ops) == 1 and isinstance(test.left, ast.NamedExpr)
                and isinstance(test.ops[0], (ast.Is, ast.IsNot)) and isinstance(test.comparators[0], ast.Constant)
                and test.comparators[0].value is None):
            return test.left.target.id, test.left.value, isinstance(test.ops[0], ast.IsNot)
        return None

    def join_type(self, a, b):
        if a == b:
            return a
        if {a, b} == {'None', 'T'}:
            return 'OT'
        raise U(f'branches of types {a} / {b}')

    def coerce(self, text, ty, want):
        if ty == want:
            return text
        if ty == 'None' and want in ('OT', 'OH'):
            return 'none'
        if ty == 'T' and want == 'OT':
            return f'(some {text})'
        if ty == 'H' and want == 'OH':
            return f'(some {text})'
        raise U(f'a value of type {ty} where {want} is expected')

    def stmt(self, s, env):
        if isinstance(s, ast.Expr) and isinstance(s.value, ast.Call):
            return f'call (fun sl => {self.proc(s.value, env)}) (fun _ => skip)'
        if isinstance(s, ast.Assert):
            if s.msg is not None:
                self.check_inert([s.msg], 'assert message')
            c, cty = self.expr(s.test, env)
            if cty != 'B':
                raise U('assert ' + ast.unparse(s.test))
            return f'branch (fun sl => {c}) skip (raise (p.exc "AssertionError"))'
        if isinstance(s, ast.Raise):
            if isinstance(s.exc, ast.Call) and isinstance(s.exc.func, ast.Name) and s.cause is None:
                self.check_inert(list(s.exc.args) + [k.value for k in s.exc.keywords], 'exception message')
                return f'raise (p.exc "{s.exc.func.id}")'
            raise U('raise ' + ast.unparse(s)[:80])
        if isinstance(s, ast.Return):
            if s.value is None:
                if self.rtype != 'Unit':
                    raise U('return without value')
                return 'ret (fun _ => ())'
            if self.rtype == 'GS' and isinstance(s.value, ast.Tuple) and len(s.value.elts) == 3:
                parts = [self.expr(e, env) for e in s.value.elts]
                if [ty for _, ty in parts] == ['SQ', 'OT', 'SD']:
                    return 'ret (fun sl => (' + ', '.join(t for t, _ in parts) + '))'
            raise U('return ' + ast.unparse(s.value)[:60])
        if isinstance(s, ast.Assign) and len(s.targets) == 1:
            tgt, val = s.targets[0], s.value
            p = self.path(tgt)
            q = self.param(p) if isinstance(tgt, ast.Name) else None
            m = self.mlocal(p) if isinstance(tgt, ast.Name) else None
            if m is not None:
                if p in env:
                    raise U(f'{p} is re-assigned where it is known to be a pair')
                if isinstance(val, ast.Constant) and val.value is None:
                    return f'assign (fun sl => {{ sl.2 with {m[1]} := none }})'
                if isinstance(val, ast.Tuple) and len(val.elts) == 2:
                    parts = [self.expr(e, env) for e in val.elts]
                    if [ty for _, ty in parts] == ['Dv', 'TE']:
                        return f'assign (fun sl => {{ sl.2 with {m[1]} := some ({parts[0][0]}, {parts[1][0]}) }})'
                raise U(f'{p} = {ast.unparse(val)[:40]}: neither None nor a (duration, timed event) pair')
            if q is not None:
                vc = self.value_call(val, env)
                if vc is not None:
                    if vc[1] != q[2]:
                        raise U(f'{p} = <{vc[1]}>')
                    var = self.fresh()
                    return (f'call (fun sl => {vc[0]}) (fun {var} =>\n'
                            f'  assign (fun sl => {{ sl.2 with {q[1]} := {var} }}))')
                if (q[2] == 'IS' and isinstance(val, ast.List) and len(val.elts) == 2
                        and isinstance(val.elts[0], ast.Starred) and self.path(val.elts[0].value) == p
                        and isinstance(val.elts[1], ast.Dict) and not val.elts[1].keys):
                    return f'assign (fun sl => {{ sl.2 with {q[1]} := p.istatePad sl.2.{q[1]} }})'
                t, ty = self.expr(val, env)
                if ty != q[2]:
                    raise U(f'{p} = <{ty}>')
                return f'assign (fun sl => {{ sl.2 with {q[1]} := {t} }})'
            if p == 'self._active_timer':
                vc = self.value_call(val, env)
                if vc is not None and vc[1] == 'H':
                    var = self.fresh()
                    return (f'call (fun sl => {vc[0]}) (fun {var} =>\n'
                            f'  upd (fun sl => p.setActiveTimer (some {var}) sl.1))')
                t, ty = self.expr(val, env)
                return f'upd (fun sl => p.setActiveTimer {self.coerce(t, ty, "OH")} sl.1)'
            if p == 'self._timers_enabled':
                t, ty = self.expr(val, env)
                if ty != 'B':
                    raise U('_timers_enabled = <' + ty + '>')
                return f'upd (fun sl => p.setTimersEnabled {t} sl.1)'
            if p == 'self.persistent':
                t, ty = self.expr(val, env)
                if ty != 'B':
                    raise U('persistent = <' + ty + '>')
                return f'upd (fun sl => p.setPersistent {t} sl.1)'
            if p == 'self._state':
                t, ty = self.expr(val, env)
                if ty != 'Q':
                    raise U('_state = <' + ty + '>')
                return f'upd (fun sl => p.setState {t} sl.1)'
            if p == 'self.sdata':
                t, ty = self.expr(val, env)
                if ty != 'SD':
                    raise U('sdata = <' + ty + '>')
                return f'upd (fun sl => p.setSdata {t} sl.1)'
            raise U('assignment ' + ast.unparse(s)[:80])
        if isinstance(s, ast.If):
            return self.if_(s, env)
        raise U('statement ' + ast.unparse(s)[:80])

    def if_(self, s, env):
        test = s.test
        # (output := self.calc_output()) is not block.UNDEF
        if (isinstance(test, ast.Compare) and len(test.ops) == 1 and isinstance(test.left, ast.NamedExpr)
                and isinstance(test.ops[0], (ast.Is, ast.IsNot)) and self.path(test.comparators[0]) == 'block.UNDEF'):
            vc = self.value_call(test.left.value, env)
            name = test.left.target.id
            if vc is None or vc[1] != 'V' or name in env or self.param(name):
                raise U('condition ' + ast.unparse(test)[:80])
            var = self.fresh()
            env2 = {**env, name: (var, 'V')}
            c = f'(!(p.isUndef {var}))' if isinstance(test.ops[0], ast.IsNot) else f'(p.isUndef {var})'
            return (f'call (fun sl => {vc[0]}) (fun {var} =>\n  branch (fun sl => {c})\n'
                    f'{self.ind("(" + self.nested(s.body, env2) + ")", 2)}\n'
                    f'{self.ind("(" + self.nested(s.orelse, env2) + ")", 2)})')
        # len(istate) == 2
        if (isinstance(test, ast.Compare) and len(test.ops) == 1 and isinstance(test.ops[0], ast.Eq)
                and isinstance(test.left, ast.Call) and self.path(test.left.func) == 'len'
                and len(test.left.args) == 1 and isinstance(test.comparators[0], ast.Constant)
                and test.comparators[0].value == 2 and type(test.comparators[0].value) is int):
            t, ty = self.expr(test.left.args[0], env)
            if ty == 'IS':
                return (f'branch (fun sl => p.istateLen2 {t})\n{self.ind("(" + self.nested(s.body, env) + ")")}\n'
                        f'{self.ind("(" + self.nested(s.orelse, env) + ")")}')
        neg = isinstance(test, ast.UnaryOp) and isinstance(test.op, ast.Not)
        vc = self.value_call(test.operand if neg else test, env)
        if vc is not None:
            if vc[1] != 'B':
                raise U('condition ' + ast.unparse(test)[:80])
            var = self.fresh('b')
            c = f'(!{var})' if neg else var
            return (f'call (fun sl => {vc[0]}) (fun {var} =>\n  branch (fun _ => {c})\n'
                    f'{self.ind("(" + self.nested(s.body, env) + ")", 2)}\n'
                    f'{self.ind("(" + self.nested(s.orelse, env) + ")", 2)})')
        c, cty = self.expr(test, env)
        if cty != 'B':
            raise U(f'truth value of {ast.unparse(test)} : {cty}')
        return (f'branch (fun sl => {c})\n{self.ind("(" + self.nested(s.body, env) + ")")}\n'
                f'{self.ind("(" + self.nested(s.orelse, env) + ")")}')

    def translate(self, lean_name, doc):
        body = self.block(list(self.fn.body), {}) or 'skip'
        loc = f'Loc_{lean_name}'
        flines = [f'  {lean} : {LEAN_T[ty]}    -- `{name}`' for name, lean, ty in self.params]
        flines += [f'  {lean} : Option (Dv × TE) := none    -- `{name}`: None or (duration, timed event)'
                   for name, lean in self.mlocals]
        fields = '\n'.join(flines) or '  unit : Unit := ()'
        tys = sorted({LEAN_T[ty].split()[-1] for _, _, ty in self.params} | ({'Dv', 'TE'} if self.mlocals else set())) or []
        tparams = ' '.join(t for t in ['Dv', 'TE', 'IS'] if t in tys)
        rt = 'Unit' if self.rtype == 'Unit' else f'({GS_TYPE})'
        dflt = '()' if self.rtype == 'Unit' else '(none, none, p.getSdata s)'
        args = ''.join(f' ({n} : {LEAN_T[ty]})' for n, _l, ty in self.params)
        init = '{ ' + ', '.join(f'{l} := {n}' for n, l, _ in self.params) + ' }' if self.params else '{}'
        return (
            f'structure {loc}{" (" + tparams + " : Type)" if tparams else ""} where\n{fields}\n\n'
            f'/-- translated from `{doc}`: the body -/\n'
            f'def {lean_name}Body {{{TYPARAMS} : Type}} (p : TimerPrims {TYPARAMS}) :\n'
            f'    Stmt (σ × {loc}{" " + tparams if tparams else ""}) X {rt} :=\n{self.ind(body)}\n\n'
            f'/-- translated from `{doc}`: new block state and the value returned / the exception raised -/\n'
            f'def {lean_name} {{{TYPARAMS} : Type}} (p : TimerPrims {TYPARAMS}){args} : Eff σ X {rt} := fun s =>\n'
            f'  match runProc ({lean_name}Body p (s, ({init} : {loc}{" " + tparams if tparams else ""}))) {dflt} with\n'
            f'  | (sl, r) => (sl.1, r)')


def check_targets(fsm_mod):
    """the translated methods must be the code that runs and the names they use the expected objects"""
    import asyncio
    import math
    import time as time_mod
    import edzed
    from edzed import block, utils
    from edzed.utils import looptimes, timeunits
    from edzed.blocklib import fsms, sblocks2
    FSM = fsm_mod.FSM
    names = [m[0] for m in METHODS] + ['__init__']
    for n in names:
        if n not in vars(FSM):
            raise U(f'FSM.{n} is not defined in class FSM')
    for cls in (fsms.Timer, sblocks2.InputExp):
        for n in names:
            if n in vars(cls) and n != '__init__':
                if (cls.__name__, n) == ('InputExp', '_restore_state'):
                    # re-validates the saved value, then delegates: the last statement must be the super call
                    last = H.fn_ast(vars(cls)[n]).body[-1]
                    if ast.unparse(last) == 'super()._restore_state(istate)':
                        continue
                raise U(f'{cls.__name__} overrides {n}')
    if not (isinstance(fsm_mod.INF_TIME, float) and math.isinf(fsm_mod.INF_TIME) and fsm_mod.INF_TIME > 0):
        raise U('INF_TIME is not +inf')
    expected = {'asyncio': asyncio, 'time': time_mod, 'utils': utils, 'looptimes': looptimes, 'block': block,
                'EdzedCircuitError': edzed.EdzedCircuitError, 'EdzedInvalidState': edzed.EdzedInvalidState}
    for name, obj in expected.items():
        if getattr(fsm_mod, name, None) is not obj:
            raise U(f'module name {name} is not the expected object')
    if utils.time_period is not timeunits.time_period:
        raise U('utils.time_period is not timeunits.time_period')
    if block.UNDEF is not edzed.UNDEF:
        raise U('block.UNDEF')


def init_duration_stmt(fn):
    """the statement of `FSM.__init__` that builds `self._duration`:  if prefixed['t_']: … else: …"""
    for s in fn.body:
        if isinstance(s, ast.If) and ast.unparse(s.test) == "prefixed['t_']":
            return s
    raise U("no `if prefixed['t_']:` statement in FSM.__init__")


def translate_init_duration(fn):
    """value translation of that statement: (class defaults, [(timed_state, value of the t_ argument)]) ->
    the instance table or the exception"""
    s = init_duration_stmt(fn)
    els = s.orelse
    if not (len(els) == 1 and ast.unparse(els[0]) == 'self._duration = self._ct_default_duration'):
        raise U('else branch of the t_ statement')
    b = s.body
    if not (len(b) == 2 and ast.unparse(b[0]) == 'self._duration = self._ct_default_duration.copy()'
            and isinstance(b[1], ast.For) and not b[1].orelse
            and ast.unparse(b[1].target) in ('(timed_state, arg)', 'timed_state, arg')
            and ast.unparse(b[1].iter) == "prefixed['t_']"):
        raise U('then branch of the t_ statement')
    loop = b[1]
    ts = loop.target.elts[0].id
    arg = loop.target.elts[1].id

    def stmts(body, env, ind):
        pad = '  ' * ind
        if not body:
            return pad + '.ok tbl'
        st, rest = body[0], body[1:]
        if (isinstance(st, ast.If) and not st.orelse and len(st.body) == 1 and isinstance(st.body[0], ast.Raise)
                and isinstance(st.body[0].exc, ast.Call) and isinstance(st.body[0].exc.func, ast.Name)
                and st.body[0].cause is None
                and ast.unparse(st.test) == f'{ts} not in self._duration'):
            return (f'{pad}if !(tblHas tbl {ts}) then .error (exc "{st.body[0].exc.func.id}") else\n'
                    + stmts(rest, env, ind))
        if (isinstance(st, ast.Assign) and len(st.targets) == 1 and isinstance(st.targets[0], ast.Name)
                and ast.unparse(st.value) == f'utils.time_period(kwargs.pop({arg}))' and st.targets[0].id not in env):
            v = st.targets[0].id
            return (f'{pad}match timePeriod value with\n{pad}| .error e => .error e\n{pad}| .ok {v} =>\n'
                    + stmts(rest, env | {v}, ind + 1))
        if isinstance(st, ast.Pass):
            return stmts(rest, env, ind)
        if (isinstance(st, ast.If) and isinstance(st.test, ast.Compare) and len(st.test.ops) == 1
                and isinstance(st.test.left, ast.Name) and st.test.left.id in env
                and isinstance(st.test.comparators[0], ast.Constant) and st.test.comparators[0].value is None
                and isinstance(st.test.ops[0], (ast.Is, ast.IsNot))):
            v = st.test.left.id
            c = f'!(durIsNone {v})' if isinstance(st.test.ops[0], ast.IsNot) else f'durIsNone {v}'
            inner = stmts(list(st.body) + rest, env, ind + 1)
            return f'{pad}if {c} then\n{inner}\n{pad}else\n' + stmts(list(st.orelse) + rest, env, ind + 1)
        if (isinstance(st, ast.Assign) and len(st.targets) == 1
                and ast.unparse(st.targets[0]) == f'self._duration[{ts}]'):
            if isinstance(st.value, ast.Name) and st.value.id in env:
                return f'{pad}let tbl := tblSet tbl {ts} {st.value.id}\n' + stmts(rest, env, ind)
            if ast.unparse(st.value) == f'utils.time_period(kwargs.pop({arg}))':
                return (f'{pad}match timePeriod value with\n{pad}| .error e => .error e\n{pad}| .ok v0 =>\n'
                        f'{pad}  let tbl := tblSet tbl {ts} v0\n' + stmts(rest, env, ind + 1))
        raise U('statement of the t_ loop: ' + ast.unparse(st)[:80])

    body = stmts(list(loop.body), set(), 3)
    return (
        'def initDuration {Q Dv X Tb : Type} (exc : String → X) (timePeriod : Dv → Except X Dv) (durIsNone : Dv → Bool)\n'
        '    (tblHas : Tb → Q → Bool) (tblSet : Tb → Q → Dv → Tb)\n'
        '    (defaults : Tb) (targs : List (Q × Dv)) : Except X Tb :=\n'
        '  if !targs.isEmpty then\n'
        f'    targs.foldlM (fun (tbl : Tb) (x : Q × Dv) =>\n      match x with\n      | ({ts}, value) =>\n{body}) defaults\n'
        '  else\n    .ok defaults')


def main_fsmtimer(outfile, helpers):
    global H
    H = helpers
    from edzed import fsm
    L = ['/- GENERATED by tools/py2lean_fsmtimer.py from the Python source of edzed (the timer methods of fsm.FSM) '
         '-- do not edit -/', 'import EdzedModel.Gen.TranslatedFsm', '',
         'set_option linter.unusedVariables false', '', 'namespace Edzed.Gen.TrT', 'open Edzed.Gen.TrM', PRELUDE,
         '/-- `x = <pure expression>` -/',
         'def bindv {σ L X R α : Type} (v : σ × L → α) (k : α → Stmt (σ × L) X R) : Stmt (σ × L) X R :=',
         '  fun sl => k (v sl) sl', '']
    done = {}
    try:
        check_targets(fsm)
        targets_ok, err0 = True, None
    except Exception as err:
        targets_ok, err0 = False, err
    for py, lean, ptypes, rtype in METHODS:
        t = dict(name=lean, doc=f'fsm.FSM.{py}')

        def translate(_t, py=py, lean=lean, ptypes=ptypes, rtype=rtype):
            if not targets_ok:
                raise err0
            fn = H.fn_ast(getattr(fsm.FSM, py))
            if not isinstance(fn, ast.FunctionDef):
                raise U('not a plain function')
            text = TrTimer(fn, ptypes, rtype, done).translate(lean, f'fsm.FSM.{py}')
            done[py] = (lean, ptypes)
            return text
        H.emit(L, t, translate, '')
    t = dict(name='initDuration', doc="fsm.FSM.__init__ (the t_STATE statement)")

    def tr_init(_t):
        if not targets_ok:
            raise err0
        return translate_init_duration(H.fn_ast(fsm.FSM.__init__))
    H.emit(L, t, tr_init, '')
    L.append('end Edzed.Gen.TrT')
    H.write_if_changed(outfile, '\n'.join(L) + '\n')
