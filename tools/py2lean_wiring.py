"""
Translator module for the construction / finalisation code of a circuit (C15), called from
tools/py2lean.py: main().  Regenerates lean/EdzedModel/Gen/TranslatedWiring.lean from the CURRENT source of

    block._is_multiple                       isMultiple
    CBlock.connect                           connect
    Circuit.check_not_finalized              checkNotFinalized
    Circuit.set_persistent_data              setPersistentData
    Circuit.addblock                         addblock
    Circuit.finalize                         finalize
    Circuit._finalize (+ inner validate_output)   finalizeInner, validateOutput
    _BlockResolver._check_type / register / resolve     checkType, register, resolve
    Circuit.run_forever (fragment)           startWiring: the calls of the resolver / of finalize() in their order

Every method becomes a program in the monad `W σ` (state σ, exceptions; the state reached so far is KEPT
when an exception propagates -- Python does not roll back).  The statement ORDER, the nesting of `if` /
`for` / `try`, the conditions (`and` / `or` / `not` structure) and which local value flows where come from
the AST.  Declared -- in the tables below, keyed by the source text of a LEAF with the local names replaced
by v0, v1, … in binding order, so that renaming a local changes nothing -- is only

    leaf test / value expression  =  this field of the primitives `WPrims` applied to these locals
    simple statement (call, store, raise)  =  this primitive action

A `for` over a declared iterable is a fold in the order the primitive yields (the `list(...)` SNAPSHOT of
`_finalize` is one read of the state before the loop); a local that the loop body re-binds or extends is
the accumulator of the fold.  A leaf or a statement that is not in the table, any other statement kind
(`try/finally`, `while`, `with`, early `return`, augmented assignment, a comprehension other than the
declared one), extra parameters, decorators: UNTRANSLATABLE -- the definition (and those that call it) is
omitted and the theorems `TrTie.translated_wiring_…` (EdzedProps/C15.lean) stop compiling.

Calls ignored as effect-free for the value computed: `warnings.warn(<constants>)`, `add_note(err, <f-string of
locals>)` (annotates the exception that is re-raised).  Name resolution that is checked here: the module
globals `_is_multiple`, `add_note`; `self.circuit.check_not_finalized` / `self.check_not_finalized` /
`self._finalize` / `self._validate_blk` resolve to the Circuit methods translated here (or in
py2lean_vblk.py); `Circuit.__init__` creates `self._resolver = _BlockResolver(self._validate_blk)` and
`_BlockResolver.__init__` stores that argument as `self._resolve_function`.
"""
import ast
import inspect
import textwrap


class Untranslatable(Exception):
    pass


# ------------------------------------------------------------------------------------------ fixed part

PRELUDE = r'''/-! The fixed part: the monad of the translated programs and the primitives (the leaves that are
    reads / writes of attributes and calls of code translated elsewhere).  The programs below are
    generated from the source. -/

/-- the class name of a raised exception -/
abbrev PyExc := String

/-- a program: from a state to the state reached and a value or the exception that propagates -/
abbrev W (σ α : Type) := σ → σ × Except PyExc α

namespace W
variable {σ α β : Type}

def pure (a : α) : W σ α := fun s => (s, .ok a)
def bind (m : W σ α) (k : α → W σ β) : W σ β := fun s =>
  match m s with
  | (s1, .ok a) => k a s1
  | (s1, .error e) => (s1, .error e)
def raise (e : PyExc) : W σ α := fun s => (s, .error e)
def gets (f : σ → α) : W σ α := fun s => (s, .ok (f s))
def modify (f : σ → σ) : W σ Unit := fun s => (f s, .ok ())

/-- `try: body  except …: handler` -/
def tryExcept (body : W σ α) (handler : PyExc → W σ α) : W σ α := fun s =>
  match body s with
  | (s1, .error e) => handler e s1
  | p => p

/-- `for x in l: body` with the re-bound local `acc`; an exception ends the loop -/
def foldM (l : List α) (acc : β) (f : β → α → W σ β) : W σ β :=
  match l with
  | [] => pure acc
  | x :: r => bind (f acc x) fun acc' => foldM r acc' f

/-- `tuple(f(x) for x in l)` -/
def mapM (l : List α) (f : α → W σ β) : W σ (List β) :=
  match l with
  | [] => pure []
  | x :: r => bind (f x) fun y => bind (mapM r f) fun ys => pure (y :: ys)

end W

/-- the two block classes `_finalize` iterates over -/
inductive BType where
  | cblock      -- `block.CBlock`
  | not         -- `cblocks.Not`
  deriving DecidableEq, Repr

/-- the leaves.  `σ` the circuit (with its blocks and the resolver's registrations), `B` a block of the
    circuit, `A` an argument of `connect()`, `S` what `CBlock.inputs` holds for one input name, `R` one
    (resolved or unresolved) reference, `D` a storage object, `K` a registration of the resolver,
    `T` a required block type -/
structure WPrims (σ B A S R D K T : Type) where
  -- Circuit
  hasError : σ → Bool                          -- `self._error` (None | exception object: true iff set)
  finalized : σ → Bool                         -- `self._finalized`
  setFinalized : Bool → σ → σ                  -- `self._finalized = …`
  setStorage : D → σ → σ                       -- `self.persistent_dict = …`
  isBlockObj : B → Bool                        -- `isinstance(blk, block.Block)`
  nameKnown : σ → B → Bool                     -- `blk.name in self._blocks`
  storeBlock : B → σ → σ                       -- `self._blocks[blk.name] = blk`
  -- CBlock.connect (`blk` = self)
  inputsTruthy : σ → B → Bool                  -- `self.inputs` (a dict: true iff not empty)
  isIterator : A → Bool                        -- `isinstance(arg, Iterator)`
  isStr : A → Bool                             -- `isinstance(arg, str)`
  isSequence : A → Bool                        -- `isinstance(arg, Sequence)`
  storeArgs : List A → S                       -- the tuple `args` as stored
  storeTuple : A → S                           -- `tuple(inp)`
  storeSingle : A → S                          -- `inp` itself
  setInput : B → String → S → σ → σ            -- `blk.inputs[iname] = …`
  -- Circuit._finalize
  snapshot : BType → σ → List B                -- `list(self.getblocks(btype))`
  inputItems : σ → B → List (String × S)       -- `blk.inputs.items()`
  isGroup : S → Bool                           -- `isinstance(inp, tuple)`
  members : S → List R                         -- the members of a group
  single : S → R                               -- a single input
  mkGroup : List R → S                         -- `tuple(…)` of resolved members
  mkSingle : R → S
  validateBlk : R → W σ R                      -- `self._validate_blk(…)` (tools/py2lean_vblk.py)
  isConst : R → Bool                           -- `isinstance(inp, block.Const)`
  addIconn : B → R → σ → σ                     -- `blk.iconnections.add(inp)`
  addOconnByName : R → B → σ → σ               -- `self._blocks[inp.name].oconnections.add(blk)`
  -- _BlockResolver
  getRef : σ → K → R                           -- `getattr(obj, attr)`
  setRef : K → R → σ → σ                       -- `setattr(obj, attr, blk)`
  refIsStr : R → Bool                          -- `isinstance(blk, str)`
  isInstance : σ → R → T → Bool                -- `isinstance(blk, block_type)`
  appendUnresolved : K → σ → σ                 -- `self._unresolved.append((obj, attr, block_type))`
  unresolved : σ → List K                      -- iterating `self._unresolved`
  clearUnresolved : σ → σ                      -- `self._unresolved.clear()`
  typeOf : K → T                               -- the `block_type` of a registration
'''

# ------------------------------------------------------------------------------------------ translator


def binding_order(fn):
    """local names in the order they are first bound (parameters first)"""
    names = []

    def add(n):
        if n not in names and n != 'self':
            names.append(n)

    a = fn.args
    for x in a.posonlyargs + a.args:
        add(x.arg)
    if a.vararg:
        add(a.vararg.arg)
    for x in a.kwonlyargs:
        add(x.arg)
    if a.kwarg:
        add(a.kwarg.arg)

    class V(ast.NodeVisitor):
        def visit_FunctionDef(self, node):
            if node is fn:
                self.generic_visit(node)
            # an inner function has its own scope

        def visit_Name(self, node):
            if isinstance(node.ctx, ast.Store):
                add(node.id)

        def visit_ExceptHandler(self, node):
            if node.name:
                add(node.name)
            self.generic_visit(node)

    V().visit(fn)
    return names


class Renamer(ast.NodeTransformer):
    def __init__(self, mapping):
        self.m = mapping

    def visit_Name(self, node):
        if node.id in self.m:
            return ast.copy_location(ast.Name(id=self.m[node.id], ctx=node.ctx), node)
        return node


def norm(node, mapping):
    import copy
    return ast.unparse(Renamer(mapping).visit(copy.deepcopy(node)))


class Tr:
    """tables (all keyed by normalised source):
       tests   leaf condition -> Lean Bool term (may use `s_`, the current state, and locals)
       stmts   simple statement -> ('do', term : W σ Unit) | ('bind', local, term : W σ X) | ('let', local, pure term)
               | ('raise', exc) | ('return',) | ('skip',)
       iters   iterable of a `for` -> (term : W σ (List X), pattern of the loop variable(s))"""

    def __init__(self, fn, tests, stmts, iters, extra_locals=()):
        self.fn = fn
        order = list(extra_locals) + [n for n in binding_order(fn) if n not in extra_locals]
        self.map = {n: f'v{i}' for i, n in enumerate(order)}
        self.tests, self.stmts, self.iters = tests, stmts, iters
        self.handler_exc = None

    def n(self, node):
        return norm(node, self.map)

    def test(self, node):
        if isinstance(node, ast.UnaryOp) and isinstance(node.op, ast.Not):
            return f'!({self.test(node.operand)})'
        if isinstance(node, ast.BoolOp):
            op = ' && ' if isinstance(node.op, ast.And) else ' || '
            return '(' + op.join(self.test(v) for v in node.values) + ')'
        src = self.n(node)
        if src in self.tests:
            return self.tests[src]
        raise Untranslatable(f'condition `{src}`')

    @staticmethod
    def assigned(stmts):
        out = []
        for s in stmts:
            for node in ast.walk(s):
                if isinstance(node, ast.Name) and isinstance(node.ctx, ast.Store):
                    out.append(node.id)
                if isinstance(node, ast.Call) and isinstance(node.func, ast.Attribute) \
                        and node.func.attr in ('append', 'extend') and isinstance(node.func.value, ast.Name):
                    out.append(node.func.value.id)
        return out

    def block(self, stmts, tail, ind, bound):
        """statements, then `tail` (a Lean term of type W σ _); `bound`: locals bound so far"""
        pad = '  ' * ind
        if not stmts:
            return pad + tail
        s, rest = stmts[0], stmts[1:]
        if isinstance(s, ast.Expr) and isinstance(s.value, ast.Constant) and isinstance(s.value.value, str):
            return self.block(rest, tail, ind, bound)
        if isinstance(s, ast.FunctionDef):
            return self.block(rest, tail, ind, bound)         # inner function: translated separately
        if isinstance(s, ast.If) and isinstance(s.test, ast.NamedExpr):
            # `if (x := e):`  ==  `x = e` followed by `if x:`
            first = ast.Assign(targets=[ast.Name(id=s.test.target.id, ctx=ast.Store())], value=s.test.value,
                               lineno=s.lineno, col_offset=s.col_offset)
            second = ast.If(test=ast.Name(id=s.test.target.id, ctx=ast.Load()), body=s.body, orelse=s.orelse)
            return self.block([first, second] + rest, tail, ind, bound)
        if isinstance(s, ast.If):
            c = self.test(s.test)
            return (f'{pad}W.bind (W.gets fun s_ => {c}) fun (c_ : Bool) =>\n{pad}if c_ then\n'
                    f'{self.block(list(s.body) + rest, tail, ind + 1, bound)}\n{pad}else\n'
                    f'{self.block(list(s.orelse) + rest, tail, ind + 1, bound)}')
        if isinstance(s, ast.For):
            if s.orelse:
                raise Untranslatable('for … else')
            src = self.n(s.iter)
            if src not in self.iters:
                raise Untranslatable(f'iteration over `{src}`')
            term = self.iters[src]
            var = self.n(s.target)
            if isinstance(s.target, ast.Tuple):
                var = '(' + ', '.join(self.n(e) for e in s.target.elts) + ')'
            loopvars = {x.id for x in ast.walk(s.target) if isinstance(x, ast.Name)}
            accs = [a for a in dict.fromkeys(self.assigned(s.body)) if a in bound and a not in loopvars]
            if len(accs) > 1:
                raise Untranslatable(f'loop with several re-bound locals {accs}')
            bound2 = bound | loopvars
            if accs:
                acc = self.map[accs[0]]
                body = self.block(list(s.body), f'W.pure {acc}', ind + 2, bound2)
                return (f'{pad}W.bind (W.bind ({term}) fun l_ =>\n{pad}  W.foldM l_ {acc} fun {acc} {var} =>\n{body}'
                        f') fun {acc} =>\n{self.block(rest, tail, ind, bound)}')
            body = self.block(list(s.body), 'W.pure ()', ind + 2, bound2)
            return (f'{pad}W.bind (W.bind ({term}) fun l_ =>\n{pad}  W.foldM l_ () fun _ {var} =>\n{body}'
                    f') fun _ =>\n{self.block(rest, tail, ind, bound)}')
        if isinstance(s, ast.Try):
            if s.finalbody or s.orelse or len(s.handlers) != 1:
                raise Untranslatable('try statement with finally / else / several handlers')
            h = s.handlers[0]
            if h.type is None or ast.unparse(h.type) != 'Exception':
                raise Untranslatable('handler type ' + (ast.unparse(h.type) if h.type else 'bare'))
            if rest:
                raise Untranslatable('statements after try')
            self.handler_exc = 'e_'
            hb = self.block(list(h.body), 'W.pure ()', ind + 2, bound | ({h.name} if h.name else set()))
            self.handler_exc = None
            if 'W.raise e_' not in hb:
                raise Untranslatable('handler that swallows the exception')
            return (f'{pad}W.tryExcept (\n{self.block(list(s.body), tail, ind + 1, bound)}\n{pad}) fun (e_ : PyExc) =>\n'
                    f'{pad}  if e_ ∈ ["KeyboardInterrupt", "SystemExit", "GeneratorExit", "CancelledError"] then W.raise e_ else\n{hb}')
        if isinstance(s, ast.Raise) and s.exc is None:
            if self.handler_exc is None:
                raise Untranslatable('bare raise outside a handler')
            return pad + f'W.raise {self.handler_exc}'
        src = self.n(s)
        if src not in self.stmts:
            raise Untranslatable(f'statement `{src}`')
        spec = self.stmts[src]
        if spec[0] == 'skip':
            return self.block(rest, tail, ind, bound)
        if spec[0] == 'raise':
            return pad + f'W.raise "{spec[1]}"'
        if spec[0] == 'raisex':                              # an exception with a payload (a Lean term)
            return pad + f'W.raise ({spec[1]})'
        if spec[0] == 'return':
            # statements after a `return` of the same list are unreachable (they follow an `if` whose
            # branch returned); a `return` that is not the end of the function body needs an explicit value
            if rest and len(spec) == 1:
                raise Untranslatable('return before the end')
            return pad + (spec[1] if len(spec) > 1 else tail)
        if spec[0] == 'do':
            return f'{pad}W.bind ({spec[1]}) fun _ =>\n{self.block(rest, tail, ind, bound)}'
        if spec[0] in ('bind', 'let'):
            local = [k for k, v in self.map.items() if v == spec[1]]
            term = spec[2] if spec[0] == 'bind' else f'W.pure ({spec[2]})'
            return (f'{pad}W.bind ({term}) fun {spec[1]} =>\n'
                    f'{self.block(rest, tail, ind, bound | set(local))}')
        raise Untranslatable(f'table entry {spec}')


def fn_node(obj):
    tree = ast.parse(textwrap.dedent(inspect.getsource(obj)))
    fn = tree.body[0]
    if not isinstance(fn, ast.FunctionDef):
        raise Untranslatable(f'{obj}: not a plain function')
    return fn


def check_plain(fn, params, decorators=()):
    got = [a.arg for a in fn.args.args]
    if fn.args.vararg:
        got.append('*' + fn.args.vararg.arg)
    if fn.args.kwarg:
        got.append('**' + fn.args.kwarg.arg)
    if got != params or fn.args.kwonlyargs or fn.args.posonlyargs:
        raise Untranslatable(f'{fn.name}: parameters {got}, expected {params}')
    if fn.args.defaults and fn.name != 'register':
        raise Untranslatable(f'{fn.name}: defaults')
    decs = [ast.unparse(d) for d in fn.decorator_list]
    if decs != list(decorators):
        raise Untranslatable(f'{fn.name}: decorators {decs}')


PARAMS = '{σ B A S R D K T : Type} (P : WPrims σ B A S R D K T)'

# ------------------------------------------------------------------------------------------ targets


def t_is_multiple():
    from edzed import block
    import collections.abc
    g = block._is_multiple.__globals__
    if g.get('Iterator') is not collections.abc.Iterator or g.get('Sequence') is not collections.abc.Sequence:
        raise Untranslatable('Iterator / Sequence are not the collections.abc classes')
    fn = fn_node(block._is_multiple)
    check_plain(fn, ['arg'])
    # value translation: if <test>: <ignored warn>; return True  /  return <bool expr>
    tr = Tr(fn, tests={'isinstance(v0, Iterator)': 'P.isIterator v0', 'isinstance(v0, str)': 'P.isStr v0',
                       'isinstance(v0, Sequence)': 'P.isSequence v0'}, stmts={}, iters={})

    def value(stmts):
        if not stmts:
            raise Untranslatable('_is_multiple: a path without return')
        s, rest = stmts[0], stmts[1:]
        if isinstance(s, ast.Expr) and isinstance(s.value, ast.Constant):
            return value(rest)
        if isinstance(s, ast.Expr) and isinstance(s.value, ast.Call) \
                and ast.unparse(s.value.func) == 'warnings.warn' \
                and all(isinstance(x, (ast.Constant, ast.Name, ast.BinOp)) for x in s.value.args) \
                and all(isinstance(k.value, ast.Constant) for k in s.value.keywords):
            return value(rest)
        if isinstance(s, ast.If):
            return f'(if {tr.test(s.test)} then {value(list(s.body) + rest)} else {value(list(s.orelse) + rest)})'
        if isinstance(s, ast.Return):
            if isinstance(s.value, ast.Constant) and isinstance(s.value.value, bool):
                return 'true' if s.value.value else 'false'
            return tr.test(s.value)
        raise Untranslatable('_is_multiple: statement ' + ast.unparse(s)[:60])

    return ('_is_multiple', f'def isMultiple {PARAMS} (v0 : A) : Bool :=\n  {value(fn.body)}')


def t_check_not_finalized():
    from edzed import simulator
    fn = fn_node(simulator.Circuit.check_not_finalized)
    check_plain(fn, ['self'])
    tr = Tr(fn, tests={'self._error': 'P.hasError s_', 'self._finalized': 'P.finalized s_'},
            stmts={"raise EdzedInvalidState('The circuit was shut down')": ('raise', 'EdzedInvalidState'),
                   "raise EdzedInvalidState('Not allowed in a finalized circuit')": ('raise', 'EdzedInvalidState')},
            iters={})
    # any message is fine: match the raise by its exception class
    for s in ast.walk(fn):
        if isinstance(s, ast.Raise) and isinstance(s.exc, ast.Call) and ast.unparse(s.exc.func) == 'EdzedInvalidState':
            tr.stmts[tr.n(s)] = ('raise', 'EdzedInvalidState')
    return ('Circuit.check_not_finalized',
            f'def checkNotFinalized {PARAMS} : W σ Unit :=\n' + tr.block(fn.body, 'W.pure ()', 1, set()))


def raises(tr, fn, classes):
    for s in ast.walk(fn):
        if isinstance(s, ast.Raise) and isinstance(s.exc, ast.Call) and ast.unparse(s.exc.func) in classes \
                and s.cause is None:
            tr.stmts[tr.n(s)] = ('raise', ast.unparse(s.exc.func))


def t_set_persistent_data():
    from edzed import simulator
    fn = fn_node(simulator.Circuit.set_persistent_data)
    check_plain(fn, ['self', 'persistent_dict'])
    tr = Tr(fn, tests={}, iters={}, stmts={
        'self.check_not_finalized()': ('do', 'checkNotFinalized P'),
        'self.persistent_dict = v0': ('do', 'W.modify (P.setStorage v0)')})
    return ('Circuit.set_persistent_data',
            f'def setPersistentData {PARAMS} (v0 : D) : W σ Unit :=\n' + tr.block(fn.body, 'W.pure ()', 1, {'persistent_dict'}))


def t_addblock():
    from edzed import simulator
    fn = fn_node(simulator.Circuit.addblock)
    check_plain(fn, ['self', 'blk'])
    tr = Tr(fn, tests={'isinstance(v0, block.Block)': 'P.isBlockObj v0', 'v0.name in self._blocks': 'P.nameKnown s_ v0'},
            iters={}, stmts={'self.check_not_finalized()': ('do', 'checkNotFinalized P'),
                             'self._blocks[v0.name] = v0': ('do', 'W.modify (P.storeBlock v0)')})
    raises(tr, fn, ('TypeError', 'ValueError'))
    return ('Circuit.addblock', f'def addblock {PARAMS} (v0 : B) : W σ Unit :=\n' + tr.block(fn.body, 'W.pure ()', 1, {'blk'}))


def t_connect():
    from edzed import block, simulator
    if block.CBlock.connect.__globals__.get('_is_multiple') is not block._is_multiple:
        raise Untranslatable('connect: _is_multiple is not block._is_multiple')
    fn = fn_node(block.CBlock.connect)
    check_plain(fn, ['self', '*args', '**kwargs'])
    # `self.circuit` is the Circuit the block registered with (Block.__init__)
    tr = Tr(fn, tests={'self.inputs': 'P.inputsTruthy s_ self_', 'v0': '!(List.isEmpty v0)', 'v1': '!(List.isEmpty v1)',
                       "'_' in v1": 'v1.any (fun p_ => p_.1 == "_")', '_is_multiple(v2)': 'isMultiple P v2'},
            iters={'v0': 'W.pure v0', 'v1.items()': 'W.pure v1'},
            stmts={'self.circuit.check_not_finalized()': ('do', 'checkNotFinalized P'),
                   "self.inputs['_'] = v0": ('do', 'W.modify (P.setInput self_ "_" (P.storeArgs v0))'),
                   'self.inputs[v3] = tuple(v2) if _is_multiple(v2) else v2':
                       ('do', 'W.modify (P.setInput self_ v3 (if isMultiple P v2 then P.storeTuple v2 else P.storeSingle v2))'),
                   'return self': ('return',)})
    raises(tr, fn, ('EdzedInvalidState', 'ValueError'))
    return ('CBlock.connect', f'def connect {PARAMS} (self_ : B) (v0 : List A) (v1 : List (String × A)) : W σ Unit :=\n'
            + tr.block(fn.body, 'W.pure ()', 1, {'args', 'kwargs'}))


def t_finalize_inner():
    from edzed import simulator
    fn = fn_node(simulator.Circuit._finalize)
    check_plain(fn, ['self'])
    inner = [s for s in fn.body if isinstance(s, ast.FunctionDef)]
    if len(inner) != 1 or inner[0].name != 'validate_output':
        raise Untranslatable('_finalize: inner functions ' + str([f.name for f in inner]))
    vo = inner[0]
    check_plain(vo, ['iblk', 'oblk'])
    if simulator.Circuit._finalize.__globals__.get('add_note') is None:
        raise Untranslatable('add_note is not a module global')
    trv = Tr(vo, tests={}, iters={}, stmts={
        'return self._validate_blk(v1)': ('return', 'P.validateBlk v1'),
        "add_note(v2, f'failed connection: {v1} --> {v0}')": ('skip',)})
    text_vo = (f'def validateOutput {PARAMS} (v0 : B) (v1 : R) : W σ R :=\n'
               + trv.block(vo.body, 'W.pure v1', 1, {'iblk', 'oblk'}))
    tr = Tr(fn, tests={}, iters={}, stmts={})
    # the locals by ROLE, in binding order (their names do not matter):
    # v0 the class, v1 the block, v2 the list of resolved inputs, v3 / v4 name and value of an input (v4 also
    # the member of that list in the last loop), v5 the resolved group, v6 its member, v7 the resolved single input
    if len(tr.map) != 8:
        raise Untranslatable(f'_finalize: {len(tr.map)} locals, expected 8')
    b, blk, al, iname, inp, ng, gv, ni = (f'v{i}' for i in range(8))
    tr.tests = {f'isinstance({inp}, tuple)': f'P.isGroup {inp}',
                f'isinstance({inp}, block.Const)': f'P.isConst {inp}'}
    tr.iters = {'(block.CBlock, cblocks.Not)': 'W.pure [BType.cblock, BType.not]',
                f'list(self.getblocks({b}))': f'W.gets fun s_ => P.snapshot {b} s_',
                f'{blk}.inputs.items()': f'W.gets fun s_ => P.inputItems s_ {blk}',
                al: f'W.pure {al}'}
    tr.stmts = {
        f'{al}: list[block.Block | block.Const] = []': ('let', al, '([] : List R)'),
        f'{al} = []': ('let', al, '([] : List R)'),
        f'{ng} = tuple((validate_output({blk}, {gv}) for {gv} in {inp}))':
            ('bind', ng, f'W.mapM (P.members {inp}) fun {gv} => validateOutput P {blk} {gv}'),
        f'{al}.extend({ng})': ('let', al, f'{al} ++ {ng}'),
        f'{blk}.inputs[{iname}] = {ng}': ('do', f'W.modify (P.setInput {blk} {iname} (P.mkGroup {ng}))'),
        f'{ni} = validate_output({blk}, {inp})': ('bind', ni, f'validateOutput P {blk} (P.single {inp})'),
        f'{al}.append({ni})': ('let', al, f'{al} ++ [{ni}]'),
        f'{blk}.inputs[{iname}] = {ni}': ('do', f'W.modify (P.setInput {blk} {iname} (P.mkSingle {ni}))'),
        f'{blk}.iconnections.add({inp})': ('do', f'W.modify (P.addIconn {blk} {inp})'),
        f'self._blocks[{inp}.name].oconnections.add({blk})': ('do', f'W.modify (P.addOconnByName {inp} {blk})'),
    }
    text = f'def finalizeInner {PARAMS} : W σ Unit :=\n' + tr.block(fn.body, 'W.pure ()', 1, set())
    return [('Circuit._finalize.<locals>.validate_output', text_vo), ('Circuit._finalize', text)]


def t_resolver():
    from edzed import simulator
    R = simulator._BlockResolver
    # the wiring of the resolver: Circuit.__init__ passes self._validate_blk, __init__ stores it
    src = inspect.getsource(simulator.Circuit.__init__)
    if '_BlockResolver(self._validate_blk)' not in src.replace(' ', ''):
        raise Untranslatable('Circuit.__init__ does not create _BlockResolver(self._validate_blk)')
    init = fn_node(R.__init__)
    if not any(ast.unparse(s).replace(' ', '') == 'self._resolve_function=resolve_function' for s in init.body):
        raise Untranslatable('_BlockResolver.__init__ does not store resolve_function')
    out = []
    tri = Tr(init, tests={}, iters={}, stmts={
        'self._unresolved: list[tuple[Any, str, type[block.Block]]] = []': ('do', 'W.modify P.clearUnresolved'),
        'self._unresolved = []': ('do', 'W.modify P.clearUnresolved'),
        'self._resolve_function = v0': ('skip',)})          # checked above: it is `Circuit._validate_blk`
    out.append(('_BlockResolver.__init__',
                f'def resolverInit {PARAMS} : W σ Unit :=\n' + tri.block(init.body, 'W.pure ()', 1, {'resolve_function'})))
    ct = fn_node(R._check_type)
    check_plain(ct, ['obj', 'attr', 'blk', 'block_type'], decorators=['staticmethod'])
    tr = Tr(ct, tests={'isinstance(v2, v3)': 'P.isInstance s_ v2 v3'}, iters={}, stmts={})
    raises(tr, ct, ('TypeError',))
    out.append(('_BlockResolver._check_type',
                f'def checkType {PARAMS} (v2 : R) (v3 : T) : W σ Unit :=\n' + tr.block(ct.body, 'W.pure ()', 1, set())))
    rg = fn_node(R.register)
    check_plain(rg, ['self', 'obj', 'attr', 'block_type'])
    tr = Tr(rg, tests={'isinstance(v3, str)': 'P.refIsStr v3'}, iters={}, stmts={
        'v3 = getattr(v0, v1)': ('bind', 'v3', 'W.gets fun s_ => P.getRef s_ k_'),
        'self._unresolved.append((v0, v1, v2))': ('do', 'W.modify (P.appendUnresolved k_)'),
        'self._check_type(v0, v1, v3, v2)': ('do', 'checkType P v3 (P.typeOf k_)')})
    out.append(('_BlockResolver.register',
                f'def register {PARAMS} (k_ : K) : W σ Unit :=\n' + tr.block(rg.body, 'W.pure ()', 1, set())))
    rs = fn_node(R.resolve)
    check_plain(rs, ['self'])
    tr = Tr(rs, tests={}, iters={'self._unresolved': 'W.gets fun s_ => P.unresolved s_'}, stmts={
        'v3 = self._resolve_function(getattr(v0, v1))':
            ('bind', 'v3', 'W.bind (W.gets fun s_ => P.getRef s_ k_) fun r_ => P.validateBlk r_'),
        'self._check_type(v0, v1, v3, v2)': ('do', 'checkType P v3 (P.typeOf k_)'),
        'setattr(v0, v1, v3)': ('do', 'W.modify (P.setRef k_ v3)'),
        'self._unresolved.clear()': ('do', 'W.modify P.clearUnresolved')})
    text = tr.block(rs.body, 'W.pure ()', 1, set()).replace('fun _ (v0, v1, v2) =>', 'fun _ k_ =>')
    out.append(('_BlockResolver.resolve', f'def resolve {PARAMS} : W σ Unit :=\n' + text))
    return out


def t_finalize():
    from edzed import simulator
    fn = fn_node(simulator.Circuit.finalize)
    check_plain(fn, ['self'])
    tr = Tr(fn, tests={'self._finalized': 'P.finalized s_'}, iters={}, stmts={
        'self._resolver.resolve()': ('do', 'resolve P'),
        'self._finalize()': ('do', 'finalizeInner P'),
        'self._finalized = True': ('do', 'W.modify (P.setFinalized true)')})
    return ('Circuit.finalize', f'def finalize {PARAMS} : W σ Unit :=\n' + tr.block(fn.body, 'W.pure ()', 1, set()))


def t_start_wiring():
    """the fragment of `run_forever` that completes the wiring: the maximal run of consecutive statements
    around `self.finalize()` that are calls of the resolver / of finalize, in their order"""
    from edzed import simulator
    tree = ast.parse(textwrap.dedent(inspect.getsource(simulator.Circuit.run_forever)))
    table = {'self._resolver.resolve()': 'resolve P', 'self.finalize()': 'finalize P'}
    found = []
    for node in ast.walk(tree):
        for field in ('body', 'orelse', 'finalbody'):
            lst = getattr(node, field, None)
            if not isinstance(lst, list):
                continue
            srcs = [ast.unparse(x) if isinstance(x, ast.stmt) else '' for x in lst]
            for i, src in enumerate(srcs):
                if src == 'self.finalize()':
                    a = i
                    while a > 0 and srcs[a - 1] in table:
                        a -= 1
                    b = i
                    while b + 1 < len(srcs) and srcs[b + 1] in table:
                        b += 1
                    found.append(srcs[a:b + 1])
    if len(found) != 1:
        raise Untranslatable(f'run_forever: {len(found)} places call self.finalize()')
    body = ''.join(f'  W.bind ({table[x]}) fun _ =>\n' for x in found[0]) + '  W.pure ()'
    return ('Circuit.run_forever (the statements completing the wiring)',
            f'def startWiring {PARAMS} : W σ Unit :=\n' + body)


TARGETS = [t_is_multiple, t_check_not_finalized, t_set_persistent_data, t_addblock, t_connect,
           t_finalize_inner, t_resolver, t_finalize, t_start_wiring]


def main_wiring(outfile, write_if_changed):
    L = ['/- GENERATED by tools/py2lean_wiring.py (via tools/py2lean.py) from the Python source of edzed -- do not edit -/',
         '', 'set_option linter.unusedVariables false', '', 'namespace Edzed.Gen.TrW', '', PRELUDE]
    for t in TARGETS:
        try:
            res = t()
            for doc, text in (res if isinstance(res, list) else [res]):
                L.append(f'/-- translated from `{doc}`: the statements in program order -/')
                L.append(text)
                L.append('')
        except Exception as err:
            msg = ' '.join(str(err).split())[:200]
            L.append(f'-- UNTRANSLATABLE `{t.__name__[2:]}`: definition omitted ({msg})')
            L.append('')
            print(f'UNTRANSLATABLE wiring {t.__name__[2:]}: {msg}')
    L += ['end Edzed.Gen.TrW']
    write_if_changed(outfile, '\n'.join(L) + '\n')
