"""
Translator for the heart of the FSM: `FSM._ctx_event` (edzed/fsm.py)  ->  lean/EdzedModel/Gen/TranslatedFsm.lean

Called from tools/py2lean.py (same conventions: a method outside the supported subset is OMITTED with an
`UNTRANSLATABLE` comment, so that exactly the theorems mentioning it stop compiling).

Scheme "control flow over primitives".  The method's body becomes a Lean program of type
`Stmt (σ × Loc) X Bool` built from a dozen combinators (sequence, condition, effectful call, assignment,
return, raise, try/finally, `for … in range(n)` with `else:`, break/continue, `with`).  Everything the method
CALLS or LOOKS UP is a field of the structure `FsmPrims σ E D Q TE V I X` -- the translation fixes only the
mapping "this call path / attribute = this primitive"; the ORDER of the statements, the CONDITIONS, the early
returns and their values, the raises, `try … finally`, the loop with `continue` / `break` / `else:` and the
arguments handed to the primitives all come from the AST of the current source.

σ  block state          E  event type          D  event data        Q  state name
TE timed event          V  output value        I  'duration' item   X  exception

Local variables: a variable with a type annotation (or a parameter) lives in the generated record `Loc`
(fields v0, v1, … in order of first appearance -- renaming a variable does not change the output); a variable
bound by `NAME = <effectful call>` or by `try: NAME = D[k] … else:` is a λ-bound variable of the rest.

Discrimination rules (audit): two Python expressions that differ on a value that can reach them never get the
same Lean term.  `_state` (a name or UNDEF, type SQ) and Optional[str] (type OQ) are distinct types: `is None`
only on OQ / `_next_event`, `is block.UNDEF` only on SQ / the output value, `==` between them is exact; truth
values only of bools and of `_next_event` (None or a 3-tuple); `x in self._ct_events` only after
`isinstance(x, str)` in the same and/or chain (hashing an arbitrary event type may raise); no ordering
comparisons, `len`, other containers, `except` other than KeyError, `raise … from`, augmented or multiple
assignment, effects under `or`; the arguments of ignored calls (logging, exception messages, assert messages)
must be effect-free expressions; `check_call_path` verifies that the translated method is the code that runs.

Supported statements (anything else: Untranslatable):
  docstring, `self.log_*(…)`, bare annotation               -> nothing
  NAME = <pure expr> | a, b, c = self._next_event | NAME = <effectful call>
  self._state = … | self._next_event = (…)/None | self._fsm_event_active = True/False
  <procedure primitive>(args)                                (see PROCS)
  if / elif / else, with `isinstance(NAME, Goto)` narrowing and `[A and] [not] all(self._run_cb('cond', e))`
  assert T[, msg] | raise Exc(…) | return <bool expr> | pass | break | continue
  try: NAME = <dict>[key]  except KeyError: …  [else: …]    (dicts: _ct_transition, _ct_timed_event)
  try: …  finally: …
  for _ in range(N): …  [else: …]
  for NAME in self._on_notrans: NAME.send(self, trigger='notrans', event=…, state=…)
  with self._enable_event: …
"""
import ast

H = None        # helpers of py2lean (Untranslatable, node_path, fn_ast, emit, write_if_changed)


def U(msg):
    return H.Untranslatable(msg)


LEAN_T = {'E': 'E', 'D': 'D', 'Q': 'Q', 'OQ': 'Option Q', 'SQ': 'Option Q', 'TE': 'TE', 'V': 'V', 'I': 'I', 'B': 'Bool',
          'N': 'Nat', 'ONX': 'Option (E × D × Option Q)'}

# annotation text -> type
ANNOT = {'Mapping': 'D', 'Optional[str]': 'OQ', 'str | block.EventType': 'E', 'str|block.EventType': 'E',
         'bool': 'B'}

# procedure primitives: call path -> (primitive, [argument types]); a string literal argument is passed on
PROCS = {
    'fsm_event_data.set': ('setEventData', ['D']),
    'self._check_state': ('checkState', ['OQ']),
    'self._stop_timer': ('stopTimer', []),
    'self._start_timer': ('startTimer', ['I', 'TE']),
    'self.set_output': ('setOutput', ['V']),
}
# `self._run_cb(<literal>, x)` / `self._send_events(<literal>)`
RUN_CB = {'exit': ('runCbExit', 'OQ'), 'enter': ('runCbEnter', 'OQ')}
SEND_EVENTS = ('on_exit', 'on_enter')

PRELUDE = r'''
/-- how a statement ends -/
inductive Flow (X R : Type) where
  | next                -- falls through to the following statement
  | brk                 -- `break`
  | cont                -- `continue`
  | ret (r : R)         -- `return r`
  | raise (x : X)       -- an exception propagates
  deriving Repr

abbrev Stmt (S X R : Type) := S → S × Flow X R

/-- an effectful primitive: new state and value or exception -/
abbrev Eff (σ X α : Type) := σ → σ × Except X α

variable {σ L X R α : Type}

def skip : Stmt (σ × L) X R := fun sl => (sl, .next)

/-- `a; b` -/
def seq (a b : Stmt (σ × L) X R) : Stmt (σ × L) X R := fun sl =>
  match a sl with
  | (sl1, .next) => b sl1
  | r => r

/-- `if c: a else: b` -/
def branch (c : σ × L → Bool) (a b : Stmt (σ × L) X R) : Stmt (σ × L) X R := fun sl =>
  if c sl then a sl else b sl

/-- a call of an effectful primitive; its value is handed to the rest, its exception propagates -/
def call (f : σ × L → Eff σ X α) (k : α → Stmt (σ × L) X R) : Stmt (σ × L) X R := fun sl =>
  match f sl sl.1 with
  | (s1, .ok a) => k a (s1, sl.2)
  | (s1, .error x) => ((s1, sl.2), .raise x)

/-- an assignment to an attribute of the block -/
def upd (f : σ × L → σ) : Stmt (σ × L) X R := fun sl => ((f sl, sl.2), .next)

/-- an assignment to local variables -/
def assign (f : σ × L → L) : Stmt (σ × L) X R := fun sl => ((sl.1, f sl), .next)

def ret (v : σ × L → R) : Stmt (σ × L) X R := fun sl => (sl, .ret (v sl))
def raise (x : X) : Stmt (σ × L) X R := fun sl => (sl, .raise x)
def brk : Stmt (σ × L) X R := fun sl => (sl, .brk)
def cont : Stmt (σ × L) X R := fun sl => (sl, .cont)

/-- a lookup that may fail / a narrowing test: `none_` when there is nothing, else `some_ value` -/
def matchOpt (o : σ × L → Option α) (none_ : Stmt (σ × L) X R) (some_ : α → Stmt (σ × L) X R) :
    Stmt (σ × L) X R := fun sl =>
  match o sl with
  | none => none_ sl
  | some a => some_ a sl

/-- `try: body finally: fin` -- `fin` runs however `body` ends; what it raises/returns itself wins -/
def tryFinally (body fin : Stmt (σ × L) X R) : Stmt (σ × L) X R := fun sl =>
  match body sl with
  | (sl1, f) =>
    match fin sl1 with
    | (sl2, .next) => (sl2, f)
    | r => r

/-- `for _ in range(n): body else: orelse` -/
def forRange (body orelse : Stmt (σ × L) X R) : Nat → Stmt (σ × L) X R
  | 0 => orelse
  | n + 1 => fun sl =>
    match body sl with
    | (sl1, .next) => forRange body orelse n sl1
    | (sl1, .cont) => forRange body orelse n sl1
    | (sl1, .brk) => (sl1, .next)
    | r => r

def forN (n : σ × L → Nat) (body orelse : Stmt (σ × L) X R) : Stmt (σ × L) X R := fun sl =>
  forRange body orelse (n sl) sl

/-- everything `FSM._ctx_event` calls, reads or writes -/
structure FsmPrims (σ E D Q TE V I X : Type) where
  /-- the exception object of a `raise <Name>(…)` / a failed `assert` -/
  exc : String → X
  /-- `isinstance(etype, Goto)` and then `etype.state` -/
  asGoto : E → Option Q
  /-- `isinstance(etype, str)` -/
  isStr : E → Bool
  /-- `etype in self._ct_events` -/
  isEvent : σ → E → Bool
  /-- `isinstance(data, MutableMapping)` -/
  isMutableMapping : D → Bool
  /-- `types.MappingProxyType(data)` -/
  readOnly : D → D
  /-- `data.get(<key>)` -/
  dataGet : D → String → I
  /-- `output is block.UNDEF` -/
  isUndef : V → Bool
  /-- `self._state` (`none` = UNDEF) -/
  getState : σ → Option Q
  /-- `self._state = …` -/
  setState : Option Q → σ → σ
  /-- `self._next_event` -/
  getNext : σ → Option (E × D × Option Q)
  /-- `self._next_event = …` -/
  setNext : Option (E × D × Option Q) → σ → σ
  /-- `self._fsm_event_active` -/
  getActive : σ → Bool
  /-- `self._fsm_event_active = …` -/
  setActive : Bool → σ → σ
  /-- `self.is_initialized()` -/
  isInitialized : σ → Bool
  /-- `self._ct_chainlimit` -/
  chainLimit : σ → Nat
  /-- `self._ct_transition` at the key `(etype, state-or-None)`: `none` = KeyError,
      `some none` = the stored target is None -/
  transition : σ → E → Option Q → Option (Option Q)
  /-- `self._ct_timed_event` at the key `state`: `none` = KeyError -/
  timedEvent : σ → Option Q → Option TE
  /-- `fsm_event_data.set(…)` -/
  setEventData : D → Eff σ X Unit
  /-- `self._check_state(state)` -/
  checkState : Option Q → Eff σ X Unit
  /-- `all(self._run_cb('cond', etype))` -/
  runCond : E → Eff σ X Bool
  /-- `self._run_cb('exit', state)` -/
  runCbExit : Option Q → Eff σ X Unit
  /-- `self._run_cb('enter', state)` -/
  runCbEnter : Option Q → Eff σ X Unit
  /-- `self._send_events('on_exit' | 'on_enter')` -/
  sendEvents : String → Eff σ X Unit
  /-- `for event in self._on_notrans: event.send(self, trigger='notrans', event=…, state=…)` -/
  sendNotrans : E → Option Q → Eff σ X Unit
  /-- `self._stop_timer()` -/
  stopTimer : Eff σ X Unit
  /-- `self._start_timer(duration, timed_event)` -/
  startTimer : I → TE → Eff σ X Unit
  /-- `self.calc_output()` -/
  calcOutput : Eff σ X V
  /-- `self.set_output(value)` -/
  setOutput : V → Eff σ X Unit
  /-- `self._enable_event.__enter__()` / `.__exit__()` -/
  enableEvent : Bool → σ → σ
'''


class TrFsm:
    def __init__(self, fn):
        self.fn = fn
        self.fields = []            # [(python name, lean field, type)]
        self.nvar = 0
        self.aux = []               # auxiliary definitions (bodies of loops and try blocks), in order
        self.collect_record_locals()

    # ---- locals -------------------------------------------------------------------
    def annot_type(self, node):
        txt = ast.unparse(node)
        if txt in ANNOT:
            return ANNOT[txt]
        raise U(f'annotation {txt!r}')

    def collect_record_locals(self):
        args = self.fn.args
        if (args.vararg or args.kwarg or args.kwonlyargs or args.defaults
                or [a.arg for a in args.args][:1] != ['self'] or len(args.args) != 3):
            raise U('signature of _ctx_event')
        for a in args.args[1:]:
            if a.annotation is None:
                raise U(f'parameter {a.arg} without annotation')
            self.fields.append((a.arg, f'v{len(self.fields)}', self.annot_type(a.annotation)))
        self.params = [f[0] for f in self.fields]
        if [f[2] for f in self.fields] != ['E', 'D']:
            raise U('parameter types')
        for node in ast.walk(self.fn):
            if isinstance(node, ast.AnnAssign):
                if node.value is not None or not isinstance(node.target, ast.Name):
                    raise U('annotated assignment ' + ast.unparse(node))
                if node.target.id not in [f[0] for f in self.fields]:
                    self.fields.append((node.target.id, f'v{len(self.fields)}', self.annot_type(node.annotation)))

    def field(self, name):
        for f in self.fields:
            if f[0] == name:
                return f
        return None

    def init_loc(self):
        out = []
        for name, lean, ty in self.fields:
            if name in self.params:
                v = name
            elif ty == 'OQ':
                v = 'none'
            elif ty == 'D':
                v = self.params[1]          # placeholder, never read before it is assigned (checked)
            elif ty == 'E':
                v = self.params[0]
            elif ty == 'B':
                v = 'false'
            else:
                raise U(f'no initial value for a local of type {ty}')
            out.append(f'{lean} := {v}')
        return '{ ' + ', '.join(out) + ' }'

    def fresh(self, prefix='x'):
        self.nvar += 1
        return f'{prefix}{self.nvar - 1}'

    # ---- expressions (pure) -------------------------------------------------------
    # env: {'defined': set of record locals assigned so far, 'vars': {python name or path: (lean, type)}}
    def path(self, node):
        try:
            return H.node_path(node)
        except Exception:
            return None

    def expr(self, node, env):
        p = self.path(node) if isinstance(node, (ast.Name, ast.Attribute, ast.Subscript)) else None
        if p is not None:
            if p in env['vars']:
                return env['vars'][p]
            f = self.field(p)
            if f is not None:
                if p not in env['defined']:
                    raise U(f'{p} may be read before it is assigned')
                return (f'sl.2.{f[1]}', f[2])
            table = {'self._state': ('(p.getState sl.1)', 'SQ'), 'self._next_event': ('(p.getNext sl.1)', 'ONX'),
                     'self._fsm_event_active': ('(p.getActive sl.1)', 'B'),
                     'self._ct_chainlimit': ('(p.chainLimit sl.1)', 'N')}
            if p in table:
                return table[p]
            raise U(f'unknown name {p}')
        if isinstance(node, ast.Constant):
            if node.value is True:
                return ('true', 'B')
            if node.value is False:
                return ('false', 'B')
            if node.value is None:
                return ('none', 'None')
            raise U(f'constant {node.value!r}')
        if isinstance(node, ast.UnaryOp) and isinstance(node.op, ast.Not):
            return (f'(!{self.truthy(node.operand, env)})', 'B')
        if isinstance(node, ast.BoolOp):
            # operands are evaluated left to right and only while the result is open: after a false
            # `not isinstance(x, str)` in an `or` (a true `isinstance(x, str)` in an `and`) x is a str
            is_and = isinstance(node.op, ast.And)
            e2 = dict(env)
            e2['isstr'] = set(env.get('isstr', ()))
            parts = []
            for v in node.values:
                parts.append(self.truthy(v, e2))
                test = v if is_and else (v.operand if isinstance(v, ast.UnaryOp) and isinstance(v.op, ast.Not) else None)
                if (isinstance(test, ast.Call) and self.path(test.func) == 'isinstance' and len(test.args) == 2
                        and self.path(test.args[1]) == 'str' and self.path(test.args[0]) is not None):
                    e2['isstr'].add(self.path(test.args[0]))
            return ('(' + (' && ' if is_and else ' || ').join(parts) + ')', 'B')
        if isinstance(node, ast.IfExp):
            c = self.truthy(node.test, env)
            a, aty = self.expr(node.body, env)
            b, bty = self.expr(node.orelse, env)
            if aty != bty:
                raise U(f'conditional expression of types {aty}/{bty}')
            return (f'(if {c} then {a} else {b})', aty)
        if isinstance(node, ast.Tuple):
            parts = [self.expr(e, env) for e in node.elts]
            return ('(' + ', '.join(t for t, _ in parts) + ')', 'T:' + ','.join(ty for _, ty in parts))
        if isinstance(node, ast.Compare) and len(node.ops) == 1:
            return (self.compare(node.left, node.ops[0], node.comparators[0], env), 'B')
        if isinstance(node, ast.Call):
            fp = self.path(node.func)
            if fp == 'self.is_initialized' and not node.args and not node.keywords:
                return ('(p.isInitialized sl.1)', 'B')
            if fp == 'isinstance' and len(node.args) == 2:
                t, ty = self.expr(node.args[0], env)
                cls = self.path(node.args[1])
                if cls == 'MutableMapping' and ty == 'D':
                    return (f'(p.isMutableMapping {t})', 'B')
                if cls == 'str' and ty == 'E':
                    return (f'(p.isStr {t})', 'B')
                if cls == 'Goto' and ty == 'E':
                    return (f'(p.asGoto {t}).isSome', 'B')
            if fp == 'types.MappingProxyType' and len(node.args) == 1 and not node.keywords:
                t, ty = self.expr(node.args[0], env)
                if ty == 'D':
                    return (f'(p.readOnly {t})', 'D')
            if (isinstance(node.func, ast.Attribute) and node.func.attr == 'get' and not node.keywords):
                base = self.path(node.func.value)
                if base == 'self._ct_transition' and len(node.args) == 2 and self.is_none(node.args[1]):
                    return (f'(({self.transition_key(node.args[0], env)}).getD none)', 'OQ')
                if len(node.args) == 1 and isinstance(node.args[0], ast.Constant) and isinstance(node.args[0].value, str):
                    t, ty = self.expr(node.func.value, env)
                    if ty == 'D':
                        return (f'(p.dataGet {t} "{node.args[0].value}")', 'I')
        raise U('expression ' + ast.unparse(node)[:100])

    def is_none(self, node):
        return isinstance(node, ast.Constant) and node.value is None

    def as_oq(self, node, env):
        """an expression used where a state-or-None is expected"""
        t, ty = self.expr(node, env)
        if ty in ('OQ', 'SQ'):
            return t
        if ty == 'Q':
            return f'(some {t})'
        if ty == 'None':
            return '(none : Option Q)'
        raise U(f'{ast.unparse(node)}: a state expected, got {ty}')

    def transition_key(self, key, env):
        if not (isinstance(key, ast.Tuple) and len(key.elts) == 2):
            raise U('key of _ct_transition')
        e, ety = self.expr(key.elts[0], env)
        if ety != 'E':
            raise U('key of _ct_transition')
        return f'p.transition sl.1 {e} {self.as_oq(key.elts[1], env)}'

    def truthy(self, node, env):
        t, ty = self.expr(node, env)
        if ty == 'B':
            return t
        if ty == 'ONX':
            return f'({t}).isSome'        # None is false, a 3-tuple is true
        raise U(f'truth value of {ast.unparse(node)} : {ty}')

    def compare(self, left, op, right, env):
        if isinstance(op, (ast.Is, ast.IsNot)):
            neg = isinstance(op, ast.IsNot)
            t, ty = self.expr(left, env)
            if self.is_none(right):
                if ty in ('OQ', 'ONX'):
                    return f'({t}).isSome' if neg else f'({t}).isNone'
                raise U(f'is None on {ty}')
            if self.path(right) == 'block.UNDEF':
                if ty == 'V':
                    return f'(!(p.isUndef {t}))' if neg else f'(p.isUndef {t})'
                if ty == 'SQ':                      # the attribute `_state`: UNDEF is `none` (it is never None)
                    return f'({t}).isSome' if neg else f'({t}).isNone'
            # `_state is None` (always false), `newstate is UNDEF` (always false), `is` between two values: refused
            raise U('identity test ' + ast.unparse(left) + ' : ' + ty)
        if isinstance(op, (ast.In, ast.NotIn)) and self.path(right) == 'self._ct_events':
            t, ty = self.expr(left, env)
            if ty == 'E' and self.path(left) not in env.get('isstr', ()):
                # an event type that is no str may be unhashable: `x in <set>` could raise TypeError, so the
                # position of this test relative to `isinstance(x, str)` matters
                raise U(f'{ast.unparse(left)} in self._ct_events: not preceded by an isinstance(…, str) test')
            if ty == 'E':
                return f'(!(p.isEvent sl.1 {t}))' if isinstance(op, ast.NotIn) else f'(p.isEvent sl.1 {t})'
        if isinstance(op, (ast.Eq, ast.NotEq)):
            a, aty = self.expr(left, env)
            b, bty = self.expr(right, env)
            if {aty, bty} <= {'OQ', 'SQ', 'Q'}:
                a, b = self.as_oq(left, env), self.as_oq(right, env)
                eq = f'(decide ({a} = {b}))'
                if {aty, bty} == {'OQ', 'SQ'}:
                    eq = f'(({a}).isSome && decide ({a} = {b}))'    # None == UNDEF is false
                return eq if isinstance(op, ast.Eq) else f'(!{eq})'
        raise U('comparison ' + ast.unparse(left) + ' ' + type(op).__name__)

    def coerce(self, text, ty, want):
        if ty == want:
            return text
        if ty == 'Q' and want == 'OQ':
            return f'(some {text})'
        if ty == 'None' and want in ('OQ', 'ONX'):
            return 'none'
        raise U(f'a value of type {ty} where {want} is expected')

    # ---- expressions that are evaluated but not translated ---------------------------
    def inert(self, node):
        """arguments of logging calls, of exception constructors and assert messages are not translated;
        they are evaluated eagerly, so they must be expressions without side effects whose evaluation is
        not expected to raise: constants, names, attributes, constant subscripts, f-strings / tuples /
        string concatenation of these (NOT calls, `%`-formatting, comprehensions, arithmetic)"""
        if isinstance(node, (ast.Constant, ast.Name)):
            return True
        if isinstance(node, ast.Attribute):
            return self.inert(node.value)
        if isinstance(node, ast.Subscript):
            return self.inert(node.value) and isinstance(node.slice, ast.Constant)
        if isinstance(node, ast.JoinedStr):
            return all(self.inert(v) for v in node.values)
        if isinstance(node, ast.FormattedValue):
            return self.inert(node.value) and (node.format_spec is None or self.inert(node.format_spec))
        if isinstance(node, ast.Tuple):
            return all(self.inert(v) for v in node.elts)
        if isinstance(node, ast.BinOp) and isinstance(node.op, ast.Add):
            # implicit/explicit concatenation of message parts
            return all(self.inert(v) and isinstance(v, (ast.Constant, ast.JoinedStr, ast.BinOp))
                       for v in (node.left, node.right))
        return False

    def check_inert(self, nodes, what):
        for n in nodes:
            if not self.inert(n):
                raise U(f'{what}: the expression `{ast.unparse(n)[:60]}` is evaluated but not translated '
                        'and is not obviously free of effects')

    # ---- effectful calls ----------------------------------------------------------
    def proc(self, call, env):
        """an expression statement that is a call -> Lean `Eff` term (a function of `sl`), or None = ignored"""
        fp = self.path(call.func)
        if fp is None:
            raise U('call ' + ast.unparse(call)[:80])
        if fp.startswith('self.log_'):
            # the message is formatted lazily by the logging module; the arguments are evaluated here
            self.check_inert(list(call.args) + [k.value for k in call.keywords], 'logging call')
            return None
        if call.keywords:
            raise U('keyword arguments in ' + ast.unparse(call)[:80])
        if fp == 'self._run_cb' and len(call.args) == 2 and isinstance(call.args[0], ast.Constant):
            kind = call.args[0].value
            if kind in RUN_CB:
                prim, _ = RUN_CB[kind]
                return f'p.{prim} {self.as_oq(call.args[1], env)}'
        if fp == 'self._send_events' and len(call.args) == 1 and isinstance(call.args[0], ast.Constant) \
                and call.args[0].value in SEND_EVENTS:
            return f'p.sendEvents "{call.args[0].value}"'
        if fp in PROCS:
            prim, atys = PROCS[fp]
            if len(call.args) != len(atys):
                raise U('arguments of ' + fp)
            args = []
            for a, want in zip(call.args, atys):
                if want == 'OQ':
                    args.append(self.as_oq(a, env))
                else:
                    t, ty = self.expr(a, env)
                    args.append(self.coerce(t, ty, want))
            return 'p.' + prim + ''.join(' ' + a for a in args)
        raise U('call ' + ast.unparse(call)[:80])

    def value_call(self, node, env):
        """an effectful call that yields a value -> (Eff term, type) or None"""
        if isinstance(node, ast.Call) and not node.keywords:
            fp = self.path(node.func)
            if fp == 'self.calc_output' and not node.args:
                return ('p.calcOutput', 'V')
            if (fp == 'all' and len(node.args) == 1 and isinstance(node.args[0], ast.Call)
                    and self.path(node.args[0].func) == 'self._run_cb' and len(node.args[0].args) == 2
                    and isinstance(node.args[0].args[0], ast.Constant) and node.args[0].args[0].value == 'cond'
                    and not node.args[0].keywords):
                t, ty = self.expr(node.args[0].args[1], env)
                if ty == 'E':
                    return (f'p.runCond {t}', 'B')
        return None

    def has_effect(self, node):
        for n in ast.walk(node):
            if isinstance(n, ast.Call):
                fp = self.path(n.func)
                if fp in ('self._run_cb', 'self.calc_output', 'self._send_events') or fp in PROCS:
                    return True
        return False

    # ---- statements ---------------------------------------------------------------
    def ind(self, text, n=1):
        pad = '  ' * n
        return '\n'.join(pad + l if l else l for l in text.split('\n'))

    def seq(self, a, b):
        if a is None:
            return b
        if b is None:
            return a
        return f'seq\n{self.ind("(" + a + ")")}\n{self.ind("(" + b + ")")}'

    def block(self, stmts, env):
        """statement list -> Lean Stmt text (None = nothing to do).  `env` is updated in place for what is
        defined afterwards."""
        if not stmts:
            return None
        s, rest = stmts[0], list(stmts[1:])
        # statements that bind a variable for the rest of the list
        if isinstance(s, ast.Assign) and len(s.targets) == 1 and isinstance(s.targets[0], ast.Name) \
                and self.field(s.targets[0].id) is None:
            vc = self.value_call(s.value, env)
            if vc is None:
                raise U(f'{s.targets[0].id}: a local variable without annotation must be bound by an effectful call')
            var = self.fresh()
            env2 = {'defined': env['defined'], 'vars': {**env['vars'], s.targets[0].id: (var, vc[1])}}
            body = self.block(rest, env2) or 'skip'
            return f'call (fun sl => {vc[0]}) (fun {var} =>\n{self.ind(body)})'
        first = self.stmt(s, env)
        return self.seq(first, self.block(rest, env))

    def branch(self, stmts, env):
        """a nested statement list; returns (text, defined-after)"""
        e = {'defined': set(env['defined']), 'vars': dict(env['vars'])}
        t = self.block(list(stmts), e)
        return (t or 'skip'), e['defined']

    def ends(self, stmts):
        for s in stmts:
            if isinstance(s, (ast.Return, ast.Raise, ast.Continue, ast.Break)):
                return True
            if isinstance(s, ast.If) and s.orelse and self.ends(s.body) and self.ends(s.orelse):
                return True
        return False

    def join_defined(self, env, branches):
        """after an if: defined = what every branch that can fall through defines"""
        live = [d for stmts, d in branches if not self.ends(stmts)]
        if live:
            env['defined'] |= set.intersection(*live)

    def stmt(self, s, env):
        if isinstance(s, ast.Expr):
            if isinstance(s.value, ast.Constant) and isinstance(s.value.value, str):
                return None
            if isinstance(s.value, ast.Call):
                e = self.proc(s.value, env)
                return None if e is None else f'call (fun sl => {e}) (fun _ => skip)'
            raise U('statement ' + ast.unparse(s)[:80])
        if isinstance(s, ast.AnnAssign):
            return None                         # bare annotation (checked in collect_record_locals)
        if isinstance(s, ast.Pass):
            return None
        if isinstance(s, ast.Break):
            return 'brk'
        if isinstance(s, ast.Continue):
            return 'cont'
        if isinstance(s, ast.Assert):
            if s.msg is not None:
                self.check_inert([s.msg], 'assert message')
            return f'branch (fun sl => {self.truthy(s.test, env)}) skip (raise (p.exc "AssertionError"))'
        if isinstance(s, ast.Raise):
            if isinstance(s.exc, ast.Call) and isinstance(s.exc.func, ast.Name) and s.cause is None:
                self.check_inert(list(s.exc.args) + [k.value for k in s.exc.keywords], 'exception message')
                return f'raise (p.exc "{s.exc.func.id}")'
            raise U('raise ' + ast.unparse(s)[:80])
        if isinstance(s, ast.Return):
            if s.value is None:
                raise U('return without value')
            t, ty = self.expr(s.value, env)
            if ty != 'B':
                raise U(f'return of type {ty}')
            return f'ret (fun sl => {t})'
        if isinstance(s, ast.Assign) and len(s.targets) == 1:
            return self.assign(s.targets[0], s.value, env)
        if isinstance(s, ast.If):
            return self.if_(s, env)
        if isinstance(s, ast.Try):
            return self.try_(s, env)
        if isinstance(s, ast.For):
            return self.for_(s, env)
        if isinstance(s, ast.With):
            if (len(s.items) == 1 and s.items[0].optional_vars is None
                    and self.path(s.items[0].context_expr) == 'self._enable_event'):
                body, d = self.branch(s.body, env)
                env['defined'] |= d
                return (f'seq (upd (fun sl => p.enableEvent true sl.1))\n'
                        f'  (tryFinally\n{self.ind("(" + body + ")", 2)}\n    (upd (fun sl => p.enableEvent false sl.1)))')
            raise U('with ' + ast.unparse(s.items[0].context_expr))
        raise U('statement ' + ast.unparse(s)[:80])

    def assign(self, tgt, val, env):
        p = self.path(tgt)
        if isinstance(tgt, ast.Name):
            f = self.field(tgt.id)
            t, ty = self.expr(val, env)
            out = f'assign (fun sl => {{ sl.2 with {f[1]} := {self.coerce(t, ty, f[2])} }})'
            env['defined'].add(tgt.id)
            return out
        if isinstance(tgt, ast.Tuple) and all(isinstance(e, ast.Name) for e in tgt.elts):
            t, ty = self.expr(val, env)
            fs = [self.field(e.id) for e in tgt.elts]
            if ty == 'ONX' and len(fs) == 3 and all(fs) and [f[2] for f in fs] == ['E', 'D', 'OQ']:
                var = self.fresh('t')
                for e in tgt.elts:
                    env['defined'].add(e.id)
                return (f'matchOpt (fun sl => {t}) (raise (p.exc "TypeError")) (fun {var} =>\n'
                        f'  assign (fun sl => {{ sl.2 with {fs[0][1]} := {var}.1, {fs[1][1]} := {var}.2.1, '
                        f'{fs[2][1]} := {var}.2.2 }}))')
            raise U('unpacking ' + ast.unparse(tgt))
        if p == 'self._state':
            return f'upd (fun sl => p.setState {self.as_oq(val, env)} sl.1)'
        if p == 'self._fsm_event_active':
            t, ty = self.expr(val, env)
            if ty != 'B':
                raise U('_fsm_event_active = <' + ty + '>')
            return f'upd (fun sl => p.setActive {t} sl.1)'
        if p == 'self._next_event':
            if self.is_none(val):
                return 'upd (fun sl => p.setNext none sl.1)'
            if isinstance(val, ast.Tuple) and len(val.elts) == 3:
                e, ety = self.expr(val.elts[0], env)
                d, dty = self.expr(val.elts[1], env)
                if (ety, dty) == ('E', 'D'):
                    return f'upd (fun sl => p.setNext (some ({e}, {d}, {self.as_oq(val.elts[2], env)})) sl.1)'
        raise U('assignment ' + ast.unparse(tgt) + ' = ' + ast.unparse(val)[:60])

    def if_(self, s, env):
        test = s.test
        # `if not isinstance(NAME, Goto): A else: B`  ==  `if isinstance(NAME, Goto): B else: A`
        if (isinstance(test, ast.UnaryOp) and isinstance(test.op, ast.Not) and isinstance(test.operand, ast.Call)
                and self.path(test.operand.func) == 'isinstance' and len(test.operand.args) == 2
                and self.path(test.operand.args[1]) == 'Goto'):
            return self.if_(ast.If(test=test.operand, body=s.orelse or [ast.Pass()], orelse=s.body), env)
        # isinstance(NAME, Goto): narrowing, NAME.state is the matched value
        if (isinstance(test, ast.Call) and self.path(test.func) == 'isinstance' and len(test.args) == 2
                and self.path(test.args[1]) == 'Goto' and isinstance(test.args[0], ast.Name)):
            t, ty = self.expr(test.args[0], env)
            if ty == 'E':
                var = self.fresh('g')
                env_then = {'defined': env['defined'],
                            'vars': {**env['vars'], test.args[0].id + '.state': (var, 'Q')}}
                then_, d1 = self.branch(s.body, env_then)
                else_, d2 = self.branch(s.orelse, env)
                self.join_defined(env, [(s.body, d1), (s.orelse, d2)])
                return (f'matchOpt (fun sl => p.asGoto {t})\n{self.ind("(" + else_ + ")")}\n'
                        f'  (fun {var} =>\n{self.ind(then_, 2)})')
        # A and <effectful>  (no else)  ==  if A: if <effectful>: …
        if (isinstance(test, ast.BoolOp) and isinstance(test.op, ast.And) and not s.orelse
                and self.has_effect(test.values[-1]) and not any(self.has_effect(v) for v in test.values[:-1])):
            head = test.values[:-1]
            outer = head[0] if len(head) == 1 else ast.BoolOp(op=ast.And(), values=head)
            inner = ast.If(test=test.values[-1], body=s.body, orelse=[])
            return self.if_(ast.If(test=outer, body=[inner], orelse=[]), env)
        if self.has_effect(test):
            neg = isinstance(test, ast.UnaryOp) and isinstance(test.op, ast.Not)
            vc = self.value_call(test.operand if neg else test, env)
            if vc is None or vc[1] != 'B':
                raise U('condition ' + ast.unparse(test)[:80])
            var = self.fresh('b')
            then_, d1 = self.branch(s.body, env)
            else_, d2 = self.branch(s.orelse, env)
            self.join_defined(env, [(s.body, d1), (s.orelse, d2)])
            c = f'(!{var})' if neg else var
            return (f'call (fun sl => {vc[0]}) (fun {var} =>\n  branch (fun _ => {c})\n'
                    f'{self.ind("(" + then_ + ")", 2)}\n{self.ind("(" + else_ + ")", 2)})')
        c = self.truthy(test, env)
        then_, d1 = self.branch(s.body, env)
        else_, d2 = self.branch(s.orelse, env)
        self.join_defined(env, [(s.body, d1), (s.orelse, d2)])
        return f'branch (fun sl => {c})\n{self.ind("(" + then_ + ")")}\n{self.ind("(" + else_ + ")")}'

    def try_(self, s, env):
        if s.finalbody and not s.handlers and not s.orelse:
            body, d = self.branch(s.body, env)
            fin, d2 = self.branch(s.finalbody, env)
            env['defined'] |= d2
            return f'tryFinally\n{self.ind("(" + self.define("Try", body, env) + ")")}\n{self.ind("(" + fin + ")")}'
        if (not s.finalbody and len(s.handlers) == 1 and self.path(s.handlers[0].type) == 'KeyError'
                and s.handlers[0].name is None and len(s.body) == 1 and isinstance(s.body[0], ast.Assign)
                and len(s.body[0].targets) == 1 and isinstance(s.body[0].targets[0], ast.Name)
                and isinstance(s.body[0].value, ast.Subscript)):
            name = s.body[0].targets[0].id
            sub = s.body[0].value
            base = self.path(sub.value)
            var = self.fresh()
            if base == 'self._ct_transition':
                look, vty = self.transition_key(sub.slice, env), 'OQ'
            elif base == 'self._ct_timed_event':
                look, vty = f'p.timedEvent sl.1 {self.as_oq(sub.slice, env)}', 'TE'
            else:
                raise U('lookup in ' + str(base))
            handler, dh = self.branch(s.handlers[0].body, env)
            f = self.field(name)
            if f is not None:
                e2 = {'defined': set(env['defined']) | {name}, 'vars': dict(env['vars'])}
                bind = f'assign (fun sl => {{ sl.2 with {f[1]} := {self.coerce(var, vty, f[2])} }})'
            else:
                e2 = {'defined': set(env['defined']), 'vars': {**env['vars'], name: (var, vty)}}
                bind = None
            orelse = self.block(list(s.orelse), e2)
            found = self.seq(bind, orelse) or 'skip'
            self.join_defined(env, [(s.handlers[0].body, dh), (s.orelse, e2['defined'])])
            return (f'matchOpt (fun sl => {look})\n{self.ind("(" + handler + ")")}\n'
                    f'  (fun {var} =>\n{self.ind(found, 2)})')
        raise U('try ' + ast.unparse(s)[:80])

    def for_(self, s, env):
        it = s.iter
        if (isinstance(it, ast.Call) and self.path(it.func) == 'range' and len(it.args) == 1 and not it.keywords
                and isinstance(s.target, ast.Name)):
            n, nty = self.expr(it.args[0], env)
            if nty != 'N':
                raise U('range over ' + nty)
            for node in ast.walk(ast.Module(body=s.body, type_ignores=[])):
                if isinstance(node, ast.Name) and node.id == s.target.id:
                    raise U('use of the loop variable')
            body, _d = self.branch(s.body, env)      # what the body defines is not defined after zero rounds
            orelse, _d2 = self.branch(s.orelse, env)
            return (f'forN (fun sl => {n})\n{self.ind("(" + self.define("Loop", body, env) + ")")}\n'
                    f'{self.ind("(" + orelse + ")")}')
        if (self.path(it) == 'self._on_notrans' and isinstance(s.target, ast.Name) and not s.orelse
                and len(s.body) == 1 and isinstance(s.body[0], ast.Expr) and isinstance(s.body[0].value, ast.Call)):
            c = s.body[0].value
            kws = {k.arg: k.value for k in c.keywords}
            if (self.path(c.func) == s.target.id + '.send' and len(c.args) == 1 and self.path(c.args[0]) == 'self'
                    and set(kws) == {'trigger', 'event', 'state'} and isinstance(kws['trigger'], ast.Constant)
                    and kws['trigger'].value == 'notrans'):
                e, ety = self.expr(kws['event'], env)
                if ety == 'E':
                    return (f'call (fun sl => p.sendNotrans {e} {self.as_oq(kws["state"], env)}) (fun _ => skip)')
        raise U('loop ' + ast.unparse(s)[:80])

    def define(self, kind, body, env):
        """a named auxiliary definition for the body of a compound statement (the proofs refer to it);
        the λ-bound variables in scope become its parameters"""
        name = f'ctxEvent{kind}{sum(1 for a in self.aux if a[0] == kind)}'
        scoped = [(lean, ty) for lean, ty in env['vars'].values()]
        params = ''.join(f' ({lean} : {LEAN_T[ty]})' for lean, ty in scoped)
        self.aux.append((kind, name,
                         f'def {name} {{σ E D Q TE V I X : Type}} [DecidableEq Q] (p : FsmPrims σ E D Q TE V I X){params} :\n'
                         f'    Stmt (σ × Loc E D Q) X Bool :=\n{self.ind(body)}'))
        return f'{name} p' + ''.join(' ' + lean for lean, _ in scoped)

    # ---- the whole method ---------------------------------------------------------
    def translate(self):
        env = {'defined': set(self.params), 'vars': {}}
        body = self.block(list(self.fn.body), env) or 'skip'
        loc = '\n'.join(f'  {lean} : {LEAN_T[ty]}    -- `{name}`' for name, lean, ty in self.fields)
        e, d = self.params
        return (
            '/-- the local variables of `_ctx_event` that carry a type annotation -/\n'
            'structure Loc (E D Q : Type) where\n' + loc + '\n\n'
            + ''.join(f'/-- part of `fsm.FSM._ctx_event`: the body of a `for` / `try` statement -/\n{a[2]}\n\n'
                      for a in self.aux) +
            '/-- translated from `fsm.FSM._ctx_event`: the body as a statement over (block state, locals) -/\n'
            'def ctxEventBody {σ E D Q TE V I X : Type} [DecidableEq Q] (p : FsmPrims σ E D Q TE V I X) :\n'
            '    Stmt (σ × Loc E D Q) X Bool :=\n' + self.ind(body) + '\n\n'
            '/-- translated from `fsm.FSM._ctx_event`: new block state and how the call ends\n'
            '    (`.ret b` = the value returned, `.raise x` = the exception propagating to the caller) -/\n'
            'def ctxEvent {σ E D Q TE V I X : Type} [DecidableEq Q] (p : FsmPrims σ E D Q TE V I X)\n'
            f'    ({e} : E) ({d} : D) (s : σ) : σ × Flow X Bool :=\n'
            f'  match ctxEventBody p (s, {self.init_loc()}) with\n'
            '  | (sl, f) => (sl.1, f)')


PRIM_METHODS = ('_ctx_event', '_event', 'event', '_check_state', '_run_cb', '_send_events', '_stop_timer',
                '_start_timer', '_set_timer', 'set_output', 'is_initialized', '_enable_event')


def check_call_path(fsm_mod, fn):
    """the translated method must be the code that RUNS, and the names it uses must be what the primitive
    table says: `SBlock.event` -> `FSM._event` -> `FSM._ctx_event` (no renamed copy left behind as dead
    code), no decorator, the library subclasses do not override the methods taken as primitives, the module
    globals used by the method are the expected objects"""
    import collections.abc
    import contextvars
    import types as types_mod
    import edzed
    from edzed import block
    from edzed.blocklib import fsms, sblocks2
    FSM = fsm_mod.FSM
    if fn.decorator_list:
        raise U('_ctx_event is decorated')
    for name in ('_ctx_event', '_event'):
        if name not in vars(FSM):
            raise U(f'FSM.{name} is not defined in class FSM')
    if 'event' in vars(FSM):
        raise U('FSM overrides event()')
    ev = H.fn_ast(FSM._event)
    body = [st for st in ev.body
            if not (isinstance(st, ast.Expr) and isinstance(st.value, ast.Constant) and isinstance(st.value.value, str))]
    if ([a.arg for a in ev.args.args] != ['self', 'etype', 'data'] or ev.decorator_list or len(body) != 1
            or ast.unparse(body[0]) != 'return contextvars.copy_context().run(self._ctx_event, etype, data)'):
        raise U('FSM._event is not `return contextvars.copy_context().run(self._ctx_event, etype, data)`')
    sb = H.fn_ast(block.SBlock.event)
    if not any(isinstance(n, ast.Call) and ast.unparse(n) == 'self._event(etype, data)' for n in ast.walk(sb)):
        raise U('SBlock.event does not call self._event(etype, data)')
    for cls in (fsms.Timer, sblocks2.InputExp):
        for name in PRIM_METHODS:
            if name in vars(cls):
                raise U(f'{cls.__name__} overrides {name}')
    expected = {'Goto': getattr(edzed, 'Goto', None), 'MutableMapping': collections.abc.MutableMapping,
                'types': types_mod, 'block': block, 'contextvars': contextvars,
                'EdzedCircuitError': edzed.EdzedCircuitError, 'EdzedUnknownEvent': edzed.EdzedUnknownEvent}
    for name, obj in expected.items():
        if getattr(fsm_mod, name, None) is not obj or obj is None:
            raise U(f'module name {name} is not the expected object')
    if not isinstance(fsm_mod.fsm_event_data, contextvars.ContextVar) or block.UNDEF is not edzed.UNDEF:
        raise U('fsm_event_data / block.UNDEF are not the expected objects')
    if fsm_mod.Goto.__module__ != fsm_mod.__name__ or 'state' not in getattr(fsm_mod.Goto, '__dataclass_fields__', {}):
        raise U('Goto is not the dataclass with the field `state`')


def main_fsm(outfile, helpers):
    global H
    H = helpers
    from edzed import fsm
    L = ['/- GENERATED by tools/py2lean_fsm.py from the Python source of edzed (fsm.FSM._ctx_event) -- do not edit -/',
         '', 'set_option linter.unusedVariables false', '', 'namespace Edzed.Gen.TrM', PRELUDE]
    t = dict(name='ctxEvent', doc='fsm.FSM._ctx_event')

    def translate(_t):
        fn = H.fn_ast(fsm.FSM._ctx_event)
        if not isinstance(fn, ast.FunctionDef):
            raise U('_ctx_event is not a plain function')
        check_call_path(fsm, fn)
        return TrFsm(fn).translate()

    try:
        text = translate(t)
        L.append(text)
        L.append('')
    except Exception as err:
        L.append(f"-- UNTRANSLATABLE `{t['doc']}`: definition `{t['name']}` omitted "
                 f"({' '.join(str(err).split())[:200]})")
        L.append('')
        print(f"UNTRANSLATABLE {t['name']} ({t['doc']}): {err}")
    L.append('end Edzed.Gen.TrM')
    H.write_if_changed(outfile, '\n'.join(L) + '\n')
