/-
C12 — OutputAsync honours its mode (wait / cancel / start) for every arrival pattern.

Model: EdzedModel/OutputAsync.lean (control tasks `_ctrl_wait/_ctrl_cancel/_ctrl_start`, the output task
with its result events and shielded guard sleep, `stop`/`stop_async`).  A script is a list of `Op`s:
`put t pre batch x` (arrival of data `x` at instant `t`, before/after the block's own timers of that instant,
possibly in one batch with the previous put; after the stop it is a *late* put, see below), `stop t pre batch` (the deadline `t + stopTimeout` is armed),
`finish` (let everything run to completion).
`run c ops` is the state after the script, `(run c ops).log` the time-stamped log (newest first) of
arrival markers `put j`, output changes `out n`, coroutine `start/done/cancelled j` and result events
`succ/err/canc j`, where a job `j = ⟨seq, data⟩` is the `seq`-th accepted put with its original data.

Every theorem is for ALL configurations (mode, guard time, stop_data) and ALL scripts — any number of
arrivals, any instants, durations, failing runs and same-instant placements; nothing is bounded.
`resJobs log` / `putJobs log` / `startJobs log` are the jobs of the result / arrival / start events of a log
(newest first), `evJob e` the job an event is about (EdzedProofs/OutputAsync.lean).
-/
import EdzedModel.OutputAsync
import EdzedProofs.OutputAsync
import EdzedProofs.OutputAsyncTie
import EdzedProofs.OutputBlocksTie

namespace Edzed.OutputAsync

/-- the state after the script followed by `finish` (everything pending has been processed) -/
abbrev final (c : Cfg) (ops : List Op) : State := run c (ops ++ [.finish])

/-- output = number of active output tasks, at every point of every script -/
theorem output_is_active_count (c : Cfg) (ops : List Op) :
    (run c ops).output = (run c ops).runs.length :=
  (run_countInv c ops).1

/-- wait and cancel mode: never more than one active run; the output is 0 or 1 -/
theorem cancel_at_most_one_active (c : Cfg) (ops : List Op) (h : c.mode ≠ Mode.start) :
    (run c ops).runs.length ≤ 1 ∧ (run c ops).output ≤ 1 := by
  have := run_countInv c ops
  exact ⟨this.2 h, by rw [this.1]; exact this.2 h⟩

/-- when everything has been processed the block is idle: output 0, no run, nothing queued -/
theorem returns_to_zero (c : Cfg) (ops : List Op) :
    (final c ops).output = 0 ∧ (final c ops).runs = [] ∧ (final c ops).queue = [] ∧
    (final c ops).sdPending = none := by
  have := finish_idle c ops
  simp only [final, run_snoc]
  exact ⟨this.2.2.2, this.1, this.2.1, this.2.2.1⟩

/-- no put ever gets a second result, and results are produced for accepted puts only
    (at every point of every script) -/
theorem at_most_one_result_ever (c : Cfg) (ops : List Op) (j : Job) :
    (resJobs (run c ops).log).count j ≤ (putJobs (run c ops).log).count j ∧
    (putJobs (run c ops).log).count j ≤ 1 := by
  have hb := run_balanced c ops j
  exact ⟨by omega, (run_uniq c ops).2 j⟩

/-- every put accepted before `stop()` (arrival marker `put j`), whatever its data -- the empty mapping
    included --, and stop_data, has exactly one of success / error / cancel, carrying the job itself (its sequence number and original data), once the
    work is complete.  (Puts that reach the block after `stop()` carry the marker `late j`, see
    `late_put_never_served` and `every_put_exactly_one_result_partial`.) -/
theorem exactly_one_result (c : Cfg) (ops : List Op) (t : Nat) (j : Job)
    (h : (t, Ev.put j) ∈ (final c ops).log) : (resJobs (final c ops).log).count j = 1 := by
  have hb := run_balanced c (ops ++ [.finish]) j
  have hu := (run_uniq c (ops ++ [.finish])).2 j
  have hidle := returns_to_zero c ops
  have hp : 0 < (putJobs (final c ops).log).count j := List.count_pos_iff.mpr (mem_putJobs h)
  have hpend : (pendJobs (final c ops)).count j = 0 := by
    simp [pendJobs, hidle.2.1, hidle.2.2.1, hidle.2.2.2]
  simp only [final] at *
  omega

/-- at stop all pending work is completed -- every put accepted before the stop, queued or running, and
    stop_data get exactly one result each -- whether or not stop_timeout expires on the way: the model
    carries the deadline `stop time + stop_timeout` (`expire`), and an expiry only cancels the coroutines
    running in that instant (they are reported cancelled); see `timeout_cancels_only_at_expiry`,
    `cancel_only_by_newer` and the `example`s at the end for what happens to each item -/
theorem stop_completes_pending_work (c : Cfg) (ops : List Op) (ts : Nat) (pre batch : Bool) (t : Nat)
    (j : Job) (h : (t, Ev.put j) ∈ (final c (ops ++ [.stop ts pre batch])).log) :
    (resJobs (final c (ops ++ [.stop ts pre batch])).log).count j = 1 :=
  exactly_one_result c _ t j h

/-- the kind of each result matches what the run did: success (error) is reported exactly when the
    coroutine of a non-raising (raising) script came to its end, in that instant, and such a run was never
    cancelled; cancel is reported only for jobs whose coroutine never came to its end (cancelled while
    running, or discarded before it started) -/
theorem result_matches_run (c : Cfg) (ops : List Op) (t : Nat) (j : Job) :
    ((t, Ev.succ j) ∈ (run c ops).log →
      j.data.fail = false ∧ (t, Ev.done j) ∈ (run c ops).log ∧ ∀ t', (t', Ev.cancelled j) ∉ (run c ops).log) ∧
    ((t, Ev.err j) ∈ (run c ops).log →
      j.data.fail = true ∧ (t, Ev.done j) ∈ (run c ops).log ∧ ∀ t', (t', Ev.cancelled j) ∉ (run c ops).log) ∧
    ((t, Ev.canc j) ∈ (run c ops).log → ∀ t', (t', Ev.done j) ∉ (run c ops).log) := by
  have hk := run_kindOK c ops
  have hone : (resJobs (run c ops).log).count j ≤ 1 := by
    have := at_most_one_result_ever c ops j; omega
  refine ⟨fun h => ?_, fun h => ?_, fun h t' hd => ?_⟩
  · have h1 := hk t _ h
    refine ⟨h1.1, h1.2, fun t' hc => ?_⟩
    have h2 : (t', Ev.canc j) ∈ (run c ops).log := hk t' _ hc
    have := two_results h h2 (by simp) rfl rfl
    omega
  · have h1 := hk t _ h
    refine ⟨h1.1, h1.2, fun t' hc => ?_⟩
    have h2 : (t', Ev.canc j) ∈ (run c ops).log := hk t' _ hc
    have := two_results h h2 (by simp) rfl rfl
    omega
  · rcases (hk t' _ hd : _ ∨ _) with h2 | h2
    · have := two_results h h2 (by simp) rfl rfl
      omega
    · have := two_results h h2 (by simp) rfl rfl
      omega

/-- a coroutine that is cancelled is reported cancelled in the same instant, and one that comes to its end
    is reported as success or error in the same instant -/
theorem run_end_is_reported (c : Cfg) (ops : List Op) (t : Nat) (j : Job) :
    ((t, Ev.cancelled j) ∈ (run c ops).log → (t, Ev.canc j) ∈ (run c ops).log) ∧
    ((t, Ev.done j) ∈ (run c ops).log →
      (t, Ev.succ j) ∈ (run c ops).log ∨ (t, Ev.err j) ∈ (run c ops).log) :=
  ⟨fun h => run_kindOK c ops t _ h, fun h => run_kindOK c ops t _ h⟩

/-- wait mode: the runs start in arrival order (chronologically: started jobs, then the queued ones,
    are exactly the accepted puts in order), one at a time -/
theorem wait_fifo_one_at_a_time (c : Cfg) (ops : List Op) (h : c.mode = Mode.wait) :
    (startJobs (run c ops).log).reverse ++ (run c ops).queue = (putJobs (run c ops).log).reverse ∧
    (run c ops).runs.length ≤ 1 := by
  refine ⟨?_, (run_countInv c ops).2 (by rw [h]; simp)⟩
  have := run_fifo c ops h
  rw [this]; simp

/-- the stop_timeout clock: an expiry (`timeout` marker) happens only after `stop()`, no earlier than
    stop time + stop_timeout, and in one instant only -/
theorem timeout_not_before_deadline (c : Cfg) (ops : List Op) (t : Nat)
    (h : (t, Ev.timeout) ∈ (run c ops).log) :
    (∃ ts, (run c ops).stopAt = some ts ∧ ts + c.stopTimeout ≤ t) ∧ (run c ops).stopped = true ∧
    ∀ t2, (t2, Ev.timeout) ∈ (run c ops).log → t2 = t := by
  obtain ⟨_, h2, h3, h4⟩ := run_tInv c ops
  obtain ⟨⟨ts, hts, hle⟩, _, _⟩ := h2 t h
  exact ⟨⟨ts, hts, hle⟩, h4 (by simp [hts]), fun t2 h' => h3 t2 t h' h⟩

/-- work that fits into stop_timeout is not touched by it: the timeout expires only while a run is
    still active -- once everything is complete, an expiry at `t` is followed by an output decrement at
    `t` or later.  (Contrapositive: if the output has gone down for the last time before stop time +
    stop_timeout, nothing is cancelled by the timeout and all the statements above hold in their
    timeout-free form.) -/
theorem timeout_only_while_work_pending (c : Cfg) (ops : List Op) (t : Nat)
    (h : (t, Ev.timeout) ∈ (final c ops).log) :
    ∃ t' n, t ≤ t' ∧ (t', Ev.out n) ∈ (final c ops).log := by
  obtain ⟨_, h2, _, _⟩ := run_tInv c (ops ++ [.finish])
  rcases (h2 t h).2.2 with hx | ⟨hr, _⟩
  · exact hx
  · exact absurd (returns_to_zero c ops).2.1 hr

/-- wait and start mode cancel nothing, except in the instant in which stop_timeout expires
    (`timeout` marker of the model at the same time stamp) -/
theorem timeout_cancels_only_at_expiry (c : Cfg) (ops : List Op) (h : c.mode ≠ Mode.cancel) (t : Nat) (j : Job)
    (hc : (t, Ev.cancelled j) ∈ (run c ops).log ∨ (t, Ev.canc j) ∈ (run c ops).log) :
    (t, Ev.timeout) ∈ (run c ops).log := by
  have := run_noCancel c ops h
  rcases hc with hc | hc
  · rcases this t _ hc with h1 | h1
    · simp [evCancel] at h1
    · exact h1
  · rcases this t _ hc with h1 | h1
    · simp [evCancel] at h1
    · exact h1

/-- while stop_timeout has not expired, wait and start mode never cancel anything -/
theorem only_cancel_mode_cancels (c : Cfg) (ops : List Op) (h : c.mode ≠ Mode.cancel)
    (hto : ∀ t, (t, Ev.timeout) ∉ (run c ops).log) (t : Nat) (j : Job) :
    (t, Ev.cancelled j) ∉ (run c ops).log ∧ (t, Ev.canc j) ∉ (run c ops).log :=
  ⟨fun hm => hto t (timeout_cancels_only_at_expiry c ops h t j (Or.inl hm)),
   fun hm => hto t (timeout_cancels_only_at_expiry c ops h t j (Or.inr hm))⟩

/-- a run is cancelled, and a queued put is discarded (reported cancelled), only because a newer put
    had arrived by then -- or because stop_timeout expired in that very instant -/
theorem cancel_only_by_newer (c : Cfg) (ops : List Op) (t : Nat) (j : Job)
    (h : (t, Ev.cancelled j) ∈ (run c ops).log ∨ (t, Ev.canc j) ∈ (run c ops).log) :
    (∃ k t', j.seq < k.seq ∧ t' ≤ t ∧ (t', Ev.put k) ∈ (run c ops).log) ∨
    (t, Ev.timeout) ∈ (run c ops).log := by
  have hc := (run_cancInv c ops).2.2
  rcases h with h | h
  · exact hc t _ j h rfl
  · exact hc t _ j h rfl

/-- the most recent put is never reported cancelled (at every point of every script), unless
    stop_timeout expired in that instant -/
theorem latest_never_cancelled (c : Cfg) (ops : List Op) (t : Nat) (j : Job)
    (h : (t, Ev.canc j) ∈ (run c ops).log) :
    j.seq + 1 < (run c ops).nacc ∨ (t, Ev.timeout) ∈ (run c ops).log := by
  rcases cancel_only_by_newer c ops t j (Or.inr h) with ⟨k, t', hlt, _, hk⟩ | hto
  · have := (run_uniq c ops).1 k (mem_putJobs hk)
    left; omega
  · exact Or.inr hto

/-- the most recent put (incl. stop_data) always runs to completion: its result is success or error --
    unless stop_timeout expired while its coroutine was running (then it is reported cancelled in that instant) -/
theorem latest_completes (c : Cfg) (ops : List Op) (t : Nat) (j : Job)
    (h : (t, Ev.put j) ∈ (final c ops).log) (hlast : j.seq + 1 = (final c ops).nacc) :
    (∃ t', (t', Ev.succ j) ∈ (final c ops).log ∨ (t', Ev.err j) ∈ (final c ops).log) ∨
    (∃ t', (t', Ev.canc j) ∈ (final c ops).log ∧ (t', Ev.timeout) ∈ (final c ops).log) := by
  have h1 := exactly_one_result c ops t j h
  have hmem : j ∈ resJobs (final c ops).log := List.count_pos_iff.mp (by omega)
  simp only [resJobs, List.mem_filterMap] at hmem
  obtain ⟨⟨t', e⟩, hm, he⟩ := hmem
  cases e with
  | succ k => simp [evRes] at he; subst he; exact Or.inl ⟨t', Or.inl hm⟩
  | err k => simp [evRes] at he; subst he; exact Or.inl ⟨t', Or.inr hm⟩
  | canc k =>
    simp [evRes] at he; subst he
    rcases latest_never_cancelled c (ops ++ [.finish]) t' k hm with h2 | h2
    · simp only [final] at hlast; omega
    · exact Or.inr ⟨t', hm, h2⟩
  | _ => simp [evRes] at he

/-- start mode: every put starts its own run in the instant of its arrival; the only exception is the
    stop_data job (accepted last, by `stop()`), which `stop_async` runs after all others -/
theorem start_all_start_at_arrival (c : Cfg) (ops : List Op) (h : c.mode = Mode.start) (t : Nat) (j : Job)
    (hp : (t, Ev.put j) ∈ (final c ops).log) :
    (t, Ev.start j) ∈ (final c ops).log ∨
    ((final c ops).stopped = true ∧ j.seq + 1 = (final c ops).nacc ∧ c.stopData = some j.data) := by
  rcases run_startAt c (ops ++ [.finish]) h t j hp with ⟨hq, _⟩ | h2 | h3
  · have := (returns_to_zero c ops).2.2.1
    simp only [final] at this; rw [this] at hq; cases hq
  · exact Or.inl h2
  · exact Or.inr h3

/-- wait and cancel mode: a run starts no earlier than guard_time after the coroutine of any earlier
    run was over — whether it ended by itself (`done`) or was cancelled -/
theorem guard_separation (c : Cfg) (ops : List Op) (h : c.mode ≠ Mode.start)
    (l1 l2 : List (Nat × Ev)) (t2 : Nat) (k : Job)
    (hl : (run c ops).log = l1 ++ (t2, Ev.start k) :: l2) (t1 : Nat) (j : Job)
    (hj : (t1, Ev.done j) ∈ l2 ∨ (t1, Ev.cancelled j) ∈ l2) : t1 + c.guard ≤ t2 := by
  have hs := (run_gInv c ops).2 h
  rcases hj with hj | hj
  · exact sepOK_split hs hl t1 _ hj rfl
  · exact sepOK_split hs hl t1 _ hj rfl

/-- stop_data is processed last: after `stop()` with stop_data `d`, once everything is complete, the log
    ends with the run of the stop_data job (the job accepted last) — after its start no other run starts
    and no other result is produced -/
theorem stop_data_last (c : Cfg) (ops : List Op) (d : Item)
    (hst : (final c ops).stopped = true) (hd : c.stopData = some d) :
    ∃ l1 t l2, (final c ops).log = l1 ++ (t, Ev.start ⟨(final c ops).nacc - 1, d⟩) :: l2 ∧
      ∀ x ∈ l1, evJob x.2 = some ⟨(final c ops).nacc - 1, d⟩ ∨ evJob x.2 = none := by
  have hidle := returns_to_zero c ops
  rcases run_sdLast c (ops ++ [.finish]) hst d hd with (⟨_, q0, hq⟩ | ⟨_, hp⟩) | hs
  · have := hidle.2.2.1; simp only [final] at this; rw [this] at hq
    cases q0 <;> simp at hq
  · have := hidle.2.2.2; simp only [final] at this; rw [this] at hp; cases hp
  · exact hs.2.2.2

/-- a put that reaches the block after its `stop()` (an internal event sent during the clean-up: `Block.event`
    still delivers it and `_event_put` queues it behind the sentinel) never starts a run and is never
    reported: no success, no error, no cancel -- at any later point of any script -/
theorem late_put_never_served (c : Cfg) (ops : List Op) (t : Nat) (j : Job)
    (h : (t, Ev.late j) ∈ (run c ops).log) :
    (∀ t', (t', Ev.start j) ∉ (run c ops).log) ∧ (resJobs (run c ops).log).count j = 0 := by
  have hl := run_lateInv c ops j (mem_lateJobs h)
  have hnp : j ∉ putJobs (run c ops).log := fun hp => by
    have := (run_uniq c ops).1 j hp; omega
  refine ⟨fun t' hs => hnp ((run_startPut c ops).2.2 j (mem_startJobs hs)), ?_⟩
  have := (at_most_one_result_ever c ops j).1
  have h0 : (putJobs (run c ops).log).count j = 0 := List.count_eq_zero_of_not_mem hnp
  omega

/-- after the start of the stop_data run no other run starts -- puts that arrive after `stop()` included
    (they never start at all): stop_data's run is the last one to start -/
theorem stop_data_is_last_start (c : Cfg) (ops : List Op) (d : Item)
    (hst : (final c ops).stopped = true) (hd : c.stopData = some d) :
    ∃ l1 t l2, (final c ops).log = l1 ++ (t, Ev.start ⟨(final c ops).nacc - 1, d⟩) :: l2 ∧
      ∀ t' k, (t', Ev.start k) ∈ l1 → k = ⟨(final c ops).nacc - 1, d⟩ := by
  obtain ⟨l1, t, l2, hl, hall⟩ := stop_data_last c ops d hst hd
  refine ⟨l1, t, l2, hl, fun t' k hk => ?_⟩
  rcases hall _ hk with h | h
  · simpa [evJob] using h
  · simp [evJob] at h

/--
Full statement of the property: "every 'put' accepted by an OutputAsync block results in exactly one of
on_success, on_error or on_cancel".  It does not hold for puts that are accepted after `stop()`
(`late_put_never_served`: they are dropped silently; known finding C12-put-after-stop-dropped, the
counter-example is the `example` below), so it is proved under the hypothesis that no put arrives after
the stop: then every arrival marker is a `put` marker and has exactly one result.
-/
theorem every_put_exactly_one_result_partial (c : Cfg) (ops : List Op)
    (hnl : ∀ t j, (t, Ev.late j) ∉ (final c ops).log) (t : Nat) (j : Job)
    (h : (t, Ev.put j) ∈ (final c ops).log ∨ (t, Ev.late j) ∈ (final c ops).log) :
    (resJobs (final c ops).log).count j = 1 := by
  rcases h with h | h
  · exact exactly_one_result c ops t j h
  · exact absurd h (hnl t j)

/-! ### the hypotheses are satisfiable: concrete scripts -/

/-- a put after `stop()` (cancel mode, sent while the controller waits for the guard sleep of the cancelled
    run): accepted, never started, never reported; stop_data runs last and succeeds -/
example :
    let c : Cfg := ⟨.cancel, 2, some ⟨99, 2, false, false⟩, 1000⟩
    let ops := [Op.put 0 true false ⟨1, 5, false, false⟩, .stop 1 true false, .put 2 true false ⟨2, 1, false, false⟩]
    (2, Ev.late ⟨2, ⟨2, 1, false, false⟩⟩) ∈ (final c ops).log ∧
    (resJobs (final c ops).log).count ⟨2, ⟨2, 1, false, false⟩⟩ = 0 ∧
    (3, Ev.start ⟨1, ⟨99, 2, false, false⟩⟩) ∈ (final c ops).log ∧
    (5, Ev.succ ⟨1, ⟨99, 2, false, false⟩⟩) ∈ (final c ops).log := by decide +kernel


/-- cancel mode, guard 2: run 0 is cancelled by put 1, put 1 is discarded for put 2 (which arrives during
    the guard sleep), put 2 completes; three results, output back to 0 -/
example :
    let c : Cfg := ⟨.cancel, 2, none, 1000⟩
    let ops := [Op.put 0 true false ⟨1, 5, false, false⟩, .put 2 true false ⟨2, 5, false, false⟩,
                .put 3 true false ⟨3, 1, false, false⟩, .stop 30 true false]
    (2, Ev.cancelled ⟨0, ⟨1, 5, false, false⟩⟩) ∈ (final c ops).log ∧
    (4, Ev.canc ⟨1, ⟨2, 5, false, false⟩⟩) ∈ (final c ops).log ∧
    (4, Ev.start ⟨2, ⟨3, 1, false, false⟩⟩) ∈ (final c ops).log ∧
    (5, Ev.succ ⟨2, ⟨3, 1, false, false⟩⟩) ∈ (final c ops).log ∧
    (final c ops).output = 0 ∧ (final c ops).nacc = 3 := by decide +kernel

/-- wait mode with stop_data: queued work and then stop_data are processed after the stop -/
example :
    let c : Cfg := ⟨.wait, 1, some ⟨99, 2, false, false⟩, 1000⟩
    let ops := [Op.put 0 true false ⟨1, 3, false, false⟩, .put 1 false false ⟨2, 3, true, false⟩, .stop 2 true false]
    (final c ops).stopped = true ∧
    (7, Ev.err ⟨1, ⟨2, 3, true, false⟩⟩) ∈ (final c ops).log ∧
    (8, Ev.start ⟨2, ⟨99, 2, false, false⟩⟩) ∈ (final c ops).log ∧
    (10, Ev.succ ⟨2, ⟨99, 2, false, false⟩⟩) ∈ (final c ops).log := by decide +kernel

/-- start mode: two overlapping runs, stop_data after both -/
example :
    let c : Cfg := ⟨.start, 0, some ⟨99, 2, false, false⟩, 1000⟩
    let ops := [Op.put 0 true false ⟨1, 3, false, false⟩, .put 1 true false ⟨2, 2, false, false⟩, .stop 2 true false]
    (1, Ev.out 2) ∈ (final c ops).log ∧ (3, Ev.start ⟨2, ⟨99, 2, false, false⟩⟩) ∈ (final c ops).log := by
  decide +kernel

/-- the data of a put is an arbitrary mapping -- the EMPTY mapping included (`Item.empty`: `blk.event('put')`
    for a coroutine without arguments, `stop_data = {}`): all statements above quantify over every `Item`, so an
    empty mapping is an item like any other.  Here (wait mode): a put without data runs and succeeds, the next
    put is served after it, and the empty stop_data runs last -/
example :
    let c : Cfg := ⟨.wait, 0, some ⟨99, 2, false, true⟩, 1000⟩
    let ops := [Op.put 0 true false ⟨1, 1, false, true⟩, .put 2 true false ⟨2, 1, false, false⟩, .stop 6 false false]
    (1, Ev.succ ⟨0, ⟨1, 1, false, true⟩⟩) ∈ (final c ops).log ∧
    (3, Ev.succ ⟨1, ⟨2, 1, false, false⟩⟩) ∈ (final c ops).log ∧
    (6, Ev.start ⟨2, ⟨99, 2, false, true⟩⟩) ∈ (final c ops).log ∧
    (resJobs (final c ops).log).count ⟨0, ⟨1, 1, false, true⟩⟩ = 1 ∧
    (final c ops).output = 0 := by decide +kernel

/-- stop_timeout expiry (wait mode, stop at 2, stop_timeout 4, deadline 6): the run in progress (put 2,
    started at 3) is reported cancelled at 6, but the work goes on after the deadline -- put 3 starts at 6
    and succeeds at 9, stop_data runs from 9 to 11; every put still has exactly one result.
    (This is what the code does: `_output_coro` swallows the cancellation of `stop_async`.) -/
example :
    let c : Cfg := ⟨.wait, 0, some ⟨99, 2, false, false⟩, 4⟩
    let ops := [Op.put 0 true false ⟨1, 3, false, false⟩, .put 1 true false ⟨2, 3, false, false⟩,
                .put 1 true true ⟨3, 3, false, false⟩, .stop 2 true false]
    (6, Ev.timeout) ∈ (final c ops).log ∧
    (6, Ev.canc ⟨1, ⟨2, 3, false, false⟩⟩) ∈ (final c ops).log ∧
    (6, Ev.start ⟨2, ⟨3, 3, false, false⟩⟩) ∈ (final c ops).log ∧
    (9, Ev.succ ⟨2, ⟨3, 3, false, false⟩⟩) ∈ (final c ops).log ∧
    (11, Ev.succ ⟨3, ⟨99, 2, false, false⟩⟩) ∈ (final c ops).log ∧
    (final c ops).output = 0 := by decide +kernel

end Edzed.OutputAsync

/-! ## Tie by translation

`tools/py2lean_oasync.py` regenerates `EdzedModel/Gen/TranslatedOutputAsync.lean` from the CURRENT source of
`OutputAsync._ctrl_cancel/_ctrl_wait/_ctrl_start/_output_coro/_output_coro_wrapper/_event_put/stop/stop_async`
and `utils.shield_cancel` on every run: each `await` is a primitive call, a `while True` loop is one iteration
function plus fuel.  The theorems below run these programs on primitives that are the operations of the model
(`EdzedProofs/OutputAsyncTie.lean`) and say that they compute the model's steps.  A semantic edit of one of
the methods changes the generated program and breaks the theorem about it. -/

namespace Edzed.TrTie
open Edzed.TrTie.OA Edzed.OutputAsync Edzed.OutputAsync.Shield Edzed.Gen.TrD Edzed.Gen.TrOA

/-- **`shield_cancel` as translated IS the model's `shieldCancel`**: for every script of what the successive
    `await asyncio.shield(task)` yield, the translated function re-awaits the shielded task after each
    cancellation, returns its value if there was none, re-raises the last cancellation when the task has
    finished, and lets a cancellation that finds the task done (and any other exception) propagate at once
    (`fuel` = any number above the number of awaits) -/
theorem translated_outputasync_shield_cancel_is_model {ε ν : Type} (script : List (Step ε ν)) (fuel : Nat)
    (h : script.length < fuel) :
    shieldOut ((shield_cancel (shieldP (ε := ε) (ν := ν)) fuel () ⟨script, false⟩).2)
      = shieldCancel script none := by
  have := shield_loop_model script none none false fuel h
  simp only [Option.map] at this
  rw [← this, shield_cancel_unfold]

/-! ### `_ctrl_cancel`: one iteration of the control loop

The model's controller step `settle` is event-granular: it looks at the queue and at the current run.  The
code is await-granular: one iteration of `while True` takes an item, cancels and AWAITS the running task, then
drains the queue and starts the last item.  `W` below is whatever happens while the controller awaits -- it is
universally quantified; the only thing assumed about it is that the awaited task is over afterwards. -/

/-- nothing is running (no task yet, or the task is done): ONE ITERATION of `_ctrl_cancel` IS the model's
    `settle` -- the item taken from the queue and everything queued behind it are drained, each discarded
    item is reported through on_cancel with ITS OWN data, in order, the last one is started; a sentinel in
    the queue ends the drain with `stop = True` and the item before it still runs -/
theorem translated_outputasync_ctrl_cancel_idle_is_settle (c : Cfg) (W : State → State)
    (hm : c.mode = Mode.cancel) (s : State) (j : Job) (q : List Job) (task : Option Job) (data : Option Job)
    (fuel : Nat) (hr : s.runs = []) (hq : s.queue = j :: q) (hf : q.length < fuel) :
    ctrl_cancel_iter1 (ctrlP c W) [.onCancel] fuel () data false task s
      = (settle c s, .next (LoopCtl.next, (some (lastJob j q), s.stopped, some (lastJob j q)))) := by
  have htail := cancel_tail c W hm { s with queue := q } j fuel hr hf
  have hre : requeue j { s with queue := q } = s := by cases s; simp_all [requeue]
  rw [hre] at htail
  unfold ctrl_cancel_iter1
  simp only [M.bind, Bool.not_false, if_true, ctrlP_get_cons c W s j q hq, Option.isNone_some, Bool.false_eq_true,
    if_false, M.pure]
  cases task with
  | none => simpa [M.bind, M.pure] using htail
  | some k =>
    have hd : (ctrlP c W).taskDone k { s with queue := q } = true := by simp [ctrlP, hr]
    simpa [M.bind, M.pure, M.get, hd] using htail

/-- a task is active: ONE ITERATION of `_ctrl_cancel` is the model's `settle` (the running coroutine is
    cancelled -- only while it is in its coroutine phase, never by the sentinel --, the item taken stays
    "queued first"), then whatever happens while the controller awaits the task (`W`), then the model's
    `settle` again: drain with on_cancel for every discarded item, start the last -/
theorem translated_outputasync_ctrl_cancel_busy_is_settle_wait_settle (c : Cfg) (W : State → State)
    (hm : c.mode = Mode.cancel) (hW : ∀ x, (W x).runs = []) (s : State) (r : Run) (rest : List Run) (j : Job)
    (q : List Job) (data : Option Job) (fuel : Nat) (hr : s.runs = r :: rest) (hq : s.queue = j :: q)
    (hf : (W { settle c s with queue := q }).queue.length < fuel) :
    let s2 := W { settle c s with queue := q }
    ctrl_cancel_iter1 (ctrlP c W) [.onCancel] fuel () data false (some r.job) s
      = (settle c (requeue j s2),
         .next (LoopCtl.next, (some (lastJob j s2.queue), s2.stopped, some (lastJob j s2.queue)))) := by
  intro s2
  have hcj := cancelJob_is_settle c hm s r rest j q hr hq
  have htail := cancel_tail c W hm s2 j fuel (hW _) hf
  have hd : (ctrlP c W).taskDone r.job { s with queue := q } = false := by simp [ctrlP, hr]
  unfold ctrl_cancel_iter1
  simp only [M.bind, Bool.not_false, if_true, ctrlP_get_cons c W s j q hq, Option.isNone_some, Bool.false_eq_true,
    if_false, M.pure, M.get, hd, Bool.not_false]
  have hc : (ctrlP c W).taskCancel r.job { s with queue := q } = (cancelJob c r.job { s with queue := q }, .next ()) := rfl
  have hw : ∀ x, (ctrlP c W).awaitTask r.job x = (W x, .next ()) := fun _ => rfl
  simp only [hc, hw, hcj]
  simpa [M.bind, M.pure] using htail

/-- the sentinel: it never cancels -- with a task still active the iteration awaits it and leaves the loop;
    nothing else happens -/
theorem translated_outputasync_ctrl_cancel_sentinel (c : Cfg) (W : State → State) (s : State)
    (task : Option Job) (data : Option Job) (fuel : Nat) (hq : s.queue = []) (hs : s.stopped = true) :
    ctrl_cancel_iter1 (ctrlP c W) [.onCancel] fuel () data false task s
      = ((match task with
          | some k => if (ctrlP c W).taskDone k s then s else W s
          | none => s),
         .next (LoopCtl.brk, (none, true, task))) := by
  unfold ctrl_cancel_iter1
  simp only [M.bind, Bool.not_false, if_true, ctrlP_get_sentinel c W s hq hs, Option.isNone_none, M.pure]
  cases task with
  | none => rfl
  | some k =>
    have hw : ∀ x, (ctrlP c W).awaitTask k x = (W x, .next ()) := fun _ => rfl
    cases hd : (ctrlP c W).taskDone k s <;> simp [M.bind, M.get, M.pure, hd, hw]

/-- after the sentinel has been seen in the drain (`stop = True`): the next iteration takes nothing from the
    queue, does not cancel the task it has just started, awaits it and leaves the loop -/
theorem translated_outputasync_ctrl_cancel_after_stop (c : Cfg) (W : State → State) (s : State)
    (k : Job) (data : Option Job) (fuel : Nat) (hd : (ctrlP c W).taskDone k s = false) :
    ctrl_cancel_iter1 (ctrlP c W) [.onCancel] fuel () data true (some k) s
      = (W s, .next (LoopCtl.brk, (data, true, some k))) := by
  have hw : ∀ x, (ctrlP c W).awaitTask k x = (W x, .next ()) := fun _ => rfl
  unfold ctrl_cancel_iter1
  simp [M.bind, M.get, M.pure, hd, hw]

/-! ### `_ctrl_wait`, `_ctrl_start` -/

/-- ONE ITERATION of `_ctrl_wait` with nothing running: the head of the queue is taken and its run is
    started -- the model's `settle` -- and the controller awaits the whole run (`W`) before it looks at the
    queue again -/
theorem translated_outputasync_ctrl_wait_iter_is_settle (c : Cfg) (W : State → State) (hm : c.mode = Mode.wait)
    (s : State) (j : Job) (q : List Job) (data : Option Job) (fuel : Nat)
    (hr : s.runs = []) (hq : s.queue = j :: q) :
    ctrl_wait_iter1 (ctrlP c W) [.onCancel] fuel data s = (W (settle c s), .next (LoopCtl.next, some j)) := by
  have hset : settle c s = startRun { s with queue := q } j := by
    unfold settle; simp only [hm, hr, hq]
  have hrw : (ctrlP c W).runWrapper (some j) { s with queue := q } = (W (startRun { s with queue := q } j), .next ()) := rfl
  unfold ctrl_wait_iter1
  simp [M.bind, ctrlP_get_cons c W s j q hq, hrw, M.pure, hset]

/-- the sentinel ends `_ctrl_wait`; nothing else happens -/
theorem translated_outputasync_ctrl_wait_sentinel (c : Cfg) (W : State → State) (s : State) (data : Option Job)
    (fuel : Nat) (hq : s.queue = []) (hs : s.stopped = true) :
    ctrl_wait_iter1 (ctrlP c W) [.onCancel] fuel data s = (s, .next (LoopCtl.brk, none)) := by
  unfold ctrl_wait_iter1
  simp [M.bind, ctrlP_get_sentinel c W s hq hs, M.pure]

/-- `_ctrl_start` on a stopped block: every queued item starts its own run at once, in order -- the model's
    `startAll`, i.e. its `settle` up to `stop_async`'s part --, then the controller awaits all of them (`W`) -/
theorem translated_outputasync_ctrl_start_is_startAll (c : Cfg) (W : State → State) (hm : c.mode = Mode.start)
    (s : State) (fuel : Nat) (hs : s.stopped = true) (hf : s.queue.length < fuel) :
    let s1 := startAll { s with queue := [] } s.queue
    ctrl_start (ctrlP c W) [.onCancel] fuel s = ((if s1.runs.isEmpty then s1 else W s1), .next ()) ∧
    settle c s = startStopData s1 := by
  intro s1
  refine ⟨?_, by unfold settle; simp only [hm]; rfl⟩
  unfold ctrl_start
  simp only [M.bind, start_loop c W s s.queue none fuel rfl hs hf, M.get]
  have ht : (ctrlP c W).tasksNonEmpty s1 = !s1.runs.isEmpty := rfl
  have hg : ∀ x, (ctrlP c W).gatherTasks x = (W x, .next ()) := fun _ => rfl
  change (if (ctrlP c W).tasksNonEmpty s1 = true then
      (ctrlP c W).gatherTasks.bind fun _ => M.pure () else M.pure ()) s1 = _
  rw [ht]
  cases s1.runs.isEmpty <;> simp [M.bind, M.pure, hg]

/-! ### `_event_put`, `stop`, `stop_async` -/

/-- `_event_put` IS the model's acceptance of a put (before `stop()`: queued; after it: behind the sentinel) -/
theorem translated_outputasync_event_put_is_accept (c : Cfg) (W : State → State) (s : State) (x : Item) :
    event_put (stopP c W) x s = ((if s.stopped then acceptLate s x else accept s x), .next ()) := by
  simp [event_put, stopP, M.bind, M.modify, M.pure]

/-- `stop()` IS the model's `doStop`: stop_data is queued as an ordinary item BEFORE the sentinel in wait and
    cancel mode; in start mode `stop()` does not touch stop_data (the model registers it for `stop_async`,
    see `translated_outputasync_stop_async_is_model`): there the code does what `doStop` does for a block
    without stop_data -/
theorem translated_outputasync_stop_is_doStop (c : Cfg) (W : State → State) (s : State)
    (hns : s.stopped = false) :
    (stop (stopP c W) s).1 = doStop (if c.mode = Mode.start then { c with stopData := none } else c) s := by
  unfold stop doStop
  cases hd : c.stopData with
  | none =>
    by_cases hm : c.mode = Mode.start <;>
      simp [stopP, hd, hm, hns, M.bind, M.modify, M.pure, markStopped]
  | some d =>
    by_cases hm : c.mode = Mode.start
    · simp [stopP, hd, hm, hns, M.bind, M.modify, M.pure, markStopped]
    · simp [stopP, hd, hm, hns, M.bind, M.modify, M.pure, markStopped, accept, emit]

/-- `stop_async` IS the model's end of the stop: it awaits the control task (`W`; a cancellation of this
    await is swallowed) and then, in start mode only, runs stop_data -- the model's `startStopData` -/
theorem translated_outputasync_stop_async_is_model (c : Cfg) (W : State → State) (s : State)
    (hst : (W s).stopped = true) (hr : (W s).runs = [])
    (hsd : c.stopData = none → (W s).sdPending = none) :
    (stop_async (stopP c W) s).1 = if c.mode = Mode.start then startStopData (W s) else W s := by
  unfold stop_async startStopData
  by_cases hm : c.mode = Mode.start
  · cases hd : c.stopData with
    | none => simp [stopP, hd, hm, M.bind, M.modify, M.pure, M.tryExcept, hsd hd]
    | some d =>
      cases hp : (W s).sdPending <;>
        simp [stopP, hd, hm, M.bind, M.modify, M.pure, M.tryExcept, hp, hst, hr]
  · cases hd : c.stopData <;> simp [stopP, hd, hm, M.bind, M.modify, M.pure, M.tryExcept]

/-! ### one run: `_output_coro`, `_output_coro_wrapper` -/

/-- the user's coroutine comes to its end: `_output_coro` logs what the model's `coroEnd` logs (`afterCoro`:
    the end of the coroutine, then success for a returning and error for a raising script, with the job's
    own data), then sleeps the (shielded) guard time iff it is positive -/
theorem translated_outputasync_output_coro_end_is_model (c : Cfg) (s : State) (j : Job) (t : Nat) :
    output_coro (runP0 c (.ends t)) [.onCancel] [.onError] [.onSuccess] j s
      = (guardPart c (afterCoro (emit s (.start j)) t ⟨j, true, t⟩), .next ()) := by
  unfold output_coro guardPart afterCoro
  cases hf : j.data.fail <;> by_cases hg : 0 < c.guard <;>
    simp [tryExceptElse, runP0, excIs, M.bind, M.pure, M.modify, M.raise, M.tryExcept, hf, hg,
      output_coro_for1, output_coro_for2, output_coro_for3, emit, sleepGuard]

/-- a cancellation is delivered inside the user's coroutine: `_output_coro` reports it through on_cancel
    with the job's own data -- the two log entries of the model's `cancelCur` / `expire` -- and still sleeps
    the guard time -/
theorem translated_outputasync_output_coro_cancel_is_model (c : Cfg) (s : State) (j : Job) (t : Nat) :
    output_coro (runP0 c (.cancelledAt t)) [.onCancel] [.onError] [.onSuccess] j s
      = (guardPart c (emit (emit { emit s (.start j) with now := max s.now t } (.cancelled j)) (.canc j)), .next ()) := by
  unfold output_coro guardPart
  by_cases hg : 0 < c.guard <;>
    simp [tryExceptElse, runP0, excIs, M.bind, M.pure, M.modify, M.raise, M.tryExcept, hg,
      output_coro_for1, output_coro_for2, output_coro_for3, emit, sleepGuard]

/-- the whole run: `_output_coro_wrapper` counts the output up, runs `_output_coro`, and counts it down in
    every case -- the model's `startRun`, `afterCoro` (+ guard time), `countDown` (the model additionally
    keeps the run in `runs` while it is active) -/
theorem translated_outputasync_wrapper_is_model (c : Cfg) (s : State) (j : Job) (t : Nat) :
    (output_coro_wrapper (runP c (.ends t)) [.onCancel] [.onError] [.onSuccess] j s).1
      = { countDown (guardPart c (afterCoro (startRun s j) t ⟨j, true, t⟩)) with runs := s.runs } := by
  have h1 := translated_outputasync_output_coro_end_is_model c (addOut 1 s) j t
  unfold output_coro_wrapper
  simp only [runP, M.bind, M.tryFinally, M.pure]
  have ha : ∀ d x, (runP0 c (.ends t)).addOutput d x = (addOut d x, .next ()) := fun _ _ => rfl
  simp only [ha, h1]
  unfold guardPart afterCoro countDown startRun addOut sleepGuard
  by_cases hg : 0 < c.guard <;> cases hf : j.data.fail <;> simp [hg, hf, emit] <;> omega

/-- the output is counted down IN EVERY CASE (`try … finally`): whatever `_output_coro` does -- returns,
    raises, is cancelled --, the wrapper counts the output up before and down after it, and the outcome
    of `_output_coro` is the outcome of the wrapper -/
theorem translated_outputasync_wrapper_counts_down_always (c : Cfg) (oc : Outcome)
    (body : Job → M State Exc Unit Unit) (j : Job) (s : State) :
    output_coro_wrapper (runPwith c oc body) [.onCancel] [.onError] [.onSuccess] j s
      = (addOut (-1) (body j (addOut 1 s)).1,
         match (body j (addOut 1 s)).2 with
         | .next _ => .next ()
         | .ret r => .ret r
         | .raise e => .raise e
         | .diverged => .diverged) := by
  have ha : ∀ d x, (runPwith c oc body).addOutput d x = (addOut d x, .next ()) := fun _ _ => rfl
  have hb : (runPwith c oc body).runCoro = body := rfl
  unfold output_coro_wrapper
  simp only [M.bind, M.tryFinally, M.pure, ha, hb]
  cases hbody : body j (addOut 1 s) with
  | mk s1 o => cases o <;> rfl

end Edzed.TrTie

/-! ## Tie by translation, second part: constructors, `start`, `OutputFunc`

`Gen/TranslatedOutputBlocks.lean` is regenerated from `_check_arg`, `OutputAsync.__init__ / start /
init_regular` and `OutputFunc.__init__ / _event_put / init_regular / stop` (incl. the keyword-only defaults of
the two signatures); the model is `EdzedModel/OutputBlocks.lean`. -/

namespace Edzed.TrTie
open Edzed.TrTie.OB Edzed.OutputBlocks Edzed.Gen.TrD Edzed.Gen.TrOB

/-- `_check_arg` IS the model's `ArgSpec.ok`: a str, a non-sequence and a sequence with a non-str item raise
    TypeError, everything else passes; nothing is changed -/
theorem translated_outputasync_check_arg_is_model (st : Option Int) (name : String) (a : ArgSpec) (s : Attrs) :
    check_arg (initP0 st) name a s = if a.ok then (s, .next ()) else (s, .raise .argsNotStrings) :=
  check_arg_model st name a s

/-- the keyword-only parameters of `OutputAsync(…)` and their defaults, from the current signature:
    `coro`, `mode`, `on_error` are required; f_args defaults to `('value',)`, f_kwargs to `()`, everything
    else to None -/
theorem translated_outputasync_init_defaults :
    oasync_init_defaults =
      [("coro", "<required>"), ("mode", "<required>"), ("f_args", "('value',)"), ("f_kwargs", "()"),
       ("guard_time", "None"), ("on_success", "None"), ("on_cancel", "None"), ("on_error", "<required>"),
       ("stop_data", "None")] := by decide

/-- … and of `OutputFunc(…)` -/
theorem translated_outputfunc_init_defaults :
    ofunc_init_defaults =
      [("func", "<required>"), ("f_args", "('value',)"), ("f_kwargs", "()"), ("on_success", "None"),
       ("on_error", "<required>"), ("stop_data", "None")] := by decide

/-- **`OutputAsync.__init__` as translated IS the model's `constructAsync`**, for all argument values:
    what is refused, with which exception and in which order of the checks, and what is stored -/
theorem translated_outputasync_init_is_model (a : AsyncArgs) :
    asyncResult (oasync_init (initP a.stopTimeout) a.mode a.fArgs a.fKwargs (guardArg a.guard)
        a.onSuccess a.onCancel a.onError a.stopData () () {})
      = constructAsync a :=
  oasync_init_model a

/-- **`OutputFunc.__init__` as translated IS the model's `constructFunc`** -/
theorem translated_outputfunc_init_is_model (a : FuncArgs) :
    funcResult (ofunc_init (initP (if a.superOk then some 0 else none)) a.fArgs a.fKwargs a.onSuccess a.onError
        a.stopData () () {})
      = constructFunc a :=
  ofunc_init_model a

/-- `OutputAsync.start`: `super().start()`, then the queue is created, then -- the queue exists -- the control
    task of the selected mode; `init_regular` sets the output to 0 (no run is active) -/
theorem translated_outputasync_start_is_model (st : Option Int) (s : Attrs) :
    oasync_start (initP st) s
      = ({ s with started := true, queue := true, ctrlTask := true,
                  startLog := s.startLog ++ ["super().start", "queue", "control task"] }, .next ()) ∧
    oasync_init_regular (initP st) s = ({ s with output := some 0 }, .next ()) := by
  constructor
  · simp [oasync_start, initP, initP0, M.bind, M.modify, M.pure]
  · rfl

/-- `OutputFunc.init_regular`: the output of an OutputFunc is False -/
theorem translated_outputfunc_init_regular_is_model (cfg : FuncCfg) (f : Func) (sd) (log : List FEv) :
    (ofunc_init_regular (funcP cfg f sd) cfg.fArgs cfg.fKwargs (List.range cfg.nError) (List.range cfg.nSuccess) log).1
      = initRegular log := rfl

/-- **`OutputFunc._event_put` as translated IS the model's `eventPut`**: the items named by f_args / f_kwargs are
    taken from the event data (a missing key raises KeyError before anything is called), the function is
    called with exactly them, an exception is reported to every on_error destination and returned as
    ('error', exc), a result is reported to every on_success destination and returned as ('result', value) -/
theorem translated_outputfunc_event_put_is_model (cfg : FuncCfg) (f : Func) (sd) (data : Data) (log : List FEv) :
    let r := ofunc_event_put (funcP cfg f sd) cfg.fArgs cfg.fKwargs (List.range cfg.nError)
      (List.range cfg.nSuccess) data log
    (r.1, funcOut r.2) = ((eventPut cfg f log data).1, some (eventPut cfg f log data).2) := by
  intro r
  simp only [r, ofunc_event_put, eventPut, M.bind, getItems_model, getKwItems_model]
  cases getAll data cfg.fArgs with
  | error k => simp [funcOut]
  | ok args =>
    cases getAllKw data cfg.fKwargs with
    | error k => simp [funcOut]
    | ok kwargs =>
      have hc : (funcP cfg f sd).callFunc args kwargs log =
          match f args kwargs with
          | .ok v => (log ++ [.call args kwargs], .next v)
          | .error e => (log ++ [.call args kwargs], .raise (.user e)) := rfl
      have hx : ∀ e, (funcP cfg f sd).excIs e "Exception" = true := fun _ => rfl
      simp only [M.tryExcept, M.bind, hc]
      cases f args kwargs with
      | error e => simp [hx, error_loop, M.bind, M.ret, M.pure, funcOut]
      | ok v => simp [success_loop, M.bind, M.ret, M.pure, funcOut]

/-- **`OutputFunc.stop` IS the model's `stop`**: stop_data, if present, is delivered through `_event_put` -- the
    last call of the function -- and only then `super().stop()` runs; a KeyError of that delivery propagates
    (then `super().stop()` is not reached); without stop_data only `super().stop()` happens -/
theorem translated_outputfunc_stop_is_model (cfg : FuncCfg) (f : Func) (log : List FEv) :
    let r := ofunc_stop (funcP cfg f (sdRunModel cfg f)) cfg.fArgs cfg.fKwargs (List.range cfg.nError)
      (List.range cfg.nSuccess) log
    r.1 = (stop cfg f log).1 ∧
    (match r.2 with | .raise (.keyError k) => some k | _ => none) = (stop cfg f log).2 := by
  intro r
  have hs : ∀ l, (funcP cfg f (sdRunModel cfg f)).superStop l = (l ++ [.superStop], .next ()) := fun _ => rfl
  have he : (funcP cfg f (sdRunModel cfg f)).eventPutStopData = sdRunModel cfg f := rfl
  have hh : (funcP cfg f (sdRunModel cfg f)).hasStopData = cfg.stopData.isSome := rfl
  simp only [r, ofunc_stop, stop, M.bind, hh, he]
  cases hd : cfg.stopData with
  | none => simp [hs, M.pure]
  | some d =>
    have hsd : ∀ l, sdRunModel cfg f l =
        match eventPut cfg f l d with
        | (l', .keyError k) => (l', .raise (.keyError k))
        | (l', .result v) => (l', .next ("result", .inr v))
        | (l', .error e) => (l', .next ("error", .inl (.user e))) := by
      intro l; unfold sdRunModel; rw [hd]; rfl
    simp only [Option.isSome_some, Bool.not_true, if_true, Bool.false_eq_true, if_false, hsd, M.bind, M.pure]
    cases hr : eventPut cfg f log d with
    | mk l res => cases res <;> simp [hs, M.pure]

/-- **`InExecutor.__call__` IS the model's `inExecutorCall`**: a pool is entered, the function runs in it with
    exactly the given positional and keyword arguments (through `functools.partial` iff there are keyword
    arguments), the pool is left on every outcome, the result is returned and an exception propagates -/
theorem translated_outputasync_inexecutor_call_is_model (f : Func) (args : List Val) (kwargs : Data) :
    let r := inexecutor_call (execP f) args kwargs []
    r.1 = (inExecutorCall f args kwargs).1 ∧
    (match r.2 with | .ret v => some (Except.ok v) | .raise e => some (Except.error e) | _ => none)
      = some (inExecutorCall f args kwargs).2 := by
  intro r
  simp only [r, inexecutor_call, inExecutorCall, M.bind, M.tryFinally, execP, M.modify, M.ret]
  cases kwargs with
  | nil => cases f args [] <;> simp [M.bind, M.ret]
  | cons p ps => cases f args (p :: ps) <;> simp [M.bind, M.ret]

/-! ### what follows for the constructors and for OutputFunc (stated on the model the programs were proved equal to) -/

/-- the mode argument: exactly 'cancel', 'wait', 'start' and their first letters are accepted -/
theorem outputasync_mode_values (m : String) :
    (modeOf m).isSome = (["c", "cancel", "w", "wait", "s", "start"].contains m) := by
  unfold modeOf
  by_cases h1 : (m == "c" || m == "cancel") = true
  · simp only [h1, if_true]; simp at h1; rcases h1 with h | h <;> simp [h]
  · by_cases h2 : (m == "w" || m == "wait") = true
    · simp only [h1, h2, if_true, if_false]; simp at h2; rcases h2 with h | h <;> simp [h]
    · by_cases h3 : (m == "s" || m == "start") = true
      · simp only [h1, h2, h3, if_true, if_false]; simp at h3; rcases h3 with h | h <;> simp [h]
      · simp only [h1, h2, h3, if_false]
        simp at h1 h2 h3
        have e1 : (m == "c") = false := by simpa using h1.1
        have e2 : (m == "cancel") = false := by simpa using h1.2
        have e3 : (m == "w") = false := by simpa using h2.1
        have e4 : (m == "wait") = false := by simpa using h2.2
        have e5 : (m == "s") = false := by simpa using h3.1
        have e6 : (m == "start") = false := by simpa using h3.2
        simp [List.contains, List.elem, e1, e2, e3, e4, e5, e6]

/-- whatever is constructed: f_args is a sequence of strs, guard_time is 0 when None was given, never exceeds
    stop_timeout, and the control task is the one the mode names -/
theorem outputasync_constructed_is_sane (a : AsyncArgs) (b : AsyncBlk) (h : constructAsync a = .ok b) :
    b.fArgs.ok = true ∧ (a.guard = .none → b.guard = 0) ∧ b.guard ≤ b.stopTimeout ∧ modeOf a.mode = some b.ctrl := by
  obtain ⟨mode, fArgs, fKwargs, guard, onS, onC, onE, sd, st⟩ := a
  unfold constructAsync at h
  cases hok : fArgs.ok <;> simp only [hok] at h
  · simp [bind, Except.bind, throw, throwThe, MonadExceptOf.throw] at h
  · cases hS : onS.count <;> cases hC : onC.count <;> cases hE : onE.count <;>
      simp [hS, hC, hE, bind, Except.bind, pure, Except.pure] at h
    cases guard <;> cases hm : modeOf mode <;> cases st <;>
      simp [hm, bind, Except.bind, pure, Except.pure, throw, throwThe, MonadExceptOf.throw] at h <;>
      (try split at h) <;> simp_all <;> (try (subst h; simp_all)) <;> omega

/-- a str, a non-sequence or a sequence with a non-str item as f_args is refused by both constructors
    (TypeError of `_check_arg`), before anything else is looked at -/
theorem outputblocks_refuse_bad_f_args (a : AsyncArgs) (fa : FuncArgs) :
    (a.fArgs.ok = false → constructAsync a = .error .argsNotStrings) ∧
    (fa.fArgs.ok = false → constructFunc fa = .error .argsNotStrings) := by
  constructor
  · intro h; unfold constructAsync; simp [h, bind, Except.bind, throw, throwThe, MonadExceptOf.throw]
  · intro h; unfold constructFunc; simp [h, bind, Except.bind, throw, throwThe, MonadExceptOf.throw]

/-- `OutputFunc` checks f_kwargs as well; `OutputAsync` does not (its second `_check_arg` call passes f_args
    again -- an observation about the code, outside the property): the same bad f_kwargs … -/
theorem outputfunc_checks_f_kwargs (fa : FuncArgs) (h1 : fa.fArgs.ok = true) (h2 : fa.fKwargs.ok = false) :
    constructFunc fa = .error .argsNotStrings := by
  unfold constructFunc; simp [h1, h2, bind, Except.bind, pure, Except.pure, throw, throwThe, MonadExceptOf.throw]

/-- … is accepted by `OutputAsync(…)` -/
example : ∃ b, constructAsync { mode := "w", fKwargs := .notSeq, onError := .events 1, stopTimeout := some 10 } = .ok b ∧
    b.fKwargs = .notSeq := ⟨_, rfl, rfl⟩

/-- with all named items present the function is called exactly once, with the items of f_args in order as
    positional and those of f_kwargs as keyword arguments -- with the defaults: the single item 'value' -/
theorem outputfunc_passes_the_named_items (cfg : FuncCfg) (f : Func) (log : List FEv) (data : Data)
    (args : List Val) (kwargs : Data) (ha : getAll data cfg.fArgs = .ok args) (hk : getAllKw data cfg.fKwargs = .ok kwargs) :
    ∃ tail, (eventPut cfg f log data).1 = log ++ [.call args kwargs] ++ tail ∧ ∀ e ∈ tail, ∀ a k, e ≠ .call a k := by
  unfold eventPut
  simp only [ha, hk]
  cases f args kwargs with
  | error e => exact ⟨_, rfl, by intro x hx; simp at hx; obtain ⟨d, _, rfl⟩ := hx; simp⟩
  | ok v => exact ⟨_, rfl, by intro x hx; simp at hx; obtain ⟨d, _, rfl⟩ := hx; simp⟩

theorem outputfunc_default_passes_value (v : Val) (data : Data) (h : data.get? "value" = some v) :
    getAll data ["value"] = .ok [v] ∧ getAllKw data [] = .ok [] := by
  simp [getAll, getAllKw, h]

/-- a missing item: KeyError for the sender, the function is not called, no event is sent -/
theorem outputfunc_missing_item_calls_nothing (cfg : FuncCfg) (f : Func) (log : List FEv) (data : Data) (k : String)
    (h : getAll data cfg.fArgs = .error k) : eventPut cfg f log data = (log, .keyError k) := by
  unfold eventPut; simp [h]

/-- an exception of the function is REPORTED, not raised: every on_error destination gets it (and no on_success
    event is sent), the event returns ('error', exc); whether the simulation goes on is up to the on_error
    destinations (`Event.abort()` aborts) -/
theorem outputfunc_exception_is_reported (cfg : FuncCfg) (f : Func) (log : List FEv) (data : Data)
    (args : List Val) (kwargs : Data) (e : Nat)
    (ha : getAll data cfg.fArgs = .ok args) (hk : getAllKw data cfg.fKwargs = .ok kwargs) (hf : f args kwargs = .error e) :
    eventPut cfg f log data
      = (log ++ [.call args kwargs] ++ (List.range cfg.nError).map (fun d => .error d e), .error e) := by
  unfold eventPut; simp [ha, hk, hf]

/-- a result goes to every on_success destination and is returned as ('result', value) -/
theorem outputfunc_result_is_reported (cfg : FuncCfg) (f : Func) (log : List FEv) (data : Data)
    (args : List Val) (kwargs : Data) (v : Val)
    (ha : getAll data cfg.fArgs = .ok args) (hk : getAllKw data cfg.fKwargs = .ok kwargs) (hf : f args kwargs = .ok v) :
    eventPut cfg f log data
      = (log ++ [.call args kwargs] ++ (List.range cfg.nSuccess).map (fun d => .success d v), .result v) := by
  unfold eventPut; simp [ha, hk, hf]

/-- stop_data is delivered by `stop()` as the LAST call of the function: what `stop()` logs is what the event
    with the stop data logs, followed by `super().stop()` and nothing else -/
theorem outputfunc_stop_data_is_last_call (cfg : FuncCfg) (f : Func) (log : List FEv) (d : Data)
    (hd : cfg.stopData = some d) (hk : ∀ k, (eventPut cfg f log d).2 ≠ .keyError k) :
    (stop cfg f log).1 = (eventPut cfg f log d).1 ++ [.superStop] := by
  unfold stop
  rw [hd]
  show (match eventPut cfg f log d with
        | (log', FRes.keyError k) => (log', some k)
        | (log', _) => (log' ++ [FEv.superStop], none)).1 = _
  cases hr : eventPut cfg f log d with
  | mk l res =>
    cases res with
    | keyError k => rw [hr] at hk; exact absurd rfl (hk k)
    | _ => rfl

/-- non-vacuity: an OutputFunc with the default f_args, two on_error destinations and stop_data -/
example :
    let cfg : FuncCfg := ⟨["value"], [], 1, 2, some [("value", Val.int 7)]⟩
    let f : Func := fun args _ => if args == [Val.int 7] then .ok (Val.int 70) else .error 5
    eventPut cfg f [] [("value", Val.int 3), ("source", Val.str "x")]
      = ([.call [Val.int 3] [], .error 0 5, .error 1 5], .error 5) ∧
    (stop cfg f []).1 = [.call [Val.int 7] [], .success 0 (Val.int 70), .superStop] := by
  decide +kernel

end Edzed.TrTie

