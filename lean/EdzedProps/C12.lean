import EdzedModel.OutputAsync
namespace Edzed.OutputAsync
theorem placeholder : True := trivial
end Edzed.OutputAsync
