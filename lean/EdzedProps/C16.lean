/-
C16 — event filters form an ordered pipeline that can edit or veto an event; the bundled
filters implement their documented predicates.

Model: EdzedModel/Filters.lean (mirrors the filter loop of `Event.send` and
edzed/blocklib/filters.py).  Statements are for every filter list, every event data dict,
every environment (outputs of the control blocks), every user filter / modify function
(arbitrary Lean functions) and every sequence of events (no bound on lengths).
Dictionaries are observed through `Data.get?`, i.e. the laws are dictionary laws.
-/
import EdzedModel.Filters
import EdzedProofs.Filters
import EdzedModel.Gen.Constants
import EdzedModel.Gen.Translated
import EdzedModel.Gen.TranslatedFilters
import EdzedProofs.EditLoops
import EdzedModel.Gen.TranslatedFilterObjs
import EdzedProofs.FiltersTie

namespace Edzed.Filters

/-! ## the pipeline (`Event.send`) -/

/-- The reading of ONE filter result used below (`stageNext`, the data handed to the next
    stage) is the documented one: a mapping replaces the data; any other true value passes
    the dict on as the filter left it; everything else (false value, exception, mapping with
    a non-string key) hands nothing on. -/
theorem stage_reading (env : Env) (f : Filter) (d d' : Data) :
    stageNext env f d = some d' ↔
      (f.call env d).ret = .mapping d' ∨
      ∃ v, (f.call env d).ret = .other v ∧ v.truthy = true ∧ d' = (f.call env d).data := by
  unfold stageNext
  cases h : (f.call env d).ret with
  | mapping m => simp
  | other v =>
    by_cases hv : v.truthy = true
    · simp only [hv, if_true, Option.some.injEq, reduceCtorEq, false_or, FRes.other.injEq]
      constructor
      · intro e; exact ⟨v, rfl, hv, e.symm⟩
      · rintro ⟨_, _, _, e⟩; exact e.symm
    · simp only [hv]
      constructor
      · intro e; cases e
      · rintro (e | ⟨w, e, hw, _⟩)
        · cases e
        · cases e; exact absurd hw hv
  | badKey => simp
  | raise e => simp

/-- `pipeline_spec` (1): the data the destination receives is the left fold of the stages over
    the filters in the given order, each stage seeing the data produced by the previous one -/
theorem pipeline_data_is_left_fold (env : Env) (fs : List Filter) (d : Data) :
    runFilters env fs d = fs.foldlM (fun d f => stageNext env f d) d :=
  runFilters_eq_foldlM env fs d

/-- `runFilters` is exactly "what was delivered" of the loop -/
theorem delivered_iff_runFilters (env : Env) (fs : List Filter) (d d' : Data) :
    (runFrom env fs d).2 = .delivered d' ↔ runFilters env fs d = some d' := by
  unfold runFilters
  cases (runFrom env fs d).2 <;> simp

/-- `pipeline_spec` (2): the event is delivered (and `send` returns True) iff no stage,
    fed with the data folded over the stages before it, vetoes -/
theorem pipeline_delivers_iff_no_stage_rejects (env : Env) (fs : List Filter) (d : Data) :
    (∃ d', (runFrom env fs d).2 = .delivered d') ↔
      ∀ pre f post dk, fs = pre ++ f :: post →
        pre.foldlM (fun d f => stageNext env f d) d = some dk → (stageNext env f dk).isSome = true := by
  constructor
  · rintro ⟨d', hd⟩ pre f post dk hs hf
    obtain ⟨pre', _, hr⟩ := runFrom_append env pre (f :: post) d dk hf
    rw [hs, hr] at hd
    cases hn : stageNext env f dk with
    | some x => rfl
    | none =>
      have := (runFrom_cons_stop env f post dk hn).2
      rcases this with ⟨h1, _⟩ | ⟨e, h1, _⟩ <;> (simp only at hd; rw [h1] at hd; cases hd)
  · intro h
    obtain ⟨d', hd'⟩ := foldlM_some_of_all_pass env fs d h
    exact ⟨d', (delivered_iff_runFilters env fs d d').mpr (by rw [pipeline_data_is_left_fold, hd'])⟩

/-- `pipeline_spec` (3): the first stage that does not hand data on ends the pipeline: the
    filters after it are not called (they are returned untouched), nothing is delivered, and
    `send` returns False exactly when that stage returned a false non-mapping value
    (otherwise its exception – or the TypeError for a non-string key – leaves `send`) -/
theorem pipeline_first_rejection_ends_it (env : Env) (pre post : List Filter) (f : Filter) (d dk : Data)
    (hpre : pre.foldlM (fun d f => stageNext env f d) d = some dk)
    (hstop : stageNext env f dk = none) :
    let r := runFrom env (pre ++ f :: post) d
    (∃ pre', pre'.length = pre.length ∧ r.1 = pre' ++ (f.call env dk).filter :: post) ∧
    runFilters env (pre ++ f :: post) d = none ∧
    ((r.2 = .rejected ∧ r.2.sendResult = some false ∧
        ∃ v, (f.call env dk).ret = .other v ∧ v.truthy = false) ∨
     (∃ e, r.2 = .error e ∧ r.2.sendResult = none ∧
        ((f.call env dk).ret = .raise e ∨ (f.call env dk).ret = .badKey ∧ e = .typeError))) := by
  intro r
  obtain ⟨pre', hl, hr⟩ := runFrom_append env pre (f :: post) d dk hpre
  obtain ⟨h1, h2⟩ := runFrom_cons_stop env f post dk hstop
  have hr1 : r.1 = pre' ++ (f.call env dk).filter :: post := by
    show (runFrom env (pre ++ f :: post) d).1 = _
    rw [hr, h1]
  have hr2 : r.2 = (runFrom env (f :: post) dk).2 := by
    show (runFrom env (pre ++ f :: post) d).2 = _
    rw [hr]
  refine ⟨⟨pre', hl, hr1⟩, ?_, ?_⟩
  · show (match (runFrom env (pre ++ f :: post) d).2 with | .delivered d' => some d' | _ => none) = none
    have : (runFrom env (pre ++ f :: post) d).2 = (runFrom env (f :: post) dk).2 := hr2
    rw [this]
    rcases h2 with ⟨h, _⟩ | ⟨e, h, _⟩ <;> rw [h]
  · rcases h2 with ⟨h, hv⟩ | ⟨e, h, hv⟩
    · exact Or.inl ⟨by rw [hr2, h], by rw [hr2, h]; rfl, hv⟩
    · exact Or.inr ⟨e, by rw [hr2, h], by rw [hr2, h]; rfl, hv⟩

/-- `send` returns True exactly when the event was delivered -/
theorem send_result_true_iff_delivered (o : Outcome) :
    o.sendResult = some true ↔ ∃ d, o = .delivered d := by
  cases o <;> simp [Outcome.sendResult]

/-- `send` adds the sender's name as item `source` before the first filter runs -/
theorem send_adds_source (env : Env) (fs : List Filter) (src : String) (d : Data) :
    ∃ d0, send env fs src d = runFrom env fs d0 ∧
      ∀ k, d0.get? k = if k = "source" then some (Val.str src) else d.get? k :=
  ⟨d.set "source" (Val.str src), rfl, fun k => get?_set d "source" _ k⟩

/-- without filters everything is delivered unchanged -/
theorem pipeline_empty (env : Env) (d : Data) : runFrom env [] d = ([], .delivered d) := rfl

/-! ## Edge -/

/-- logical level of the `previous` item -/
inductive Level where
  | undef | falsy | truthy
  deriving DecidableEq, Repr

def Level.of (v : Val) : Level :=
  if v.isUndef then .undef else if v.truthy then .truthy else .falsy

/-- the predicate documented in docs/filters.rst: `rise` allows False → True, `fall` allows
    True → False, `u_rise` allows UNDEF → True (None: same as `rise`), `u_fall` allows
    UNDEF → False; only explicitly allowed combinations pass -/
def edgeDoc (a : EdgeArgs) : Level → Bool → Bool
  | .falsy, true => a.rise
  | .truthy, false => a.fall
  | .undef, true => (match a.uRise with | some b => b | none => a.rise)
  | .undef, false => a.uFall
  | .falsy, false => false
  | .truthy, true => false

def prevSamples : List Val :=
  [.undef, Val.none, Val.bool false, Val.int 0, Val.flt 0, Val.str "", .tup [], .lst [],
   Val.bool true, Val.int 1, Val.int (-1), Val.flt (5 / 2), Val.str "x", .tup [.none], .lst [.num 0 .int]]

def valueSamples : List Val :=
  [.undef, Val.none, Val.bool false, Val.int 0, Val.str "", .tup [],
   Val.bool true, Val.int 1, Val.flt (1 / 2), Val.str "0", .lst [.none]]

/-- `edge_truth_table`: all 2·2·3·2 constructor argument combinations (16 flag combinations,
    `u_rise` also None) × previous ∈ {UNDEF, falsy values, truthy values} × value ∈ {falsy,
    truthy values}: the filter built by the constructor passes exactly the documented
    transitions.  The whole table is evaluated by the kernel. -/
theorem edge_truth_table :
    ∀ rise fall : Bool, ∀ uRise ∈ [none, some false, some true], ∀ uFall : Bool,
    ∀ p ∈ prevSamples, ∀ v ∈ valueSamples,
      edgePass (EdgeArgs.flags ⟨rise, fall, uRise, uFall⟩) p v
        = edgeDoc ⟨rise, fall, uRise, uFall⟩ (Level.of p) v.truthy := by
  decide +kernel

/-- the same for ALL values, not only the sampled ones -/
theorem edge_spec_all_values (a : EdgeArgs) (p v : Val) :
    edgePass a.flags p v = edgeDoc a (Level.of p) v.truthy := by
  unfold edgePass Level.of edgeDoc EdgeArgs.flags
  cases hu : p.isUndef <;> cases hv : v.truthy <;> cases hp : p.truthy <;> first | rfl | simp

/-- the filter object on an event: both items are required (KeyError otherwise); the result
    is the bool of the documented predicate; the filter has no state and leaves the data alone -/
theorem edge_call_spec (env : Env) (a : EdgeArgs) (d : Data) :
    ((Filter.mkEdge a).call env d).ret =
      (match d.get? "value", d.get? "previous" with
       | some v, some p => .other (Val.bool (edgeDoc a (Level.of p) v.truthy))
       | _, _ => .raise .keyError) ∧
    ((Filter.mkEdge a).call env d).data = d ∧
    ((Filter.mkEdge a).call env d).filter = Filter.mkEdge a := by
  refine ⟨?_, rfl, rfl⟩
  simp only [Filter.mkEdge, Filter.call, edgeCall]
  cases d.get? "value" with
  | none => rfl
  | some v =>
    cases d.get? "previous" with
    | none => rfl
    | some p => simp only [edge_spec_all_values]

/-- the defaults of the constructor in the CURRENT source are the ones of the model
    (`Edge()` = nothing passes, `u_rise=None` = follow `rise`) -/
theorem edge_defaults_match_source :
    Gen.edgeDefaults =
      [("rise", some ({} : EdgeArgs).rise), ("fall", some ({} : EdgeArgs).fall),
       ("u_rise", ({} : EdgeArgs).uRise), ("u_fall", some ({} : EdgeArgs).uFall)] := by decide

/-! ## not_from_undef -/

/-- `not_from_undef_spec`: the event is dropped iff `previous` is UNDEF (or missing, which
    the code treats as UNDEF); every other event passes with its data untouched -/
theorem not_from_undef_spec (env : Env) (d : Data) :
    stageNext env .notFromUndef d =
      (match d.get? "previous" with
       | none => none
       | some p => if p = .undef then none else some d) := by
  simp only [stageNext, Filter.call, notFromUndefPass]
  cases d.get? "previous" with
  | none => simp [Val.bool, Val.truthy, Atom.truthy]
  | some p => cases p <;> simp [Val.bool, Val.truthy, Atom.truthy, Val.isUndef]

/-! ## Delta

The numbers are `XNum`: exact rationals (Python ints, bools, finite floats) and the floats +inf, -inf,
NaN with Python's rules (a difference with a NaN, and inf − inf, is NaN; every comparison with NaN is
false).  `|v − w| ≥ δ` is written `XNum.le δ (v.sub w) ∨ XNum.le δ (w.sub v)`: never true when the
difference is NaN. -/

/-- `delta_spec`: for every sequence of numbers `vs` – finite or not – (carried as item `value` of
    otherwise arbitrary event data) and every `δ`, a fresh `Delta(δ)` answers each event with a bool,
    and the value at any position passes iff nothing has passed before it (the first), or it differs
    from the LAST PASSED value before it by at least `δ` -/
theorem delta_spec (env : Env) (δ : XNum) (mk : XNum → Data)
    (hmk : ∀ x, ∃ v, (mk x).get? "value" = some v ∧ xnumOf? v = some x) (vs : List XNum) :
    ∃ flags : List Bool, flags.length = vs.length ∧
      callSeq env (Filter.mkDelta δ) (vs.map mk) = flags.map (fun b => FRes.other (Val.bool b)) ∧
      ∀ pre v b post, vs.zip flags = pre ++ (v, b) :: post →
        (b = true ↔
          (∀ p ∈ pre, p.2 = false) ∨
          ∃ pre1 w pre2, pre = pre1 ++ (w, true) :: pre2 ∧ (∀ p ∈ pre2, p.2 = false) ∧
            (XNum.le δ (v.sub w) = true ∨ XNum.le δ (w.sub v) = true)) := by
  refine ⟨deltaFlags δ none vs, deltaFlags_length δ none vs,
    callSeq_delta env δ mk hmk .undef none rfl vs, ?_⟩
  intro pre v b post hs
  have key := deltaFlags_spec δ none vs pre v b post hs
  rw [key]
  cases hlp : lastPassed none pre with
  | none =>
    simp only [true_iff]
    exact Or.inl ((lastPassed_none_iff pre).mp hlp)
  | some w =>
    obtain ⟨l1, l2, he, hf⟩ := lastPassed_some pre w hlp
    constructor
    · intro hc; exact Or.inr ⟨l1, w, l2, he, hf, hc⟩
    · rintro (hall | ⟨p1, w', p2, he', hf', hc⟩)
      · have := (lastPassed_none_iff pre).mpr hall
        rw [hlp] at this; cases this
      · have := lastPassed_of_split none p1 p2 w' hf'
        rw [← he', hlp] at this
        cases this
        exact hc

/-- corollary: any two consecutive passed values differ by at least `δ` -/
theorem delta_consecutive_passed_differ (env : Env) (δ : XNum) (mk : XNum → Data)
    (hmk : ∀ x, ∃ v, (mk x).get? "value" = some v ∧ xnumOf? v = some x) (vs : List XNum) :
    ∃ flags : List Bool, flags.length = vs.length ∧
      callSeq env (Filter.mkDelta δ) (vs.map mk) = flags.map (fun b => FRes.other (Val.bool b)) ∧
      ∀ l1 a c l2,
        (vs.zip flags).filterMap (fun p => if p.2 then some p.1 else none) = l1 ++ a :: c :: l2 →
        (XNum.le δ (c.sub a) = true ∨ XNum.le δ (a.sub c) = true) :=
  ⟨deltaFlags δ none vs, deltaFlags_length δ none vs,
    callSeq_delta env δ mk hmk .undef none rfl vs,
    fun l1 a c l2 h => chainFrom_adjacent δ none _ l1 l2 a c (deltaFlags_chain δ none vs) h⟩

/-- `delta_rejects_nan_and_keeps_last`: once a value has passed, a NaN value is REJECTED whatever `δ`
    is (|last − NaN| = NaN is not ≥ δ) and the filter keeps the value it remembered: what follows is
    judged against the last value that really passed.  The same for a difference inf − inf. -/
theorem delta_rejects_nan_and_keeps_last (env : Env) (δ : XNum) (last v : Val) (l x : XNum) (d : Data)
    (hu : last.isUndef = false) (hl : xnumOf? last = some l) (hv : d.get? "value" = some v)
    (hx : xnumOf? v = some x) (hnan : l.sub x = .nan) :
    ((Filter.delta δ last).call env d).ret = .other (Val.bool false) ∧
    ((Filter.delta δ last).call env d).filter = .delta δ last ∧
    ((Filter.delta δ last).call env d).data = d := by
  have hle : XNum.le δ (XNum.abs XNum.nan) = false := by cases δ <;> rfl
  simp [Filter.call, deltaCall, hv, hu, hl, hx, hnan, hle]

/-- a NaN value makes the difference NaN, and so does +inf after +inf, −inf after −inf -/
theorem delta_nan_differences (l : XNum) :
    l.sub .nan = .nan ∧ XNum.nan.sub l = .nan ∧ XNum.pinf.sub .pinf = .nan ∧ XNum.ninf.sub .ninf = .nan := by
  cases l <;> exact ⟨rfl, rfl, rfl, rfl⟩

/-- in a sequence: a NaN that is not the first value to pass never passes -/
theorem delta_nan_passes_only_first (env : Env) (δ : XNum) (mk : XNum → Data)
    (hmk : ∀ x, ∃ v, (mk x).get? "value" = some v ∧ xnumOf? v = some x) (vs : List XNum) :
    ∃ flags : List Bool, flags.length = vs.length ∧
      callSeq env (Filter.mkDelta δ) (vs.map mk) = flags.map (fun b => FRes.other (Val.bool b)) ∧
      ∀ pre b post, vs.zip flags = pre ++ (XNum.nan, b) :: post → (∃ p ∈ pre, p.2 = true) → b = false := by
  refine ⟨deltaFlags δ none vs, deltaFlags_length δ none vs,
    callSeq_delta env δ mk hmk .undef none rfl vs, ?_⟩
  intro pre b post hs ⟨p, hp, hpt⟩
  have key := deltaFlags_spec δ none vs pre .nan b post hs
  cases hlp : lastPassed none pre with
  | none =>
    have := (lastPassed_none_iff pre).mp hlp p hp
    rw [hpt] at this; cases this
  | some w =>
    rw [hlp] at key
    have h1 : XNum.le δ (XNum.nan.sub w) = false := by cases δ <;> cases w <;> rfl
    have h2 : XNum.le δ (w.sub .nan) = false := by cases δ <;> cases w <;> rfl
    simp only [h1, h2, Bool.false_eq_true, or_self, iff_false] at key
    simpa using key

/-- what Delta does outside the numbers: a missing `value` is a KeyError, a non-number
    compared with the remembered value is a TypeError, and neither changes the filter -/
theorem delta_errors_keep_state (env : Env) (δ : XNum) (last : Val) (d : Data) (e : Err)
    (h : ((Filter.delta δ last).call env d).ret = .raise e) :
    ((Filter.delta δ last).call env d).filter = .delta δ last := by
  simp only [Filter.call, deltaCall] at *
  cases hv : d.get? "value" with
  | none => rfl
  | some v =>
    rw [hv] at h
    simp only at h ⊢
    by_cases hu : last.isUndef = true
    · simp [hu] at h
    · simp only [hu, Bool.false_eq_true, if_false] at h ⊢
      cases hl : xnumOf? last with
      | none => rfl
      | some l =>
        cases hq : xnumOf? v with
        | none => rfl
        | some q =>
          rw [hl, hq] at h
          simp only at h
          by_cases hc : XNum.le δ (XNum.abs (l.sub q)) = true <;> simp [hc] at h

/-! ## IfOutput, IfNotIitialized (documented as NotIfInitialized) -/

/-- `if_output_spec`: events pass, unchanged, exactly while the control block's output is true -/
theorem if_output_spec (env : Env) (ctrl : String) (d : Data) :
    stageNext env (.ifOutput ctrl) d = if (env ctrl).truthy then some d else none := by
  unfold stageNext
  simp only [Filter.call]
  by_cases h : (env ctrl).truthy = true
  · rw [if_pos h, if_pos h]
  · rw [if_neg h, if_neg h]; rfl

/-- events pass, unchanged, exactly while the control block is not initialised
    (its output is still UNDEF) -/
theorem if_not_initialized_spec (env : Env) (ctrl : String) (d : Data) :
    stageNext env (.ifNotInitialized ctrl) d = if env ctrl = .undef then some d else none := by
  unfold stageNext
  simp only [Filter.call]
  by_cases h : env ctrl = .undef
  · have hi : env.initialized ctrl = false := by simp [Env.initialized, h, Val.isUndef]
    rw [hi, if_pos h]; rfl
  · have hi : env.initialized ctrl = true := by
      unfold Env.initialized
      generalize env ctrl = x at h
      cases x <;> simp_all [Val.isUndef]
    rw [hi, if_neg h]; rfl

/-! ## DataEdit: every operation is the equivalent dictionary operation -/

/-- `add(**kw)`: `{**data, **kw}` – the given items override -/
theorem dataedit_add_spec (env : Env) (kw d : Data) :
    ∃ d', (EditOp.add kw).apply env d = .ok d' ∧
      ∀ k, d'.get? k = match kw.get? k with | some v => some v | none => d.get? k :=
  ⟨_, rfl, get?_update d kw⟩

/-- `setdefault(**kw)`: only the missing keys are added -/
theorem dataedit_setdefault_spec (env : Env) (kw d : Data) :
    ∃ d', (EditOp.setdefault kw).apply env d = .ok d' ∧
      ∀ k, d'.get? k = match d.get? k with | some v => some v | none => kw.get? k :=
  ⟨_, rfl, get?_update kw d⟩

/-- `add_output(key, source)`: `data[key] = source.output` -/
theorem dataedit_add_output_spec (env : Env) (key src : String) (d : Data) :
    ∃ d', (EditOp.addOutput key src).apply env d = .ok d' ∧
      ∀ k, d'.get? k = if k = key then some (env src) else d.get? k :=
  ⟨_, rfl, get?_set d key _⟩

/-- `copy(src, dst)`: `data[dst] = data[src]`; a missing `src` is a KeyError -/
theorem dataedit_copy_spec (env : Env) (src dst : String) (d : Data) :
    match d.get? src with
    | none => (EditOp.copy src dst).apply env d = .error (.raise .keyError)
    | some v => ∃ d', (EditOp.copy src dst).apply env d = .ok d' ∧
        ∀ k, d'.get? k = if k = dst then some v else d.get? k := by
  cases h : d.get? src with
  | none => simp [EditOp.apply, h]
  | some v => exact ⟨d.set dst v, by simp [EditOp.apply, h], get?_set d dst v⟩

/-- `rename(src, dst)`: like copy, then `src` is deleted (so `rename(k, k)` removes `k`) -/
theorem dataedit_rename_spec (env : Env) (src dst : String) (d : Data) :
    match d.get? src with
    | none => (EditOp.rename src dst).apply env d = .error (.raise .keyError)
    | some v => ∃ d', (EditOp.rename src dst).apply env d = .ok d' ∧
        ∀ k, d'.get? k = if k = src then none else if k = dst then some v else d.get? k := by
  cases h : d.get? src with
  | none => simp [EditOp.apply, h]
  | some v =>
    refine ⟨(d.set dst v).erase src, by simp [EditOp.apply, h], fun k => ?_⟩
    rw [get?_erase, get?_set]

/-- `delete(*keys)`: the listed keys disappear, missing ones are ignored -/
theorem dataedit_delete_spec (env : Env) (keys : List String) (d : Data) :
    ∃ d', (EditOp.delete keys).apply env d = .ok d' ∧
      ∀ k, d'.get? k = if k ∈ keys then none else d.get? k :=
  ⟨_, rfl, get?_eraseAll keys d⟩

/-- `permit(*keys)`: everything but the listed keys disappears -/
theorem dataedit_permit_spec (env : Env) (keys : List String) (d : Data) :
    ∃ d', (EditOp.permit keys).apply env d = .ok d' ∧
      ∀ k, d'.get? k = if k ∈ keys then d.get? k else none :=
  ⟨_, rfl, get?_keepOnly keys d⟩

/-- `modify(key, func)` with an ordinary return value: `data[key] = func(data[key])`;
    a missing key is a KeyError, an exception of `func` propagates -/
theorem dataedit_modify_spec (env : Env) (key : String) (f : Val → ModRes) (d : Data) :
    match d.get? key with
    | none => (EditOp.modify key f).apply env d = .error (.raise .keyError)
    | some cur =>
      match f cur with
      | .value v => ∃ d', (EditOp.modify key f).apply env d = .ok d' ∧
          ∀ k, d'.get? k = if k = key then some v else d.get? k
      | .delete => ∃ d', (EditOp.modify key f).apply env d = .ok d' ∧
          ∀ k, d'.get? k = if k = key then none else d.get? k
      | .reject => (EditOp.modify key f).apply env d = .error .reject
      | .raise e => (EditOp.modify key f).apply env d = .error (.raise e) := by
  split
  · next h => simp [EditOp.apply, h]
  · next cur h =>
    split
    · next v hf => exact ⟨d.set key v, by simp [EditOp.apply, h, hf], get?_set d key v⟩
    · next hf => exact ⟨d.erase key, by simp [EditOp.apply, h, hf], get?_erase d key⟩
    · next hf => simp [EditOp.apply, h, hf]
    · next e hf => simp [EditOp.apply, h, hf]

/-- the model has exactly the operations the CURRENT source has -/
theorem dataedit_ops_match_source :
    Gen.dataEditOps = ["add", "add_output", "copy", "delete", "modify", "permit", "rename", "setdefault"] ∧
    ∀ op : EditOp, op.pyName ∈ Gen.dataEditOps := by
  refine ⟨by decide, fun op => ?_⟩
  cases op <;> simp [EditOp.pyName, Gen.dataEditOps]

/-- `dataedit_chain_is_fold`: a chain is the left-to-right Kleisli composition of its
    operations: the empty chain is the identity, a one-element chain is the operation, and
    `chain (a ++ b) = chain a >=> chain b` -/
theorem dataedit_chain_is_fold (env : Env) :
    chain env [] = pure ∧
    (∀ op, chain env [op] = op.apply env) ∧
    ∀ a b, chain env (a ++ b) = (chain env a >=> chain env b) := by
  refine ⟨rfl, fun op => funext (chain_singleton env op), fun a b => funext fun d => ?_⟩
  rw [chain_append]; rfl

/-- a chain used as a filter: its result replaces the event data; REJECT makes the filter
    return None; an exception propagates -/
theorem dataedit_filter_spec (env : Env) (ops : List EditOp) (d : Data) :
    ((Filter.dataEdit ops).call env d).ret =
      (match chain env ops d with
       | .ok d' => .mapping d'
       | .error .reject => .other Val.none
       | .error (.raise e) => .raise e) ∧
    stageNext env (.dataEdit ops) d = (match chain env ops d with | .ok d' => some d' | .error _ => none) := by
  constructor
  · rfl
  · simp only [stageNext, Filter.call, dataEditCall]
    cases h : chain env ops d with
    | ok d' => rfl
    | error s => cases s <;> simp [Val.none, Val.truthy, Atom.truthy]

/-- `modify_reject_delete`: inside any chain, at the point where `func` returns
    `DataEdit.REJECT` the chain stops (the operations after it have no effect), the filter
    returns None and an Event with this filter is not delivered: `send` returns False;
    where it returns `DataEdit.DELETE` exactly that item disappears and the chain goes on -/
theorem modify_reject_delete (env : Env) (pre post : List EditOp) (key : String) (f : Val → ModRes)
    (d dk : Data) (cur : Val) (hpre : chain env pre d = .ok dk) (hcur : dk.get? key = some cur) :
    (f cur = .reject →
      chain env (pre ++ .modify key f :: post) d = .error .reject ∧
      ((Filter.dataEdit (pre ++ .modify key f :: post)).call env d).ret = .other Val.none ∧
      ∀ fs, (runFrom env (.dataEdit (pre ++ .modify key f :: post) :: fs) d).2 = .rejected) ∧
    (f cur = .delete →
      ∃ dk', (∀ k, dk'.get? k = if k = key then none else dk.get? k) ∧
        chain env (pre ++ .modify key f :: post) d = chain env post dk') := by
  constructor
  · intro hf
    have h1 : chain env (pre ++ .modify key f :: post) d = .error .reject := by
      rw [chain_append, hpre]
      show chain env (.modify key f :: post) dk = _
      simp [chain, EditOp.apply, hcur, hf]
    refine ⟨h1, by simp [Filter.call, dataEditCall, h1], fun fs => ?_⟩
    rw [runFrom]
    simp [Filter.call, dataEditCall, h1, Val.none, Val.truthy, Atom.truthy]
  · intro hf
    refine ⟨dk.erase key, get?_erase dk key, ?_⟩
    rw [chain_append, hpre]
    show chain env (.modify key f :: post) dk = _
    simp [chain, EditOp.apply, hcur, hf]

/-! ## non-vacuity -/

/-- a pipeline that edits, passes and finally delivers; and one vetoed by its second stage -/
example :
    runFilters (fun _ => Val.int 1)
      [.dataEdit [.add [("x", Val.int 3)], .rename "value" "v"], .ifOutput "ctl", Filter.mkEdge { rise := true }]
      [("previous", .undef), ("value", Val.int 1)] = none ∧
    runFilters (fun _ => Val.int 1)
      [.dataEdit [.add [("x", Val.int 3)], .copy "value" "v"], .ifOutput "ctl", Filter.mkEdge { rise := true }]
      [("previous", .undef), ("value", Val.int 1)]
      = some [("previous", .undef), ("value", Val.int 1), ("x", Val.int 3), ("v", Val.int 1)] := by
  decide +kernel

/-- Delta(2) on 0, 1, 2, 3, 4: passes 0, 2, 4 – 3 is compared with 2 (last passed), not with 2.x -/
example :
    callSeq (fun _ => .undef) (Filter.mkDelta (.fin 2))
      ([0, 1, 2, 3, 4].map fun q => [("value", Val.flt q)])
      = [true, false, true, false, true].map (fun b => FRes.other (Val.bool b)) := by
  decide +kernel

/-- a NaN in the middle: Delta(1) on 0, 1.5, NaN, 1.9, +inf, +inf, 2.5 passes 0, 1.5, +inf – the NaN is
    rejected, 1.9 is judged against 1.5 (not against the NaN), the second +inf is rejected (inf − inf is
    NaN) and 2.5 is judged against +inf -/
example :
    callSeq (fun _ => .undef) (Filter.mkDelta (.fin 1))
      ([XNum.fin 0, .fin (3 / 2), .nan, .fin (19 / 10), .pinf, .pinf, .fin (5 / 2)].map
        fun x => [("value", x.toVal)])
      = [true, true, false, false, true, false, true].map (fun b => FRes.other (Val.bool b)) := by
  decide +kernel

/-- … and a NaN that comes FIRST passes and then nothing passes any more (every difference is NaN) -/
example :
    callSeq (fun _ => .undef) (Filter.mkDelta (.fin 0))
      ([XNum.nan, .fin 5, .nan, .pinf].map fun x => [("value", x.toVal)])
      = [true, false, false, false].map (fun b => FRes.other (Val.bool b)) := by
  decide +kernel

/-- the hypothesis of `delta_spec` is satisfiable (all four kinds of numbers) -/
example : ∀ x : XNum, ∃ v, (Data.get? [("value", x.toVal)] "value") = some v ∧ xnumOf? v = some x := by
  intro x
  refine ⟨x.toVal, by simp [get?_cons], ?_⟩
  cases x <;> first | rfl | decide

/-- the hypotheses of `delta_rejects_nan_and_keeps_last` -/
example : (Val.flt 3).isUndef = false ∧ xnumOf? (Val.flt 3) = some (.fin 3) ∧
    Data.get? [("value", nanVal)] "value" = some nanVal ∧ xnumOf? nanVal = some .nan ∧
    (XNum.fin 3).sub .nan = .nan := by decide +kernel

/-- hypotheses of `modify_reject_delete` -/
example : chain (fun _ => .undef) [.add [("a", Val.int 0)]] [] = .ok [("a", Val.int 0)] ∧
    Data.get? [("a", Val.int 0)] "a" = some (Val.int 0) := ⟨rfl, by decide +kernel⟩

end Edzed.Filters

/-! ### tie to the source by translation (tools/py2lean.py regenerates `Gen.Tr.edgeCall` from `Edge.__call__`) -/
namespace Edzed.TrTie

/-- the model's Edge predicate IS the translated body of `Edge.__call__` -/
theorem translated_edge_is_model (fl : Filters.EdgeFlags) (previous value : Val) :
    Gen.Tr.edgeCall fl.rise fl.fall fl.urise fl.ufall previous value = Filters.edgePass fl previous value := by
  unfold Gen.Tr.edgeCall Filters.edgePass
  cases h1 : previous.isUndef <;> cases h2 : value.truthy <;> cases h3 : previous.truthy <;>
    cases fl.rise <;> cases fl.fall <;> cases fl.urise <;> cases fl.ufall <;> simp [h1, h2, h3]

/-! The edit functions that the `DataEdit` operations append to `_editlist`, translated from the source
(`Gen.TrF.edit…`), ARE the model's `EditOp.apply`. -/

open Filters in
theorem translated_edit_add_is_model (env : Filters.Env) (kw d : Data) :
    Gen.TrF.editAdd d kw = (EditOp.add kw).apply env d := rfl

open Filters in
theorem translated_edit_setdefault_is_model (env : Filters.Env) (kw d : Data) :
    Gen.TrF.editSetdefault d kw = (EditOp.setdefault kw).apply env d := rfl

open Filters in
/-- `out` is the output of the source block at the time of the call -/
theorem translated_edit_add_output_is_model (env : Filters.Env) (key src : String) (d : Data) :
    Gen.TrF.editAddOutput d key (env src) = (EditOp.addOutput key src).apply env d := rfl

open Filters in
theorem translated_edit_copy_is_model (env : Filters.Env) (src dst : String) (d : Data) :
    Gen.TrF.editCopy d src dst = (EditOp.copy src dst).apply env d := by
  cases h : d.get? src <;> simp [Gen.TrF.editCopy, EditOp.apply, h]

open Filters in
theorem translated_edit_rename_is_model (env : Filters.Env) (src dst : String) (d : Data) :
    Gen.TrF.editRename d src dst = (EditOp.rename src dst).apply env d := by
  cases h : d.get? src with
  | none => simp [Gen.TrF.editRename, EditOp.apply, h]
  | some v =>
    simp [Gen.TrF.editRename, EditOp.apply, h, Data.has_set_of_has d dst src v (Data.has_of_get?_some h)]

open Filters in
theorem translated_edit_delete_is_model (env : Filters.Env) (keys : List String) (d : Data) :
    Gen.TrF.editDelete d keys = (EditOp.delete keys).apply env d := by
  simp [Gen.TrF.editDelete, EditOp.apply, delete_fold]

open Filters in
/-- the user's function is arbitrary (`f`); a KeyError of `del data[key]` cannot occur after the
    successful lookup -/
theorem translated_edit_modify_is_model (env : Filters.Env) (key : String) (f : Val → ModRes) (d : Data) :
    Gen.TrF.editModify d key f = (EditOp.modify key f).apply env d := by
  cases h : d.get? key with
  | none => simp [Gen.TrF.editModify, EditOp.apply, h]
  | some cur =>
    have hh := Data.has_of_get?_some h
    cases hf : f cur <;>
      simp [Gen.TrF.editModify, EditOp.apply, h, hf, Gen.TrF.mrIsReject, Gen.TrF.mrIsDelete, Gen.TrF.mrVal, hh]

open Filters in
/-- a Python dict has unique keys (`Nodup`): the loop over the snapshot `list(data)` then never fails
    and leaves exactly the permitted items -/
theorem translated_edit_permit_is_model (env : Filters.Env) (keys : List String) (d : Data)
    (hd : (d.map (·.1)).Nodup) :
    Gen.TrF.editPermit d keys = (EditOp.permit keys).apply env d := by
  simp only [Gen.TrF.editPermit, EditOp.apply]
  rw [permit_fold keys (d.map (·.1)) d hd (Data.has_of_mem_keys d), permit_filter]

/-- `not_from_undef` -/
theorem translated_not_from_undef_is_model (d : Data) :
    Gen.Tr.notFromUndef d = Filters.notFromUndefPass d := by
  unfold Gen.Tr.notFromUndef Filters.notFromUndefPass
  cases d.get? "previous" <;> rfl


/-! ### the filter OBJECTS (Gen/TranslatedFilterObjs.lean, tools/py2lean_filters.py) -/

section FilterObjects
open Filters

/-- what `Edge.__init__` stores (`self._rise = bool(rise)` … `self._urise = bool(u_rise) if u_rise is not
    None else self._rise` …), translated from the source for ARBITRARY argument objects, IS the model's
    `EdgeArgs.flags` of their reading: truth values, `u_rise` absent iff it is the object None -/
theorem translated_filters_edge_init_is_model (rise fall uRise uFall : Val) :
    Gen.TrFo.edgeInit rise fall uRise uFall = (c16EdgeArgs rise fall uRise uFall).flags := by
  unfold Gen.TrFo.edgeInit c16EdgeArgs EdgeArgs.flags
  by_cases h : uRise = Val.none <;> simp [h]

/-- in particular for the model's own arguments -/
theorem translated_filters_edge_init_of_args (a : EdgeArgs) :
    Gen.TrFo.edgeInit (Val.bool a.rise) (Val.bool a.fall) (c16OptBoolVal a.uRise) (Val.bool a.uFall) = a.flags := by
  rw [translated_filters_edge_init_is_model]
  cases a with
  | mk r f ur uf =>
    cases r <;> cases f <;> cases uf <;> cases ur with
    | none => decide
    | some b => cases b <;> decide

/-- the defaults of the constructor's signature ARE the defaults of the model's `EdgeArgs`; hence `Edge()`
    with any subset of its arguments builds the model's filter -/
theorem translated_filters_edge_defaults_is_model :
    Gen.TrFo.edgeInitDefaults = ({} : EdgeArgs) ∧
    ∀ a : EdgeArgs, Filter.edge (Gen.TrFo.edgeInit (Val.bool a.rise) (Val.bool a.fall) (c16OptBoolVal a.uRise)
      (Val.bool a.uFall)) = Filter.mkEdge a := by
  refine ⟨rfl, fun a => ?_⟩
  rw [translated_filters_edge_init_of_args]; rfl

/-- `Delta.__init__`: the new object remembers `delta` and has not passed anything yet (`_last = UNDEF`):
    it IS the model's fresh Delta filter -/
theorem translated_filters_delta_init_is_model (δ : XNum) :
    Gen.TrFo.deltaInit δ = (δ, Val.undef) ∧
    Filter.delta (Gen.TrFo.deltaInit δ).1 (Gen.TrFo.deltaInit δ).2 = Filter.mkDelta δ := ⟨rfl, rfl⟩

/-- the operation methods of `DataEdit` and its constructor: each appends exactly one edit function (checked by
    the translator) and takes its parameters in the order in which the model's `EditOp` constructors and the
    `translated_edit_…` theorems read them (`copy/rename (src, dst)`, `add_output (key, source)`,
    `modify (key, func)`, `*args` / `**kwargs` for the rest) -/
theorem translated_filters_op_signatures :
    Gen.TrFo.dataEditOpSignatures =
      [("__init__", []), ("add", ["**kwargs"]), ("add_output", ["key", "source"]), ("copy", ["src", "dst"]),
       ("delete", ["*args"]), ("modify", ["key", "func"]), ("permit", ["*args"]), ("rename", ["src", "dst"]),
       ("setdefault", ["**kwargs"])] ∧
    Gen.TrFo.dataEditOpSignatures.map (·.1) = "__init__" :: Gen.dataEditOps := by
  constructor <;> decide

set_option linter.unusedSimpArgs false in
/-- `Delta.__call__`, translated from the source (the item lookup, `self._last is UNDEF or
    abs(self._last - value) >= self._delta`, the assignment of `_last` only when the value passes, the
    TypeError of a non-number), IS the model's `deltaCall`: the same remembered value and the same result –
    over numbers that include +inf, −inf and NaN, where `abs(…) >= delta` and `not (abs(…) < delta)` are
    different tests (a rewrite into the early-return form with `<` lets a NaN pass and is NOT this model) -/
theorem translated_filters_delta_call_is_model (δ : XNum) (last : Val) (d : Data) :
    Gen.TrFo.deltaCall δ last d = Filters.deltaCall δ last d := by
  -- written to survive equivalent formulations of the method (`delta <= abs(…)`, swapped operands of `-`)
  unfold Gen.TrFo.deltaCall Filters.deltaCall
  cases d.get? "value" with
  | none => rfl
  | some v =>
    cases hu : last.isUndef
    all_goals simp only [Bool.false_eq_true, Bool.not_false, Bool.not_true, if_true, if_false]
    all_goals try rfl
    rcases xnumOf? last with _ | l <;> rcases xnumOf? v with _ | q <;> try rfl
    all_goals
      try simp only [c16_xabs_sub_comm q l]
      first
        | done
        | (by_cases hc : XNum.le δ (XNum.abs (l.sub q)) = true <;> simp [hc])

/-- … and therefore the model's Delta filter object steps exactly like the translated method -/
theorem translated_filters_delta_filter_is_model (env : Env) (δ : XNum) (last : Val) (d : Data) :
    ((Filter.delta δ last).call env d).filter = .delta δ (Gen.TrFo.deltaCall δ last d).1 ∧
    ((Filter.delta δ last).call env d).ret = (Gen.TrFo.deltaCall δ last d).2 ∧
    ((Filter.delta δ last).call env d).data = d := by
  rw [translated_filters_delta_call_is_model]; exact ⟨rfl, rfl, rfl⟩

/-- `IfOutput.__call__` (`data if self._ctrl_blk.output else None`) -/
theorem translated_filters_if_output_is_model (env : Env) (ctrl : String) (d : Data) :
    Gen.TrFo.ifOutputCall (env ctrl) d = ((Filter.ifOutput ctrl).call env d).ret := rfl

/-- `IfNotIitialized.__call__` (`None if self._ctrl_blk.is_initialized() else data`) with the translated
    `SBlock.is_initialized` (`self._output is not UNDEF`) -/
theorem translated_filters_if_not_initialized_is_model (env : Env) (ctrl : String) (d : Data) :
    Gen.TrFo.ifNotInitCall (Gen.TrFo.isInitialized (env ctrl)) d = ((Filter.ifNotInitialized ctrl).call env d).ret ∧
    Gen.TrFo.isInitialized (env ctrl) = env.initialized ctrl := ⟨rfl, rfl⟩

/-- the loop of `DataEdit.__call__` (`for func in self._editlist: data = func(data); if not isinstance(data,
    MutableMapping): break` … `return data`), translated as structural recursion over the edit list, IS the
    model's `chain`: the first result that is not a mapping (None = REJECT) or the first exception ends it and
    is what the call returns -/
theorem translated_filters_dataedit_loop_is_chain (env : Env) (ops : List EditOp) (d : Data) :
    Gen.TrFo.dataEditCall (c16ApplyEdit env) ops d = Gen.TrFo.editResult (chain env ops d) := by
  unfold Gen.TrFo.dataEditCall
  induction ops generalizing d with
  | nil => rfl
  | cons op ops ih =>
    rw [Gen.TrFo.dataEditCall_for1, chain]
    unfold c16ApplyEdit
    cases h : op.apply env d with
    | ok d' => simp only [Gen.TrFo.editResult]; exact ih d'
    | error s => cases s <;> rfl

/-- `DataEdit.__call__` as translated IS the result of the model's DataEdit filter -/
theorem translated_filters_dataedit_call_is_model (env : Env) (ops : List EditOp) (d : Data) :
    Gen.TrFo.dataEditCall (c16ApplyEdit env) ops d = ((Filter.dataEdit ops).call env d).ret := by
  rw [translated_filters_dataedit_loop_is_chain]
  exact (c16_dataEditCall_eq env ops d).symm

/-- the edit function called by the loop is, operation by operation, the translated edit function
    (`Gen.TrF.edit…`, theorems `translated_edit_…_is_model` above): the path `DataEdit.__call__` → edit
    function is translated code -/
theorem translated_filters_apply_edit_is_translated (env : Env) (d : Data) :
    (∀ kw, c16ApplyEdit env (.add kw) d = Gen.TrFo.editResult (Gen.TrF.editAdd d kw)) ∧
    (∀ kw, c16ApplyEdit env (.setdefault kw) d = Gen.TrFo.editResult (Gen.TrF.editSetdefault d kw)) ∧
    (∀ k b, c16ApplyEdit env (.addOutput k b) d = Gen.TrFo.editResult (Gen.TrF.editAddOutput d k (env b))) ∧
    (∀ a b, c16ApplyEdit env (.copy a b) d = Gen.TrFo.editResult (Gen.TrF.editCopy d a b)) ∧
    (∀ a b, c16ApplyEdit env (.rename a b) d = Gen.TrFo.editResult (Gen.TrF.editRename d a b)) ∧
    (∀ ks, c16ApplyEdit env (.delete ks) d = Gen.TrFo.editResult (Gen.TrF.editDelete d ks)) ∧
    (∀ k f, c16ApplyEdit env (.modify k f) d = Gen.TrFo.editResult (Gen.TrF.editModify d k f)) ∧
    (∀ ks, (d.map (·.1)).Nodup →
      c16ApplyEdit env (.permit ks) d = Gen.TrFo.editResult (Gen.TrF.editPermit d ks)) := by
  unfold c16ApplyEdit
  refine ⟨fun kw => ?_, fun kw => ?_, fun k b => ?_, fun a b => ?_, fun a b => ?_, fun ks => ?_,
    fun k f => ?_, fun ks h => ?_⟩
  · rw [translated_edit_add_is_model env]
  · rw [translated_edit_setdefault_is_model env]
  · rw [translated_edit_add_output_is_model env]
  · rw [translated_edit_copy_is_model env]
  · rw [translated_edit_rename_is_model env]
  · rw [translated_edit_delete_is_model env]
  · rw [translated_edit_modify_is_model env]
  · rw [translated_edit_permit_is_model env ks d h]

/-- the bundled filters never modify the dict in place; those that cannot raise on the data in question
    are "plain" calls in the sense of the translated loop -/
theorem translated_filters_bundled_keep_dict (env : Env) (f : Filter) (d : Data)
    (hf : ∀ g, f ≠ .user g) : (f.call env d).data = d := by
  cases f with
  | user g => exact absurd rfl (hf g)
  | _ => rfl

/-- **the filter loop of `Event.send` as translated from the current source (C11's `Gen.TrD.send_for1`),
    with its leaves read through THIS model's `Filter.call`, IS the model's `runFrom`** – for filters that
    return (no exception) and leave the dict alone, which is how the translated loop treats `efilter(data)` -/
theorem translated_filters_send_loop_is_runFrom (env : Env) (src : String) (fs : List Filter)
    (hp : ∀ f ∈ fs, PlainFilter env f) (d : Data) (s : List Data) :
    Gen.TrD.send_for1 (c16SendPrims env src) fs d s = (s, c16LoopOut (runFrom env fs d).2) := by
  induction fs generalizing d with
  | nil => rfl
  | cons f fs ih =>
    have hf := hp f (by simp)
    have ih' := fun d => ih (fun g hg => hp g (by simp [hg])) d
    rw [Gen.TrD.send_for1, runFrom]
    have happ : (c16SendPrims env src).applyFilter f d = Gen.TrD.M.pure (f.call env d).ret := rfl
    have hpb : ∀ {α β : Type} (a : α) (k : α → Gen.TrD.M (List Data) Err Bool β),
        Gen.TrD.M.bind (Gen.TrD.M.pure a) k = k a := fun _ _ => rfl
    simp only [happ, hpb]
    cases hr : (f.call env d).ret with
    | mapping m =>
      simp only [c16SendPrims, Bool.false_eq_true, if_false, if_true]
      exact ih' m
    | other v =>
      by_cases hv : v.truthy = true
      · simp only [c16SendPrims, hv, Bool.false_eq_true, if_false, if_true, Bool.not_true]
        rw [(hf d).1]
        exact ih' d
      · have hv' : v.truthy = false := by simpa using hv
        simp [c16SendPrims, hv', Gen.TrD.M.ret, c16LoopOut]
    | badKey =>
      simp [c16SendPrims, Gen.TrD.M.raise, c16LoopOut]
    | raise e => exact absurd hr ((hf d).2 e)

/-- … and the whole translated `Event.send`: the destination receives the delivered data exactly once and
    `send` returns True, or nothing and False, as the model's `send` says -/
theorem translated_filters_send_is_model (env : Env) (src : String) (fs : List Filter)
    (hp : ∀ f ∈ fs, PlainFilter env f) (d : Data) :
    Gen.TrD.send (c16SendPrims env src) d fs [] =
      (match (Filters.send env fs src d).2 with
       | .delivered d' => ([d'], .ret true)
       | .rejected => ([], .ret false)
       | .error e => ([], .raise e)) := by
  unfold Gen.TrD.send Filters.send
  have h1 : (c16SendPrims env src).sameCircuit = true := rfl
  have h2 : (c16SendPrims env src).setSource d = d.set "source" (Val.str src) := rfl
  simp only [h1, h2, Bool.not_true, Bool.false_eq_true, if_false, Gen.TrD.M.bind,
    translated_filters_send_loop_is_runFrom env src fs hp]
  cases (runFrom env fs (d.set "source" (Val.str src))).2 with
  | delivered d' => simp [c16LoopOut, c16SendPrims, Gen.TrD.M.ret]
  | rejected => rfl
  | error e => rfl

/-! #### `_dualmethod`, the markers, the constructors of the control-block filters -/

/-- `_dualmethod.__get__` as translated, with `cls()` = the empty DataEdit object and the bound operation
    = "append the one edit function and return the object" (checked by `dataEditOpSignatures`), IS the
    model's `dataEditOp` -/
theorem translated_filters_dualmethod_is_model (inst : Option (List EditOp)) (op : EditOp) :
    Gen.TrFo.dualGet dataEditNew (fun obj => obj ++ [op]) inst = dataEditOp inst op := by
  cases inst <;> rfl

/-- called on the CLASS (`instance is None`) the operation runs on a fresh object made by `cls()`;
    called on an INSTANCE it runs on THAT instance (no new object) -/
theorem translated_filters_dualmethod_class_or_instance {ι μ : Type} (newInstance : ι) (bind : ι → μ) :
    Gen.TrFo.dualGet newInstance bind none = bind newInstance ∧
    ∀ obj, Gen.TrFo.dualGet newInstance bind (some obj) = bind obj := ⟨rfl, fun _ => rfl⟩

/-- hence `DataEdit.a(…).b(…).c(…)` – the first operation on the class, the others on the object it
    returned – is ONE object whose edit list is `[a, b, c]` in call order -/
theorem translated_filters_chained_operations_build_the_edit_list (op : EditOp) (ops : List EditOp) :
    (op :: ops).foldl (fun acc o => some (Gen.TrFo.dualGet dataEditNew (fun obj => obj ++ [o]) acc)) none
      = some (op :: ops) := by
  have h : ∀ (l : List EditOp) (rest : List EditOp),
      rest.foldl (fun acc o => some (Gen.TrFo.dualGet dataEditNew (fun obj => obj ++ [o]) acc)) (some l)
        = some (l ++ rest) := by
    intro l rest
    induction rest generalizing l with
    | nil => simp
    | cons o rest ih =>
      rw [List.foldl_cons]
      have : Gen.TrFo.dualGet dataEditNew (fun obj => obj ++ [o]) (some l) = l ++ [o] := rfl
      rw [this, ih]; simp
  rw [List.foldl_cons]
  have : Gen.TrFo.dualGet dataEditNew (fun obj => obj ++ [op]) none = [op] := rfl
  rw [this, h]; rfl

/-- the markers `DataEdit.DELETE` / `DataEdit.REJECT` are two separate fresh objects (`object()`): identical
    to nothing a function can otherwise return and not to each other – the model's `ModRes.delete` /
    `ModRes.reject` next to `ModRes.value v` -/
theorem translated_filters_sentinels :
    Gen.TrFo.dataEditSentinels = [("DELETE", "object()"), ("REJECT", "object()")] := by decide

/-- `IfOutput.__init__` stores the reference in `_ctrl_blk` and registers that attribute with the circuit's
    resolver without a type requirement beyond the resolver's default (any `Block`) -/
theorem translated_filters_if_output_init_is_model :
    Gen.TrFo.ifOutputInit = ifOutputRef ∧ Gen.TrFo.resolverDefaultBlockType = .block := ⟨rfl, rfl⟩

/-- `IfNotIitialized.__init__` registers the reference with `block_type=block.SBlock` -/
theorem translated_filters_if_not_initialized_init_is_model :
    Gen.TrFo.ifNotInitInit = ifNotInitializedRef := rfl

/-- consequences stated outright: a combinational block is refused as the control block of
    `IfNotIitialized` (TypeError), a sequential one accepted; `IfOutput` takes every block -/
theorem translated_filters_control_block_type_requirement (ctrl : String) :
    Gen.TrFo.ifNotInitInit.blockType.admits .cblock = false ∧
    Gen.TrFo.ifNotInitInit.blockType.admits .sblock = true ∧
    (∀ k, Gen.TrFo.ifOutputInit.blockType.admits k = true) ∧
    Filter.mkIfNotInitialized .cblock ctrl = .error .typeError ∧
    Filter.mkIfNotInitialized .sblock ctrl = .ok (.ifNotInitialized ctrl) ∧
    (∀ k, Filter.mkIfOutput k ctrl = .ok (.ifOutput ctrl)) := by
  refine ⟨rfl, rfl, fun k => by cases k <;> rfl, rfl, rfl, fun k => by cases k <;> rfl⟩

/-- the attribute that is assigned, the attribute that is registered and the attribute `__call__` asserts
    on (and reads: `self._ctrl_blk.output` / `.is_initialized()` in the translated calls) are the same, and
    `__call__` asserts exactly the registered block type -/
theorem translated_filters_control_refs_consistent :
    Gen.TrFo.ifOutputInit.stored = Gen.TrFo.ifOutputInit.registered ∧
    Gen.TrFo.ifOutputAsserts = some (Gen.TrFo.ifOutputInit.registered, Gen.TrFo.ifOutputInit.blockType) ∧
    Gen.TrFo.ifNotInitInit.stored = Gen.TrFo.ifNotInitInit.registered ∧
    Gen.TrFo.ifNotInitAsserts = some (Gen.TrFo.ifNotInitInit.registered, Gen.TrFo.ifNotInitInit.blockType) := by
  decide

/-- non-vacuity: a pipeline of plain filters -/
example : ∀ f ∈ [Filters.Filter.notFromUndef, .ifOutput "c", .dataEdit [.add [("a", Val.int 1)]]],
    PlainFilter (fun _ => Val.int 1) f := by
  intro f hf d
  simp only [List.mem_cons, List.mem_nil_iff, or_false] at hf
  rcases hf with h | h | h <;> subst h
  · exact ⟨rfl, fun e h => by simp [Filters.Filter.call] at h⟩
  · refine ⟨rfl, fun e h => ?_⟩
    simp only [Filters.Filter.call] at h
    split at h <;> cases h
  · refine ⟨rfl, fun e h => ?_⟩
    simp [Filters.Filter.call, Filters.dataEditCall, Filters.chain, Filters.EditOp.apply] at h

end FilterObjects

end Edzed.TrTie
