/-
C19 — duration strings and numbers convert consistently in both directions.

Model: EdzedModel/TimeUnits.lean (`convert`, `timePeriod`, `timestr`, `timestrApprox` on character
lists and exact rationals; mirrors edzed/utils/timeunits.py).  The renderings the theorems
quantify over (`NumText`, `Piece`, `TradR`, `IsoR`) are defined in EdzedProofs/TimeUnits.lean:

* `NumText`  a number: any non-empty digit string (leading zeros allowed), optionally `.`/`,` and a
  non-empty digit string; `val` is its decimal value;
* `Piece`    `<whitespace> number <whitespace> letter` (lower or upper case; the seconds' letter may
  be left out), `TradR` up to four pieces in the order d, h, m, s plus trailing whitespace;
* `IsoR`     `<ws> P [nY] [nM] [nD] [T [nH] [nM] [nS]] <ws>`.

The unit sizes in the statements are the literal numbers of the documentation (86400, 3600, 60); the
model computes with the constants generated from edzed/utils/tconst.py, so a changed constant
breaks the proofs below.
-/
import EdzedModel.TimeUnits
import EdzedProofs.TimeUnits
import EdzedProofs.TimeUnitsTie
import EdzedModel.Gen.Constants

namespace Edzed.TimeUnits

/-- tie to the source: the generated constants are the documented unit sizes -/
theorem unit_constants :
    Gen.secPerDay = 86400 ∧ Gen.secPerHour = 3600 ∧ Gen.secPerMin = 60 := by decide

/-- **traditional format**: every rendering – any subset of the units in the order d h m s, each
    letter in either case, any ASCII whitespace in front of, between and behind numbers and letters,
    the seconds' letter optional, numbers with leading zeros, a decimal point or comma in the
    smallest unit that is present – converts to `86400 d + 3600 h + 60 m + s`. -/
theorem convert_render_trad (r : TradR) (wf : r.WF) (hfrac : fracSmallestOnly r.nums = true)
    (hne : r.NonEmpty) :
    convert r.text =
      .ok (86400 * ntVal (pnum r.d) + 3600 * ntVal (pnum r.h) + 60 * ntVal (pnum r.m) + ntVal (pnum r.s)) := by
  rw [convert_trad_sum r wf hfrac hne, scaledSum_trad]

/-- the same for plain natural numbers: `"<d>d<h>h<m>m<s>s"` with any subset, case and whitespace -/
theorem convert_render_trad_nat (d h m s : Option Nat) (pre : Fin 4 → List Char) (mid : Fin 4 → List Char)
    (up : Fin 4 → Bool) (bare : Bool) (post : List Char)
    (hpre : ∀ i, allWs (pre i)) (hmid : ∀ i, allWs (mid i)) (hpost : allWs post)
    (hne : d.isSome ∨ h.isSome ∨ m.isSome ∨ s.isSome) :
    let piece (i : Fin 4) (b : Bool) (n : Nat) : Piece :=
      { pre := pre i, num := ⟨natStr n, none⟩, mid := mid i, upper := up i, bare := b }
    let r : TradR := { d := d.map (piece 0 false), h := h.map (piece 1 false), m := m.map (piece 2 false),
                       s := s.map (piece 3 bare), post := post }
    convert r.text = .ok ((86400 * d.getD 0 + 3600 * h.getD 0 + 60 * m.getD 0 + s.getD 0 : Nat) : Rat) := by
  intro piece r
  have pwf : ∀ i b n, (piece i b n).WF := fun i b n =>
    ⟨hpre i, hmid i, natStr_ne_nil _, allDigits_natStr _, trivial⟩
  have wf : r.WF := by
    refine ⟨?_, ?_, ?_, ?_, hpost⟩
    · intro q hq; cases d <;> simp [r] at hq; subst hq; exact ⟨pwf _ _ _, rfl⟩
    · intro q hq; cases h <;> simp [r] at hq; subst hq; exact ⟨pwf _ _ _, rfl⟩
    · intro q hq; cases m <;> simp [r] at hq; subst hq; exact ⟨pwf _ _ _, rfl⟩
    · intro q hq; cases s <;> simp [r] at hq; subst hq; exact pwf _ _ _
  have hf : fracSmallestOnly r.nums = true := by
    cases d <;> cases h <;> cases m <;> cases s <;>
      simp [r, piece, TradR.nums, pnum, fracSmallestOnly, NumText.hasFrac]
  have hn : r.NonEmpty := by
    cases d <;> cases h <;> cases m <;> cases s <;> simp_all [r, TradR.NonEmpty, TradR.nums, pnum]
  rw [convert_render_trad r wf hf hn]
  have hv : ∀ (o : Option Nat) i b, ntVal (pnum (o.map (piece i b))) = ((o.getD 0 : Nat) : Rat) := by
    intro o i b
    cases o <;> simp [pnum, ntVal, piece, NumText.val, fracVal, digitsVal_natStr, Rat.add_zero]
  simp only [r, hv]
  push_cast
  rfl

/-- non-vacuity / reading aid: `" 1D 02 h3m 4,50 "` is such a rendering and is worth 93784.5 s -/
example : convert [' ', '1', 'D', ' ', '0', '2', ' ', 'h', '3', 'm', ' ', '4', ',', '5', '0', ' '] = .ok (187569 / 2) := by decide +kernel

/-- **ISO 8601 format**: every rendering `P[nY][nM][nD][T[nH][nM][nS]]` with whitespace in front and
    behind, years and months zero (when present), any subset of D/H/M/S, a decimal point or comma in
    the smallest unit present, a bare `T` allowed – converts to `86400 d + 3600 h + 60 m + s`. -/
theorem convert_render_iso (r : IsoR) (wf : r.WF) (hfrac : fracSmallestOnly r.nums = true)
    (hcal : ntVal r.y = 0 ∧ ntVal r.mo = 0) (hne : r.NonEmpty) :
    convert r.text = .ok (86400 * ntVal r.d + 3600 * ntVal r.h + 60 * ntVal r.m + ntVal r.s) := by
  rw [convert_iso_sum r wf hfrac hcal hne, scaledSum_iso]

example : convert [' ', 'P', '0', 'Y', '1', 'D', 'T', '0', '2', 'H', '3', 'M', '4', ',', '5', '0', 'S', ' '] = .ok (187569 / 2) := by decide +kernel

/-- the fraction may sit in whichever unit is the smallest one present, with either mark, in both
    formats (instances of the two theorems above for the sub-cases d, h, m) -/
example : convert ['1', ',', '5', 'd'] = .ok 129600 := by decide +kernel
example : convert ['1', 'd', ' ', '2', '.', '5', 'H'] = .ok 95400 := by decide +kernel
example : convert ['1', 'h', '1', ',', '5', 'm'] = .ok 3690 := by decide +kernel
example : convert ['P', '1', '.', '5', 'D'] = .ok 129600 := by decide +kernel
example : convert ['P', 'T', '1', ',', '5', 'H'] = .ok 5400 := by decide +kernel
example : convert ['P', 'T', '1', '.', '5', 'M'] = .ok 90 := by decide +kernel

/-! ### rejections -/

/-- an empty or blank string is refused ("at least one element must be present") -/
theorem reject_blank (w : List Char) (hw : allWs w) : convert w = .error .empty := by
  have h := matchTrad_text { post := w } ⟨nofun, nofun, nofun, nofun, hw⟩
  have e : ({ post := w } : TradR).text = w := by simp [TradR.text, optText]
  rw [e] at h
  unfold convert
  rw [h]
  exact evalGroups_empty _ (by simp [TradR.groups, Groups.scaled, allAbsent])

/-- `P` and `PT` alone (with whitespace around) are refused as well -/
theorem reject_blank_iso (pre post : List Char) (hpre : allWs pre) (hpost : allWs post) (t : Bool) :
    convert (pre ++ 'P' :: ((if t then ['T'] else []) ++ post)) = .error .empty := by
  have wf : ({ pre := pre, post := post, t := t } : IsoR).WF :=
    ⟨hpre, hpost, nofun, nofun, nofun, nofun, nofun, nofun, fun _ => ⟨rfl, rfl, rfl⟩⟩
  have h := convert_iso_eval _ wf
  have e : ({ pre := pre, post := post, t := t } : IsoR).text = pre ++ 'P' :: ((if t then ['T'] else []) ++ post) := by
    cases t <;> simp [IsoR.text, IsoR.rest, IsoR.timeText, og]
  rw [e] at h
  rw [h]
  exact evalGroups_empty _ (by simp [IsoR.groups, Groups.scaled, allAbsent])

/-- calendar years or months other than zero are refused, whatever else the string contains -/
theorem reject_years_months (r : IsoR) (wf : r.WF) (hcal : ntVal r.y ≠ 0 ∨ ntVal r.mo ≠ 0) :
    ∃ e, convert r.text = .error e := by
  apply except_error_of_not_ok
  intro v hv
  rw [convert_iso_eval r wf] at hv
  obtain ⟨h1, _⟩ := evalGroups_ok_imp _ _ hv
  obtain ⟨pre, y, mo, d, t, h, m, s, post⟩ := r
  have ev : ∀ p : Option NumText, optVal (p.map (·.num)) = ntVal p := by
    intro p; cases p <;> rfl
  simp only [IsoR.groups, Groups.scaled, calOK, ev, Bool.and_true, Bool.and_eq_true, beq_iff_eq] at h1
  rcases hcal with h | h
  · exact h h1.2
  · exact h h1.1

/-- `P1Y`, `P2M`, `P1Y2M3DT4H` … : the simplest instances -/
theorem reject_years_months_nat (n : Nat) (hn : n ≠ 0) (months : Bool) :
    ∃ e, convert ('P' :: (natStr n ++ [if months then 'M' else 'Y'])) = .error e := by
  have hv : ntVal (some (⟨natStr n, none⟩ : NumText)) ≠ 0 := by
    simp only [ntVal, NumText.val, fracVal, digitsVal_natStr, Rat.add_zero]
    intro h
    exact hn (by exact_mod_cast h)
  have wfn : OWF (some (⟨natStr n, none⟩ : NumText)) := by
    intro t ht; cases ht; exact ⟨natStr_ne_nil _, allDigits_natStr _, trivial⟩
  cases months with
  | true =>
    have := reject_years_months { mo := some ⟨natStr n, none⟩ }
      ⟨allWs_nil, allWs_nil, nofun, wfn, nofun, nofun, nofun, nofun, fun _ => ⟨rfl, rfl, rfl⟩⟩ (Or.inr hv)
    simpa [IsoR.text, IsoR.rest, og, NumText.text, fracText] using this
  | false =>
    have := reject_years_months { y := some ⟨natStr n, none⟩ }
      ⟨allWs_nil, allWs_nil, wfn, nofun, nofun, nofun, nofun, nofun, fun _ => ⟨rfl, rfl, rfl⟩⟩ (Or.inl hv)
    simpa [IsoR.text, IsoR.rest, og, NumText.text, fracText] using this

/-- a fractional part anywhere but in the smallest unit that is present is refused
    (traditional format; "only the smallest unit may have a fractional part") -/
theorem reject_fraction_larger_unit (r : TradR) (wf : r.WF) (hfrac : fracSmallestOnly r.nums = false) :
    convert r.text = .error .fraction := by
  unfold convert
  rw [matchTrad_text r wf]
  simp only
  have hbad : fracOK r.groups.scaled = false := by
    obtain ⟨d, h, m, s, post⟩ := r
    cases d <;> cases h <;> cases m <;> cases s <;>
      simp_all [TradR.groups, Groups.scaled, fracOK, allNoFrac, noFrac, TradR.nums, pnum,
        fracSmallestOnly, NumText.num]
  unfold evalGroups
  cases he : evalLoop ⟨0, true⟩ r.groups.scaled with
  | ok acc =>
    have := (evalLoop_ok_imp _ _ _ he).2.1 rfl
    rw [hbad] at this
    cases this
  | error e =>
    have : e = .fraction := by
      apply evalLoop_error_fraction _ _ _ _ he
      intro x hx
      simp only [Groups.scaled, TradR.groups, List.mem_cons, List.not_mem_nil, or_false] at hx
      rcases hx with rfl | rfl | rfl | rfl | rfl | rfl <;> simp
    rw [this]

/-- the same in the ISO format (there the refusal may also be the one for years/months) -/
theorem reject_fraction_larger_unit_iso (r : IsoR) (wf : r.WF) (hfrac : fracSmallestOnly r.nums = false) :
    ∃ e, convert r.text = .error e := by
  apply except_error_of_not_ok
  intro v hv
  rw [convert_iso_eval r wf] at hv
  obtain ⟨_, h2⟩ := evalGroups_ok_imp _ _ hv
  obtain ⟨pre, y, mo, d, t, h, m, s, post⟩ := r
  cases y <;> cases mo <;> cases d <;> cases h <;> cases m <;> cases s <;>
    simp_all [IsoR.groups, Groups.scaled, fracOK, allNoFrac, noFrac, IsoR.nums,
      fracSmallestOnly, NumText.num]

example : convert ['1', '.', '5', 'h', '3', '0', 'm'] = .error .fraction := by decide +kernel
example : convert ['1', '.', '5', 'h', '0', 'm'] = .error .fraction := by decide +kernel
example : convert ['P', '1', 'Y'] = .error .calendar := by decide +kernel

/-- any character outside the alphabet of the two formats (digits, the six ASCII whitespace
    characters, `.` `,`, `dhmsDHMS`, `P` `T` `Y`) anywhere in the string makes it invalid:
    signs, exponents, underscores, other letters, lower-case `p`/`t`/`y`, non-ASCII digits and
    spaces, ... -/
theorem reject_stray_characters (cs : List Char) (c : Char) (hc : c ∈ cs) (hbad : allowedChar c = false) :
    convert cs = .error .syntax := by
  have h1 : matchTrad cs = none := by
    cases h : matchTrad cs with
    | none => rfl
    | some g =>
      have := matchTrad_allowed cs g h c hc
      rw [hbad] at this
      cases this
  have h2 : matchIso cs = none := by
    cases h : matchIso cs with
    | none => rfl
    | some g =>
      have := matchIso_allowed cs g h c hc
      rw [hbad] at this
      cases this
  unfold convert
  rw [h1, h2]

/-- the hypothesis is satisfiable for the usual suspects -/
example : ['-', '+', 'e', 'E', '_', 'x', 'W', 'p', 't', 'y', ':', '/', '１', '\u00a0', '\u017f', '\u212a'].all
    (fun c => !allowedChar c) = true := by decide

/-- **repeated or misordered units, traditional format**: after any well-formed beginning `r` (pieces
    with their letters, either case, any whitespace) a further piece of a unit `v` such that `v` itself
    or a smaller unit has been used already (`1h2h`, `3 M 1 h`, `1d 5s 2D` …) makes the string invalid,
    whatever follows it. -/
theorem reject_repeated_or_misordered_units (r : TradP) (wf : r.WF) (v : TUnit)
    (hfrom : r.hasFrom v = true) (pb : Piece) (wb : pb.WF) (hb : pb.bare = false) (rest : List Char) :
    convert (r.text (pb.text v.lo v.up ++ rest)) = .error .syntax := by
  obtain ⟨h1, h2⟩ := matchTrad_misordered r wf v hfrom pb wb hb rest
  exact convert_syntax _ h1 h2

/-- **ISO format**: after any well-formed beginning `P…` or `P…T…` a further `number designator` group
    whose designator `V` may not follow any more – `V` or a later designator of the same part has been
    used (`P1D2D`, `PT3M1H`, `P1M2Y`), or `V` does not belong to that part at all (`P1H`, `PT1D`,
    `P1DT2Y`, `P1T`) – makes the string invalid, whatever follows it. -/
theorem reject_misplaced_designator_iso (r : IsoP) (wf : r.WF) (b : NumText) (wb : b.WF) (V : Char)
    (hV : numEnd V = true) (hcl : r.Closed V) (rest : List Char) :
    convert (r.text (b.text ++ V :: rest)) = .error .syntax := by
  have hT : matchTrad (r.text (b.text ++ V :: rest)) = none := matchTrad_P _ _ wf.1
  refine convert_syntax _ hT ?_
  obtain ⟨hd, hne⟩ := headSat_digit_text b wb (V :: rest)
  have blk : ∀ U : Char, V ≠ U → IBlocked U (b.text ++ V :: rest) := fun U h =>
    iblocked_text U V hV (by simpa using h) b wb rest
  apply matchIso_bad_tail r wf _ hd hne
  · intro ht
    simp only [IsoP.Closed, ht, Bool.false_eq_true, ↓reduceIte, Bool.or_eq_true] at hcl
    obtain ⟨c1, c2, c3⟩ := hcl
    refine ⟨?_, ?_, ?_⟩
    · by_cases h : V = 'Y'
      · have := c1 h; grind
      · exact Or.inr (Or.inr (Or.inr (blk _ h)))
    · by_cases h : V = 'M'
      · have := c2 h; grind
      · exact Or.inr (Or.inr (blk _ h))
    · by_cases h : V = 'D'
      · exact Or.inl (c3 h)
      · exact Or.inr (blk _ h)
  · intro ht
    simp only [IsoP.Closed, ht, ↓reduceIte, Bool.or_eq_true] at hcl
    obtain ⟨c1, c2, c3⟩ := hcl
    refine ⟨?_, ?_, ?_⟩
    · by_cases h : V = 'H'
      · have := c1 h; grind
      · exact Or.inr (Or.inr (Or.inr (blk _ h)))
    · by_cases h : V = 'M'
      · have := c2 h; grind
      · exact Or.inr (Or.inr (blk _ h))
    · by_cases h : V = 'S'
      · exact Or.inl (c3 h)
      · exact Or.inr (blk _ h)

/-- **a second decimal mark** directly behind a number that has a fraction already (`1.5.5`, `1,5,5s`,
    `2h 3.4.5m`), after any well-formed beginning, whatever follows – traditional format -/
theorem reject_second_decimal_mark (r : TradP) (wf : r.WF) (w : List Char) (hw : allWs w)
    (t : NumText) (wt : t.WF) (hfr : t.fr.isSome = true) (c : Char) (hc : isMark c = true)
    (rest : List Char) :
    convert (r.text (w ++ (t.text ++ c :: rest))) = .error .syntax := by
  obtain ⟨h1, h2⟩ := matchTrad_second_mark r wf w hw t wt hfr c hc rest
  exact convert_syntax _ h1 h2

/-- the same in the ISO format (`PT1.5.5S`, `P1DT2,5,0H`) -/
theorem reject_second_decimal_mark_iso (r : IsoP) (wf : r.WF) (t : NumText) (wt : t.WF)
    (hfr : t.fr.isSome = true) (c : Char) (hc : isMark c = true) (rest : List Char) :
    convert (r.text (t.text ++ c :: rest)) = .error .syntax := by
  have hT : matchTrad (r.text (t.text ++ c :: rest)) = none := matchTrad_P _ _ wf.1
  refine convert_syntax _ hT ?_
  obtain ⟨hd, hne⟩ := headSat_digit_text t wt (c :: rest)
  have blk : ∀ U ∈ ['Y', 'M', 'D', 'H', 'S'], IBlocked U (t.text ++ c :: rest) := by
    intro U hU
    apply iblocked_second_mark U t wt hfr c hc _ rest
    simp only [isMark, Bool.or_eq_true, beq_iff_eq] at hc
    simp only [List.mem_cons, List.not_mem_nil, or_false] at hU
    rcases hc with h | h <;> subst h <;> rcases hU with rfl | rfl | rfl | rfl | rfl <;> decide
  apply matchIso_bad_tail r wf _ hd hne
  · intro _
    exact ⟨Or.inr (Or.inr (Or.inr (blk _ (by simp)))), Or.inr (Or.inr (blk _ (by simp))),
      Or.inr (blk _ (by simp))⟩
  · intro _
    exact ⟨Or.inr (Or.inr (Or.inr (blk _ (by simp)))), Or.inr (Or.inr (blk _ (by simp))),
      Or.inr (blk _ (by simp))⟩

/-- a sign anywhere makes the string invalid (durations are unsigned) -/
theorem reject_sign (cs : List Char) (h : '-' ∈ cs ∨ '+' ∈ cs) : convert cs = .error .syntax := by
  rcases h with h | h
  · exact reject_stray_characters cs '-' h (by decide)
  · exact reject_stray_characters cs '+' h (by decide)

example : convert ['3', 'm', '1', 'h'] = .error .syntax := by decide +kernel
example : convert ['1', 'h', '2', 'h'] = .error .syntax := by decide +kernel
example : convert ['1', 'd', ' ', '5', 'S', ' ', '2', 'D'] = .error .syntax := by decide +kernel
example : convert ['P', 'T', '3', 'M', '1', 'H'] = .error .syntax := by decide +kernel
example : convert ['P', '1', 'H'] = .error .syntax := by decide +kernel
example : convert ['1', '.', '5', '.', '5', 's'] = .error .syntax := by decide +kernel
example : convert ['P', 'T', '1', ',', '5', ',', '5', 'S'] = .error .syntax := by decide +kernel

/-- **timestr is the inverse of convert, integers**: for every natural number of seconds and every
    separator made of whitespace, `convert(timestr(n, sep)) = n` exactly. -/
theorem timestr_inverse_int (n : Nat) (sep : List Char) (hs : allWs sep) (prec : Nat) :
    ∃ txt, timestr (.int n) sep prec = some txt ∧ convert txt = .ok (n : Rat) := by
  refine ⟨timestrTicks n 0 sep, by simp [timestr], ?_⟩
  rw [convert_timestrTicks n 0 sep hs]
  congr 1
  grind

/-- **timestr is the inverse of convert, floats**: for every rational `q ≥ 0` (the exact value of a
    float), every precision and whitespace separator, `timestr` prints a string that `convert`
    maps to `roundHalfEven(q·10^prec) / 10^prec`, which is within half a unit of the last printed
    decimal place of `q`. -/
theorem timestr_inverse_frac (q : Rat) (hq : 0 ≤ q) (prec : Nat) (sep : List Char) (hs : allWs sep) :
    ∃ txt y, timestr (.float q) sep prec = some txt ∧ convert txt = .ok y ∧
      y = ((roundHalfEven (q * 10 ^ prec) : Int) : Rat) / 10 ^ prec ∧
      y - q ≤ 1 / (2 * 10 ^ prec) ∧ q - y ≤ 1 / (2 * 10 ^ prec) := by
  have hnot : ¬ q < 0 := Rat.not_lt.mpr hq
  obtain ⟨h1, h2, h3⟩ := roundTicks_bounds q hq prec
  have hp : ((10 ^ prec : Nat) : Rat) = (10 : Rat) ^ prec := by
    rw [Rat.natCast_pow]; rfl
  rw [hp] at h1 h2 h3
  refine ⟨timestrTicks (roundTicks q prec) prec sep, _, by simp [timestr, hnot],
    convert_timestrTicks _ _ sep hs, ?_, ?_, ?_⟩
  · rw [hp, h1]
  · rw [hp]; exact h2
  · rw [hp]; exact h3

/-- the carry at a rounding boundary: 59.9996 s is printed as one minute, not as 60.000 s -/
example : timestr (.float (599996 / 10000)) [] 3 = some ['1', 'm', '0', '.', '0', '0', '0', 's'] := by decide +kernel
example : timestr (.float (863999995 / 10000)) [] 3 = some ['1', 'd', '0', 'h', '0', 'm', '0', '.', '0', '0', '0', 's'] := by decide +kernel
example : timestr (.int 93784) [' '] 3 = some ['1', 'd', ' ', '2', 'h', ' ', '3', 'm', ' ', '4', 's'] := by decide +kernel

/-- the documented rounding step of `timestr_approx` for a value of this magnitude
    (0.001 s below 1 s, 0.01 s below 10 s, 0.1 s below 1 min, 1 s below 10 h, 1 min below 10 d, else 1 h) -/
def approxStep (x : Rat) : Rat :=
  if x < 1 then 1 / 1000 else if x < 10 then 1 / 100 else if x < 60 then 1 / 10
  else if x < 36000 then 1 else if x < 864000 then 60 else 3600

/-- **timestr_approx**: for every non-negative argument (an int, or the exact value of a float) and
    every whitespace separator the function prints a string that `convert` maps back to the value
    `approxValue x` it stands for (the inverse relation for the approximate rendering), and that value
    differs from the argument by less than the documented rounding step of the argument's magnitude
    class (in fact by at most half of it) – including the carries from one class into the next
    (0.9996 → `1.00s`, 59.96 → `1m0s`, 35999.6 → `10h0m`, 863990 → `10d0h`). -/
theorem timestr_approx_error (x : Secs) (hx : 0 ≤ x.val) (sep : List Char) (hs : allWs sep) :
    ∃ txt, timestrApprox x sep = some txt ∧ convert txt = .ok (approxValue x) ∧
      approxValue x - x.val < approxStep x.val ∧ x.val - approxValue x < approxStep x.val := by
  -- the coarse part alone (ints, floats from 10 hours on)
  have key : ∀ a : AVal, 0 ≤ a.v →
      (approxCoarse a).a.v - a.v < approxStep a.v ∧ a.v - (approxCoarse a).a.v < approxStep a.v := by
    intro a ha
    obtain ⟨h1, h2, h3⟩ := approxCoarse_bounds a ha
    unfold approxStep
    by_cases c1 : a.v < 36000
    · rw [h1 c1]
      have e : a.v - a.v = 0 := by grind
      rw [e]
      split <;> (try split) <;> (try split) <;> (try split) <;> grind
    · by_cases c2 : a.v < 864000
      · obtain ⟨b1, b2⟩ := h2 (by grind) c2
        have n1 : ¬ a.v < 1 := by grind
        have n2 : ¬ a.v < 10 := by grind
        have n3 : ¬ a.v < 60 := by grind
        simp only [n1, n2, n3, c1, c2, ↓reduceIte]
        constructor <;> grind
      · obtain ⟨b1, b2⟩ := h3 (by grind)
        have n1 : ¬ a.v < 1 := by grind
        have n2 : ¬ a.v < 10 := by grind
        have n3 : ¬ a.v < 60 := by grind
        simp only [n1, n2, n3, c1, c2, ↓reduceIte]
        constructor <;> grind
  -- floats below 10 hours: the value delivered by the decimal roundings is not touched any more
  have small : ∀ (q : Rat) (a : AVal) (half : Rat), FloatSpec q a half → half + half ≤ approxStep q →
      0 < half →
      (approxCoarse a).a.v - q < approxStep q ∧ q - (approxCoarse a).a.v < approxStep q := by
    intro q a half ⟨h0, b1, b2, _, hc⟩ hstep hpos
    have hv : (approxCoarse a).a.v = a.v := by
      rcases hc with hc | hc
      · exact (approxCoarse_bounds a h0).1 hc
      · rw [hc]; exact approxCoarse_36000.trans (by decide)
    rw [hv]
    constructor <;> grind
  cases x with
  | int n =>
    have hn : 0 ≤ n := by
      have : (0 : Rat) ≤ ((n : Int) : Rat) := hx
      exact_mod_cast this
    have hnot : ¬ n < 0 := by omega
    have hgrid : OnGrid ⟨(n : Rat), false, 0⟩ := by
      refine ⟨n.toNat, ?_⟩
      simp only [Bool.false_eq_true, ↓reduceIte]
      have e1 : ((10 ^ 0 : Nat) : Rat) = 1 := by decide
      have e2 : ((n.toNat : Nat) : Rat) = ((n : Int) : Rat) := by
        have := Int.toNat_of_nonneg hn
        exact_mod_cast congrArg (fun z : Int => (z : Rat)) this
      rw [e1, e2]
      grind
    refine ⟨approxRender (approxCoarse ⟨(n : Rat), false, 0⟩) sep, by simp [timestrApprox, hnot], ?_, ?_⟩
    · exact convert_approxRender_coarse _ hx (fun _ => hgrid) sep hs
    · exact key ⟨(n : Rat), false, 0⟩ hx
  | float q =>
    have hq : 0 ≤ q := hx
    have hnot : ¬ q < 0 := Rat.not_lt.mpr hq
    refine ⟨approxRender (approxCoarse (approxFloat q)) sep, by simp [timestrApprox, hnot], ?_, ?_⟩
    · show convert (approxRender (approxCoarse (approxFloat q)) sep) =
        .ok (approxCoarse (approxFloat q)).a.v
      by_cases c : q < 36000
      · have spec : ∃ half, FloatSpec q (approxFloat q) half := by
          by_cases c1 : q < 1
          · exact ⟨_, class1 q hq c1⟩
          · by_cases c2 : q < 10
            · exact ⟨_, class2 q (by grind) c2⟩
            · by_cases c3 : q < 60
              · exact ⟨_, class3 q (by grind) c3⟩
              · exact ⟨_, class4 q (by grind) c⟩
        obtain ⟨half, h0, _, _, hg, _⟩ := spec
        exact convert_approxRender_coarse _ h0 (fun _ => hg) sep hs
      · have hl := approxFloat_large q (by grind)
        rw [hl]
        exact convert_approxRender_coarse ⟨q, true, 0⟩ hq (fun h => absurd h c) sep hs
    · show (approxCoarse (approxFloat q)).a.v - q < approxStep q ∧
        q - (approxCoarse (approxFloat q)).a.v < approxStep q
      by_cases c1 : q < 1
      · have hs1 : approxStep q = 1 / 1000 := by unfold approxStep; rw [if_pos c1]
        exact small q _ _ (class1 q hq c1) (by rw [hs1]; grind) (by grind)
      · by_cases c2 : q < 10
        · have hs2 : approxStep q = 1 / 100 := by unfold approxStep; rw [if_neg c1, if_pos c2]
          exact small q _ _ (class2 q (by grind) c2) (by rw [hs2]; grind) (by grind)
        · by_cases c3 : q < 60
          · have hs3 : approxStep q = 1 / 10 := by
              unfold approxStep; rw [if_neg c1, if_neg c2, if_pos c3]
            exact small q _ _ (class3 q (by grind) c3) (by rw [hs3]; grind) (by grind)
          · by_cases c4 : q < 36000
            · have hs4 : approxStep q = 1 := by
                unfold approxStep; rw [if_neg c1, if_neg c2, if_neg c3, if_pos c4]
              exact small q _ _ (class4 q (by grind) c4) (by rw [hs4]; grind) (by grind)
            · have hl := approxFloat_large q (by grind)
              rw [hl]
              exact key ⟨q, true, 0⟩ hq

example : timestrApprox (.int 863990) [] = some ['1', '0', 'd', '0', 'h'] := by decide +kernel
example : timestrApprox (.float (9996 / 1000)) [] = some ['1', '0', '.', '0', 's'] := by decide +kernel

/-- negative numbers become 0, other numbers pass through (as floats) -/
theorem negative_to_zero (q : Rat) (k : Kind) :
    timePeriod (.atom (.num q k)) = .ok (some (if q < 0 then 0 else q)) := rfl

theorem negative_number_is_zero (q : Rat) (k : Kind) (hq : q < 0) :
    timePeriod (.atom (.num q k)) = .ok (some 0) := by
  rw [negative_to_zero, if_pos hq]

/-- non-negative numbers pass through unchanged – ints, floats and also bools (the code converts
    every `int`, hence also `True`/`False`, with `float()`; bools are not refused) -/
theorem period_number_identity (q : Rat) (k : Kind) (hq : 0 ≤ q) :
    timePeriod (.atom (.num q k)) = .ok (some q) := by
  rw [negative_to_zero, if_neg (Rat.not_lt.mpr hq)]

/-- `None` stays `None` -/
theorem none_to_none : timePeriod Val.none = .ok none := rfl

/-- strings go through `convert` (a number stays that number, an error stays that error) -/
theorem period_string (s : String) :
    timePeriod (.atom (.str s)) = periodOfConvert (convert s.toList) := rfl

/-- anything else (UNDEF, tuples, lists) is a TypeError -/
theorem period_type_error (l : List Atom) :
    timePeriod .undef = .error .type ∧ timePeriod (.tup l) = .error .type ∧
      timePeriod (.lst l) = .error .type := ⟨rfl, rfl, rfl⟩

end Edzed.TimeUnits

/-! ## Tie by translation

`Gen.TrTu.*` (lean/EdzedModel/Gen/TranslatedTimeUnits.lean) is regenerated on every run from the CURRENT
Python source of edzed/utils/timeunits.py by tools/py2lean_timeunits.py: statement order, conditions,
early exits, the loop over the match groups, the order of the patterns and of the scale factors, class
boundaries, format decisions and every constant come from the AST.  Declared (EdzedModel/TimeUnitsPy.lean)
is only the meaning of built-ins, `str`/`re` methods and format specifications; the regular-expression
match itself is the model's matcher.  The theorems say that the generated definitions ARE the model's, for
all arguments – a semantic edit of the Python code breaks them (or the definition is omitted). -/

namespace Edzed.TrTie
open Edzed.TimeUnits

/-- `time_period`: None → None, int (incl. bool) → float, float → `max(0.0, x)`, str → `convert`,
    anything else TypeError -/
theorem translated_timeunits_time_period_is_model (v : Val) :
    Gen.TrTu.timePeriod v = timePeriod v := tr_timePeriod v

/-- the body of the loop of `_convert` over the match groups IS the model's `addGroup`: skip an absent
    group; a decimal comma or point only while no smaller unit was present; comma → point before `float`;
    a zero value counts as present but adds nothing; years/months ≠ 0 refused; `value * factor` added -/
theorem translated_timeunits_convert_step_is_model (sm : Bool) (res : Rat) (g : Option Num) (sc : Option Nat) :
    Gen.TrTu.convertStep (res, sm) (g, sc) =
      match addGroup ⟨res, sm⟩ g sc with
      | .ok a => .ok (a.result, a.smallest)
      | .error e => .error e := tr_convertStep sm res g sc

/-- `_convert` after the regular-expression match: the traditional pattern is tried first, then the ISO
    one, no match is a ValueError; the groups are walked from the smallest unit with the factors
    `1, SEC_PER_MIN, SEC_PER_HOUR, SEC_PER_DAY, None, None`; nothing present is a ValueError -/
theorem translated_timeunits_convert_is_model (cs : List Char) :
    Gen.TrTu.convert cs = convert cs := tr_convert cs

/-- the public `convert`: `try: return _convert(tstr) except ValueError as err: raise ValueError(…{err}…)` –
    only ValueError is caught and it is re-raised with the same reason; nothing is swallowed -/
theorem translated_timeunits_convert_public_is_model (cs : List Char) :
    Gen.TrTu.convertPublic cs = convert cs := tr_convertPublic cs

/-- the source text of the two regular expressions (layout of the VERBOSE form removed) and of `_NUM`, and
    their flags: what the hand-written matchers `matchTrad` / `matchIso` model.  Any edit of a pattern
    breaks this obligation. -/
theorem translated_timeunits_patterns_pinned :
    Gen.durationNum = "(\\d+(?:[.,]\\d+)?)" ∧
    Gen.durationRegexes =
      [("_RE_DURATION",
        "\\s*(?:(\\d+(?:[.,]\\d+)?)\\s*d)?\\s*(?:(\\d+(?:[.,]\\d+)?)\\s*h)?\\s*(?:(\\d+(?:[.,]\\d+)?)\\s*m)?\\s*(?:(\\d+(?:[.,]\\d+)?)\\s*s?)?\\s*",
        ["ASCII", "IGNORECASE"]),
       ("_RE_ISO_DURATION",
        "\\s*P(?:(\\d+(?:[.,]\\d+)?)Y)?(?:(\\d+(?:[.,]\\d+)?)M)?(?:(\\d+(?:[.,]\\d+)?)D)?(?:T(?:(\\d+(?:[.,]\\d+)?)H)?(?:(\\d+(?:[.,]\\d+)?)M)?(?:(\\d+(?:[.,]\\d+)?)S)?)?\\s*",
        ["ASCII"])] := ⟨rfl, rfl⟩

/-- `timestr`: negative refused; a float is rounded to `prec` places BEFORE the three `divmod`s; days only
    when non-zero, hours when days or hours are non-zero, minutes and seconds always; seconds with `prec`
    places for a float, plain for an int; joined with `sep` -/
theorem translated_timeunits_timestr_is_model (x : Secs) (sep : List Char) (prec : Nat) :
    Gen.TrTu.timestr x sep prec = timestr x sep prec := tr_timestr x sep prec

/-- `timestr_approx`: the magnitude classes (1, 10, 60 s, 10 h, 10 d) with their rounding steps
    (3, 2, 1, 0 places; minutes; hours), each test made on the value rounded so far, the omission of
    seconds / minutes, and the format of the parts -/
theorem translated_timeunits_timestr_approx_is_model (x : Secs) (sep : List Char) :
    Gen.TrTu.timestrApprox x sep = timestrApprox x sep := tr_timestrApprox x sep

end Edzed.TrTie

