import EdzedModel.TimeUnits
import EdzedProofs.TimeUnits

namespace Edzed.TimeUnits

theorem none_to_none : timePeriod Val.none = .ok none := rfl

end Edzed.TimeUnits
