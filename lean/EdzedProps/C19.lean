/-
C19 — duration strings and numbers convert consistently in both directions.

Model: EdzedModel/TimeUnits.lean (`convert`, `timePeriod`, `timestr`, `timestrApprox` on character
lists and exact rationals; mirrors edzed/utils/timeunits.py).  The renderings the theorems
quantify over (`NumText`, `Piece`, `TradR`, `IsoR`) are defined in EdzedProofs/TimeUnits.lean:

* `NumText`  a number: any non-empty digit string (leading zeros allowed), optionally `.`/`,` and a
  non-empty digit string; `val` is its decimal value;
* `Piece`    `<whitespace> number <whitespace> letter` (lower or upper case; the seconds' letter may
  be left out), `TradR` up to four pieces in the order d, h, m, s plus trailing whitespace;
* `IsoR`     `<ws> P [nY] [nM] [nD] [T [nH] [nM] [nS]] <ws>`.

The unit sizes in the statements are the literal numbers of the documentation (86400, 3600, 60); the
model computes with the constants generated from edzed/utils/tconst.py, so a changed constant
breaks the proofs below.
-/
import EdzedModel.TimeUnits
import EdzedProofs.TimeUnits
import EdzedModel.Gen.Constants

namespace Edzed.TimeUnits

/-- tie to the source: the generated constants are the documented unit sizes -/
theorem unit_constants :
    Gen.secPerDay = 86400 ∧ Gen.secPerHour = 3600 ∧ Gen.secPerMin = 60 := by decide

/-- **traditional format**: every rendering – any subset of the units in the order d h m s, each
    letter in either case, any ASCII whitespace in front of, between and behind numbers and letters,
    the seconds' letter optional, numbers with leading zeros, a decimal point or comma in the
    smallest unit that is present – converts to `86400 d + 3600 h + 60 m + s`. -/
theorem convert_render_trad (r : TradR) (wf : r.WF) (hfrac : fracSmallestOnly r.nums = true)
    (hne : r.NonEmpty) :
    convert r.text =
      .ok (86400 * ntVal (pnum r.d) + 3600 * ntVal (pnum r.h) + 60 * ntVal (pnum r.m) + ntVal (pnum r.s)) := by
  rw [convert_trad_sum r wf hfrac hne, scaledSum_trad]

/-- the same for plain natural numbers: `"<d>d<h>h<m>m<s>s"` with any subset, case and whitespace -/
theorem convert_render_trad_nat (d h m s : Option Nat) (pre : Fin 4 → List Char) (mid : Fin 4 → List Char)
    (up : Fin 4 → Bool) (bare : Bool) (post : List Char)
    (hpre : ∀ i, allWs (pre i)) (hmid : ∀ i, allWs (mid i)) (hpost : allWs post)
    (hne : d.isSome ∨ h.isSome ∨ m.isSome ∨ s.isSome) :
    let piece (i : Fin 4) (b : Bool) (n : Nat) : Piece :=
      { pre := pre i, num := ⟨natStr n, none⟩, mid := mid i, upper := up i, bare := b }
    let r : TradR := { d := d.map (piece 0 false), h := h.map (piece 1 false), m := m.map (piece 2 false),
                       s := s.map (piece 3 bare), post := post }
    convert r.text = .ok ((86400 * d.getD 0 + 3600 * h.getD 0 + 60 * m.getD 0 + s.getD 0 : Nat) : Rat) := by
  intro piece r
  have pwf : ∀ i b n, (piece i b n).WF := fun i b n =>
    ⟨hpre i, hmid i, natStr_ne_nil _, allDigits_natStr _, trivial⟩
  have wf : r.WF := by
    refine ⟨?_, ?_, ?_, ?_, hpost⟩
    · intro q hq; cases d <;> simp [r] at hq; subst hq; exact ⟨pwf _ _ _, rfl⟩
    · intro q hq; cases h <;> simp [r] at hq; subst hq; exact ⟨pwf _ _ _, rfl⟩
    · intro q hq; cases m <;> simp [r] at hq; subst hq; exact ⟨pwf _ _ _, rfl⟩
    · intro q hq; cases s <;> simp [r] at hq; subst hq; exact pwf _ _ _
  have hf : fracSmallestOnly r.nums = true := by
    cases d <;> cases h <;> cases m <;> cases s <;>
      simp [r, piece, TradR.nums, pnum, fracSmallestOnly, NumText.hasFrac]
  have hn : r.NonEmpty := by
    cases d <;> cases h <;> cases m <;> cases s <;> simp_all [r, TradR.NonEmpty, TradR.nums, pnum]
  rw [convert_render_trad r wf hf hn]
  have hv : ∀ (o : Option Nat) i b, ntVal (pnum (o.map (piece i b))) = ((o.getD 0 : Nat) : Rat) := by
    intro o i b
    cases o <;> simp [pnum, ntVal, piece, NumText.val, fracVal, digitsVal_natStr, Rat.add_zero]
  simp only [r, hv]
  push_cast
  rfl

/-- non-vacuity / reading aid: `" 1D 02 h3m 4,50 "` is such a rendering and is worth 93784.5 s -/
example : convert [' ', '1', 'D', ' ', '0', '2', ' ', 'h', '3', 'm', ' ', '4', ',', '5', '0', ' '] = .ok (187569 / 2) := by decide +kernel

/-- **timestr is the inverse of convert, integers**: for every natural number of seconds and every
    separator made of whitespace, `convert(timestr(n, sep)) = n` exactly. -/
theorem timestr_inverse_int (n : Nat) (sep : List Char) (hs : allWs sep) (prec : Nat) :
    ∃ txt, timestr (.int n) sep prec = some txt ∧ convert txt = .ok (n : Rat) := by
  refine ⟨timestrTicks n 0 sep, by simp [timestr], ?_⟩
  rw [convert_timestrTicks n 0 sep hs]
  congr 1
  grind

/-- **timestr is the inverse of convert, floats**: for every rational `q ≥ 0` (the exact value of a
    float), every precision and whitespace separator, `timestr` prints a string that `convert`
    maps to `roundHalfEven(q·10^prec) / 10^prec`, which is within half a unit of the last printed
    decimal place of `q`. -/
theorem timestr_inverse_frac (q : Rat) (hq : 0 ≤ q) (prec : Nat) (sep : List Char) (hs : allWs sep) :
    ∃ txt y, timestr (.float q) sep prec = some txt ∧ convert txt = .ok y ∧
      y = ((roundHalfEven (q * 10 ^ prec) : Int) : Rat) / 10 ^ prec ∧
      y - q ≤ 1 / (2 * 10 ^ prec) ∧ q - y ≤ 1 / (2 * 10 ^ prec) := by
  have hnot : ¬ q < 0 := Rat.not_lt.mpr hq
  obtain ⟨h1, h2, h3⟩ := roundTicks_bounds q hq prec
  have hp : ((10 ^ prec : Nat) : Rat) = (10 : Rat) ^ prec := by
    rw [Rat.natCast_pow]; rfl
  rw [hp] at h1 h2 h3
  refine ⟨timestrTicks (roundTicks q prec) prec sep, _, by simp [timestr, hnot],
    convert_timestrTicks _ _ sep hs, ?_, ?_, ?_⟩
  · rw [hp, h1]
  · rw [hp]; exact h2
  · rw [hp]; exact h3

/-- the carry at a rounding boundary: 59.9996 s is printed as one minute, not as 60.000 s -/
example : timestr (.float (599996 / 10000)) [] 3 = some ['1', 'm', '0', '.', '0', '0', '0', 's'] := by decide +kernel
example : timestr (.float (863999995 / 10000)) [] 3 = some ['1', 'd', '0', 'h', '0', 'm', '0', '.', '0', '0', '0', 's'] := by decide +kernel
example : timestr (.int 93784) [' '] 3 = some ['1', 'd', ' ', '2', 'h', ' ', '3', 'm', ' ', '4', 's'] := by decide +kernel

/-- negative numbers become 0, other numbers pass through (as floats) -/
theorem negative_to_zero (q : Rat) (k : Kind) :
    timePeriod (.atom (.num q k)) = .ok (some (if q < 0 then 0 else q)) := rfl

theorem negative_number_is_zero (q : Rat) (k : Kind) (hq : q < 0) :
    timePeriod (.atom (.num q k)) = .ok (some 0) := by
  rw [negative_to_zero, if_pos hq]

/-- `None` stays `None` -/
theorem none_to_none : timePeriod Val.none = .ok none := rfl

/-- strings go through `convert` (a number stays that number, an error stays that error) -/
theorem period_string (s : String) :
    timePeriod (.atom (.str s)) = periodOfConvert (convert s.toList) := rfl

/-- anything else (UNDEF, tuples, lists) is a TypeError -/
theorem period_type_error (l : List Atom) :
    timePeriod .undef = .error .type ∧ timePeriod (.tup l) = .error .type ∧
      timePeriod (.lst l) = .error .type := ⟨rfl, rfl, rfl⟩

end Edzed.TimeUnits
