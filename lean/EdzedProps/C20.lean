/-
C20 — Counter arithmetic is exact and stays within the modulo range.

Model: EdzedModel/Counter.lean (mirrors Counter._setmod and the handlers).
All statements are for every configuration, every restored value and every event
sequence (no bound on length), over exact rationals (ints and dyadic floats alike).
-/
import EdzedModel.Counter
import EdzedProofs.Counter
import EdzedModel.Gen.Constants
import EdzedModel.Gen.Translated
import EdzedModel.Gen.TranslatedCounter

namespace Edzed.Counter

/-- every step result is reduced: what is stored is what `_setmod` computed, and the
    event returns exactly the stored output; a `put` without value changes nothing -/
theorem store_q (o v : Num) : (store o v).q = v.q := by
  unfold store; split
  · next h => exact of_decide_eq_true (by simpa using h)
  · rfl

/-- every event returns the updated output (equal as numbers; Python keeps the stored object
    when the new value compares equal); a `put` without value changes nothing -/
theorem event_returns_updated_output (c : Cfg) (o : Num) (op : Op) :
    (∃ v, (step c o op).2 = .ret v ∧ v.q = (step c o op).1.q) ∨
    (op = .put none ∧ step c o op = (o, .paramError)) := by
  cases op with
  | put v => cases v <;> simp [step, store_q]
  | _ => simp [step, store_q]

theorem put_without_value_is_harmless (c : Cfg) (o : Num) :
    step c o (.put none) = (o, .paramError) := rfl

theorem modulo_zero_refused (k : Kind) (i : Num) : Cfg.valid ⟨some ⟨0, k⟩, i⟩ = false := by
  simp [Cfg.valid]

theorem reset_restores_reduced_initdef (c : Cfg) (o : Num) :
    (step c o .reset).1.q = (init c none).q := by
  simp [step, init, store_q]

/-- outputs of a counter with positive modulo are always in `[0, M)` -/
def InRange (m : Num) (o : Num) : Prop := 0 ≤ o.q ∧ o.q < m.q

theorem reduce_in_range (c : Cfg) (m : Num) (hc : c.mod = some m) (hm : 0 < m.q) (v : Num) :
    InRange m (reduce c v) := by
  simp [reduce, hc, Num.mod, InRange]
  exact ⟨fmod_nonneg _ _ hm, fmod_lt _ _ hm⟩

theorem step_in_range (c : Cfg) (m : Num) (hc : c.mod = some m) (hm : 0 < m.q)
    (o : Num) (ho : InRange m o) (op : Op) : InRange m (step c o op).1 := by
  have key : ∀ v, InRange m (store o (reduce c v)) := fun v => by
    have := reduce_in_range c m hc hm v
    simpa [InRange, store_q] using this
  cases op with
  | put v => cases v with
    | none => exact ho
    | some x => exact key x
  | inc a => exact key _
  | dec a => exact key _
  | reset => exact key _

/-- `range_invariant`: after initialisation (from initdef or a restored, possibly out-of-range
    value) and after every event sequence the output is in `[0, M)` -/
theorem range_invariant (c : Cfg) (m : Num) (hc : c.mod = some m) (hm : 0 < m.q)
    (restored : Option Num) (ops : List Op) :
    InRange m (run c (init c restored) ops) := by
  have h0 : InRange m (init c restored) := reduce_in_range c m hc hm _
  generalize init c restored = o at h0
  induction ops generalizing o with
  | nil => exact h0
  | cons op ops ih => exact ih _ (step_in_range c m hc hm o h0 op)

/-- a NEGATIVE modulo is accepted by the constructor (only zero is refused); Python's floored `%` then keeps
    the output in `(M, 0]` -/
def InRangeNeg (m : Num) (o : Num) : Prop := m.q < o.q ∧ o.q ≤ 0

theorem reduce_in_range_neg (c : Cfg) (m : Num) (hc : c.mod = some m) (hm : m.q < 0) (v : Num) :
    InRangeNeg m (reduce c v) := by
  simp [reduce, hc, Num.mod, InRangeNeg]
  exact ⟨fmod_gt _ _ hm, fmod_nonpos _ _ hm⟩

/-- `range_invariant` for a negative modulo: after initialisation and after every event sequence the output
    is in `(M, 0]` -/
theorem range_invariant_neg (c : Cfg) (m : Num) (hc : c.mod = some m) (hm : m.q < 0)
    (restored : Option Num) (ops : List Op) :
    InRangeNeg m (run c (init c restored) ops) := by
  have key : ∀ o v, InRangeNeg m (store o (reduce c v)) := fun o v => by
    have := reduce_in_range_neg c m hc hm v
    simpa [InRangeNeg, store_q] using this
  have h0 : InRangeNeg m (init c restored) := reduce_in_range_neg c m hc hm _
  generalize init c restored = o at h0
  induction ops generalizing o with
  | nil => exact h0
  | cons op ops ih =>
    refine ih _ ?_
    cases op with
    | put v => cases v with
      | none => exact h0
      | some x => exact key o x
    | inc a => exact key o _
    | dec a => exact key o _
    | reset => exact key o _

/-- every accepted configuration is covered: no modulo, a positive one (`range_invariant`) or a negative one
    (`range_invariant_neg`) -/
theorem valid_cfg_cases (c : Cfg) (h : c.valid = true) :
    c.mod = none ∨ (∃ m, c.mod = some m ∧ 0 < m.q) ∨ (∃ m, c.mod = some m ∧ m.q < 0) := by
  unfold Cfg.valid at h
  cases hm : c.mod with
  | none => exact .inl rfl
  | some m =>
    simp [hm] at h
    by_cases h1 : m.q < 0
    · exact .inr (.inr ⟨m, rfl, h1⟩)
    · refine .inr (.inl ⟨m, rfl, ?_⟩)
      grind

example : InRangeNeg ⟨-3, .int⟩ (run ⟨some ⟨-3, .int⟩, ⟨5, .int⟩⟩ (init ⟨some ⟨-3, .int⟩, ⟨5, .int⟩⟩ none) [.inc none, .inc none]) := by
  unfold InRangeNeg; decide +kernel

/-- one step commutes with reduction of the unreduced accumulator -/
theorem step_refines (c : Cfg) (m : Num) (hc : c.mod = some m) (hm : m.q ≠ 0)
    (o : Num) (acc : Rat) (h : o.q = fmod acc m.q) (op : Op) :
    (step c o op).1.q = fmod (specStep c acc op) m.q := by
  cases op with
  | inc a => simp [step, store_q, reduce, hc, Num.mod, Num.add, specStep, h, fmod_fmod_add _ _ _ hm]
  | dec a => simp [step, store_q, reduce, hc, Num.mod, Num.sub, specStep, h, fmod_fmod_sub _ _ _ hm]
  | put v => cases v <;> simp [step, store_q, reduce, hc, Num.mod, specStep, h]
  | reset => simp [step, store_q, reduce, hc, Num.mod, specStep]

/-- `stepwise_eq_final_mod` / `counter_refines_accumulator`: reducing after every step gives
    the same output as the plain accumulator (initial value transformed by the same arithmetic)
    reduced once, for every event sequence -/
theorem counter_refines_accumulator (c : Cfg) (m : Num) (hc : c.mod = some m) (hm : m.q ≠ 0)
    (restored : Option Num) (ops : List Op) :
    (run c (init c restored) ops).q = fmod (spec c (restored.getD c.initdef).q ops) m.q := by
  have h0 : (init c restored).q = fmod (restored.getD c.initdef).q m.q := by
    simp [init, reduce, hc, Num.mod]
  generalize init c restored = o at h0
  generalize (restored.getD c.initdef).q = acc at h0
  induction ops generalizing o acc with
  | nil => exact h0
  | cons op ops ih => exact ih _ _ (step_refines c m hc hm o acc h0 op)

/-- without a modulo the output *is* the accumulator -/
theorem counter_is_accumulator_nomod (c : Cfg) (hc : c.mod = none)
    (restored : Option Num) (ops : List Op) :
    (run c (init c restored) ops).q = spec c (restored.getD c.initdef).q ops := by
  have h0 : (init c restored).q = (restored.getD c.initdef).q := by simp [init, reduce, hc]
  generalize init c restored = o at h0
  generalize (restored.getD c.initdef).q = acc at h0
  induction ops generalizing o acc with
  | nil => exact h0
  | cons op ops ih =>
    apply ih
    cases op with
    | put v => cases v <;> simp [step, store_q, reduce, hc, specStep, h0]
    | _ => simp [step, store_q, reduce, hc, specStep, h0, Num.add, Num.sub]

/-- tie to the source: the handler table extracted from the current code is the one the model
    implements (`put` requires `value`, `inc`/`dec` take an optional `amount`, `reset` nothing;
    all accept further data items) -/
theorem handler_table_matches_model :
    Gen.counterHandlers =
      [("dec", [], ["amount"], true), ("inc", [], ["amount"], true),
       ("put", ["value"], [], true), ("reset", [], [], true)] := by decide

/-- non-vacuity: a concrete counter modulo 7 restored from an out-of-range value -/
example : ∃ c : Cfg, ∃ m : Num, c.mod = some m ∧ 0 < m.q ∧
    (run c (init c (some ⟨-4, .int⟩)) [.inc none, .dec (some ⟨5, .int⟩), .reset]).q = 3 :=
  ⟨⟨some ⟨7, .int⟩, ⟨3, .int⟩⟩, ⟨7, .int⟩, rfl, by decide +kernel, by decide +kernel⟩

end Edzed.Counter

/-! ### tie to the source by translation (tools/py2lean.py regenerates `Gen.Tr.counterSetmod` from `Counter._setmod`) -/
namespace Edzed.TrTie

/-- the model's reduction IS the translated value computation of `Counter._setmod` -/
theorem translated_setmod_is_model (c : Counter.Cfg) (v : Counter.Num) :
    Gen.Tr.counterSetmod (c.mod.map (·.q)) v.q = (Counter.reduce c v).q := by
  unfold Gen.Tr.counterSetmod Counter.reduce
  cases c.mod <;> rfl

/-- the value returned by `_event_inc` (amount defaulting as in the signature) IS the model's result -/
theorem translated_inc_is_model (c : Counter.Cfg) (out : Counter.Num) (a : Option Counter.Num) :
    ∃ v, Counter.step c out (.inc a) = (Counter.store out v, .ret v)
      ∧ v.q = Gen.Tr.counterInc (c.mod.map (·.q)) out.q (a.map (·.q)) := by
  refine ⟨Counter.reduce c (out.add (a.getD Counter.one)), rfl, ?_⟩
  unfold Gen.Tr.counterInc
  rw [translated_setmod_is_model c ⟨out.q + (a.map (·.q)).getD 1, (out.add (a.getD Counter.one)).k⟩]
  cases a <;> cases hm : c.mod <;> simp [Counter.reduce, hm, Counter.Num.add, Counter.Num.mod, Counter.one]

/-- the same for `_event_dec` -/
theorem translated_dec_is_model (c : Counter.Cfg) (out : Counter.Num) (a : Option Counter.Num) :
    ∃ v, Counter.step c out (.dec a) = (Counter.store out v, .ret v)
      ∧ v.q = Gen.Tr.counterDec (c.mod.map (·.q)) out.q (a.map (·.q)) := by
  refine ⟨Counter.reduce c (out.sub (a.getD Counter.one)), rfl, ?_⟩
  unfold Gen.Tr.counterDec
  rw [translated_setmod_is_model c ⟨out.q - (a.map (·.q)).getD 1, (out.sub (a.getD Counter.one)).k⟩]
  cases a <;> cases hm : c.mod <;> simp [Counter.reduce, hm, Counter.Num.sub, Counter.Num.mod, Counter.one]

/-- `_event_put` (its `value` is a required argument: the translator refuses a signature with a default) -/
theorem translated_put_is_model (c : Counter.Cfg) (out x : Counter.Num) :
    ∃ v, Counter.step c out (.put (some x)) = (Counter.store out v, .ret v)
      ∧ v.q = Gen.Tr.counterPut (c.mod.map (·.q)) x.q :=
  ⟨Counter.reduce c x, rfl, (translated_setmod_is_model c x).symm⟩

/-- `_event_reset` -/
theorem translated_reset_is_model (c : Counter.Cfg) (out : Counter.Num) :
    ∃ v, Counter.step c out .reset = (Counter.store out v, .ret v)
      ∧ v.q = Gen.Tr.counterReset (c.mod.map (·.q)) c.initdef.q :=
  ⟨Counter.reduce c c.initdef, rfl, (translated_setmod_is_model c c.initdef).symm⟩

/-- the constructor's refusal IS the negation of the model's validity predicate -/
theorem translated_modulo_check_is_model (c : Counter.Cfg) :
    Gen.Tr.counterRefusesModulo (c.mod.map (·.q)) = !c.valid := by
  unfold Gen.Tr.counterRefusesModulo Counter.Cfg.valid
  cases c.mod with
  | none => rfl
  | some m => simp only [Option.map_some, bne, Bool.not_not]; rfl

/-! ### the constructor and the class-level aliases (`Gen/TranslatedCounter.lean`) -/

open Gen.TrCnt in
/-- `Counter.__init__` as translated: a zero modulo is refused BEFORE anything is stored or the base class is
    initialised; otherwise the modulo is stored unchanged and `initdef` is handed to the base constructor
    (which makes it the value of the regular initialisation and of `reset`) -/
theorem translated_counter_init_is_model (c : Counter.Cfg) :
    counterInit (c.mod.map (·.q)) (some c.initdef.q) =
      if c.valid then [Prim.setMod (c.mod.map (·.q)), Prim.superInit c.initdef.q]
      else [Prim.raise "ValueError"] := by
  unfold counterInit Counter.Cfg.valid
  cases hm : c.mod with
  | none => simp
  | some m =>
    by_cases h0 : m.q = 0
    · simp [h0]
    · simp [h0]

open Gen.TrCnt in
/-- an omitted `initdef` is 0 (the signature's default), an omitted `modulo` is `None` = no reduction -/
theorem translated_counter_init_defaults :
    counterInit none none = [Prim.setMod none, Prim.superInit 0] := by
  decide

open Gen.TrCnt in
/-- for EVERY argument pair: nothing is stored and the base class is not initialised iff the modulo is zero -/
theorem translated_counter_init_refuses_iff_zero (m i : Option Rat) :
    (counterInit m i = [Prim.raise "ValueError"]) ↔ m = some 0 := by
  unfold counterInit
  constructor
  · intro h
    by_cases hz : m = some 0
    · exact hz
    · simp [hz] at h
  · intro h; simp [h]

open Gen.TrCnt in
/-- `init_from_value` and `_restore_state` ARE `_setmod` (class-level aliases, checked by the translator against
    the class dictionary at run time too): the initial value and a restored value go through the same reduction
    as every event — which is what the model's `init` says -/
theorem translated_counter_aliases_are_setmod :
    counterAliases = [("init_from_value", "_setmod"), ("_restore_state", "_setmod")]
    ∧ ∀ (c : Counter.Cfg) (r : Option Counter.Num),
        (Counter.init c r).q = Gen.Tr.counterSetmod (c.mod.map (·.q)) (r.getD c.initdef).q := by
  refine ⟨rfl, fun c r => ?_⟩
  unfold Counter.init
  exact (translated_setmod_is_model c _).symm

open Gen.TrCnt in
/-- the class defines exactly the handlers of the model's operations (an added `_event_*` method would be a
    behaviour the model does not have) and inherits the persistence add-on before `SBlock` -/
theorem translated_counter_class_shape :
    counterMethods = ["__init__", "_setmod", "_event_inc", "_event_dec", "_event_put", "_event_reset"]
    ∧ counterBases = ["addons.AddonPersistence", "block.SBlock"] := by
  exact ⟨rfl, rfl⟩

end Edzed.TrTie
