/-
C08 — every started block is stopped exactly once; asynchronous clean-up first and bounded;
clean-up errors isolated; stop_data last; neither restart nor modification afterwards; no task,
timer or helper outlives the simulation.

Model: EdzedModel/Lifecycle.lean (`runForever`), mirroring `Circuit.run_forever`,
`_stop_sblocks`, `_run_tasks`, `run()`, `AddonMainTask`, `FSM.stop`, `OutputFunc/OutputAsync.stop`
with the repairs of patches/C08-*.diff and patches/C04-no-timer-after-stop.diff.
Every statement is for EVERY configuration `c`: any number of blocks of any kind, any fault
script (all `f…` flags, main task failure instants), any durations and time-outs, any
termination cause and instant, and any order `c.oa`/`c.os` in which the two sets of blocks are
iterated (`runForever c = some r` says exactly that the orders enumerate the right sets).
`stops`, `starteds`, `sabs`, `saes`, `outsOf` (EdzedProofs/Lifecycle.lean) read the stop() calls,
returned start() calls, stop_async begins/ends and output-function calls off the trace.
-/
import EdzedModel.Lifecycle
import EdzedProofs.Lifecycle
import EdzedProofs.LifecycleTie

namespace Edzed.Lifecycle

/-- `stop_exactly_started`: the multiset of stop() calls is the set of blocks whose start()
    returned — for every fault script, termination cause and stop order -/
theorem stop_exactly_started (c : Cfg) (r : Result) (h : runForever c = some r) :
    (stops r.trace).Perm (starteds r.trace) ∧ (starteds r.trace).Nodup := by
  cases hb : c.cause.before with
  | true =>
    obtain ⟨h1, _⟩ := nothing_started_when_aborted_before c r h hb
    simp [h1, stops, starteds]
  | false =>
    have sp := run_spec c r h hb
    obtain ⟨h1, h2, _, _⟩ := trace_stops c r h hb
    rw [h1, h2, sp.started, plan_started]
    refine ⟨?_, startLoop_nodup 0 c.blocks⟩
    refine (List.Perm.append sp.permA sp.permS).trans ?_
    rw [plan_started]
    exact List.filter_append_perm _ _

/-- which blocks these are: a block's start() returns iff neither it nor an earlier block raises
    in start() -/
theorem started_iff_no_start_fault (c : Cfg) (r : Result) (h : runForever c = some r)
    (hb : c.cause.before = false) (k : Nat) :
    k ∈ starteds r.trace ↔ k < c.blocks.length ∧ ∀ j, j ≤ k → (blk c.blocks j).fStart = false := by
  obtain ⟨_, h2, _, _⟩ := trace_stops c r h hb
  rw [h2, (run_spec c r h hb).started, plan_started, startLoop_mem]
  simp [blk]

/-- `async_before_sync`: the trace splits into a part that contains every stop(), stop_async
    begin and end of the blocks with asynchronous clean-up, and a later part that consists of the
    stop() calls of the remaining blocks (and their stop_data output calls) only -/
theorem async_before_sync (c : Cfg) (r : Result) (h : runForever c = some r) :
    ∃ pre post, r.trace = pre ++ post ∧
      (∀ k, Ev.stop k ∈ pre → (blk c.blocks k).asyncStop = true) ∧
      (∀ e ∈ post, (∃ k, e = .stop k ∧ (blk c.blocks k).asyncStop = false) ∨ ∃ k b, e = .out k b) := by
  cases hb : c.cause.before with
  | true =>
    obtain ⟨h1, _⟩ := nothing_started_when_aborted_before c r h hb
    exact ⟨[], [], by simp [h1], by simp, by simp⟩
  | false =>
    have sp := run_spec c r h hb
    obtain ⟨ks, hks, _⟩ := plan_puts c
    refine ⟨(plan c).startEvs ++ (plan c).puts ++ (seg1 c.oa ++ seg2 c.blocks (plan c).inited c.oa ++
        seg3 c.blocks (plan c).failed (plan c).inited c.oa ++ seg4 c.blocks (plan c).failed (plan c).inited c.oa),
      seg5 c.blocks (plan c).started (plan c).timers c.oa c.os, ?_, ?_, ?_⟩
    · rw [sp.trace, stopSblocks_trace]; simp
    · intro k hk
      have := mem_stops hk
      rw [hks, plan_startEvs] at this
      simp only [stops_append, (startLoop_stops 0 c.blocks).1, (puts_evs ks).1, (seg1_evs c.oa).1,
        (seg2_evs c.blocks (plan c).inited c.oa).1, (seg3_evs c.blocks (plan c).failed (plan c).inited c.oa).1,
        (seg4_evs c.blocks (plan c).failed (plan c).inited c.oa).1, List.nil_append, List.append_nil] at this
      have := (sp.permA.mem_iff).1 this
      simp only [setA, List.mem_filter] at this
      exact this.2
    · intro e he
      rcases stopSyncAll_mem _ _ _ e he with ⟨k, hk, rfl⟩ | ⟨k, b, rfl⟩
      · have := (sp.permS.mem_iff).1 hk
        simp only [setS, List.mem_filter, Bool.not_eq_true'] at this
        exact .inl ⟨k, rfl, this.2⟩
      · exact .inr ⟨k, b, rfl⟩

/-- `stop_async_awaited_bounded` (1): stop_async is begun and ended exactly once for exactly the
    started blocks with asynchronous clean-up, after all their stop() calls (`pre` holds them,
    no stop_async event) -/
theorem stop_async_awaited (c : Cfg) (r : Result) (h : runForever c = some r) (hb : c.cause.before = false) :
    (sabs r.trace).Perm (setA c.blocks r.started) ∧ (saes r.trace).Perm (setA c.blocks r.started) ∧
    ∃ pre post, r.trace = pre ++ post ∧ sabs pre = [] ∧ saes pre = [] ∧
      (stops pre).Perm (setA c.blocks r.started) := by
  have sp := run_spec c r h hb
  obtain ⟨_, _, h3, h4⟩ := trace_stops c r h hb
  obtain ⟨ks, hks, _⟩ := plan_puts c
  rw [h3, sp.started]
  refine ⟨sp.permA, h4.trans sp.permA, ?_⟩
  refine ⟨(plan c).startEvs ++ (plan c).puts ++ (seg1 c.oa ++ seg2 c.blocks (plan c).inited c.oa),
    seg3 c.blocks (plan c).failed (plan c).inited c.oa ++ seg4 c.blocks (plan c).failed (plan c).inited c.oa
      ++ seg5 c.blocks (plan c).started (plan c).timers c.oa c.os, ?_, ?_, ?_, ?_⟩
  · rw [sp.trace, stopSblocks_trace]; simp
  · rw [hks, plan_startEvs]
    simp [(startLoop_stops 0 c.blocks).2.1, (puts_evs ks).2.2.1, (seg1_evs c.oa).2.2.1,
      (seg2_evs c.blocks (plan c).inited c.oa).2.2.1]
  · rw [hks, plan_startEvs]
    simp [(startLoop_stops 0 c.blocks).2.2.1, (puts_evs ks).2.2.2, (seg1_evs c.oa).2.2.2,
      (seg2_evs c.blocks (plan c).inited c.oa).2.2.2]
  · rw [hks, plan_startEvs]
    simp only [stops_append, (startLoop_stops 0 c.blocks).1, (puts_evs ks).1, (seg1_evs c.oa).1,
      (seg2_evs c.blocks (plan c).inited c.oa).1, List.nil_append, List.append_nil]
    exact sp.permA

/-- `stop_async_awaited_bounded` (2): the clean-up ends within the longest stop_timeout of the
    started blocks after the simulation was terminated -/
theorem stop_async_bounded (c : Cfg) (r : Result) (h : runForever c = some r) (hb : c.cause.before = false)
    (M : Nat) (hM : ∀ k ∈ r.started, (blk c.blocks k).stopTimeout ≤ M) :
    r.endTime ≤ r.termTime + M := by
  have sp := run_spec c r h hb
  rw [sp.endTime, sp.termTime]
  refine Nat.add_le_add_left (stopSblocks_dur _ _ _ _ _ _ _ M ?_) _
  intro k hk
  have := (sp.permA.mem_iff).1 hk
  simp only [setA, List.mem_filter] at this
  exact hM k (sp.started ▸ this.1)

/-- `cleanup_error_isolated`: the stop() calls and the stop_async begins are the given
    enumerations of the two sets of started blocks, whatever the `fStop` / `fStopAsync` scripts
    (and every other fault script) say: an error in one block's clean-up removes no other block's
    clean-up.  The sets depend on kinds, stop_timeouts and the start() faults only. -/
theorem cleanup_error_isolated (c : Cfg) (r : Result) (h : runForever c = some r)
    (hb : c.cause.before = false) :
    stops r.trace = c.oa ++ c.os ∧ sabs r.trace = c.oa ∧
    c.oa.Perm ((startLoop 0 c.blocks).2.1.filter fun k => (blk c.blocks k).asyncStop) ∧
    c.os.Perm ((startLoop 0 c.blocks).2.1.filter fun k => !(blk c.blocks k).asyncStop) := by
  have sp := run_spec c r h hb
  obtain ⟨h1, _, h3, _⟩ := trace_stops c r h hb
  exact ⟨h1, h3, sp.permA, sp.permS⟩

/-- changing the clean-up fault scripts of any blocks changes neither which blocks are started
    nor the two sets, so the same orders stay admissible and give the same stop() calls -/
theorem cleanup_faults_irrelevant (c c' : Cfg) (r : Result) (h : runForever c = some r)
    (hb : c.cause.before = false) (hc : c'.cause = c.cause) (hoa : c'.oa = c.oa) (hos : c'.os = c.os)
    (hbl : SameButCleanup c.blocks c'.blocks) :
    ∃ r', runForever c' = some r' ∧ stops r'.trace = stops r.trace ∧ sabs r'.trace = sabs r.trace ∧
      r'.started = r.started := by
  exact same_partition_same_stops c c' r h hb (by rw [hc]; exact hb) hoa hos hbl.toStartStop

/-- the "save the persistent state" step of run_forever (before `_stop_sblocks`) does not change
    which blocks are stopped: making any blocks persistent or not – whatever their state is when
    the simulation is terminated, initialised or not, entry in the storage or not – keeps the
    same stop orders admissible and gives the same stop() calls, stop_async begins and started set -/
theorem save_step_irrelevant (c c' : Cfg) (r : Result) (h : runForever c = some r)
    (hb : c.cause.before = false) (hc : c'.cause = c.cause) (hoa : c'.oa = c.oa) (hos : c'.os = c.os)
    (hbl : SameButPersistence c.blocks c'.blocks) :
    ∃ r', runForever c' = some r' ∧ stops r'.trace = stops r.trace ∧ sabs r'.trace = sabs r.trace ∧
      r'.started = r.started :=
  same_partition_same_stops c c' r h hb (by rw [hc]; exact hb) hoa hos hbl.toStartStop

/-- … and it always completes: `finish` goes on to the clean-up whatever `saveStep` computes (the
    result's trace, task table and timers do not mention the storage) -/
theorem save_step_total (c : Cfg) (r : Result) (h : runForever c = some r) (hb : c.cause.before = false) :
    r.storage = saveStep c.storageFault c.blocks (consumePending (plan c))
      (storageAtStop c.blocks (consumePending (plan c))) ∧
    (stops r.trace).Perm r.started := by
  have sp := run_spec c r h hb
  obtain ⟨h1, h2⟩ := stop_exactly_started c r h
  obtain ⟨_, h3, _, _⟩ := trace_stops c r h hb
  refine ⟨?_, h3 ▸ h1⟩
  unfold runForever at h
  simp only [hb, Bool.false_eq_true, if_false] at h
  unfold finish at h
  simp only [consumePending, second_any_false, Bool.or_false, Bool.false_and, Bool.false_eq_true, if_false] at h
  split at h
  · simp at h
  · simp only [Option.some.injEq] at h
    subst h; rfl

/-- whatever the persistent storage does when the simulation is being stopped – it works, its
    `__setitem__` raises, its `pop` raises as well – the run is the same except for the storage's
    contents: the same events (every started block stopped exactly once, see
    `stop_exactly_started`), the same recorded error raised at the end, the same (empty) task
    table and timers, the same end time.  (Repaired behaviour,
    patches/C08-storage-fault-at-stop-skips-cleanup.diff: the save section of run_forever is
    inside a `try … except Exception: log`.) -/
theorem storage_fault_irrelevant (c : Cfg) (r : Result) (h : runForever c = some r) (f : SFault) :
    ∃ r', runForever { c with storageFault := f } = some r' ∧ r' = { r with storage := r'.storage } := by
  have hp : plan { c with storageFault := f } = plan c := rfl
  unfold runForever at h ⊢
  cases hb : c.cause.before with
  | true =>
    simp only [hb, if_true, Option.some.injEq] at h ⊢
    subst h
    exact ⟨_, rfl, rfl⟩
  | false =>
    simp only [hb, Bool.false_eq_true, if_false] at h ⊢
    rw [hp]
    unfold finish at h ⊢
    simp only [consumePending, second_any_false, Bool.or_false, Bool.false_and, Bool.false_eq_true, if_false] at h ⊢
    split at h
    · simp at h
    · next hperm =>
      simp only [Option.some.injEq] at h
      subst h
      simp only [hperm, if_false]
      exact ⟨_, rfl, rfl⟩

/-- the helper task of `wait_init()` (`asyncio.create_task(self._init_done.wait())`) lives no longer than the
    call: whoever awaits wait_init() – an application task, a supporting coroutine that `run()`
    cancels, a task cancelled from outside at any instant `t` while the circuit keeps running – and
    whatever terminates the simulation, the helper is not in the task table when run_forever has
    finished, it is gone by the end of the simulation (`endTime`), and it is gone at `t` when the
    caller was cancelled at `t` -/
theorem helper_lives_no_longer_than_call (c : Cfg) (r : Result) (h : runForever c = some r) :
    Task.helper ∉ r.tasks ∧ helperAt r.helperSpan r.endTime = false ∧
    (∀ t, c.waiter = .cancelled t → helperAt r.helperSpan t = false) ∧
    (∀ a b, r.helperSpan = some (a, b) → b ≤ r.endTime) := by
  unfold runForever at h
  cases hb : c.cause.before with
  | true =>
    simp only [hb, if_true, Option.some.injEq] at h
    subst h
    simp [helperAt]
  | false =>
    simp only [hb, Bool.false_eq_true, if_false] at h
    unfold finish at h
    simp only [consumePending, second_any_false, Bool.or_false, Bool.false_and, Bool.false_eq_true, if_false] at h
    split at h
    · simp at h
    · simp only [Option.some.injEq] at h
      subst h
      refine ⟨by simp, ?_, ?_, ?_⟩
      · simp only [helperSpanOf, helperAt]
        cases c.waiter <;> cases (plan c).initEnd <;> simp <;> omega
      · intro t ht
        simp only [helperSpanOf, helperAt, ht]
        cases (plan c).initEnd <;> simp <;> omega
      · intro a b hab
        dsimp only at hab ⊢
        simp only [helperSpanOf] at hab
        cases hw : c.waiter <;> cases hi : (plan c).initEnd <;> simp [hw, hi] at hab <;> omega

/-
Full statement: the same without `hno`.  It is FALSE for the code (known finding
C08-outputfunc-event-after-stop, mirrored by the model's `chain`): when another OutputFunc `j` with
stop_data has `on_success = Event(k)` and `k` is stopped before `j`, `k`'s function is called with the
result of `j`'s stop_data after `k`'s own stop_data -- see `stop_data_not_last_in_a_chain` below.
-/
/-- `stop_data_last` (OutputFunc): for a started OutputFunc block with stop_data that is not the
    destination of another stop_data OutputFunc's on_success event (`NoStopDataSender`), the calls of
    its output function end with the stop_data call, and that is the only stop_data call – for
    every fault script, cause and stop order -/
theorem stop_data_last_partial (c : Cfg) (r : Result) (h : runForever c = some r) (hb : c.cause.before = false)
    (k : Nat) (hk : k ∈ r.started) (hf : (blk c.blocks k).kind = .outf)
    (hsd : (blk c.blocks k).stopData = true) (hno : NoStopDataSender c.blocks k) :
    ∃ pre, outsOf k r.trace = pre ++ [true] ∧ ∀ x ∈ pre, x = false := by
  have sp := run_spec c r h hb
  obtain ⟨ks, hks, _⟩ := plan_puts c
  rw [sp.started] at hk
  have hnd : c.os.Nodup := by
    refine (sp.permS.nodup_iff).2 ?_
    rw [plan_started]
    exact (startLoop_nodup 0 c.blocks).sublist List.filter_sublist
  have hmem : k ∈ c.os := by
    refine (sp.permS.mem_iff).2 ?_
    simp [setS, hk, Blk.asyncStop, hf]
  refine ⟨outsOf k (ks.map (Ev.out · false)), ?_, outsOf_puts k ks⟩
  rw [sp.trace, stopSblocks_trace, hks, plan_startEvs]
  simp only [outsOf_append, (startLoop_stops 0 c.blocks).2.2.2 k, outsOf_seg1, outsOf_seg3, outsOf_seg4,
    outsOf_seg2_ne c.blocks (plan c).inited c.oa k (by rw [hf]; decide), List.nil_append, List.append_nil]
  rw [seg5, outsOf_stopSyncAll_mem _ _ _ k hnd hmem hf hsd hno]

/-- … and the known finding, as the model has it: OutputFunc 1 (stop_data, on_success -> block 0),
    OutputFunc 0 (stop_data) stopped first: block 0's function is called once more after its stop_data -/
example : ∃ r, runForever
    { blocks := [{ kind := .outf, stopData := true }, { kind := .outf, stopData := true, onSuccess := some 0 }],
      cause := { kind := .shutdown, time := 205 }, oa := [], os := [0, 1] } = some r ∧
    outsOf 0 r.trace = [false, false, true, false] ∧ stops r.trace = [0, 1] := by
  refine ⟨_, rfl, ?_⟩
  decide +kernel

/-- `caller_cancel_does_not_reach_cleanup`: a SECOND termination cause that arrives while the
    clean-up is in progress – the task awaiting `shutdown()` is cancelled (directly, or by `run()`
    because another supporting coroutine returned or failed), `abort()`, SIGTERM, another
    `shutdown()` – at whatever instant, changes nothing of the run: the clean-up plan is the same,
    hence (`stop_exactly_started`) every started block is still stopped exactly once.  The reason is
    `Second.cancelsSimtask`: none of them cancels the simulation task (the repaired `shutdown()`
    does not forward its caller's cancellation: `translated_errreg_shutdown_caller_cancel_not_forwarded`) -/
theorem caller_cancel_does_not_reach_cleanup (c : Cfg) (x : Option (Second × Nat)) :
    runForever { c with cause := { c.cause with second := x } } = runForever c ∧
    ∀ r, runForever { c with cause := { c.cause with second := x } } = some r →
      (stops r.trace).Perm (starteds r.trace) := by
  have hp : plan { c with cause := { c.cause with second := x } } = plan c := rfl
  have h1 : runForever { c with cause := { c.cause with second := x } } = runForever c := by
    unfold runForever
    simp only [hp]
    cases c.cause.before
    · simp only [Bool.false_eq_true, if_false]
      unfold finish
      simp only [second_any_false]
      rfl
    · rfl
  exact ⟨h1, fun r hr => (stop_exactly_started _ r hr).1⟩

/-- non-vacuity: the caller of shutdown() is cancelled 52 ms into a clean-up that takes 200 ms -/
example : ∃ r, runForever
    { blocks := [{ kind := .aplain, stopDur := 200, stopTimeout := 1003 }, {}],
      cause := { kind := .shutdown, time := 205, second := some (.callerCancel, 52) }, oa := [0], os := [1] } = some r ∧
    stops r.trace = [0, 1] ∧ r.endTime = 405 ∧ r.tasks = [] := by
  refine ⟨_, rfl, ?_⟩
  decide +kernel

/-- `no_restart_no_modify`: when run_forever has finished – for whatever reason – the
    simulation task is done and `_error` is set: a second run_forever() and any modification of
    the circuit (`check_not_finalized`) are refused -/
theorem no_restart_no_modify (c : Cfg) (r : Result) (h : runForever c = some r) :
    restart r = none ∧ modify r = none := by
  cases hb : c.cause.before with
  | true =>
    unfold runForever at h
    simp only [hb, if_true, Option.some.injEq] at h
    subst h; simp [restart, modify]
  | false =>
    have sp := run_spec c r h hb
    simp [restart, modify, sp.simDone, sp.error]

/-- `no_live_task_at_end`: the task table (init_async tasks, main tasks, control tasks,
    stop_async tasks, the wait_init helper) is empty when run_forever returns, for every fault
    script, cause, instant and stop order.  Hypothesis = the exclusion of DESIGN.md section 6:
    no block with a main/control task has its asynchronous clean-up disabled (stop_timeout 0). -/
theorem no_live_task_at_end (c : Cfg) (r : Result) (h : runForever c = some r)
    (hcfg : ∀ k, (blk c.blocks k).hasMain = true ∨ (blk c.blocks k).hasCtrl = true →
      0 < (blk c.blocks k).stopTimeout) :
    r.tasks = [] := by
  cases hb : c.cause.before with
  | true => exact (nothing_started_when_aborted_before c r h hb).2.2.1
  | false =>
    have sp := run_spec c r h hb
    rw [sp.tasks]
    apply List.eq_nil_iff_forall_not_mem.2
    intro t ht
    simp only [List.mem_filter, List.mem_append, bne_iff_ne, ne_eq, Bool.not_eq_true'] at ht
    obtain ⟨⟨ht1, ht2⟩, ht3⟩ := ht
    rcases ht1 with ht1 | ht1
    · simp only [blockTasks, List.mem_filterMap] at ht1
      obtain ⟨k, hk, hkt⟩ := ht1
      have hoa : ∀ (hk' : (blk c.blocks k).hasMain = true ∨ (blk c.blocks k).hasCtrl = true), k ∈ c.oa := by
        intro hk'
        refine (sp.permA.mem_iff).2 ?_
        simp only [setA, List.mem_filter, Blk.asyncStop, Bool.and_eq_true, decide_eq_true_eq]
        refine ⟨hk, ?_, hcfg k hk'⟩
        rcases hk' with hk' | hk'
        · simp only [Blk.hasMain, beq_iff_eq] at hk'; simp [hk']
        · simp only [Blk.hasCtrl, beq_iff_eq] at hk'; simp [hk']
      split at hkt
      · next hm =>
        split at hkt
        · simp at hkt
        · simp only [Option.some.injEq] at hkt
          subst hkt
          simp [Task.cleanedBy, hoa (.inl hm)] at ht2
      · split at hkt
        · next hc =>
          simp only [Option.some.injEq] at hkt
          subst hkt
          simp [Task.cleanedBy, hoa (.inr hc)] at ht2
        · simp at hkt
    · split at ht1
      · simp only [List.mem_singleton] at ht1
        exact ht3 ht1
      · simp at ht1

/-- `no_live_timer_at_end`: no FSM timer handle is pending when run_forever returns – for every
    fault script (in particular a start() failure between an OutputFunc and the timer its
    stop_data event addresses), cause, instant and stop order: a timer is armed only for a block
    between its start() and its stop(), and every started block is stopped -/
theorem no_live_timer_at_end (c : Cfg) (r : Result) (h : runForever c = some r) :
    r.timers = [] := by
  cases hb : c.cause.before with
  | true => exact (nothing_started_when_aborted_before c r h hb).2.2.2
  | false =>
    have sp := run_spec c r h hb
    rw [sp.timers]
    apply List.eq_nil_iff_forall_not_mem.2
    intro x hx
    have hx' : x ∈ (stopSyncAll c.blocks
        { timers := (plan c).timers, stopped := c.oa, started := (plan c).started } c.os).1.timers := hx
    obtain ⟨hnos, hsrc⟩ := stopSyncAll_timers _ _ _ _ hx'
    -- a started timer block belongs to the synchronous set, hence to `c.os`
    have hsync : ∀ j, j ∈ (plan c).started → (blk c.blocks j).kind = .timer → j ∈ c.os := by
      intro j hj hk
      refine (sp.permS.mem_iff).2 ?_
      simp [setS, hj, Blk.asyncStop, hk]
    rcases hsrc with hsrc | ⟨_, h2, h3⟩
    · obtain ⟨pass1, pass2, ph, hpt⟩ := plan_timers c
      simp only [hpt] at hsrc
      rcases armAll_mem _ _ _ _ hsrc with h1 | ⟨h1, h2⟩
      · simp only [initTimers, List.mem_filter, Bool.and_eq_true, beq_iff_eq] at h1
        exact hnos (hsync x h1.1 h1.2.1)
      · exact hnos (hsync x h1 h2)
    · exact hnos (hsync x h2 h3)

/-- the partition of `_stop_sblocks` mirrors `has stop_async ∧ stop_timeout > 0`: a started block
    that derives from AddonAsync but has no stop_async (kind `ainit`: init_async only) or whose
    asynchronous clean-up is disabled (stop_timeout 0) is stopped with the synchronous set –
    stop() is called, stop_async is not -/
theorem async_capable_without_cleanup_is_stopped (c : Cfg) (r : Result) (h : runForever c = some r)
    (hb : c.cause.before = false) (k : Nat) (hk : k ∈ r.started)
    (hkind : (blk c.blocks k).kind = .ainit ∨ (blk c.blocks k).stopTimeout = 0) :
    k ∈ stops r.trace ∧ k ∉ sabs r.trace ∧ k ∉ saes r.trace := by
  have sp := run_spec c r h hb
  obtain ⟨h1, _, h3, h4⟩ := trace_stops c r h hb
  rw [sp.started] at hk
  have hna : (blk c.blocks k).asyncStop = false := by
    rcases hkind with hk' | hk'
    · simp [Blk.asyncStop, hk']
    · simp [Blk.asyncStop, hk']
  have hos : k ∈ c.os := by
    refine (sp.permS.mem_iff).2 ?_
    simp [setS, hk, hna]
  have hoa : k ∉ c.oa := by
    intro hmem
    have := (sp.permA.mem_iff).1 hmem
    simp [setA, hna] at this
  refine ⟨by rw [h1]; simp [hos], by rw [h3]; exact hoa, ?_⟩
  intro hmem
  exact hoa ((h4.mem_iff).1 hmem)

/-- the rule of run_forever that keeps a pending cancellation away from the clean-up: whatever
    the plan says, the clean-up starts without one (and therefore runs to its end – all theorems
    above hold for the inner causes followed by an exception as well) -/
theorem pending_cancel_consumed (p : Plan) : (consumePending p).pendingCancel = false := rfl

/-- non-vacuity: three blocks (async probe, timer in a timed state, OutputFunc with stop_data
    whose on_success starts the timer), handler error while running, the OutputFunc stopped
    AFTER the timer: all three stopped once, stop_data delivered, nothing left -/
example : ∃ r, runForever
    { blocks := [{ kind := .async, stopDur := 10, stopTimeout := 100, fStopAsync := true },
                 { kind := .timer, armed := true },
                 { kind := .outf, stopData := true, onSuccess := some 1, fStop := true }],
      cause := { kind := .handlerErr, time := 205 }, waitInit := true, oa := [0], os := [1, 2] } = some r ∧
    stops r.trace = [0, 1, 2] ∧ outsOf 2 r.trace = [false, true] ∧ r.tasks = [] ∧ r.timers = [] ∧
    r.endTime = 215 := by
  refine ⟨_, rfl, ?_⟩
  decide +kernel

/-- example configuration: async probe, CBlock, init_async-only block, AddonAsync block with
    stop_timeout 0; 'shutdown' control event from inside the simulator task followed by an exception -/
abbrev exInner : Cfg :=
  { blocks := [{ kind := .async, stopDur := 10, stopTimeout := 100 }, { kind := .cblock },
               { kind := .ainit, hasInitAsync := true, initDur := 5, initTimeout := 50 },
               { kind := .aplain, stopTimeout := 0 }],
    cause := { kind := .innerShutdown, time := 805, raiseAfter := true },
    oa := [0], os := [3, 1, 2] }

/-- non-vacuity of the inner cause: a cancellation IS pending at the end of the try block, in a
    circuit with an asynchronous clean-up: everything is stopped, nothing is left -/
example : (plan exInner).pendingCancel = true ∧
    ∃ r, runForever exInner = some r ∧
      stops r.trace = [0, 3, 1, 2] ∧ sabs r.trace = [0] ∧ r.tasks = [] ∧ r.error = some .cancelled := by
  refine ⟨by decide +kernel, _, rfl, ?_⟩
  decide +kernel

/-- example configuration for the save step: the init_regular of block 1 raises, so the persistent
    blocks 2 (entry in the storage) and 3 (no entry, first run) are started but never initialised;
    block 0 is persistent and initialised -/
abbrev exSave : Cfg :=
  { blocks := [{ persistent := true }, { fInitRegular := true },
               { persistent := true, restored := true, fRestore := true, selfInit := false, hasInitdef := true },
               { persistent := true, selfInit := false, hasInitdef := true },
               { kind := .async, stopDur := 10, stopTimeout := 100 }],
    cause := { kind := .shutdown, time := 205 }, oa := [4], os := [3, 0, 2, 1] }

/-- non-vacuity of the save step: the stale entry of block 2 is removed, block 3 has none, block
    0 is saved – and all five started blocks are stopped -/
example : ∃ r, runForever exSave = some r ∧ r.phase = .initFailed ∧ r.storage = [0] ∧
    stops r.trace = [4, 3, 0, 2, 1] ∧ r.tasks = [] := by
  refine ⟨_, rfl, ?_⟩
  decide +kernel

/-! ### the repaired `_run_tasks` waits for the tasks it cancels
    (patches/C08-run-tasks-awaits-cancelled.diff) -/

theorem atCancel_time_le (L T : Nat) (x : Job) : (Job.atCancel L T x).time ≤ max L T := by
  rw [LifecycleTie.atCancel_time]
  split
  · next hd => have := doneBy_time x L hd; omega
  · exact Nat.min_le_left _ _

/-- a cancelled loop: which job was being awaited, and when the loop ends -/
theorem awaitJobs_cancel_shape (limit : Option Nat) (T now : Nat) (js : List Job)
    (h : (awaitJobs limit T now js).2.2 = true) :
    ∃ l j, limit = some l ∧ j ∈ js ∧
      (⟨j.k, l + j.cdur, .cancelled⟩ : JobEnd) ∈ (awaitJobs limit T now js).1 ∧
      l + j.cdur ≤ (awaitJobs limit T now js).2.1 ∧
      (awaitJobs limit T now js).2.1 ≤ max (l + j.cdur) T := by
  induction js generalizing now with
  | nil => simp [awaitJobs] at h
  | cons j js ih =>
    unfold awaitJobs at h ⊢
    split at h
    · next hd =>
      obtain ⟨l, x, h1, h2, h3, h4⟩ := ih _ h
      simp only [hd, if_true]
      exact ⟨l, x, h1, by simp [h2], by simp [h3], h4⟩
    · next hnd =>
      simp only [hnd, if_false, Bool.false_eq_true]
      cases hc : cancelledBefore limit (j.wake now).1 with
      | some l =>
        refine ⟨l, j, (LifecycleTie.cancelledBefore_some hc).1, by simp, by simp, ?_, ?_⟩
        · simp only [LifecycleTie.lastEnd_map]
          exact LifecycleTie.foldl_max_ge _ _ _
        · simp only [LifecycleTie.lastEnd_map]
          exact LifecycleTie.foldl_max_le _ _ _ _ (Nat.le_max_left _ _) (fun x _ => atCancel_time_le _ _ x)
      | none =>
        simp only [hc] at h
        obtain ⟨l, x, h1, h2, h3, h4⟩ := ih _ h
        exact ⟨l, x, h1, by simp [h2], by simp [h3], h4⟩

/-- nothing ends after a cancelled loop has ended -/
theorem awaitJobs_cancel_times (limit : Option Nat) (T now : Nat) (js : List Job)
    (hlim : ∀ l, limit = some l → now ≤ l)
    (h : (awaitJobs limit T now js).2.2 = true) :
    now ≤ (awaitJobs limit T now js).2.1 ∧
      ∀ e ∈ (awaitJobs limit T now js).1, e.time ≤ (awaitJobs limit T now js).2.1 := by
  induction js generalizing now with
  | nil => simp [awaitJobs] at h
  | cons j js ih =>
    unfold awaitJobs at h ⊢
    split at h
    · next hd =>
      obtain ⟨h1, h2⟩ := ih _ hlim h
      simp only [hd, if_true]
      refine ⟨h1, ?_⟩
      intro e he
      simp only [List.mem_cons] at he
      rcases he with rfl | he
      · have := doneBy_time j now hd; simp only; omega
      · exact h2 e he
    · next hnd =>
      have hnd' : j.doneBy now = false := by simpa using hnd
      have hge := LifecycleTie.wake_ge j now hnd'
      simp only [hnd, if_false, Bool.false_eq_true]
      cases hc : cancelledBefore limit (j.wake now).1 with
      | some l =>
        simp only [LifecycleTie.lastEnd_map]
        have hL : l + j.cdur ≤ js.foldl (fun m x => max m (Job.atCancel (l + j.cdur) T x).time) (l + j.cdur) :=
          LifecycleTie.foldl_max_ge _ _ _
        have hl := hlim l (LifecycleTie.cancelledBefore_some hc).1
        refine ⟨by omega, ?_⟩
        · intro e he
          simp only [List.mem_cons, List.mem_map] at he
          rcases he with rfl | ⟨x, hx, rfl⟩
          · exact hL
          · exact LifecycleTie.foldl_max_mem (fun x => (Job.atCancel (l + j.cdur) T x).time) js _ x hx
      | none =>
        simp only [hc] at h
        obtain ⟨h1, h2⟩ := ih _ (LifecycleTie.cancelledBefore_none hc) h
        dsimp only
        refine ⟨by omega, ?_⟩
        intro e he
        simp only [List.mem_cons] at he
        rcases he with rfl | he
        · exact h1
        · exact h2 e he

/-- no task is left pending if a cancelled task ends at once -/
theorem awaitJobs_no_pending (limit : Option Nat) (T now : Nat) (js : List Job)
    (h0 : ∀ j ∈ js, j.cdur = 0) : ∀ e ∈ (awaitJobs limit T now js).1, e.res ≠ .pending := by
  have hfin : ∀ j : Job, j.fin ≠ .pending := by intro j; unfold Job.fin; split <;> simp
  induction js generalizing now with
  | nil => simp [awaitJobs]
  | cons j js ih =>
    have ih' := fun now => ih now (fun x hx => h0 x (by simp [hx]))
    unfold awaitJobs
    split
    · intro e he
      simp only [List.mem_cons] at he
      rcases he with rfl | he
      · exact hfin j
      · exact ih' _ e he
    · cases hc : cancelledBefore limit (j.wake now).1 with
      | some l =>
        intro e he
        simp only [List.mem_cons, List.mem_map] at he
        rcases he with rfl | ⟨x, hx, rfl⟩
        · simp
        · have hx0 : x.cdur = 0 := h0 x (by simp [hx])
          unfold Job.atCancel Job.cancelEnd
          have hle : l + j.cdur + x.cdur ≤ max (l + j.cdur) T := by omega
          cases hxd : x.dur with
          | none => simp only [hle, if_true]; simp
          | some d =>
            simp only [hle, if_true]
            split
            · exact hfin x
            · simp
      | none =>
        intro e he
        simp only [List.mem_cons] at he
        rcases he with rfl | he
        · rcases LifecycleTie.wake_res j now with hw | ⟨_, hw⟩
          · simp [hw]
          · simp only [hw]; exact hfin j
        · exact ih' _ e he

/-- **the cancelled tasks are awaited**: when `_run_tasks` is cancelled, nothing – cancelled,
    pending or ended before – has an end later than the instant `_run_tasks` itself ends (the
    instant the CancelledError leaves it), and no task is left running behind (`.pending`) if the
    cancelled tasks end at once (`cdur = 0`, i.e. no `await` in their clean-up).  In general a task
    is `.pending` exactly when its `cdur` does not fit into the longest time-out (`Job.cancelEnd`):
    the wait is bounded, see `cancelled_run_tasks_bounded`. -/
theorem cancelled_jobs_are_awaited (limit : Option Nat) (js : List Job)
    (h : (runTasks limit js).2.2 = true) :
    (∀ e ∈ (runTasks limit js).1, e.time ≤ (runTasks limit js).2.1) ∧
    ((∀ j ∈ js, j.cdur = 0) → ∀ e ∈ (runTasks limit js).1, e.res ≠ .pending) := by
  refine ⟨(awaitJobs_cancel_times limit _ 0 _ (fun l _ => Nat.zero_le l) h).2, ?_⟩
  intro h0
  exact awaitJobs_no_pending limit _ 0 _ (fun j hj => h0 j ((sortJobs_perm js).mem_iff.1 hj))

/-- **the wait is bounded**: a `_run_tasks` cancelled at `l` was awaiting some job `j`, which ends
    at `l + j.cdur`; `_run_tasks` ends then or later, but not later than the longest time-out
    (counted from the creation of the tasks) -/
theorem cancelled_run_tasks_bounded (l : Nat) (js : List Job)
    (h : (runTasks (some l) js).2.2 = true) :
    ∃ j ∈ js, (⟨j.k, l + j.cdur, .cancelled⟩ : JobEnd) ∈ (runTasks (some l) js).1 ∧
      l + j.cdur ≤ (runTasks (some l) js).2.1 ∧
      (runTasks (some l) js).2.1 ≤ max (l + j.cdur) (deadline (sortJobs js)) := by
  obtain ⟨l', j, h1, h2, h3, h4, h5⟩ := awaitJobs_cancel_shape (some l) _ 0 _ h
  simp only [Option.some.injEq] at h1
  subst h1
  exact ⟨j, (sortJobs_perm js).mem_iff.1 h2, h3, h4, h5⟩

/-- three init tasks, `_run_tasks` cancelled at 2 while awaiting task 0 (time-out 9): task 0 needs 1
    to finish, then task 1 (cancelled at 3) needs 4 and task 2 needs 20 – more than the longest
    time-out allows: `_run_tasks` ends at 9 with task 2 still pending -/
def exJobs : List Job :=
  [⟨0, some 5, 9, true, 1⟩, ⟨1, none, 6, true, 4⟩, ⟨2, some 8, 3, true, 20⟩]

theorem exJobs_sorted : sortJobs exJobs = exJobs := by
  unfold sortJobs; exact List.mergeSort_of_pairwise (by decide)

example : runTasks (some 2) exJobs =
    ([⟨0, 3, .cancelled⟩, ⟨1, 7, .cancelled⟩, ⟨2, 9, .pending⟩], 9, true) := by
  rw [runTasks, exJobs_sorted]; decide +kernel

theorem exJobs_cancelled : (runTasks (some 2) exJobs).2.2 = true := by
  rw [runTasks, exJobs_sorted]; decide +kernel

/-- `cancelled_jobs_are_awaited` is not vacuous: its hypothesis holds for `exJobs` -/
example : ∀ e ∈ (runTasks (some 2) exJobs).1, e.time ≤ (runTasks (some 2) exJobs).2.1 :=
  (cancelled_jobs_are_awaited (some 2) exJobs exJobs_cancelled).1

/-- `cancelled_run_tasks_bounded` is not vacuous -/
example : ∃ j ∈ exJobs, (runTasks (some 2) exJobs).2.1 ≤ max (2 + j.cdur) (deadline (sortJobs exJobs)) := by
  obtain ⟨j, hj, _, _, h⟩ := cancelled_run_tasks_bounded 2 exJobs exJobs_cancelled
  exact ⟨j, hj, h⟩

/-- … and with tasks that end at once when cancelled everything is over at the instant of the
    cancellation, nothing is pending -/
def exJobs0 : List Job :=
  [⟨0, some 5, 9, true, 0⟩, ⟨1, none, 6, true, 0⟩, ⟨2, some 8, 3, true, 0⟩]

theorem exJobs0_sorted : sortJobs exJobs0 = exJobs0 := by
  unfold sortJobs; exact List.mergeSort_of_pairwise (by decide)

example : runTasks (some 2) exJobs0 =
    ([⟨0, 2, .cancelled⟩, ⟨1, 2, .cancelled⟩, ⟨2, 2, .cancelled⟩], 2, true) := by
  rw [runTasks, exJobs0_sorted]; decide +kernel

example : ∀ e ∈ (runTasks (some 2) exJobs0).1, e.res ≠ .pending :=
  (cancelled_jobs_are_awaited (some 2) exJobs0 (by rw [runTasks, exJobs0_sorted]; decide +kernel)).2
    (by decide)

end Edzed.Lifecycle

/-!
### Tie by translation (tools/py2lean_lifecycle.py → Gen/TranslatedLifecycle.lean)

`Gen.TrL.runTasks`, `stopSblocks`, `initSblocksAsync`, `runForever` are generated from the CURRENT
source of `Circuit._run_tasks`, `_stop_sblocks`, `_init_sblocks_async`, `run_forever`: the order of
the statements, the conditions, the loops, which exception classes are caught where, what is
re-raised – `await X` being a call of the primitive X that returns, raises or is interrupted by a
cancellation.  EdzedProofs/LifecycleTie.lean instantiates the primitives with the model's
operations; the theorems say that the translated programs compute the model's steps.
-/
namespace Edzed.TrTie
open Edzed Edzed.Lifecycle Edzed.LifecycleTie Edzed.Gen Edzed.Gen.TrD

/-- `_run_tasks` IS the model's `awaitJobs` over the jobs sorted from the longest time-out: run on
    freshly created tasks (`limit` = the instant at which the awaiting task is cancelled, if ever)
    it ends at the same instant, every task has the fate the model gives it (returned / raised /
    cancelled by its time-out with the remaining-time expression `timeout - get_time() + start_time`
    / cancelled together with `_run_tasks`, the OTHER unfinished tasks included, which are then WAITED
    FOR – `asyncio.wait(<all tasks>, timeout=btt_list[0][2] - get_time() + start_time)` after the
    cancel loop and before the `raise`: each ends `cdur` after its cancellation or is `.pending` at the
    bound), and it re-raises the CancelledError exactly when the model's loop is cancelled, otherwise
    returns -/
theorem translated_lifecycle_run_tasks_is_model (limit : Option Nat) (js : List Job)
    (hnd : (js.map (·.k)).Nodup) :
    ∃ s' o, TrL.runTasks (rtPrims limit) js ⟨0, fun _ => none⟩ = (s', o) ∧
      s'.now = (runTasks limit js).2.1 ∧
      (sortJobs js).map (fateOf s') = (runTasks limit js).1 ∧
      ((runTasks limit js).2.2 = true → o = .raise .cancelled) ∧
      ((runTasks limit js).2.2 = false → o = .next ()) :=
  runTasks_spec limit js hnd

/-- `_stop_sblocks` IS the model's `stopSblocks`: the asynchronous set is `has stop_async ∧
    stop_timeout > 0` among the AddonAsync blocks, the rest is the synchronous set; stop() of the
    asynchronous set (errors suppressed), the yield, the stop_async tasks awaited by `_run_tasks`,
    then stop() of the rest (errors suppressed) – same trace, same timer state, same duration, for
    every order `en` in which the sets are iterated -/
theorem translated_lifecycle_stop_sblocks_is_model (bs : List Blk) (failed inited started timers0 : List Nat)
    (en : List Nat → List Nat) (hen : ∀ l, (en l).Perm l) :
    TrL.stopSblocks (sbPrims bs failed inited en (en (setA bs started))) started
        ⟨[], { timers := timers0, stopped := [], started := started }, 0⟩ =
      (⟨(Lifecycle.stopSblocks bs failed inited started timers0 (en (setA bs started)) (en (setS bs started))).trace,
        (Lifecycle.stopSblocks bs failed inited started timers0 (en (setA bs started)) (en (setS bs started))).st,
        (Lifecycle.stopSblocks bs failed inited started timers0 (en (setA bs started)) (en (setS bs started))).dur⟩,
       .next ()) :=
  stopSblocks_spec bs failed inited started timers0 en hen

/-- `_init_sblocks_async` hands exactly the model's `initJobs` (uninitialised AddonAsync blocks with
    init_async and init_timeout > 0, in creation order) to `_run_tasks`, and nothing when there is none -/
theorem translated_lifecycle_init_async_is_model (bs : List Blk) :
    TrL.initSblocksAsync (iaPrims bs) {} =
      (⟨if (initJobs bs).isEmpty then none else some (initJobs bs)⟩, .next ()) :=
  initSblocksAsync_spec bs

/-
Full statement: the same without `c.blocks.isEmpty = false`.  The model has no "The circuit is
empty" error (the harness never builds an empty circuit); `translated_lifecycle_empty_circuit_fails`
below says what the translated program does then.
-/
/-- `run_forever` IS the model's `runForever`: with the try block left where the model's plan says
    (start() failure, request at the yield after the start loop, cancellation during the async
    initialisation, initialisation error, evaluation error, termination of the running circuit –
    also by a control event inside the simulation task followed by an exception, which leaves a
    cancellation pending), the translated skeleton collects `started_blocks`, sets `start_ok`, records
    the first error, swallows the pending cancellation, saves the states iff `start_ok`, stops exactly
    `started_blocks` and raises the recorded error: same events, started set, `start_ok`, error,
    storage, pending timers and end time as the model -/
theorem translated_lifecycle_run_forever_is_model_partial (c : Cfg) (r : Result) (h : runForever c = some r)
    (hne : c.blocks.isEmpty = false) :
    ∃ s' e, TrL.runForever (rfPrims c) (rfInit c) = (s', .raise e) ∧ r.error = some e ∧ s'.error = some e ∧
      s'.trace = r.trace ∧ s'.started = r.started ∧ s'.startOk = r.startOk ∧ s'.storage = r.storage ∧
      s'.timers = r.timers ∧ s'.endTime = r.endTime ∧ s'.pending = false :=
  runForever_spec c r h hne

/-- an empty circuit: nothing is started, the error is recorded and raised -/
theorem translated_lifecycle_empty_circuit_fails (c : Cfg) (hb : c.cause.before = false)
    (he : c.blocks.isEmpty = true) :
    ∃ s', TrL.runForever (rfPrims c) (rfInit c) = (s', .raise .failure) ∧ s'.error = some .failure ∧
      s'.started = [] ∧ s'.trace = [] := by
  unfold TrL.runForever
  simp [rfInit, hb, he, bind_apply, get_apply, pure_apply, raise_apply, tryExcept_apply]

/-- a second `run_forever()` is refused before anything else happens (the model's `restart`) -/
theorem translated_lifecycle_restart_refused (c : Cfg) (s : RfState) (hs : s.simtask = true) :
    TrL.runForever (rfPrims c) s = (s, .raise .failure) := by
  unfold TrL.runForever
  simp [hs, bind_apply, get_apply, pure_apply, raise_apply]

/-- audit (exceptions): the set-up calls inside the `try:` – `asyncio.Queue()`, `asyncio.Event()`,
    `_check_persistent_data()`, `_resolver.resolve()`, `finalize()` – can raise in reality; wherever one
    fails, the translated skeleton records the failure as the error of the simulation (with
    `_simtask` set, nothing started, nothing stopped, the storage untouched) and raises it.  Moving
    one of these calls out of the `try:` breaks this theorem. -/
theorem translated_lifecycle_prestart_failure_recorded (c : Cfg) (f : RfFault) (hb : c.cause.before = false)
    (hne : c.blocks.isEmpty = false)
    (hf : f = .newQueue ∨ f = .newInitDone ∨ f = .checkPersistentData ∨ f = .resolve ∨ f = .finalize) :
    ∃ s', TrL.runForever (rfPrimsF c f) (rfInit c) = (s', .raise .failure) ∧ s'.error = some .failure ∧
      s'.simtask = true ∧ s'.started = [] ∧ s'.trace = [] ∧ s'.storage = storage0 c.blocks ∧ s'.startOk = false :=
  prestart_failure_spec c f hb hne hf

/-- audit: `await _test_eager_tasks()` is before the `try:` and before `_simtask` is set – its
    failure escapes and leaves the circuit untouched (it can be started again) -/
theorem translated_lifecycle_eager_failure_escapes (c : Cfg) (s : RfState) (hs : s.simtask = false) :
    TrL.runForever (rfPrimsF c .testEager) s = (s, .raise .failure) :=
  eager_failure_spec c s hs

/-- the save section of run_forever (repaired: inside `try … except Exception: <log>`): the main tie
    theorem above holds for every behaviour of the storage at the stop (`c.storageFault`): a failing
    `save_persistent_state()` ends the loop, a failing write of the stop time is logged, and in
    every case the clean-up proceeds – the translated program's trace is the model's, which does not
    depend on the storage (`storage_fault_irrelevant`).  Spelled out for the trace: -/
theorem translated_lifecycle_storage_fault_does_not_skip_stop (c : Cfg) (r : Result)
    (h : runForever c = some r) (hne : c.blocks.isEmpty = false) (f : SFault) :
    ∃ s' e, TrL.runForever (rfPrims { c with storageFault := f }) (rfInit { c with storageFault := f }) =
        (s', .raise e) ∧ r.error = some e ∧ s'.trace = r.trace ∧ s'.started = r.started ∧ s'.timers = r.timers := by
  obtain ⟨r', hr', hrr⟩ := storage_fault_irrelevant c r h f
  obtain ⟨s', e, h1, h2, _, h4, h5, _, _, h8, _, _⟩ :=
    runForever_spec { c with storageFault := f } r' hr' hne
  rw [hrr] at h2 h4 h5 h8
  exact ⟨s', e, h1, h2, h4, h5, h8⟩

end Edzed.TrTie

