import EdzedModel.Lifecycle
import EdzedProofs.Lifecycle

namespace Edzed.Lifecycle

theorem placeholder_partial : True := trivial

end Edzed.Lifecycle
