/-
C02 — output events reproduce the source block's output history exactly.

Model: EdzedModel/Output.lean (`setOutput` = SBlock.set_output, `evalBlock` = CBlock.eval_block,
`Ev.send` = Event.send with its filter pipeline, `run` = a whole history of assignments).
All statements are for every block kind `k`, every configuration `c` (any number of on_output /
on_every_output events with any filters), every initial output and EVERY list of assigned values
(any length; UNDEF, which the code refuses, included).  An "event" below is one `Event.send` call
(`Sent`); what the destination handler gets is `Sent.result`.

Outside the model (hypothesis of the whole file): a destination that makes the sender assign
again while the sender is still delivering (re-entrancy), destinations that raise.
-/
import EdzedModel.Output
import EdzedProofs.Output
import EdzedModel.Gen.TranslatedOutput
import EdzedModel.EventTuple
import EdzedModel.Gen.TranslatedEvTuple
import EdzedProps.C18

namespace Edzed.Output

/-! ### the output history -/

/-- the records of `run` ARE the output history: record `j` is the `j`-th assignment, it starts
    with the output the previous one left (the first with the initial output), and it leaves the
    assigned value — or, when the value is refused (UNDEF) or compares equal, the very object
    that was stored before (`1` then `True` leaves `1`) -/
theorem run_is_output_history (k : BKind) (c : Cfg) (out : Val) (vs : List Val) :
    (run k c out vs).map (·.value) = vs ∧
    (∀ h0 : 0 < (run k c out vs).length, (run k c out vs)[0].before = out) ∧
    (∀ j (hj : j + 1 < (run k c out vs).length),
      (run k c out vs)[j + 1].before = (run k c out vs)[j].after) ∧
    ∀ r ∈ run k c out vs,
      r.after = if r.value.isUndef || pyEqN r.before r.value then r.before else r.value := by
  refine ⟨run_values k c out vs, run_head_before k c out vs, run_linked k c out vs, fun r hr => ?_⟩
  rw [mem_run k c out vs r hr]
  exact after_eq k c _ _

/-- UNDEF is refused and changes nothing -/
theorem undef_refused (k : BKind) (c : Cfg) (out : Val) :
    assign k c out .undef = .valueError ∧ (Rec.mk out .undef (assign k c out .undef)).after = out ∧
    (Rec.mk out .undef (assign k c out .undef)).sends = [] := by
  simp [assign_undef k c out .undef rfl, Rec.after, Rec.sends]

/-! ### on_output -/

/-- for every configured on_output event the sends are exactly the successive changes of the
    output — the assignments whose output before and after compare unequal —, in order, each
    carrying previous = the output before and value = the output after the change -/
theorem on_output_is_change_history (k : BKind) (c : Cfg) (out : Val) (vs : List Val) (i : Nat)
    (hi : i < c.onOutput.length) :
    (sendsOf .output i (run k c out vs)).map (fun s => (s.previous, s.value)) =
      ((run k c out vs).filter Rec.isChange).map
        fun r => (some r.before, some r.after) := by
  have h1 := sendsOf_output_changes k c out vs i hi
  have h2 := run_changes k c out vs
  have e : (fun s : Sent => (s.previous, s.value)) = Sent.pv := rfl
  rw [e, h1, ← h2, List.map_map]
  rfl

/-- an on_output event without filters: the destination handler is called exactly once per
    change, in order, with exactly `{trigger: 'output', previous: before, value: after,
    source: name}` -/
theorem on_output_deliveries_without_filters (k : BKind) (c : Cfg) (out : Val) (vs : List Val) (i : Nat)
    (hi : i < c.onOutput.length) (hf : c.onOutput[i].filters = []) :
    (sendsOf .output i (run k c out vs)).map (·.result) =
      ((run k c out vs).filter Rec.isChange).map
        fun r => some (rawData c.name r.before r.after) := by
  rw [sendsOf_output_results k c out vs i hi hf, ← run_changes k c out vs, List.map_map]
  rfl

/-- `previous` of a send is the very `value` of the send before (same object, not merely equal);
    the first one carries the initial output -/
theorem chaining (k : BKind) (c : Cfg) (out : Val) (vs : List Val) (i : Nat)
    (hi : i < c.onOutput.length) :
    (∀ h0 : 0 < (sendsOf .output i (run k c out vs)).length,
      (sendsOf .output i (run k c out vs))[0].previous = some out) ∧
    ∀ j (hj : j + 1 < (sendsOf .output i (run k c out vs)).length),
      (sendsOf .output i (run k c out vs))[j + 1].previous
        = (sendsOf .output i (run k c out vs))[j].value := by
  have hm := sendsOf_output_changes k c out vs i hi
  have hl : (sendsOf .output i (run k c out vs)).length = (changes out vs).length := by
    simpa using congrArg List.length hm
  have key : ∀ j (hj : j < (sendsOf .output i (run k c out vs)).length),
      (sendsOf .output i (run k c out vs))[j].pv
        = (some ((changes out vs)[j]'(hl ▸ hj)).1, some ((changes out vs)[j]'(hl ▸ hj)).2) := by
    intro j hj
    have := List.getElem_of_eq hm (i := j) (by simpa using hj)
    simpa using this
  have lk := linked_index out _ (changes_linked out vs)
  refine ⟨fun h0 => ?_, fun j hj => ?_⟩
  · have := congrArg Prod.fst (key 0 h0)
    simp only [Sent.pv] at this
    rw [this, lk.1 (hl ▸ h0)]
  · have a := congrArg Prod.fst (key (j + 1) hj)
    have b := congrArg Prod.snd (key j (by omega))
    simp only [Sent.pv] at a b
    rw [a, b, lk.2 j (hl ▸ hj)]

/-- on a block that starts uninitialised the first output event carries previous = UNDEF -/
theorem first_previous_is_undef (k : BKind) (c : Cfg) (vs : List Val) (i : Nat)
    (hi : i < c.onOutput.length) (h0 : 0 < (sendsOf .output i (run k c .undef vs)).length) :
    (sendsOf .output i (run k c .undef vs))[0].previous = some .undef :=
  (chaining k c .undef vs i hi).1 h0

/-! ### on_every_output -/

/-- a sequential block sends every configured on_every_output event exactly once for every
    (accepted) assignment, changed or not, with previous = the output before and value = the
    assigned value -/
theorem every_output_one_per_assignment (c : Cfg) (out : Val) (vs : List Val) (i : Nat)
    (hi : i < c.onEvery.length) :
    (sendsOf .every i (run .sblock c out vs)).map (fun s => (s.previous, s.value)) =
      ((run .sblock c out vs).filter fun r => !r.value.isUndef).map
        fun r => (some r.before, some r.value) :=
  sendsOf_every_all .sblock c out vs i hi

/-- a combinational block has no on_every_output events, whatever the configuration record says -/
theorem cblock_sends_on_change_only (c : Cfg) (out : Val) (vs : List Val) :
    ∀ r ∈ run .cblock c out vs, ∀ s ∈ r.sends, s.slot = .output := by
  intro r hr s hs
  rw [mem_run _ c out vs r hr] at hs
  rcases (mem_sends _ c _ _ s hs).2.2.2.2 with h | h
  · exact h.1
  · simp [everyEvs] at h

/-- an accepted FSM transition (InputExp, Timer, any FSM) is exactly ONE output assignment with
    the value `calc_output()` gives for the new state — also when that value equals the current
    output: every configured on_every_output event is then sent exactly once, with previous =
    the output before and value = the computed one; only UNDEF leaves the output alone -/
theorem fsm_transition_is_one_assignment (c : Cfg) (out cv : Val) :
    (cv.isUndef = true → fsmTransition c out cv = none) ∧
    (cv.isUndef = false →
      fsmTransition c out cv = some (assign .sblock c out cv) ∧
      ∀ i (hi : i < c.onEvery.length),
        ((Rec.mk out cv (assign .sblock c out cv)).sends.filter
            (fun s => s.slot == .every && s.idx == i)).map (fun s => (s.ev, s.previous, s.value))
          = [(c.onEvery[i], some out, some cv)]) := by
  refine ⟨fun h => by simp [fsmTransition, h], fun h => ⟨by simp [fsmTransition, h, assign], fun i hi => ?_⟩⟩
  have := rec_sends_every .sblock c out cv i hi
  rw [this]
  have hp := send_pv c.onEvery[i] .every i c.name out cv
    (Rec.mk out cv (assign .sblock c out cv)).after
  simp only [Sent.pv, Prod.mk.injEq] at hp
  simp only [h, everyEvs, Bool.false_eq_true, if_false, List.map_cons, List.map_nil, hp.1, hp.2]
  rfl

/-! ### order -/

/-- within one assignment of a sequential block: if (and only if) the output changed, every
    configured on_output event once, in the configured order; then every configured
    on_every_output event once, in the configured order -/
theorem configured_order (c : Cfg) (out : Val) (vs : List Val) :
    ∀ r ∈ run .sblock c out vs, ∀ st, r.res = .ok st →
      st.sends.map (fun x => (x.slot, x.ev)) =
        (if pyEqN r.before r.after then [] else c.onOutput.map fun e => (Slot.output, e))
        ++ c.onEvery.map fun e => (Slot.every, e) := by
  intro r hr st hst
  have hm := mem_run _ c out vs r hr
  have ha : assign .sblock c r.before r.value = .ok st := by rw [hm] at hst; exact hst
  have hf := step_flags _ c _ _ st ha
  have ho := sends_order _ c _ _ st ha
  have haft : r.after = st.out := by simp [Rec.after, hst]
  rw [ho, haft, hf.2.2.2, hf.2.1]
  cases e : pyEqN r.before r.value with
  | false => simp [everyEvs, e]
  | true => simp [everyEvs, e, pyEqN_self e]

/-- the same for a combinational block: on a change every on_output event once, in order -/
theorem configured_order_cblock (c : Cfg) (out : Val) (vs : List Val) :
    ∀ r ∈ run .cblock c out vs, ∀ st, r.res = .ok st →
      st.sends.map (fun x => (x.slot, x.ev)) =
        if pyEqN r.before r.after then [] else c.onOutput.map fun e => (Slot.output, e) := by
  intro r hr st hst
  have hm := mem_run _ c out vs r hr
  have ha : assign .cblock c r.before r.value = .ok st := by rw [hm] at hst; exact hst
  have hf := step_flags _ c _ _ st ha
  have ho := sends_order _ c _ _ st ha
  have haft : r.after = st.out := by simp [Rec.after, hst]
  rw [ho, haft, hf.2.2.2, hf.2.1]
  cases e : pyEqN r.before r.value with
  | false => simp [everyEvs, e]
  | true => simp [everyEvs, e, pyEqN_self e]

/-- on_output before on_every_output: the slots of the sends of one assignment are a block of
    `output` followed by a block of `every` -/
theorem order_on_before_every (k : BKind) (c : Cfg) (out : Val) (vs : List Val) :
    ∀ r ∈ run k c out vs, ∃ n m,
      r.sends.map (·.slot) = List.replicate n Slot.output ++ List.replicate m Slot.every := by
  intro r hr
  have hm := mem_run _ c out vs r hr
  cases hres : r.res with
  | valueError => exact ⟨0, 0, by simp [Rec.sends, hres]⟩
  | ok st =>
    have ha : assign k c r.before r.value = .ok st := by rw [hm] at hres; exact hres
    have ho := congrArg (List.map Prod.fst) (sends_order _ c _ _ st ha)
    refine ⟨if st.changed then c.onOutput.length else 0, (everyEvs k c).length, ?_⟩
    simp only [Rec.sends, hres]
    simp only [List.map_map, List.map_append] at ho
    have e1 : (Prod.fst ∘ fun (x : Sent) => (x.slot, x.ev)) = fun x => x.slot := rfl
    rw [e1] at ho
    rw [ho]
    cases st.changed <;> simp [Function.comp_def, List.map_const']

/-! ### the data of an event, synchrony -/

/-- every output event leaves the sender with exactly the four items previous = the output
    before the assignment, value = the assigned value, source = the sender's name,
    trigger = 'output'; `idx`/`ev` name the configured event it was sent for; an on_output
    event is sent only for a real change -/
theorem source_and_trigger (k : BKind) (c : Cfg) (out : Val) (vs : List Val) :
    ∀ r ∈ run k c out vs, ∀ s ∈ r.sends,
      s.raw.map (·.1) = ["trigger", "previous", "value", "source"] ∧
      s.source = some (.str c.name) ∧ s.trigger = some (.str "output") ∧
      s.previous = some r.before ∧ s.value = some r.value ∧
      ((s.slot = .output ∧ c.onOutput[s.idx]? = some s.ev ∧ pyEqN r.before r.value = false) ∨
       (s.slot = .every ∧ k = .sblock ∧ c.onEvery[s.idx]? = some s.ev)) := by
  intro r hr s hs
  rw [mem_run _ c out vs r hr] at hs
  obtain ⟨_, h2, _, _, h5⟩ := mem_sends _ c _ _ s hs
  have g := rawData_get c.name r.before r.value
  refine ⟨by simp [h2, rawData], by simp [Sent.source, h2, g.2.2.1], by simp [Sent.trigger, h2, g.2.2.2],
    by simp [Sent.previous, h2, g.1], by simp [Sent.value, h2, g.2.1], ?_⟩
  rcases h5 with h | h
  · exact .inl h
  · cases k
    · exact .inr ⟨h.1, rfl, h.2⟩
    · simp [everyEvs] at h

/-- the output is stored before anything is sent: while an event is being delivered the sender
    already shows the output it has when the assignment returns (delivery itself is synchronous
    by construction: the sends are part of the assignment's result) -/
theorem delivery_sees_new_output (k : BKind) (c : Cfg) (out : Val) (vs : List Val) :
    ∀ r ∈ run k c out vs, ∀ s ∈ r.sends, s.visible = r.after := by
  intro r hr s hs
  have hm := mem_run _ c out vs r hr
  rw [hm] at hs
  have := (mem_sends _ c _ _ s hs).2.2.1
  rw [← hm] at this
  exact this

/-- the sender is put into the simulator's queue (SBlock), resp. `eval_block` returns True
    (CBlock), exactly when the output changed; the queueing comes before all sends -/
theorem enqueue_iff_changed (k : BKind) (c : Cfg) (out : Val) (vs : List Val) :
    ∀ r ∈ run k c out vs, ∀ st, r.res = .ok st →
      (st.changed = true ↔ pyEqN r.before r.after = false) ∧
      (st.enq = true ↔ k = .sblock ∧ pyEqN r.before r.after = false) ∧
      (st.changed = false → r.after = r.before) ∧
      (st.enq = true → st.acts.head? = some .enqueue) := by
  intro r hr st hst
  have hm := mem_run _ c out vs r hr
  have ha : assign k c r.before r.value = .ok st := by rw [hm] at hst; exact hst
  have hf := step_flags _ c _ _ st ha
  have haft : r.after = st.out := by simp [Rec.after, hst]
  have h4 : st.enq = true → st.acts.head? = some .enqueue := fun h => by simp [Step.acts, h]
  refine ⟨?_, ?_, ?_, h4⟩ <;> rw [haft, hf.2.2.2] <;> (try rw [hf.2.2.1]) <;> rw [hf.2.1] <;>
    (cases e : pyEqN r.before r.value with
     | false => simp [e]
     | true => simp [e, pyEqN_self e])

/-! ### filters -/

/-- the destination handler is called iff no filter rejected, and then with exactly the data
    that left the filter pipeline (`dest.event(etype, **data)`) -/
theorem handler_receives_filter_output (k : BKind) (c : Cfg) (out : Val) (vs : List Val) :
    ∀ r ∈ run k c out vs, ∀ s ∈ r.sends,
      s.result = runFilters s.ev.filters s.raw ∧
      (∀ d, s.result = some d →
        s.acts.getLast? = some (.deliver s.slot s.idx s.ev.dest s.ev.etype d s.visible)) ∧
      (s.result = none → ∀ a ∈ s.acts, ∃ j inp, a = .filt s.slot s.idx j inp) := by
  intro r hr s hs
  rw [mem_run _ c out vs r hr] at hs
  refine ⟨(mem_sends _ c _ _ s hs).2.2.2.1, fun d hd => by simp [Sent.acts, hd], fun hn a ha => ?_⟩
  simp only [Sent.acts, hn, List.append_nil, List.mem_mapIdx] at ha
  obtain ⟨j, hj, rfl⟩ := ha
  exact ⟨j, _, rfl⟩

/-- an event without filters delivers the data as sent -/
theorem no_filters_delivers_sent_data (d : Data) : runFilters [] d = some d := rfl

/-- filters work as a pipeline: each gets what the one before left, a rejection ends it;
    the first one gets the data as sent -/
theorem filters_are_a_pipeline (fs gs : List Filt) (d : Data) :
    runFilters (fs ++ gs) d = (runFilters fs d).bind (runFilters gs) ∧
    (fs ≠ [] → (filterCalls fs d).head? = some d) :=
  ⟨runFilters_append fs gs d, filterCalls_head fs d⟩

/-- a filter that returns a mapping (or edits in place and returns a true value) never rejects:
    the mapping — WHATEVER ITS SIZE, the empty one included — is the data the rest of the
    pipeline and finally the handler get (docs: "the returned dict becomes the new event data") -/
theorem mapping_result_replaces_data (f : Filt) (hf : f.returnsMapping = true) (d : Data) :
    ∃ m, f.apply d = some m ∧ (∀ fs, runFilters (f :: fs) d = runFilters fs m) ∧
      runFilters [f] d = some m := by
  cases f with
  | set k v => exact ⟨_, rfl, fun _ => rfl, rfl⟩
  | del k => exact ⟨_, rfl, fun _ => rfl, rfl⟩
  | clear => exact ⟨_, rfl, fun _ => rfl, rfl⟩
  | replace m => exact ⟨_, rfl, fun _ => rfl, rfl⟩
  | copy a b =>
    cases h : d.get? a with
    | none => exact ⟨d, by simp [Filt.apply, h], fun fs => by simp [runFilters, Filt.apply, h],
        by simp [runFilters, Filt.apply, h]⟩
    | some v => exact ⟨d.set b v, by simp [Filt.apply, h], fun fs => by simp [runFilters, Filt.apply, h],
        by simp [runFilters, Filt.apply, h]⟩
  | accept => simp [Filt.returnsMapping] at hf
  | reject => simp [Filt.returnsMapping] at hf
  | ifTruthy k => simp [Filt.returnsMapping] at hf
  | ifDefined k => simp [Filt.returnsMapping] at hf

/-- in particular the EMPTY mapping: `d.clear(); return d`, `return {}` or a replacement by `{}`
    at the end of a pipeline that got that far delivers the event with empty data, for every
    send of every history: the handler IS called (last act of the send) and gets `{}`/`m` -/
theorem empty_mapping_reaches_handler (k : BKind) (c : Cfg) (out : Val) (vs : List Val) :
    ∀ r ∈ run k c out vs, ∀ s ∈ r.sends, ∀ fs, (runFilters fs s.raw).isSome →
      (s.ev.filters = fs ++ [.clear] →
        s.result = some [] ∧
        s.acts.getLast? = some (.deliver s.slot s.idx s.ev.dest s.ev.etype [] s.visible)) ∧
      (∀ m, s.ev.filters = fs ++ [.replace m] →
        s.result = some m ∧
        s.acts.getLast? = some (.deliver s.slot s.idx s.ev.dest s.ev.etype m s.visible)) := by
  intro r hr s hs fs hfs
  rw [mem_run _ c out vs r hr] at hs
  have hres := (mem_sends _ c _ _ s hs).2.2.2.1
  obtain ⟨d', hd'⟩ := Option.isSome_iff_exists.1 hfs
  refine ⟨fun hf => ?_, fun m hf => ?_⟩
  · have : s.result = some [] := by
      rw [hres, hf, runFilters_append, hd']; rfl
    exact ⟨this, by simp [Sent.acts, this]⟩
  · have : s.result = some m := by
      rw [hres, hf, runFilters_append, hd']; rfl
    exact ⟨this, by simp [Sent.acts, this]⟩

/-- non-vacuity of the two statements above: a block whose only on_output event clears the data -/
example :
    ((sendsOf .output 0 (run .cblock { name := "f", onOutput := [⟨"p0", "o0", [.del "value", .clear]⟩] }
        .undef [Val.int 1, Val.int 1, Val.none])).map (·.result)) = [some [], some []] := by
  decide +kernel

/-! ### non-vacuity: a concrete history with equal-but-not-identical values -/

/-- `1, True, 1.0, 0, None` on a block with two on_output and one on_every_output event:
    two changes (UNDEF → 1, 1 → 0 … the stored 1 survives True and 1.0), five every-events -/
example :
    let c : Cfg := { name := "s", onOutput := [⟨"p0", "o0", []⟩, ⟨"p1", "o1", [.ifDefined "previous"]⟩],
                     onEvery := [⟨"p2", "e0", []⟩] }
    let vs := [Val.int 1, Val.bool true, Val.flt 1, Val.int 0, Val.none]
    (sendsOf .output 0 (run .sblock c .undef vs)).map (fun s => (s.previous, s.value)) =
      [(some .undef, some (Val.int 1)), (some (Val.int 1), some (Val.int 0)),
       (some (Val.int 0), some Val.none)] ∧
    (sendsOf .every 0 (run .sblock c .undef vs)).length = 5 ∧
    ((sendsOf .output 1 (run .sblock c .undef vs)).map (·.result.isSome)) = [false, true, true] := by
  decide +kernel

/-- no item name is reserved: whatever key a filter puts into the event data — also `etype`, `self`,
    `data`, `source`, the parameter names of the `event` / `send` methods on the delivery path — the
    destination handler is called and finds exactly that item, the other items as the rest of the
    pipeline left them: the data mapping reaches the handler unchanged for EVERY key set.
    (The model's destination takes the data as ONE mapping, like the generic `_event(etype, data)`; a
    specialised `_event_ETYPE(self, *, …, **_data)` handler is called as `handler(self, **data)` and can
    therefore not receive an item called `self` — Python refuses the call with a TypeError, a parameter
    error in the sense of C09/C11/C14; recorded in DESIGN.md 9.3, observations of round eight.) -/
theorem handler_receives_every_key (k : BKind) (c : Cfg) (out : Val) (vs : List Val) :
    ∀ r ∈ run k c out vs, ∀ s ∈ r.sends, ∀ (fs : List Filt) (key : String) (v : Val) (d' : Data),
      s.ev.filters = fs ++ [.set key v] → runFilters fs s.raw = some d' →
      ∃ d, s.result = some d ∧ d.get? key = some v ∧ (∀ k', k' ≠ key → d.get? k' = d'.get? k') ∧
        s.acts.getLast? = some (.deliver s.slot s.idx s.ev.dest s.ev.etype d s.visible) := by
  intro r hr s hs fs key v d' hf hd'
  rw [mem_run _ c out vs r hr] at hs
  have hres := (mem_sends _ c _ _ s hs).2.2.2.1
  have : s.result = some (d'.set key v) := by
    rw [hres, hf, runFilters_append, hd']; rfl
  exact ⟨_, this, get?_set_self d' key v, fun k' hk => get?_set_other d' key k' v hk, by simp [Sent.acts, this]⟩

/-- non-vacuity: a filter pipeline ending with `d['etype'] = 'x'` on a real history -/
example :
    ((sendsOf .output 0 (run .sblock { name := "s", onOutput := [⟨"p2", "o0", [.del "trigger", .set "etype" (Val.str "x")]⟩] }
        .undef [Val.int 1])).map (fun s => (s.result.bind (·.get? "etype"), s.result.bind (·.get? "value")))) =
      [(some (Val.str "x"), some (Val.int 1))] := by
  decide +kernel

/-! ### float NaN: the value that is not equal to itself -/

/-- NaN compares unequal to everything, itself included (`previous == value` is False even when
    both are the very same object) -/
theorem nan_is_never_equal (x : Val) : pyEqN nanVal x = false ∧ pyEqN x nanVal = false :=
  ⟨pyEqN_nan_left x, pyEqN_nan_right x⟩

/-- assigning NaN is ALWAYS a change — in particular NaN after NaN: the value is stored, a
    sequential block is queued / `eval_block` returns True, every on_output event is sent exactly
    once with previous = the output before (NaN after NaN: previous = NaN, value = NaN), then the
    on_every_output events; for both block kinds -/
theorem nan_after_nan_is_a_change (k : BKind) (c : Cfg) (out : Val) :
    assign k c out nanVal =
      .ok { out := nanVal, changed := true, enq := decide (k = .sblock),
            sends := sendAll .output c.name c.onOutput out nanVal nanVal
                     ++ sendAll .every c.name (everyEvs k c) out nanVal nanVal } ∧
    ∀ i (hi : i < c.onOutput.length),
      ((Rec.mk out nanVal (assign k c out nanVal)).sends.filter
          (fun s => s.slot == .output && s.idx == i)).map (fun s => (s.ev, s.previous, s.value))
        = [(c.onOutput[i], some out, some nanVal)] := by
  have hu : nanVal.isUndef = false := rfl
  refine ⟨assign_changed k c out nanVal hu (pyEqN_nan_right out), fun i hi => ?_⟩
  rw [rec_sends_output k c out nanVal i hi]
  have hp := send_pv c.onOutput[i] .output i c.name out nanVal nanVal
  simp only [Sent.pv, Prod.mk.injEq] at hp
  simp only [hu, pyEqN_nan_right, Bool.or_self, Bool.false_eq_true, if_false, List.map_cons, List.map_nil,
    hp.1, hp.2]
  rfl

/-- whole histories: NaN assigned `n` times in a row (the same object or not) gives `n` sends of
    every configured on_output event -/
theorem repeated_nan_history (k : BKind) (c : Cfg) (out : Val) (n : Nat) (i : Nat)
    (hi : i < c.onOutput.length) :
    (sendsOf .output i (run k c out (List.replicate n nanVal))).length = n := by
  have := congrArg List.length (sendsOf_output_changes k c out (List.replicate n nanVal) i hi)
  simpa [changes_replicate_nan] using this

/-- on values without NaN the model is exactly the pair of functions that the translation of
    `set_output` / `eval_block` is proved equal to (`TrTie.translated_*_is_model` below) -/
theorem assign_is_translated_code_without_nan (c : Cfg) (out v : Val)
    (ho : isNan out = false) (hv : isNan v = false) :
    assign .sblock c out v = setOutput c out v ∧ assign .cblock c out v = evalBlock c out v := by
  simp [assign, setOutput, evalBlock, setOutputWith, evalBlockWith, pyEqN_eq_pyEq ho hv]

/-! ### the first output of a run -/

/-- whatever makes the first assignment of a run (initdef, an init event, restored persistent
    state, the first evaluation of a CBlock): it is an assignment to a block whose output is UNDEF,
    hence a change — every on_output event (and for a sequential block every on_every_output
    event) is sent first of all with previous = UNDEF and value = the first output -/
theorem first_output_announced (k : BKind) (c : Cfg) (v : Val) (vs : List Val) (hv : v.isUndef = false) :
    (∀ i, i < c.onOutput.length →
      (sendsOf .output i (run k c .undef (v :: vs))).head?.map (fun s => (s.previous, s.value))
        = some (some .undef, some v)) ∧
    (∀ i, i < (everyEvs k c).length →
      (sendsOf .every i (run k c .undef (v :: vs))).head?.map (fun s => (s.previous, s.value))
        = some (some .undef, some v)) ∧
    (run k c .undef (v :: vs)).head?.map (fun r => (r.before, r.after)) = some (.undef, v) := by
  refine ⟨fun i hi => ?_, fun i hi => ?_, ?_⟩
  · have h := sendsOf_output_changes k c .undef (v :: vs) i hi
    rw [changes_from_undef v vs hv] at h
    have e : (fun s : Sent => (s.previous, s.value)) = Sent.pv := rfl
    rw [e, ← List.head?_map, h]; rfl
  · have h := sendsOf_every_all k c .undef (v :: vs) i hi
    have e : (fun s : Sent => (s.previous, s.value)) = Sent.pv := rfl
    rw [e, ← List.head?_map, h, run_cons]
    simp [hv]
  · rw [run_cons]
    simp [after_eq, hv, pyEqN_undef_left hv]

/-- non-vacuity: NaN, NaN, 1, NaN on a block with one on_output event — four changes -/
example :
    ((sendsOf .output 0 (run .sblock { name := "s", onOutput := [⟨"p0", "o0", []⟩] } .undef
        [nanVal, nanVal, Val.int 1, nanVal])).map (fun s => (s.previous, s.value))) =
      [(some .undef, some nanVal), (some nanVal, some nanVal), (some nanVal, some (Val.int 1)),
       (some (Val.int 1), some nanVal)] := by
  decide +kernel

end Edzed.Output

/-! ### the translation tie: the action order of `set_output` / `eval_block` -/
namespace Edzed.TrTie
open Edzed.Output Edzed.Gen.TrO

def eventsOf (c : Cfg) : Slot → List Ev
  | .output => c.onOutput
  | .every => c.onEvery

/-- what a list of primitive actions does to a block with configuration `c`: the stored output, "was
    assigned", "was queued", and the `Event.send` calls made so far (each sees the output stored at that
    moment).  A `raise` ends the call with nothing done: `raise_only_first` shows that it is never
    preceded by another action. -/
def runPrims (c : Cfg) : Val → Bool → Bool → List Sent → List Prim → Res
  | out, ch, enq, sends, [] => .ok ⟨out, ch, enq, sends⟩
  | _, _, _, _, .raise _ :: _ => .valueError
  | _, _, enq, sends, .store v :: r => runPrims c v true enq sends r
  | out, ch, _, sends, .enqueue :: r => runPrims c out ch true sends r
  | out, ch, enq, sends, .send slot p v :: r =>
    runPrims c out ch enq (sends ++ sendAll slot c.name (eventsOf c slot) p v out) r
  | out, ch, enq, sends, .ret _ :: _ => .ok ⟨out, ch, enq, sends⟩

/-- the model's `setOutput` IS the meaning of the actions of `SBlock.set_output`, translated from the source -/
theorem translated_set_output_is_model (c : Cfg) (out v : Val) :
    runPrims c out false false [] (setOutputActs out v c.onEvery) = setOutput c out v := by
  unfold setOutputActs setOutput setOutputWith
  cases hu : v.isUndef <;> cases he : out.pyEq v <;> cases h : c.onEvery.isEmpty <;>
    simp [hu, he, h, runPrims, eventsOf]

/-- the model's `evalBlock` IS the meaning of the actions of `CBlock.eval_block` -/
theorem translated_eval_block_is_model (c : Cfg) (out v : Val) :
    runPrims c out false false [] (evalBlockActs out v) = evalBlock c out v := by
  unfold evalBlockActs evalBlock evalBlockWith
  cases hu : v.isUndef <;> cases he : out.pyEq v <;> simp [hu, he, runPrims, eventsOf]

/-- `eval_block` returns the change indicator -/
theorem translated_eval_block_returns_changed (c : Cfg) (out v : Val) (s : Step)
    (h : evalBlock c out v = .ok s) :
    (evalBlockActs out v).getLast? = some (.ret (some s.changed)) := by
  unfold evalBlockActs
  unfold evalBlock evalBlockWith at h
  cases hu : v.isUndef <;> cases he : out.pyEq v <;> simp [hu, he] at h ⊢ <;> (subst h; rfl)

/-- an exception is raised only before anything was done -/
theorem raise_only_first (own v : Val) (every : List Ev) (e : String) :
    (.raise e ∈ setOutputActs own v every → setOutputActs own v every = [.raise e])
    ∧ (.raise e ∈ evalBlockActs own v → evalBlockActs own v = [.raise e]) := by
  unfold setOutputActs evalBlockActs
  constructor <;>
    (cases hu : v.isUndef <;> cases he : own.pyEq v <;> cases hy : every.isEmpty <;> simp [hu, he, hy] <;>
      exact fun h => h.symm)

/-- the new output is stored and the block is queued for the simulator BEFORE the first event is sent:
    an exception raised by a destination cannot leave the simulator unaware of a change -/
theorem store_and_enqueue_before_sending (own v : Val) (every : List Ev)
    (hu : v.isUndef = false) (hch : own.pyEq v = false) :
    ∃ rest, setOutputActs own v every = .store v :: .enqueue :: rest
      ∧ ∀ a ∈ rest, ∃ slot p w, a = .send slot p w := by
  unfold setOutputActs
  simp only [hu, hch, Bool.false_eq_true, ↓reduceIte]
  exact ⟨_, rfl, by simp⟩

/-! #### event_tuple / efilter_tuple (`tools/py2lean_evtuple.py`)

`Gen.TrET.eventTuple` / `efilterTuple` are translated from the current source; they call the translated
`_to_tuple` (`Gen.TrC.toTuple`), whose own tie is `translated_ctor_to_tuple_is_model` (EdzedProps/C18.lean). -/

section EvTuple
open Edzed.Gen.TrC Edzed.Gen.TrET Edzed.EventTuple

theorem translated_output_event_tuple_is_model {σ ι : Type} (hasSend : ι → Bool) (events : ArgsT ι) :
    (Gen.TrET.eventTuple hasSend events : M σ (List ι)) = ctorOfExcept (EventTuple.eventTuple hasSend events) := by
  have hv : (Gen.TrET.eventTupleValidator hasSend : ι → M σ Unit) =
      fun x => ctorOfExcept (if hasSend x then .ok () else .error "TypeError") := by
    funext x s
    cases h : hasSend x <;> simp [Gen.TrET.eventTupleValidator, h, ctorOfExcept, M.pure, raise]
  unfold Gen.TrET.eventTuple EventTuple.eventTuple
  rw [hv]
  exact translated_ctor_to_tuple_is_model events _

theorem translated_output_efilter_tuple_is_model {σ ι : Type} (isCallable : ι → Bool) (efilters : ArgsT ι) :
    (Gen.TrET.efilterTuple isCallable efilters : M σ (List ι)) =
      ctorOfExcept (EventTuple.efilterTuple isCallable efilters) := by
  have hv : (Gen.TrET.efilterTupleValidator isCallable : ι → M σ Unit) =
      fun x => ctorOfExcept (if isCallable x then .ok () else .error "TypeError") := by
    funext x s
    cases h : isCallable x <;> simp [Gen.TrET.efilterTupleValidator, h, ctorOfExcept, M.pure, raise]
  unfold Gen.TrET.efilterTuple EventTuple.efilterTuple
  rw [hv]
  exact translated_ctor_to_tuple_is_model efilters _

/-- what `_to_tuple` does to items that all pass the check -/
theorem toTuple_all_valid {ι : Type} (args : ArgsT ι) (v : ι → Except Exc Unit)
    (h : ∀ x ∈ args.items, v x = .ok ()) : RepeatCtor.toTuple args v = .ok args.items := by
  have hall : ∀ l : List ι, (∀ x ∈ l, v x = .ok ()) → RepeatCtor.validateAll v l = .ok () := by
    intro l
    induction l with
    | nil => intro _; rfl
    | cons x xs ih =>
      intro hl
      simp only [RepeatCtor.validateAll, hl x (by simp)]
      exact ih fun y hy => hl y (by simp [hy])
  cases args with
  | none => rfl
  | tuple l => simp [RepeatCtor.toTuple, hall _ h]
  | multiple l => simp [RepeatCtor.toTuple, hall _ h]
  | single x => simp [RepeatCtor.toTuple, hall _ h]

/-- **the normalised tuple has the same length and order as the argument sequence — every occurrence
    is kept**: whenever the translated `event_tuple` returns, the result IS the sequence of the items of
    its argument (an Event object listed twice or three times stays there twice or three times, nothing
    is reordered, dropped or merged) and the state is untouched; and it does return when every item is
    Event-like -/
theorem translated_output_event_tuple_keeps_every_occurrence {σ ι : Type} (hasSend : ι → Bool)
    (events : ArgsT ι) (s : σ) :
    (∀ l, ((Gen.TrET.eventTuple hasSend events : M σ (List ι)) s).1 = .ok l →
      l = events.items ∧ l.length = events.items.length) ∧
    ((∀ x ∈ events.items, hasSend x = true) →
      (Gen.TrET.eventTuple hasSend events : M σ (List ι)) s = (.ok events.items, s)) := by
  rw [translated_output_event_tuple_is_model]
  simp only [ctorOfExcept, EventTuple.eventTuple]
  constructor
  · intro l hl
    have : l = events.items := by
      cases events with
      | none => simp [RepeatCtor.toTuple] at hl; simp [ArgsT.items, hl]
      | tuple a =>
        simp only [RepeatCtor.toTuple] at hl
        split at hl <;> simp_all [ArgsT.items]
      | multiple a =>
        simp only [RepeatCtor.toTuple] at hl
        split at hl <;> simp_all [ArgsT.items]
      | single a =>
        simp only [RepeatCtor.toTuple] at hl
        split at hl <;> simp_all [ArgsT.items]
    exact ⟨this, by rw [this]⟩
  · intro h
    rw [toTuple_all_valid events _ (fun x hx => by simp [h x hx])]

/-- the same for the filters of an event -/
theorem translated_output_efilter_tuple_keeps_every_occurrence {σ ι : Type} (isCallable : ι → Bool)
    (efilters : ArgsT ι) (s : σ) (h : ∀ x ∈ efilters.items, isCallable x = true) :
    (Gen.TrET.efilterTuple isCallable efilters : M σ (List ι)) s = (.ok efilters.items, s) := by
  rw [translated_output_efilter_tuple_is_model]
  simp only [ctorOfExcept, EventTuple.efilterTuple]
  rw [toTuple_all_valid efilters _ (fun x hx => by simp [h x hx])]

/-- an item that is not Event-like is refused with TypeError -/
theorem translated_output_event_tuple_refuses_non_event {σ ι : Type} (hasSend : ι → Bool) (x : ι) (s : σ)
    (h : hasSend x = false) :
    (Gen.TrET.eventTuple hasSend (.single x) : M σ (List ι)) s = (.error "TypeError", s) := by
  rw [translated_output_event_tuple_is_model]
  simp [ctorOfExcept, EventTuple.eventTuple, RepeatCtor.toTuple, RepeatCtor.validateAll, ArgsT.items, h]

/-- non-vacuity: `[A, B, A]` (A listed twice) stays `[A, B, A]`; `None` gives the empty tuple -/
example : ((Gen.TrET.eventTuple (fun _ : String => true) (.multiple ["A", "B", "A"]) : M Unit _) ()).1
    = .ok ["A", "B", "A"] ∧
    ((Gen.TrET.eventTuple (fun _ : String => true) .none : M Unit _) ()).1 = .ok [] :=
  ⟨rfl, rfl⟩

end EvTuple

end Edzed.TrTie
