/-
C07 — TimeDate / TimeSpan outputs follow the wall clock.

Model: EdzedModel/Cron.lean.  The calendar predicates mirror `TimeDate.recalc` /
`TimeSpan.recalc`; the recalculation service of cron is a SPECIFICATION (`accepts`) that the
trace of every explored run of the real cron tasks is checked against by the correspondence –
cron's sleep loop is validated schedule by schedule, not verified.  What is proved here, for
every calendar (`CalMono`: later days have later dates), every configuration and every trace:

* the calendar predicate can only change at a boundary instant (the times of day a block
  registers with cron and midnight; the end points of a TimeSpan) – so the registered alarms suffice;
* in an accepted trace every observed output that is not within `lam` after a boundary equals
  the calendar predicate of the observation instant, also after clock jumps once `bound` has passed;
* the set of blocks recalculated on a reset is defined for every alarm table, the empty one included.
-/
import EdzedModel.Cron
import EdzedProofs.Cron
import EdzedModel.Gen.Constants

namespace Edzed.Cron

/-! ### the calendar predicate -/

/-- "False when nothing is configured" -/
theorem timedate_unconfigured (cal : Calendar) (now : Nat) :
    timedatePred cal ⟨none, none, none⟩ now = false := rfl

/-- "… or a given set is empty" (an empty argument is not the same as an absent one) -/
theorem timedate_empty_set (cal : Calendar) (c : TDCfg) (now : Nat)
    (h : c.times = some [] ∨ c.dates = some [] ∨ c.weekdays = some []) :
    timedatePred cal c now = false := by
  unfold timedatePred
  rcases h with h | h | h <;> simp [h, timesContain, datesContain]

/-- "True exactly when the current time of day, date and weekday all match" – an absent argument
    matches always, unless all three are absent -/
theorem timedate_true_iff (cal : Calendar) (c : TDCfg) (now : Nat) :
    timedatePred cal c now = true ↔
      (c.times.isSome ∨ c.dates.isSome ∨ c.weekdays.isSome) ∧
      (∀ iv, c.times = some iv → ∃ r ∈ iv, inOpen r.1 (todOf now) r.2 = true) ∧
      (∀ iv, c.dates = some iv →
        ∃ r ∈ iv, inClosed r.1 ((cal (dayOf now)).month, (cal (dayOf now)).day) r.2 = true) ∧
      (∀ w, c.weekdays = some w → (cal (dayOf now)).wday ∈ w) := by
  unfold timedatePred TDCfg.configured timesContain datesContain
  cases c.times <;> cases c.dates <;> cases c.weekdays <;> simp [List.any_eq_true, and_assoc]

/-- a time range is half-open and cyclic: `x` is inside iff, going forward from `lo`, `x` comes
    strictly before `hi` (equal end points: the whole day) -/
theorem time_range_cyclic (lo x hi : Nat) (hlo : lo < usPerDay) (hx : x < usPerDay) (hhi : hi < usPerDay) :
    inOpen lo x hi = true ↔
      (lo = hi ∨ (x + usPerDay - lo) % usPerDay < (hi + usPerDay - lo) % usPerDay) :=
  inOpen_cyclic usPerDay lo x hi hlo hx hhi

/-- a TimeSpan is True exactly inside one of its ranges `lo ≤ now < hi` (no wrapping) -/
theorem timespan_true_iff (cal : Calendar) (sp : Span) (now : Nat) :
    timespanPred cal sp now = true ↔
      ∃ r ∈ sp, r.1.Le (stampOf cal now) ∧ (stampOf cal now).Lt r.2 := by
  simp [timespanPred, inSpan, List.any_eq_true]

/-- the boundary instants of a TimeDate in `(a, b]` are exactly the instants whose time of day is
    registered with cron (`boundaries`: end points of `times`, and midnight) -/
theorem timedate_boundary_instants (cal : Calendar) (c : TDCfg) (a b : Nat) :
    boundaryIn cal (.timedate c) a b = true ↔ ∃ t, a < t ∧ t ≤ b ∧ todOf t ∈ boundaries c := by
  by_cases hab : a < b
  · constructor
    · intro h
      by_cases hd : dayOf a < dayOf b
      · refine ⟨(dayOf a + 1) * usPerDay, ?_, ?_, ?_⟩
        · unfold dayOf usPerDay at *; omega
        · unfold dayOf usPerDay at *; omega
        · have : todOf ((dayOf a + 1) * usPerDay) = 0 := by unfold todOf; exact Nat.mul_mod_left _ _
          rw [this]; exact zero_mem_boundaries c
      · unfold boundaryIn at h
        have hba : ¬ b ≤ a := by omega
        simp only [hba, ↓reduceIte, hd, List.any_eq_true, Bool.and_eq_true, decide_eq_true_eq] at h
        obtain ⟨e, he, h1, h2⟩ := h
        have hd' := dayOf_mono (Nat.le_of_lt hab)
        have hb := todOf_lt b
        refine ⟨dayOf a * usPerDay + e, ?_, ?_, ?_⟩
        · unfold dayOf todOf usPerDay at *; omega
        · unfold dayOf todOf usPerDay at *; omega
        · have : todOf (dayOf a * usPerDay + e) = e := by
            unfold dayOf todOf usPerDay at *; omega
          rw [this]; exact he
    · intro ⟨t, h1, h2, h3⟩
      cases hf : boundaryIn cal (.timedate c) a b with
      | true => rfl
      | false =>
        obtain ⟨hd, hb⟩ := (td_boundaryIn_false cal c a b hab).mp hf
        have d1 := dayOf_mono (Nat.le_of_lt h1)
        have d2 := dayOf_mono h2
        have e1 : dayOf a = dayOf t := by omega
        have e2 : dayOf t = dayOf b := by omega
        exact absurd ⟨lt_same_day h1 e1, todOf_mono_same_day h2 e2⟩ (hb _ h3)
  · constructor
    · intro h
      unfold boundaryIn at h
      have : b ≤ a := by omega
      simp [this] at h
    · intro ⟨t, h1, h2, _⟩; omega

/-- the boundary instants of a TimeSpan are the end points of its ranges: a boundary-free
    interval contains no instant whose date-time equals an end point -/
theorem timespan_boundary_instants (cal : Calendar) (hcal : CalMono cal) (sp : Span) (a b : Nat)
    (h : boundaryIn cal (.timespan sp) a b = false) :
    ∀ t, a < t → t ≤ b → stampOf cal t ∉ endpoints sp := by
  intro t h1 h2 hm
  have hab : a < b := by omega
  exact (ts_boundaryIn_false cal sp a b hab).mp h _ hm ⟨stampOf_strict hcal h1, stampOf_mono hcal h2⟩

/-- **pred_piecewise_constant**: a TimeDate output can only change at a boundary instant –
    for ANY calendar (time of day, date and weekday are constant between the registered
    times of day and midnight) -/
theorem timedate_piecewise_constant (cal : Calendar) (c : TDCfg) (a b : Nat) (hab : a ≤ b)
    (h : ∀ t, a < t → t ≤ b → todOf t ∉ boundaries c) :
    timedatePred cal c a = timedatePred cal c b := by
  apply timedatePred_const cal c a b hab
  cases hf : boundaryIn cal (.timedate c) a b with
  | false => rfl
  | true =>
    obtain ⟨t, h1, h2, h3⟩ := (timedate_boundary_instants cal c a b).mp hf
    exact absurd h3 (h t h1 h2)

/-- **pred_piecewise_constant** for both kinds of blocks: the calendar predicate is constant
    on every interval `[a, b]` with no boundary instant in `(a, b]` -/
theorem pred_piecewise_constant (cal : Calendar) (hcal : CalMono cal) (cfg : Cfg) (a b : Nat)
    (hab : a ≤ b) (h : boundaryIn cal cfg a b = false) :
    pred cal cfg a = pred cal cfg b :=
  pred_const cal hcal cfg a b hab h

/-- … hence on every pair of instants of such an interval -/
theorem pred_constant_inside (cal : Calendar) (hcal : CalMono cal) (cfg : Cfg) (a b x y : Nat)
    (h : boundaryIn cal cfg a b = false) (hx : a ≤ x) (hxy : x ≤ y) (hy : y ≤ b) :
    pred cal cfg x = pred cal cfg y :=
  pred_const cal hcal cfg x y hxy (boundaryIn_mono cal hcal cfg a x y b hx hy h)

/-! ### accepted traces -/

/-- the bookkeeping state follows the trace: a `config` record installs the configuration … -/
theorem track_config (p : Params) (pre : List Rec) (blk : Nat) (cfg : Cfg) (read : Nat) (out : Bool) :
    ((track p (pre ++ [.config blk cfg read out])).blocks blk).map (·.cfg) = some cfg := by
  simp [track, apply, update]

/-- … and no other record changes the configuration of a block -/
theorem track_keeps_cfg (p : Params) (pre : List Rec) (r : Rec) (blk : Nat)
    (h : ∀ cfg read out, r ≠ .config blk cfg read out) :
    ((track p (pre ++ [r])).blocks blk).map (·.cfg) = ((track p pre).blocks blk).map (·.cfg) := by
  simp only [track, List.foldl_append, List.foldl_cons, List.foldl_nil]
  generalize List.foldl (apply p) {} pre = st
  cases r with
  | config b c rd o =>
    have : blk ≠ b := fun e => h c rd o (by rw [e])
    simp [apply, update, this]
  | recalc b rd o =>
    simp only [apply]
    cases hb : st.blocks b with
    | none => rfl
    | some bs =>
      by_cases e : blk = b
      · subst e
        have : (recalcBlock bs rd o).cfg = bs.cfg := by
          unfold recalcBlock; split <;> rfl
        simp [update, hb, this]
      · simp [update, e]
  | jump t d =>
    simp only [apply]
    cases st.blocks blk <;> simp [markStale]
  | probe t b o => rfl
  | late t d =>
    simp only [apply]
    cases st.blocks blk <;> simp [markLate]

/-- **accepted_trace_correct**: in an accepted trace, an output observed at instant `t` when no
    clock jump is pending for the block (`stale = none`, or its deadline has passed) and no
    boundary of the block lies in `(t − lam, t]` equals the calendar predicate of `t` under the
    block's current configuration -/
theorem accepted_trace_correct (p : Params) (hcal : CalMono p.cal) (pre post : List Rec)
    (t blk : Nat) (out : Bool) (b : BState)
    (hacc : accepts p (pre ++ .probe t blk out :: post) = true)
    (hb : (track p pre).blocks blk = some b)
    (hfresh : ∀ dl, b.stale = some dl → dl < t)
    (hfar : boundaryIn p.cal b.cfg (t - p.lam) t = false) :
    out = pred p.cal b.cfg t := by
  obtain ⟨hinv, hv⟩ := probe_facts p pre post t blk out hacc
  simp only [verdict, hb] at hv
  by_cases h1 : t < (track p pre).now
  · simp [h1] at hv
  by_cases h2 : out ≠ b.out
  · simp [h1, h2] at hv
  have h2' : out = b.out := by simpa using h2
  simp only [h1, h2, ↓reduceIte] at hv
  have hcov : boundaryIn p.cal b.cfg b.last (t - p.lam) = false := by
    unfold coverage at hv
    cases hs : b.stale with
    | none =>
      simp only [hs] at hv
      cases hbi : boundaryIn p.cal b.cfg b.last (t - p.lam) with
      | false => rfl
      | true => simp [hbi] at hv
    | some dl =>
      have := hfresh dl hs
      simp only [hs] at hv
      have hn : ¬ t ≤ dl := by omega
      simp only [hn, ↓reduceIte] at hv
      cases hbi : boundaryIn p.cal b.cfg b.last (t - p.lam) with
      | false => rfl
      | true => simp [hbi] at hv
  have hout := hinv.out_ok blk b hb
  have hlast := hinv.last_le blk b hb
  rw [h2', hout]
  by_cases hl : b.last ≤ t - p.lam
  · rw [pred_const p.cal hcal b.cfg b.last (t - p.lam) hl hcov]
    exact pred_const p.cal hcal b.cfg (t - p.lam) t (Nat.sub_le _ _) hfar
  · exact pred_const p.cal hcal b.cfg b.last t (by omega)
      (boundaryIn_mono p.cal hcal b.cfg (t - p.lam) b.last t t (by omega) (Nat.le_refl _) hfar)

/-- **jump_recovery**: once the grace period has ended – `bound` after the arrival of the latest forward
    clock jump, `delta + lam` after an injected delay of `delta` (see `jump_recovery_trace`,
    `injected_delay_trace`) – every observed output (not within `lam` after a boundary) is the
    calendar predicate again -/
theorem jump_recovery (p : Params) (hcal : CalMono p.cal) (pre post : List Rec)
    (t blk : Nat) (out : Bool) (b : BState)
    (hacc : accepts p (pre ++ .probe t blk out :: post) = true)
    (hb : (track p pre).blocks blk = some b)
    (hlate : (track p pre).graceEnd < t)
    (hfar : boundaryIn p.cal b.cfg (t - p.lam) t = false) :
    out = pred p.cal b.cfg t := by
  obtain ⟨hinv, _⟩ := probe_facts p pre post t blk out hacc
  apply accepted_trace_correct p hcal pre post t blk out b hacc hb _ hfar
  intro dl hs
  have := hinv.dl_le blk b dl hb hs
  omega

/-- the same, read off the trace: a clock jump of `d` at `tj`, then no further jump or injected delay;
    every probe later than `tj + d + bound` is correct -/
theorem jump_recovery_trace (p : Params) (hcal : CalMono p.cal) (pre mid post : List Rec)
    (tj d t blk : Nat) (out : Bool) (b : BState)
    (hacc : accepts p (pre ++ .jump tj d :: (mid ++ .probe t blk out :: post)) = true)
    (hmid : ∀ r ∈ mid, r.isJump = false)
    (hb : (track p (pre ++ .jump tj d :: mid)).blocks blk = some b)
    (hlate : tj + d + p.bound < t)
    (hfar : boundaryIn p.cal b.cfg (t - p.lam) t = false) :
    out = pred p.cal b.cfg t := by
  have e : pre ++ .jump tj d :: (mid ++ .probe t blk out :: post)
      = (pre ++ .jump tj d :: mid) ++ .probe t blk out :: post := by simp
  rw [e] at hacc
  apply jump_recovery p hcal _ post t blk out b hacc hb _ hfar
  have : (track p (pre ++ .jump tj d :: mid)).graceEnd = tj + d + p.bound := by
    simp only [track, List.foldl_append, List.foldl_cons]
    rw [graceEnd_foldl p mid _ hmid]
    rfl
  omega

/-- an injected delay excuses nothing beyond its own window: wake-up callbacks due at `tl` run `dl` µs
    late (no clock jump pending before: `graceEnd ≤ tl + dl + lam`), then no jump and no further delay;
    every probe later than `tl + dl + lam` is correct -/
theorem injected_delay_trace (p : Params) (hcal : CalMono p.cal) (pre mid post : List Rec)
    (tl dl t blk : Nat) (out : Bool) (b : BState)
    (hacc : accepts p (pre ++ .late tl dl :: (mid ++ .probe t blk out :: post)) = true)
    (hpre : (track p pre).graceEnd ≤ tl + dl + p.lam)
    (hmid : ∀ r ∈ mid, r.isJump = false)
    (hb : (track p (pre ++ .late tl dl :: mid)).blocks blk = some b)
    (hlate : tl + dl + p.lam < t)
    (hfar : boundaryIn p.cal b.cfg (t - p.lam) t = false) :
    out = pred p.cal b.cfg t := by
  have e : pre ++ .late tl dl :: (mid ++ .probe t blk out :: post)
      = (pre ++ .late tl dl :: mid) ++ .probe t blk out :: post := by simp
  rw [e] at hacc
  apply jump_recovery p hcal _ post t blk out b hacc hb _ hfar
  have : (track p (pre ++ .late tl dl :: mid)).graceEnd = tl + dl + p.lam := by
    simp only [track, List.foldl_append, List.foldl_cons]
    rw [graceEnd_foldl p mid _ hmid]
    simp only [track] at hpre
    simp [apply, hpre]
  omega

/-- a block is never left unrecalculated for longer than `bound` after a jump while one of its
    boundaries has passed: the acceptance predicate rejects such a trace (S3) -/
theorem stale_block_rejected (p : Params) (pre post : List Rec) (t blk dl : Nat) (out : Bool) (b : BState)
    (hb : (track p pre).blocks blk = some b) (hs : b.stale = some dl) (hlate : dl < t)
    (hmiss : boundaryIn p.cal b.cfg b.last (t - p.lam) = true) :
    accepts p (pre ++ .probe t blk out :: post) = false := by
  cases hacc : accepts p (pre ++ .probe t blk out :: post) with
  | false => rfl
  | true =>
    obtain ⟨_, hv⟩ := probe_facts p pre post t blk out hacc
    simp only [verdict, hb] at hv
    by_cases h1 : t < (track p pre).now
    · simp [h1] at hv
    by_cases h2 : out ≠ b.out
    · simp [h1, h2] at hv
    have hn : ¬ t ≤ dl := by omega
    simp [h1, h2, coverage, hs, hn, hmiss] at hv

/-! ### the blocks recalculated on a reset -/

/-- **resetTargets_total**: with `set().union(*alarms.values())` the reset branch is defined for
    every alarm table – the empty one included – and yields exactly the registered blocks -/
theorem resetTargets_total (al : Alarms) :
    ∃ l, resetTargets al = .ok l ∧ ∀ b, b ∈ l ↔ ∃ e ∈ al, b ∈ e.2 := by
  refine ⟨_, rfl, ?_⟩
  intro b
  rw [mem_sortDedup]
  simp [List.mem_flatMap]

/-- the expression of the unrepaired code agrees on every non-empty table … -/
theorem resetTargetsOrig_nonempty (e : Nat × List Nat) (al : Alarms) :
    resetTargetsOrig (e :: al) = resetTargets (e :: al) := rfl

/-- … and fails on the empty one (the defect repaired by patches/C07-empty-alarms.diff) -/
theorem resetTargetsOrig_empty : resetTargetsOrig [] = .error .typeError := rfl

/-- every legal group of blocks recalculated by cron consists of registered blocks -/
theorem group_members_registered (lam : Nat) (al : Alarms) (read : Nat) (blocks : List Nat)
    (h : groupLegal lam al read blocks = true) : ∀ b ∈ blocks, ∃ e ∈ al, b ∈ e.2 := by
  intro b hb
  have hb' : b ∈ sortDedup blocks := (mem_sortDedup b blocks).mpr hb
  unfold groupLegal at h
  simp only [resetTargets, Bool.or_eq_true, beq_iff_eq, List.any_eq_true, Bool.and_eq_true] at h
  rcases h with h | ⟨e, he, _, h⟩
  · rw [h, mem_sortDedup] at hb'
    simpa [List.mem_flatMap] using hb'
  · rw [h, mem_sortDedup] at hb'
    exact ⟨e, he, hb'⟩

/-! ### constants of the code the specification relies on (regenerated from the source) -/

/-- cron wakes up at every full hour (so a stale sleep ends within one hour), a clock error of
    30 s – the smallest jump of the property – is above the reset threshold, and the desired
    accuracy is below the 5 ms the property allows -/
theorem cron_constants_fit :
    Gen.cronSet24 = (List.range 24).map (fun h => (h, 0, 0, 0)) ∧
    Gen.cronTtErrorUs < 30000000 ∧ Gen.cronTtOkUs < 5000 ∧ Gen.secPerHour = 3600 ∧
    Gen.secPerDay * 1000000 = usPerDay := by
  decide

/-! ### the hypotheses are satisfiable -/

/-- a monotone toy calendar: every day is January 1st of its own year -/
def toyCal : Calendar := fun d => ⟨1970 + d, 1, 1, d % 7 + 1⟩

theorem toyCal_mono : CalMono toyCal := by
  intro d1 d2 h; simp only [toyCal]; omega

/-- a block 10:00–11:00 configured at 09:00 (output False), recalculated by cron 2 µs after 10:00
    (True), observed at 10:30 (True): accepted, and the theorem applies to the probe -/
example :
    let p : Params := { cal := toyCal, lam := 5000, bound := 3600005000 }
    let cfg : Cfg := .timedate ⟨some [(36000000000, 39600000000)], none, none⟩
    let tr := [Rec.config 0 cfg 32400000000 false, .recalc 0 36000000002 true, .probe 37800000000 0 true]
    accepts p tr = true ∧ boundaryIn p.cal cfg (37800000000 - p.lam) 37800000000 = false
      ∧ pred p.cal cfg 37800000000 = true := by
  decide

/-- the same block not recalculated at 10:00: the probe at 10:30 is rejected (S2) -/
example :
    let p : Params := { cal := toyCal, lam := 5000, bound := 3600005000 }
    let cfg : Cfg := .timedate ⟨some [(36000000000, 39600000000)], none, none⟩
    accepts p [Rec.config 0 cfg 32400000000 false, .probe 37800000000 0 false] = false := by
  decide

/-- a forward jump of 30 min at 09:10: the block may stay wrong until the deadline (probe at 10:05
    wall time accepted without a recalculation), but not beyond it -/
example :
    let p : Params := { cal := toyCal, lam := 5000, bound := 3600005000 }
    let cfg : Cfg := .timedate ⟨some [(36000000000, 39600000000)], none, none⟩
    let pre := [Rec.config 0 cfg 32400000000 false, .jump 33000000000 1800000000]
    accepts p (pre ++ [.probe 36300000000 0 false]) = true ∧
    accepts p (pre ++ [.probe 38500000000 0 false]) = false := by
  decide

/-- the 10:00 wake-up is delayed by 8 ms (injected): the recalculation 8 ms after 10:00 is accepted, a
    probe inside the window is not judged, but the NEXT boundary (11:00) must again be served within
    5 ms – a recalculation 8 ms after 11:00 is rejected, one 0.3 ms after it accepted -/
example :
    let p : Params := { cal := toyCal, lam := 5000, bound := 3600005000 }
    let cfg : Cfg := .timedate ⟨some [(36000000000, 39600000000)], none, none⟩
    let pre := [Rec.config 0 cfg 32400000000 false, .late 35999999000 8000, .probe 36000006000 0 false,
                .recalc 0 36000007002 true, .probe 36000010000 0 true]
    accepts p pre = true ∧
    accepts p (pre ++ [.recalc 0 39600008000 false]) = false ∧
    accepts p (pre ++ [.recalc 0 39600000300 false, .probe 39600010000 0 false]) = true := by
  decide

/-- one alarm (10:00), two blocks; the output event of block 0 reconfigures block 1 inside the alarm
    processing (its `config` reading is 2 µs later), then cron hands the older reading to block 1:
    accepted because it yields the same output; a different output would be rejected -/
example :
    let p : Params := { cal := toyCal, lam := 5000, bound := 3600005000 }
    let c0 : Cfg := .timedate ⟨some [(36000000000, 39600000000)], none, none⟩
    let c1 : Cfg := .timedate ⟨some [(43200000000, 46800000000)], none, none⟩
    let pre := [Rec.config 0 c0 32400000000 false, .config 1 c0 32400000002 false,
                .recalc 0 36000000002 true, .config 1 c1 36000000004 false]
    accepts p (pre ++ [.recalc 1 36000000002 false, .probe 36000010000 1 false]) = true ∧
    accepts p (pre ++ [.recalc 1 36000000002 true]) = false := by
  decide

end Edzed.Cron
