/-
C07 — TimeDate / TimeSpan outputs follow the wall clock.

Model: EdzedModel/Cron.lean.  The calendar predicates mirror `TimeDate.recalc` /
`TimeSpan.recalc`; the recalculation service of cron is a SPECIFICATION (`accepts`) that the
trace of every explored run of the real cron tasks is checked against by the correspondence –
cron's sleep loop is validated schedule by schedule, not verified.  What is proved here, for
every calendar (`CalMono`: later days have later dates), every configuration and every trace:

* the calendar predicate can only change at a boundary instant (the times of day a block
  registers with cron and midnight; the end points of a TimeSpan) – so the registered alarms suffice;
* in an accepted trace every observed output that is not within `lam` after a boundary equals
  the calendar predicate of the observation instant, also after clock jumps once `bound` has passed;
* the set of blocks recalculated on a reset is defined for every alarm table, the empty one included.
-/
import EdzedModel.Cron
import EdzedProofs.Cron
import EdzedModel.Gen.Constants
import EdzedModel.Gen.TranslatedCron
import EdzedProofs.CronTie
import EdzedModel.Gen.TranslatedCronCfg
import EdzedProofs.CronCfgTie
import EdzedProofs.IntervalTie
import EdzedProofs.WeekdayBridge
import EdzedProofs.CronTiming
import EdzedProofs.CronTimingDemo

namespace Edzed.Cron

/-! ### the calendar predicate -/

/-- "False when nothing is configured" -/
theorem timedate_unconfigured (cal : Calendar) (now : Nat) :
    timedatePred cal ⟨none, none, none⟩ now = false := rfl

/-- "… or a given set is empty" (an empty argument is not the same as an absent one) -/
theorem timedate_empty_set (cal : Calendar) (c : TDCfg) (now : Nat)
    (h : c.times = some [] ∨ c.dates = some [] ∨ c.weekdays = some []) :
    timedatePred cal c now = false := by
  unfold timedatePred
  rcases h with h | h | h <;> simp [h, timesContain, datesContain]

/-- "True exactly when the current time of day, date and weekday all match" – an absent argument
    matches always, unless all three are absent -/
theorem timedate_true_iff (cal : Calendar) (c : TDCfg) (now : Nat) :
    timedatePred cal c now = true ↔
      (c.times.isSome ∨ c.dates.isSome ∨ c.weekdays.isSome) ∧
      (∀ iv, c.times = some iv → ∃ r ∈ iv, inOpen r.1 (todOf now) r.2 = true) ∧
      (∀ iv, c.dates = some iv →
        ∃ r ∈ iv, inClosed r.1 ((cal (dayOf now)).month, (cal (dayOf now)).day) r.2 = true) ∧
      (∀ w, c.weekdays = some w → (cal (dayOf now)).wday ∈ w) := by
  unfold timedatePred TDCfg.configured timesContain datesContain
  cases c.times <;> cases c.dates <;> cases c.weekdays <;> simp [List.any_eq_true, and_assoc]

/-- a time range is half-open and cyclic: `x` is inside iff, going forward from `lo`, `x` comes
    strictly before `hi` (equal end points: the whole day) -/
theorem time_range_cyclic (lo x hi : Nat) (hlo : lo < usPerDay) (hx : x < usPerDay) (hhi : hi < usPerDay) :
    inOpen lo x hi = true ↔
      (lo = hi ∨ (x + usPerDay - lo) % usPerDay < (hi + usPerDay - lo) % usPerDay) :=
  inOpen_cyclic usPerDay lo x hi hlo hx hhi

/-- a TimeSpan is True exactly inside one of its ranges `lo ≤ now < hi` (no wrapping) -/
theorem timespan_true_iff (cal : Calendar) (sp : Span) (now : Nat) :
    timespanPred cal sp now = true ↔
      ∃ r ∈ sp, r.1.Le (stampOf cal now) ∧ (stampOf cal now).Lt r.2 := by
  simp [timespanPred, inSpan, List.any_eq_true]

/-- the boundary instants of a TimeDate in `(a, b]` are exactly the instants whose time of day is
    registered with cron (`boundaries`: end points of `times`, and midnight) -/
theorem timedate_boundary_instants (cal : Calendar) (c : TDCfg) (a b : Nat) :
    boundaryIn cal (.timedate c) a b = true ↔ ∃ t, a < t ∧ t ≤ b ∧ todOf t ∈ boundaries c := by
  by_cases hab : a < b
  · constructor
    · intro h
      by_cases hd : dayOf a < dayOf b
      · refine ⟨(dayOf a + 1) * usPerDay, ?_, ?_, ?_⟩
        · unfold dayOf usPerDay at *; omega
        · unfold dayOf usPerDay at *; omega
        · have : todOf ((dayOf a + 1) * usPerDay) = 0 := by unfold todOf; exact Nat.mul_mod_left _ _
          rw [this]; exact zero_mem_boundaries c
      · unfold boundaryIn at h
        have hba : ¬ b ≤ a := by omega
        simp only [hba, ↓reduceIte, hd, List.any_eq_true, Bool.and_eq_true, decide_eq_true_eq] at h
        obtain ⟨e, he, h1, h2⟩ := h
        have hd' := dayOf_mono (Nat.le_of_lt hab)
        have hb := todOf_lt b
        refine ⟨dayOf a * usPerDay + e, ?_, ?_, ?_⟩
        · unfold dayOf todOf usPerDay at *; omega
        · unfold dayOf todOf usPerDay at *; omega
        · have : todOf (dayOf a * usPerDay + e) = e := by
            unfold dayOf todOf usPerDay at *; omega
          rw [this]; exact he
    · intro ⟨t, h1, h2, h3⟩
      cases hf : boundaryIn cal (.timedate c) a b with
      | true => rfl
      | false =>
        obtain ⟨hd, hb⟩ := (td_boundaryIn_false cal c a b hab).mp hf
        have d1 := dayOf_mono (Nat.le_of_lt h1)
        have d2 := dayOf_mono h2
        have e1 : dayOf a = dayOf t := by omega
        have e2 : dayOf t = dayOf b := by omega
        exact absurd ⟨lt_same_day h1 e1, todOf_mono_same_day h2 e2⟩ (hb _ h3)
  · constructor
    · intro h
      unfold boundaryIn at h
      have : b ≤ a := by omega
      simp [this] at h
    · intro ⟨t, h1, h2, _⟩; omega

/-- the boundary instants of a TimeSpan are the end points of its ranges: a boundary-free
    interval contains no instant whose date-time equals an end point -/
theorem timespan_boundary_instants (cal : Calendar) (hcal : CalMono cal) (sp : Span) (a b : Nat)
    (h : boundaryIn cal (.timespan sp) a b = false) :
    ∀ t, a < t → t ≤ b → stampOf cal t ∉ endpoints sp := by
  intro t h1 h2 hm
  have hab : a < b := by omega
  exact (ts_boundaryIn_false cal sp a b hab).mp h _ hm ⟨stampOf_strict hcal h1, stampOf_mono hcal h2⟩

/-- **pred_piecewise_constant**: a TimeDate output can only change at a boundary instant –
    for ANY calendar (time of day, date and weekday are constant between the registered
    times of day and midnight) -/
theorem timedate_piecewise_constant (cal : Calendar) (c : TDCfg) (a b : Nat) (hab : a ≤ b)
    (h : ∀ t, a < t → t ≤ b → todOf t ∉ boundaries c) :
    timedatePred cal c a = timedatePred cal c b := by
  apply timedatePred_const cal c a b hab
  cases hf : boundaryIn cal (.timedate c) a b with
  | false => rfl
  | true =>
    obtain ⟨t, h1, h2, h3⟩ := (timedate_boundary_instants cal c a b).mp hf
    exact absurd h3 (h t h1 h2)

/-- **pred_piecewise_constant** for both kinds of blocks: the calendar predicate is constant
    on every interval `[a, b]` with no boundary instant in `(a, b]` -/
theorem pred_piecewise_constant (cal : Calendar) (hcal : CalMono cal) (cfg : Cfg) (a b : Nat)
    (hab : a ≤ b) (h : boundaryIn cal cfg a b = false) :
    pred cal cfg a = pred cal cfg b :=
  pred_const cal hcal cfg a b hab h

/-- … hence on every pair of instants of such an interval -/
theorem pred_constant_inside (cal : Calendar) (hcal : CalMono cal) (cfg : Cfg) (a b x y : Nat)
    (h : boundaryIn cal cfg a b = false) (hx : a ≤ x) (hxy : x ≤ y) (hy : y ≤ b) :
    pred cal cfg x = pred cal cfg y :=
  pred_const cal hcal cfg x y hxy (boundaryIn_mono cal hcal cfg a x y b hx hy h)

/-! ### accepted traces -/

/-- the bookkeeping state follows the trace: a `config` record installs the configuration … -/
theorem track_config (p : Params) (pre : List Rec) (blk : Nat) (cfg : Cfg) (read : Nat) (out : Bool) :
    ((track p (pre ++ [.config blk cfg read out])).blocks blk).map (·.cfg) = some cfg := by
  simp [track, apply, update]

/-- … and no other record changes the configuration of a block -/
theorem track_keeps_cfg (p : Params) (pre : List Rec) (r : Rec) (blk : Nat)
    (h : ∀ cfg read out, r ≠ .config blk cfg read out) :
    ((track p (pre ++ [r])).blocks blk).map (·.cfg) = ((track p pre).blocks blk).map (·.cfg) := by
  simp only [track, List.foldl_append, List.foldl_cons, List.foldl_nil]
  generalize List.foldl (apply p) {} pre = st
  cases r with
  | config b c rd o =>
    have : blk ≠ b := fun e => h c rd o (by rw [e])
    simp [apply, update, this]
  | recalc b rd o =>
    simp only [apply]
    cases hb : st.blocks b with
    | none => rfl
    | some bs =>
      by_cases e : blk = b
      · subst e
        have : (recalcBlock bs rd o).cfg = bs.cfg := by
          unfold recalcBlock; split <;> rfl
        simp [update, hb, this]
      · simp [update, e]
  | jump t d =>
    simp only [apply]
    cases st.blocks blk <;> simp [markStale]
  | probe t b o => rfl
  | late t d =>
    simp only [apply]
    cases st.blocks blk <;> simp [markLate]

/-- **accepted_trace_correct**: in an accepted trace, an output observed at instant `t` when no
    clock jump is pending for the block (`stale = none`, or its deadline has passed) and no
    boundary of the block lies in `(t − lam, t]` equals the calendar predicate of `t` under the
    block's current configuration -/
theorem accepted_trace_correct (p : Params) (hcal : CalMono p.cal) (pre post : List Rec)
    (t blk : Nat) (out : Bool) (b : BState)
    (hacc : accepts p (pre ++ .probe t blk out :: post) = true)
    (hb : (track p pre).blocks blk = some b)
    (hfresh : ∀ dl, b.stale = some dl → dl < t)
    (hfar : boundaryIn p.cal b.cfg (t - p.lam) t = false) :
    out = pred p.cal b.cfg t := by
  obtain ⟨hinv, hv⟩ := probe_facts p pre post t blk out hacc
  simp only [verdict, hb] at hv
  by_cases h1 : t < (track p pre).now
  · simp [h1] at hv
  by_cases h2 : out ≠ b.out
  · simp [h1, h2] at hv
  have h2' : out = b.out := by simpa using h2
  simp only [h1, h2, ↓reduceIte] at hv
  have hcov : boundaryIn p.cal b.cfg b.last (t - p.lam) = false := by
    unfold coverage at hv
    cases hs : b.stale with
    | none =>
      simp only [hs] at hv
      cases hbi : boundaryIn p.cal b.cfg b.last (t - p.lam) with
      | false => rfl
      | true => simp [hbi] at hv
    | some dl =>
      have := hfresh dl hs
      simp only [hs] at hv
      have hn : ¬ t ≤ dl := by omega
      simp only [hn, ↓reduceIte] at hv
      cases hbi : boundaryIn p.cal b.cfg b.last (t - p.lam) with
      | false => rfl
      | true => simp [hbi] at hv
  have hout := hinv.out_ok blk b hb
  have hlast := hinv.last_le blk b hb
  rw [h2', hout]
  by_cases hl : b.last ≤ t - p.lam
  · rw [pred_const p.cal hcal b.cfg b.last (t - p.lam) hl hcov]
    exact pred_const p.cal hcal b.cfg (t - p.lam) t (Nat.sub_le _ _) hfar
  · exact pred_const p.cal hcal b.cfg b.last t (by omega)
      (boundaryIn_mono p.cal hcal b.cfg (t - p.lam) b.last t t (by omega) (Nat.le_refl _) hfar)

/-- **jump_recovery**: once the grace period has ended – `bound` after the arrival of the latest forward
    clock jump, `delta + lam` after an injected delay of `delta` (see `jump_recovery_trace`,
    `injected_delay_trace`) – every observed output (not within `lam` after a boundary) is the
    calendar predicate again -/
theorem jump_recovery (p : Params) (hcal : CalMono p.cal) (pre post : List Rec)
    (t blk : Nat) (out : Bool) (b : BState)
    (hacc : accepts p (pre ++ .probe t blk out :: post) = true)
    (hb : (track p pre).blocks blk = some b)
    (hlate : (track p pre).graceEnd < t)
    (hfar : boundaryIn p.cal b.cfg (t - p.lam) t = false) :
    out = pred p.cal b.cfg t := by
  obtain ⟨hinv, _⟩ := probe_facts p pre post t blk out hacc
  apply accepted_trace_correct p hcal pre post t blk out b hacc hb _ hfar
  intro dl hs
  have := hinv.dl_le blk b dl hb hs
  omega

/-- the same, read off the trace: a clock jump of `d` at `tj`, then no further jump or injected delay;
    every probe later than `tj + d + bound` is correct -/
theorem jump_recovery_trace (p : Params) (hcal : CalMono p.cal) (pre mid post : List Rec)
    (tj d t blk : Nat) (out : Bool) (b : BState)
    (hacc : accepts p (pre ++ .jump tj d :: (mid ++ .probe t blk out :: post)) = true)
    (hmid : ∀ r ∈ mid, r.isJump = false)
    (hb : (track p (pre ++ .jump tj d :: mid)).blocks blk = some b)
    (hlate : tj + d + p.bound < t)
    (hfar : boundaryIn p.cal b.cfg (t - p.lam) t = false) :
    out = pred p.cal b.cfg t := by
  have e : pre ++ .jump tj d :: (mid ++ .probe t blk out :: post)
      = (pre ++ .jump tj d :: mid) ++ .probe t blk out :: post := by simp
  rw [e] at hacc
  apply jump_recovery p hcal _ post t blk out b hacc hb _ hfar
  have : (track p (pre ++ .jump tj d :: mid)).graceEnd = tj + d + p.bound := by
    simp only [track, List.foldl_append, List.foldl_cons]
    rw [graceEnd_foldl p mid _ hmid]
    rfl
  omega

/-- an injected delay excuses nothing beyond its own window: wake-up callbacks due at `tl` run `dl` µs
    late (no clock jump pending before: `graceEnd ≤ tl + dl + lam`), then no jump and no further delay;
    every probe later than `tl + dl + lam` is correct -/
theorem injected_delay_trace (p : Params) (hcal : CalMono p.cal) (pre mid post : List Rec)
    (tl dl t blk : Nat) (out : Bool) (b : BState)
    (hacc : accepts p (pre ++ .late tl dl :: (mid ++ .probe t blk out :: post)) = true)
    (hpre : (track p pre).graceEnd ≤ tl + dl + p.lam)
    (hmid : ∀ r ∈ mid, r.isJump = false)
    (hb : (track p (pre ++ .late tl dl :: mid)).blocks blk = some b)
    (hlate : tl + dl + p.lam < t)
    (hfar : boundaryIn p.cal b.cfg (t - p.lam) t = false) :
    out = pred p.cal b.cfg t := by
  have e : pre ++ .late tl dl :: (mid ++ .probe t blk out :: post)
      = (pre ++ .late tl dl :: mid) ++ .probe t blk out :: post := by simp
  rw [e] at hacc
  apply jump_recovery p hcal _ post t blk out b hacc hb _ hfar
  have : (track p (pre ++ .late tl dl :: mid)).graceEnd = tl + dl + p.lam := by
    simp only [track, List.foldl_append, List.foldl_cons]
    rw [graceEnd_foldl p mid _ hmid]
    simp only [track] at hpre
    simp [apply, hpre]
  omega

/-- a block is never left unrecalculated for longer than `bound` after a jump while one of its
    boundaries has passed: the acceptance predicate rejects such a trace (S3) -/
theorem stale_block_rejected (p : Params) (pre post : List Rec) (t blk dl : Nat) (out : Bool) (b : BState)
    (hb : (track p pre).blocks blk = some b) (hs : b.stale = some dl) (hlate : dl < t)
    (hmiss : boundaryIn p.cal b.cfg b.last (t - p.lam) = true) :
    accepts p (pre ++ .probe t blk out :: post) = false := by
  cases hacc : accepts p (pre ++ .probe t blk out :: post) with
  | false => rfl
  | true =>
    obtain ⟨_, hv⟩ := probe_facts p pre post t blk out hacc
    simp only [verdict, hb] at hv
    by_cases h1 : t < (track p pre).now
    · simp [h1] at hv
    by_cases h2 : out ≠ b.out
    · simp [h1, h2] at hv
    have hn : ¬ t ≤ dl := by omega
    simp [h1, h2, coverage, hs, hn, hmiss] at hv

/-! ### the blocks recalculated on a reset -/

/-- **resetTargets_total**: with `set().union(*alarms.values())` the reset branch is defined for
    every alarm table – the empty one included – and yields exactly the registered blocks -/
theorem resetTargets_total (al : Alarms) :
    ∃ l, resetTargets al = .ok l ∧ ∀ b, b ∈ l ↔ ∃ e ∈ al, b ∈ e.2 := by
  refine ⟨_, rfl, ?_⟩
  intro b
  rw [mem_sortDedup]
  simp [List.mem_flatMap]

/-- the expression of the unrepaired code agrees on every non-empty table … -/
theorem resetTargetsOrig_nonempty (e : Nat × List Nat) (al : Alarms) :
    resetTargetsOrig (e :: al) = resetTargets (e :: al) := rfl

/-- … and fails on the empty one (the defect repaired by patches/C07-empty-alarms.diff) -/
theorem resetTargetsOrig_empty : resetTargetsOrig [] = .error .typeError := rfl

/-- every legal group of blocks recalculated by cron consists of registered blocks -/
theorem group_members_registered (lam : Nat) (al : Alarms) (read : Nat) (blocks : List Nat)
    (h : groupLegal lam al read blocks = true) : ∀ b ∈ blocks, ∃ e ∈ al, b ∈ e.2 := by
  intro b hb
  have hb' : b ∈ sortDedup blocks := (mem_sortDedup b blocks).mpr hb
  unfold groupLegal at h
  simp only [resetTargets, Bool.or_eq_true, beq_iff_eq, List.any_eq_true, Bool.and_eq_true] at h
  rcases h with h | ⟨e, he, _, h⟩
  · rw [h, mem_sortDedup] at hb'
    simpa [List.mem_flatMap] using hb'
  · rw [h, mem_sortDedup] at hb'
    exact ⟨e, he, hb'⟩

/-! ### constants of the code the specification relies on (regenerated from the source) -/

/-- cron wakes up at every full hour (so a stale sleep ends within one hour), a clock error of
    30 s – the smallest jump of the property – is above the reset threshold, and the desired
    accuracy is below the 5 ms the property allows -/
theorem cron_constants_fit :
    Gen.cronSet24 = (List.range 24).map (fun h => (h, 0, 0, 0)) ∧
    Gen.cronTtErrorUs < 30000000 ∧ Gen.cronTtOkUs < 5000 ∧ Gen.secPerHour = 3600 ∧
    Gen.secPerDay * 1000000 = usPerDay := by
  decide

/-! ### the hypotheses are satisfiable -/

/-- a monotone toy calendar: every day is January 1st of its own year -/
def toyCal : Calendar := fun d => ⟨1970 + d, 1, 1, d % 7 + 1⟩

theorem toyCal_mono : CalMono toyCal := by
  intro d1 d2 h; simp only [toyCal]; omega

/-- a block 10:00–11:00 configured at 09:00 (output False), recalculated by cron 2 µs after 10:00
    (True), observed at 10:30 (True): accepted, and the theorem applies to the probe -/
example :
    let p : Params := { cal := toyCal, lam := 5000, bound := 3600005000 }
    let cfg : Cfg := .timedate ⟨some [(36000000000, 39600000000)], none, none⟩
    let tr := [Rec.config 0 cfg 32400000000 false, .recalc 0 36000000002 true, .probe 37800000000 0 true]
    accepts p tr = true ∧ boundaryIn p.cal cfg (37800000000 - p.lam) 37800000000 = false
      ∧ pred p.cal cfg 37800000000 = true := by
  decide

/-- the same block not recalculated at 10:00: the probe at 10:30 is rejected (S2) -/
example :
    let p : Params := { cal := toyCal, lam := 5000, bound := 3600005000 }
    let cfg : Cfg := .timedate ⟨some [(36000000000, 39600000000)], none, none⟩
    accepts p [Rec.config 0 cfg 32400000000 false, .probe 37800000000 0 false] = false := by
  decide

/-- a forward jump of 30 min at 09:10: the block may stay wrong until the deadline (probe at 10:05
    wall time accepted without a recalculation), but not beyond it -/
example :
    let p : Params := { cal := toyCal, lam := 5000, bound := 3600005000 }
    let cfg : Cfg := .timedate ⟨some [(36000000000, 39600000000)], none, none⟩
    let pre := [Rec.config 0 cfg 32400000000 false, .jump 33000000000 1800000000]
    accepts p (pre ++ [.probe 36300000000 0 false]) = true ∧
    accepts p (pre ++ [.probe 38500000000 0 false]) = false := by
  decide

/-- the 10:00 wake-up is delayed by 8 ms (injected): the recalculation 8 ms after 10:00 is accepted, a
    probe inside the window is not judged, but the NEXT boundary (11:00) must again be served within
    5 ms – a recalculation 8 ms after 11:00 is rejected, one 0.3 ms after it accepted -/
example :
    let p : Params := { cal := toyCal, lam := 5000, bound := 3600005000 }
    let cfg : Cfg := .timedate ⟨some [(36000000000, 39600000000)], none, none⟩
    let pre := [Rec.config 0 cfg 32400000000 false, .late 35999999000 8000, .probe 36000006000 0 false,
                .recalc 0 36000007002 true, .probe 36000010000 0 true]
    accepts p pre = true ∧
    accepts p (pre ++ [.recalc 0 39600008000 false]) = false ∧
    accepts p (pre ++ [.recalc 0 39600000300 false, .probe 39600010000 0 false]) = true := by
  decide

/-- one alarm (10:00), two blocks; the output event of block 0 reconfigures block 1 inside the alarm
    processing (its `config` reading is 2 µs later), then cron hands the older reading to block 1:
    accepted because it yields the same output; a different output would be rejected -/
example :
    let p : Params := { cal := toyCal, lam := 5000, bound := 3600005000 }
    let c0 : Cfg := .timedate ⟨some [(36000000000, 39600000000)], none, none⟩
    let c1 : Cfg := .timedate ⟨some [(43200000000, 46800000000)], none, none⟩
    let pre := [Rec.config 0 c0 32400000000 false, .config 1 c0 32400000002 false,
                .recalc 0 36000000002 true, .config 1 c1 36000000004 false]
    accepts p (pre ++ [.recalc 1 36000000002 false, .probe 36000010000 1 false]) = true ∧
    accepts p (pre ++ [.recalc 1 36000000002 true]) = false := by
  decide

end Edzed.Cron

/-! ## Tie by translation

`Gen.TrCron.*` (lean/EdzedModel/Gen/TranslatedCron.lean) is regenerated on every run from the CURRENT Python AST
of `Cron.add_block/remove_block/reload/_maintask`, `Flag`, `TimeDate/TimeSpan.recalc/_event_reconfig`
(tools/py2lean_cron.py).  The theorems below say what those translated definitions are; the references they are
compared with are written by hand (EdzedModel/Cron.lean: the alarm table and the calendar predicates;
EdzedProofs/CronTie.lean: one pass of the scheduler loop in direct style).  The acceptance predicate of this file
stays a SPECIFICATION of cron's timing; what is tied here is everything discrete the specification relies on. -/
namespace Edzed.TrTie
open Edzed.Cron Edzed.Gen.TrCron

/-! ### (a) `Flag`, the alarm table -/

/-- `utils.flag.Flag`: OR / test-and-clear / set / clear / truth value -/
theorem translated_cron_flag_is_model (v o : Bool) :
    (Flag_init o).1 = o ∧
    Flag_OR v o = (v || o, v || o) ∧ Flag_test_clear v = (false, v) ∧ Flag_set v o = (o, o) ∧
    Flag_set v = (true, true) ∧ Flag_clear v = (false, false) ∧ Flag_bool v = (v, v) ∧
    Flag_AND v o = (v && o, v && o) ∧ Flag_test_set v = (true, v) ∧ Flag_invert v = (!v, !v) := by
  cases v <;> cases o <;> decide

/-- the numeric constants under the names `blocklib/cron.py` uses (`_TT_OK`, `_TT_WARNING`, `_TT_ERROR`,
    `SEC_PER_HOUR/MIN/DAY` as found in ITS namespace) are the extracted ones -/
theorem translated_cron_constants_are_extracted :
    ttOk * 1000000 = (Gen.cronTtOkUs : Rat) ∧ ttWarning * 1000000 = (Gen.cronTtWarningUs : Rat) ∧
    ttError * 1000000 = (Gen.cronTtErrorUs : Rat) ∧ secPerHour = (Gen.secPerHour : Rat) ∧
    secPerMin = (Gen.secPerMin : Rat) ∧ secPerDay = (Gen.secPerDay : Rat) := by
  decide +kernel

/-- `Cron.add_block` IS the model's `Table.add`, and asks for a reload iff the key is new and not a full hour -/
theorem translated_cron_add_block_is_model (tz : Nat → Except Exc Nat) (compat : Nat → Bool) (tb : Table)
    (nr : Bool) (t t' b : Nat) (hc : compat b = true) (ht : tz t = .ok t') :
    addBlock (tabPrims tz compat) ⟨tb, nr, t, b⟩ = .ok ⟨tb.add t' b, nr || tb.addNeedsReload t', t', b⟩ :=
  add_is_model tz compat tb nr t t' b hc ht

/-- a block without `recalc` is refused with TypeError before anything is touched -/
theorem translated_cron_add_block_refuses_incompatible (tz : Nat → Except Exc Nat) (compat : Nat → Bool)
    (tb : Table) (nr : Bool) (t b : Nat) (hc : compat b = false) :
    addBlock (tabPrims tz compat) ⟨tb, nr, t, b⟩ = .error .typeError :=
  add_incompatible tz compat tb nr t b hc

/-- `Cron.remove_block` IS the model's `Table.remove` -/
theorem translated_cron_remove_block_is_model (tz : Nat → Except Exc Nat) (compat : Nat → Bool) (tb : Table)
    (nr : Bool) (t t' b : Nat) (ht : tz t = .ok t') :
    removeBlock (tabPrims tz compat) ⟨tb, nr, t, b⟩ =
      .ok ⟨tb.remove t' b, nr || tb.removeNeedsReload t' b, t', b⟩ :=
  remove_is_model tz compat tb nr t t' b ht

/-- `Cron.reload`: the request flag is consumed; the task is woken iff a reload was requested and it runs -/
theorem translated_cron_reload_is_model (nr running wake : Bool) :
    reload ⟨nr, running, wake⟩ = .ok ⟨false, running, wake || (nr && running)⟩ :=
  reload_is_model nr running wake

/-- one call of the TRANSLATED methods on (table, reload flag); times are naive, blocks have `recalc` -/
def trCall (st : Table × Bool) (op : TOp) : Table × Bool :=
  match op with
  | .add t b =>
    match addBlock (tabPrims .ok (fun _ => true)) ⟨st.1, st.2, t, b⟩ with
    | .ok L => (L.alarms, L.needs_reload)
    | .error _ => st
  | .remove t b =>
    match removeBlock (tabPrims .ok (fun _ => true)) ⟨st.1, st.2, t, b⟩ with
    | .ok L => (L.alarms, L.needs_reload)
    | .error _ => st

theorem trCall_table (st : Table × Bool) (op : TOp) : (trCall st op).1 = op.apply st.1 := by
  cases op with
  | add t b => simp [trCall, add_is_model (t' := t), TOp.apply]
  | remove t b => simp [trCall, remove_is_model (t' := t), TOp.apply]

theorem trCall_foldl_table (ops : List TOp) (st : Table × Bool) :
    (ops.foldl trCall st).1 = ops.foldl TOp.apply st.1 := by
  induction ops generalizing st with
  | nil => rfl
  | cons op ops ih => simp only [List.foldl_cons]; rw [ih, trCall_table]

/-- after ANY sequence of add_block / remove_block calls the set registered at each time is exactly the blocks
    whose last call for that time was an `add_block` (untouched pairs stay as they were) -/
theorem translated_cron_registered_after_calls (ops : List TOp) (tb : Table) (nr : Bool) (t b : Nat) :
    (ops.foldl trCall (tb, nr)).1.registered t b = (lastOp ops t b).getD (tb.registered t b) := by
  rw [trCall_foldl_table]; exact registered_after_ops ops tb t b

/-- removing a block from a time it is not registered for changes nothing – neither table nor reload flag -/
theorem translated_cron_remove_unregistered_changes_nothing (tb : Table) (nr : Bool) (t b : Nat)
    (h : tb.NoEmpty) (hr : tb.registered t b = false) :
    trCall (tb, nr) (.remove t b) = (tb, nr) := by
  have := remove_unregistered tb t b h hr
  simp [trCall, remove_is_model (t' := t), this.1, this.2]

/-- no key ever holds an empty set -/
theorem translated_cron_table_keeps_no_empty_set (ops : List TOp) (tb : Table) (nr : Bool) (h : tb.NoEmpty) :
    (ops.foldl trCall (tb, nr)).1.NoEmpty := by
  rw [trCall_foldl_table]
  induction ops generalizing tb with
  | nil => exact h
  | cons op ops ih =>
    simp only [List.foldl_cons]
    cases op with
    | add t b => exact ih _ (noEmpty_add tb t b h)
    | remove t b => exact ih _ (noEmpty_remove tb t b h)

/-- a reload is requested iff the set of NON-hourly keys changed: a call touches the key `t` only, and sets the
    flag exactly when `t` is not a full hour and appeared / disappeared -/
theorem translated_cron_reload_requested_iff_nonhourly_key_changed (tb : Table) (nr : Bool) (op : TOp) :
    let t := match op with | .add t _ => t | .remove t _ => t
    (∀ t', t' ≠ t → (trCall (tb, nr) op).1.isKey t' = tb.isKey t') ∧
    (trCall (tb, nr) op).2 = (nr || (!hourly t && ((trCall (tb, nr) op).1.isKey t != tb.isKey t))) := by
  cases op with
  | add t b =>
    refine ⟨fun t' ht => ?_, ?_⟩
    · simp [trCall, add_is_model (t' := t), isKey_add, ht]
    · simp only [trCall, add_is_model (t' := t), isKey_add, Table.addNeedsReload]
      cases tb.isKey t <;> cases hourly t <;> cases nr <;> simp
  | remove t b =>
    refine ⟨fun t' ht => ?_, ?_⟩
    · simp [trCall, remove_is_model (t' := t), isKey_remove_other _ _ _ _ ht]
    · simp only [trCall, remove_is_model (t' := t), removeNeedsReload_iff]
      cases h1 : tb.isKey t <;> cases h2 : (tb.remove t b).isKey t <;> cases hourly t <;> cases nr <;> simp
      · unfold Table.remove Table.isKey at h2
        unfold Table.isKey at h1
        cases h3 : tb t <;> simp_all

/-- the hourly keys of the model are exactly the extracted `_SET24` -/
theorem translated_cron_hourly_is_set24 (t : Nat) :
    hourly t = Gen.cronSet24.any (fun x => ((x.1 * 60 + x.2.1) * 60 + x.2.2.1) * 1000000 + x.2.2.2 == t) := by
  unfold hourly usPerDay Gen.cronSet24
  simp only [List.any_cons, List.any_nil, Bool.or_false]
  by_cases h : t % 3600000000 = 0 ∧ t < 86400000000
  · have : (t % 3600000000 == 0 && decide (t < 86400000000)) = true := by simp [h]
    rw [this]
    simp only [Bool.true_eq, Bool.or_eq_true, beq_iff_eq]
    omega
  · have : (t % 3600000000 == 0 && decide (t < 86400000000)) = false := by
      cases h1 : (t % 3600000000 == 0) <;> simp_all
    rw [this]
    simp only [Bool.false_eq, Bool.or_eq_false_iff, beq_eq_false_iff_ne]
    omega

/-! ### (b) one pass of `Cron._maintask` -/

variable {σ T DT B : Type}

/-- the statements before `while True:`: the overhead estimate starts at `_TT_OK`, a reload is pending (it also
    initialises the index), no reset, no short sleep -/
theorem translated_cron_init_is_model [Inhabited T] [Inhabited DT] :
    (mtInit : MtLocals T DT).v0 = ttOk ∧ (mtInit : MtLocals T DT).v2 = true ∧
    (mtInit : MtLocals T DT).v1 = false ∧ (mtInit : MtLocals T DT).v3 = false ∧
    (mtInit : MtLocals T DT).v6 = none := ⟨rfl, rfl, rfl, rfl, rfl⟩

/-- the beginning of a pass IS `refHead`: reload → timetable rebuilt from `_SET24` ∪ the CURRENT keys, index
    forgotten; ONE clock reading; unknown index → `bisect_left` for that reading and ALL current clients
    recalculated with it; then `wakeup = timetable[index]` and the sleep loop -/
theorem translated_cron_step_is_model (P : MtPrims σ T DT B) (L : MtLocals T DT) (w : σ) :
    mtStep P L w = refHead P L w := head_is_ref P L w

/-- the body of `for step in range(3)` IS `refBody` (time difference normalised to ±12 h, the check with its
    thresholds, the four ways of sleeping) -/
theorem translated_cron_sleep_body_is_model (P : MtPrims σ T DT B)
    (next brk : MtLocals T DT → σ → Res (MtLocals T DT) σ) (L : MtLocals T DT) (w : σ) :
    mtFor1Body P next brk L w = refBody P next brk L w := body_is_ref P next brk L w

/-- what follows the sleep loop IS `refTail` -/
theorem translated_cron_tail_is_model (P : MtPrims σ T DT B) (L : MtLocals T DT) (w : σ) :
    mtAfter1 P L w = refTail P L w := tail_is_ref P L w

/-- the loop itself: steps 0, 1, 2 in this order, `break` and exhaustion both lead to the tail -/
theorem translated_cron_loop_is_model (P : MtPrims σ T DT B) (L : MtLocals T DT) (w : σ) :
    mtFor1 P (List.range 3) L w =
      refBody P (fun L w => refBody P (fun L w => refBody P (refTail P) (refTail P) { L with v10 := 2 } w)
        (refTail P) { L with v10 := 1 } w) (refTail P) { L with v10 := 0 } w := by
  have e : List.range 3 = [0, 1, 2] := by decide
  rw [e]
  simp only [mtFor1, body_is_ref]
  have t : mtAfter1 P = refTail P := by funext L w; exact tail_is_ref P L w
  simp only [t]

/-- **a reset recalculates every block registered at that moment**: the client set is computed from the world as
    it is when the reset is processed, each block gets the last reading, the index is forgotten (so that the next
    pass re-positions it) and the pass ends -/
theorem translated_cron_reset_recalculates_every_client (P : MtPrims σ T DT B) (L : MtLocals T DT) (w : σ)
    (h : L.v1 = true) :
    mtAfter1 P L w =
      .next { L with v1 := false, v6 := none } (recalcAll P (P.allClients w) L.v7 w) := by
  rw [tail_is_ref]; unfold refTail; simp [h]

/-- **the wake-up set is read after the sleep returned**: the blocks recalculated at an alarm are those
    registered for `wakeup` in the world `w` in which the sleep loop ended (not one remembered from before), with
    the reading taken after the sleep; then the index advances cyclically -/
theorem translated_cron_wakeup_set_read_after_sleep (P : MtPrims σ T DT B) (L : MtLocals T DT) (w : σ) (i : Nat)
    (h1 : L.v1 = false) (h2 : L.v2 = false) (h3 : L.v6 = some i) :
    mtAfter1 P L w =
      .next { L with v6 := some ((i + 1) % L.v5) }
        (if P.hasAlarm w L.v9 then recalcAll P (P.clientsAt w L.v9) L.v7 w else w) := by
  rw [tail_is_ref]; unfold refTail; simp [h1, h2, h3]

/-- a reload request that arrived during the sleep ends the pass at once: nothing is recalculated, the index
    is kept (the next pass rebuilds the timetable) -/
theorem translated_cron_pending_reload_ends_pass (P : MtPrims σ T DT B) (L : MtLocals T DT) (w : σ)
    (h1 : L.v1 = false) (h2 : L.v2 = true) :
    mtAfter1 P L w = .next L w := by
  rw [tail_is_ref]; unfold refTail; simp [h1, h2]

/-- **every key of `_alarms` and every full hour is in the timetable after a reload** (for a `sorted(a.union(b))`
    that contains what it should), and a pass with a pending reload is a pass without one from that timetable
    with the index forgotten -/
theorem translated_cron_reload_rebuilds_timetable (P : MtPrims σ T DT B) (L : MtLocals T DT) (w : σ)
    (hs : ∀ a b x, x ∈ P.sortedUnion a b ↔ x ∈ a ∨ x ∈ b) (h : L.v2 = true) :
    let tt := P.sortedUnion P.set24 (P.alarmKeys w)
    mtStep P L w = mtStep P { L with v2 := false, v4 := tt, v5 := tt.length, v6 := none } w ∧
    ∀ t, (t ∈ P.set24 ∨ t ∈ P.alarmKeys w) ↔ t ∈ tt := by
  refine ⟨?_, fun t => (hs _ _ t).symm⟩
  rw [head_is_ref, head_is_ref]; unfold refHead; simp [h]

/-- **re-positioning uses one reading**: with an unknown index (start, reload, reset) the index is
    `bisect_left(timetable, reading) % tlen` and ALL clients registered after that clock read are recalculated
    with the same reading before anything else happens -/
theorem translated_cron_resync_uses_one_reading (P : MtPrims σ T DT B) (L : MtLocals T DT) (w : σ)
    (h1 : L.v2 = false) (h2 : L.v6 = none) :
    mtStep P L w =
      refWake P { L with v7 := (P.dtnow w).1, v8 := P.timeOf (P.dtnow w).1,
                         v6 := some (P.bisectLeft L.v4 (P.timeOf (P.dtnow w).1) % L.v5) }
        (recalcAll P (P.allClients (P.dtnow w).2) (P.dtnow w).1 (P.dtnow w).2) := by
  rw [head_is_ref]; unfold refHead; simp [h1, h2]

/-- **jump detection**: whenever the check runs (steps 1, 2, or step 0 when already late) and the clock is off by
    more than `_TT_ERROR`, the loop is left with `reset` set and the overhead estimate untouched -/
theorem translated_cron_jump_is_detected (P : MtPrims σ T DT B)
    (next brk : MtLocals T DT → σ → Res (MtLocals T DT) σ) (L : MtLocals T DT) (w : σ)
    (hc : L.v10 > 1 ∨ secondsUntil P L.v9 L.v8 < 0)
    (hj : ratAbs (secondsUntil P L.v9 L.v8) > ttError) :
    mtFor1Body P next brk L w =
      brk { L with v11 := secondsUntil P L.v9 L.v8,
                   v12 := ratAbs (secondsUntil P L.v9 L.v8), v1 := true } w := by
  rw [body_is_ref]; unfold refBody refCheck
  cases hr : L.v1 <;> simp [hc, hj, hr]

/-- still early at step 2 (after the additional short sleep) is a clock problem as well -/
theorem translated_cron_early_at_step2_resets (P : MtPrims σ T DT B)
    (next brk : MtLocals T DT → σ → Res (MtLocals T DT) σ) (L : MtLocals T DT) (w : σ)
    (h2 : L.v10 = 2) (he : secondsUntil P L.v9 L.v8 > 0) :
    mtFor1Body P next brk L w =
      brk { L with v11 := secondsUntil P L.v9 L.v8,
                   v12 := ratAbs (secondsUntil P L.v9 L.v8), v1 := true } w := by
  rw [body_is_ref]; unfold refBody refCheck
  cases hr : L.v1 <;> simp [h2, he, hr]

/-- **the overhead estimate**: at step 1, after a long sleep that ended more than `_TT_OK` (but not more than
    `_TT_ERROR`) late, the estimate is LOWERED by half of (lateness − `_TT_OK`/2) … wait: `s` is negative when
    late, so `overhead − (s + _TT_OK/2)/2` grows; the alarm is then processed -/
theorem translated_cron_overhead_estimate (P : MtPrims σ T DT B)
    (next brk : MtLocals T DT → σ → Res (MtLocals T DT) σ) (L : MtLocals T DT) (w : σ)
    (h1 : L.v10 = 1) (hs : L.v3 = false) (hr : L.v1 = false)
    (hl : secondsUntil P L.v9 L.v8 < -ttOk) (hl0 : secondsUntil P L.v9 L.v8 < 0)
    (hj : ¬ ratAbs (secondsUntil P L.v9 L.v8) > ttError) :
    mtFor1Body P next brk L w =
      brk { L with v11 := secondsUntil P L.v9 L.v8,
                   v12 := ratAbs (secondsUntil P L.v9 L.v8),
                   v0 := L.v0 - (secondsUntil P L.v9 L.v8 + ttOk / 2) * (1 / 2) } w := by
  rw [body_is_ref]; unfold refBody refCheck
  have hz : secondsUntil P L.v9 L.v8 ≤ 0 := Rat.le_of_lt hl0
  have hn : ¬ (-ttOk ≤ secondsUntil P L.v9 L.v8) := Rat.not_le.mpr hl
  simp [h1, hs, hr, hl0, hj, hz, hn]

/-! ### (c) `recalc` and `_event_reconfig` -/

/-- `TimeDate.recalc` hands the model's calendar predicate to `set_output` -/
theorem translated_cron_timedate_recalc_is_pred (cal : Calendar) (c : TDCfg) (now : Nat) :
    tdRecalc (tdPrims cal) c now = timedatePred cal c now := td_recalc_is_pred cal c now

/-- `TimeSpan.recalc` likewise -/
theorem translated_cron_timespan_recalc_is_pred (cal : Calendar) (sp : Span) (now : Nat) :
    tsRecalc (tsPrims cal) sp now = timespanPred cal sp now := ts_recalc_is_pred cal sp now

/-- what an absent item of the event data means (the defaults of the keyword-only parameters), and
    `init_from_value` / `_restore_state` are these very reconfigurations (checked by the translator, which
    otherwise omits the definitions) -/
theorem translated_cron_reconfig_defaults :
    tdReconfigDefaults = [("times", "None"), ("dates", "None"), ("weekdays", "None")] ∧
    tsReconfigDefaults = [("span", "()")] := ⟨rfl, rfl⟩

/-- `TimeDate._event_reconfig`: besides the table calls, in this order: store the new configuration, `reload()`,
    ONE clock reading, `recalc` with that reading -/
theorem translated_cron_timedate_reconfig_order (o n : Bool) :
    (tdReconfig o n).filter (fun a => a matches .storeNew | .reload | .readClock | .recalc _) =
      [.storeNew, .reload, .readClock, .recalc 0] := by
  cases o <;> cases n <;> rfl

/-- **a reconfigured TimeDate is registered exactly at its `boundaries`** (end points of the new `times`, and
    midnight): whatever it was registered for before (anything within the old boundaries), the table calls of
    `_event_reconfig` – old end points removed first, new ones and midnight added afterwards – never raise and
    leave it registered at `t` iff `t ∈ boundaries new` -/
theorem translated_cron_timedate_reconfig_registers_boundaries (old new : TDCfg) (b : Nat) (tb : Table)
    (h0 : ∀ t, tb.registered t b = true → t ∈ boundaries old) :
    ∃ ops, actsOps (tdActOps old new b) (tdReconfig old.times.isSome new.times.isSome) = some ops ∧
      ∀ t, (ops.foldl TOp.apply tb).registered t b = true ↔ t ∈ boundaries new := by
  let rem := match old.times with | some iv => timeEndpoints iv | none => []
  let add := match new.times with | some iv => timeEndpoints iv | none => []
  refine ⟨rem.map (TOp.remove · b) ++ (add.map (TOp.add · b) ++ [TOp.add 0 b]), ?_, fun t => ?_⟩
  · cases old with
    | mk ot od ow =>
    cases new with
    | mk nt nd nw =>
      cases ot <;> cases nt <;> simp [tdReconfig, actsOps, tdActOps, rem, add]
  · rw [registered_reconfig, mem_boundaries]
    constructor
    · rintro (h | h | ⟨hn, hr⟩)
      · exact Or.inl h
      · exact Or.inr h
      · rcases (mem_boundaries old t).mp (h0 t hr) with h | h
        · exact Or.inl h
        · exact absurd h hn
    · rintro (h | h)
      · exact Or.inl h
      · exact Or.inr (Or.inl h)

/-- `TimeSpan._event_reconfig`: ONE clock reading, taken after the new span is stored; the registration filter
    and `recalc` use that same reading; `reload()` comes before `recalc` -/
theorem translated_cron_timespan_reconfig_order :
    tsReconfig.filter (fun a => a matches .storeNew | .reload | .readClock | .recalc _ | .addFutureEndpoints _) =
      [.storeNew, .readClock, .addFutureEndpoints 0, .reload, .recalc 0] := rfl

/-- **a reconfigured TimeSpan is registered exactly at the model's `alarmTimes`** for the reading it took: the
    times of day of the end points that are not before the date of that reading ("future events only"), no
    midnight -/
theorem translated_cron_timespan_reconfig_registers_alarm_times (cal : Calendar) (old new : Span)
    (read : Nat → Nat) (b : Nat) (tb : Table)
    (h0 : ∀ t, tb.registered t b = true → t ∈ (endpoints old).map (·.tod)) :
    ∃ ops, actsOps (tsActOps cal old new read b) tsReconfig = some ops ∧
      ∀ t, (ops.foldl TOp.apply tb).registered t b = true ↔ t ∈ alarmTimes cal (.timespan new) (read 0) := by
  refine ⟨_, rfl, fun t => ?_⟩
  simp only [List.append_nil, List.nil_append]
  rw [registered_after_ops, lastOp_append]
  have e1 : ((endpoints new).filter fun e =>
        decide (({ stampOf cal (read 0) with tod := 0 } : Stamp).Le { e with tod := 0 })).map (fun e => TOp.add e.tod b)
      = (((endpoints new).filter fun e =>
        decide (({ stampOf cal (read 0) with tod := 0 } : Stamp).Le { e with tod := 0 })).map (·.tod)).map (TOp.add · b) := by
    simp [List.map_map]
  have e2 : (endpoints old).map (fun e => TOp.remove e.tod b) = ((endpoints old).map (·.tod)).map (TOp.remove · b) := by
    simp [List.map_map]
  rw [e1, e2, lastOp_adds, lastOp_removes]
  unfold alarmTimes
  rw [mem_sortDedup]
  have := h0 t
  by_cases hm : t ∈ ((endpoints new).filter fun e =>
        decide (({ stampOf cal (read 0) with tod := 0 } : Stamp).Le { e with tod := 0 })).map (·.tod)
  · simp only [hm, ↓reduceIte, Option.getD_some, true_iff]
  · simp only [hm, ↓reduceIte, iff_false]
    by_cases ho : t ∈ (endpoints old).map (·.tod)
    · simp [ho]
    · simp only [ho, ↓reduceIte, Option.getD_none]
      intro hr; exact ho (this hr)

end Edzed.TrTie

/-! ## Tie by translation, second part: construction and configuration (tools/py2lean_cron_cfg.py)

`Gen.TrCronCfg.*` is regenerated from `Cron.__init__/_check_tz/dtnow`, `_get_cron`,
`TimeDate.__init__/_parse3/_export3/parse/get_state`, `TimeSpan.__init__/parse/get_state`. -/
namespace Edzed.TrTie
open Edzed.Cron Edzed.Gen.TrCronCfg

/-- `Cron.__init__`: the SBlock constructor runs first; the service starts with the zone kind it was given, an
    EMPTY alarm table, no queue yet (only declared: it is created in `start()`), no reload pending -/
theorem translated_croncfg_cron_init_is_model (utc : Bool) :
    cronInit utc = [.superInit, .setUtc utc, .setAlarmsEmpty, .declareQueue, .setNeedsReload false] := rfl

/-- `Cron._check_tz` IS the model's `checkZone` -/
theorem translated_croncfg_check_tz_is_model (u it : Bool) (z : Tz) :
    zoneRes (checkTz u ⟨it, z⟩) = checkZone u it (zoneOf z) := check_tz_is_model u it z

/-- … hence: a naive time is taken as it is by both services; a time marked UTC is accepted by the UTC service
    only, and loses the mark; every other zone is a ValueError; a non-time a TypeError whatever its zone -/
theorem translated_croncfg_zone_rules (u : Bool) (z : Tz) :
    checkTz u ⟨true, .naive⟩ = .ok .asIs ∧
    checkTz true ⟨true, .utc⟩ = .ok .stripped ∧ checkTz false ⟨true, .utc⟩ = .error .valueError ∧
    checkTz u ⟨true, .other⟩ = .error .valueError ∧ checkTz u ⟨false, z⟩ = .error .typeError := by
  cases u <;> cases z <;> exact ⟨rfl, rfl, rfl, rfl, rfl⟩

/-- `Cron.dtnow`: the UTC service reads UTC and drops the zone, the local one reads local time – both naive,
    so that all date/time objects stay mutually comparable -/
theorem translated_croncfg_dtnow_is_model (u : Bool) :
    dtnowSrc u = if u then .utcStripped else .localNaive := by cases u <;> rfl

/-- `_get_cron` IS the model's `getCronM` (names `_cron_utc` / `_cron_local`, created reserved) -/
theorem translated_croncfg_get_cron_is_model (circ : List SvcBlk) (utc : Bool) :
    (match getCron gcPrims circ utc with | .ok r => some r | .error _ => none) = getCronM circ utc :=
  get_cron_is_model circ utc

/-- **ONE service block per time-zone kind, however many clients are created**: whatever `_get_cron(utc)` returned,
    every later call with the same `utc` returns that very block and leaves the circuit as it is; the block is a
    reserved Cron of that kind named `_cron_utc` / `_cron_local`; the service of the other kind is not disturbed -/
theorem translated_croncfg_one_service_block_per_kind (circ circ' : List SvcBlk) (utc : Bool) (b : SvcBlk)
    (h : getCron gcPrims circ utc = .ok (b, circ')) :
    getCron gcPrims circ' utc = .ok (b, circ') ∧
    b.name = cronName utc ∧ b.isCron = true ∧ (circ' = circ ∨ circ' = circ ++ [b]) ∧
    circ'.find? (fun x => x.name == cronName (!utc)) = circ.find? (fun x => x.name == cronName (!utc)) := by
  have hm : getCronM circ utc = some (b, circ') := by rw [← get_cron_is_model, h]
  have h2 := getCronM_idempotent circ circ' utc b hm
  obtain ⟨r1, r2, r3, _⟩ := getCronM_result circ circ' utc b hm
  refine ⟨?_, r1, r2, r3, getCronM_other_kind circ circ' utc b hm⟩
  have := get_cron_is_model circ' utc
  rw [h2] at this
  cases hg : getCron gcPrims circ' utc with
  | ok r => simp [hg] at this; rw [this]
  | error e => simp [hg] at this

/-- non-vacuity: two TimeDate and one UTC TimeSpan in an empty circuit create exactly two service blocks -/
example :
    (do let (_, c1) ← getCron gcPrims [] false
        let (_, c2) ← getCron gcPrims c1 false
        let (_, c3) ← getCron gcPrims c2 true
        let (_, c4) ← getCron gcPrims c3 false
        pure (c4.map (·.name))) = (.ok ["_cron_local", "_cron_utc"] : Except GcExc (List String)) := by
  rfl

variable {TA DA SA TI DI SI TL DL SL ε : Type}

/-- an optional argument: `None` stays `None`, anything else goes through the interval constructor (which may raise) -/
def optParse {α β : Type} (f : α → Except ε β) : Option α → Except (PExc ε) (Option β)
  | none => .ok none
  | some a => (liftP (f a)).map some

/-- `TimeDate._parse3` IS: times first, then dates, then the weekdays (None stays None; a string is converted
    character by character, blanks and tabs skipped; the model's `normWeekdays` does the rest) – the first failure
    in this order is the one raised -/
theorem translated_croncfg_parse3_is_model (P : CfgPrims TA DA SA TI DI SI TL DL SL ε)
    (t : Option TA) (d : Option DA) (w : WdArg) :
    parse3 P t d w =
      (match optParse P.timeInterval t with
       | .error e => .error e
       | .ok pt =>
         match optParse P.dateInterval d with
         | .error e => .error e
         | .ok pd =>
           match w with
           | .none => .ok (pt, pd, none)
           | w =>
             match wdSeq P w with
             | .error e => .error e
             | .ok xs =>
               match normWeekdays xs with
               | some s => .ok (pt, pd, some s)
               | none => .error .valueError) := by
  have wd : ∀ (pt : Option TI) (pd : Option DI),
      (match w with
       | .none => (.ok (pt, pd, none) : Except (PExc ε) (Option TI × Option DI × Option (List Int)))
       | weekdays =>
         match wdSeq P weekdays with
         | .error e => .error e
         | .ok xs =>
           if (!(xs.all fun x => ((decide ((0 : Int) ≤ x)) && (decide (x ≤ (7 : Int)))))) then .error .valueError
           else .ok (pt, pd, some (Gen.TrCronCfg.setOf (xs.map fun x => (if (x == (0 : Int)) then (7 : Int) else x))))) =
      (match w with
       | .none => .ok (pt, pd, none)
       | w =>
         match wdSeq P w with
         | .error e => .error e
         | .ok xs =>
           match normWeekdays xs with
           | some s => .ok (pt, pd, some s)
           | none => .error .valueError) := by
    intro pt pd
    cases w with
    | none => rfl
    | str cs =>
      simp only []
      cases wdSeq P (.str cs) with
      | error e => rfl
      | ok xs =>
        simp only [normWeekdays, setOf_eq_intSet]
        cases hv : (xs.all fun x => decide (0 ≤ x) && decide (x ≤ 7)) <;> simp [hv]
    | seq ys =>
      simp only []
      cases wdSeq P (.seq ys) with
      | error e => rfl
      | ok xs =>
        simp only [normWeekdays, setOf_eq_intSet]
        cases hv : (xs.all fun x => decide (0 ≤ x) && decide (x ≤ 7)) <;> simp [hv]
  unfold parse3 optParse
  cases t with
  | none =>
    cases d with
    | none => simp only [pure, Except.pure]; exact wd none none
    | some db =>
      cases h2 : P.dateInterval db with
      | error e => simp [liftP, Except.map, pure, Except.pure, h2]
      | ok y => simp only [liftP, Except.map, pure, Except.pure, h2]; exact wd none (some y)
  | some ta =>
    cases h1 : P.timeInterval ta with
    | error e => simp [liftP, Except.map, h1]
    | ok x =>
      cases d with
      | none => simp only [liftP, Except.map, pure, Except.pure, h1]; exact wd (some x) none
      | some db =>
        cases h2 : P.dateInterval db with
        | error e => simp [liftP, Except.map, h1, h2]
        | ok y => simp only [liftP, Except.map, h1, h2]; exact wd (some x) (some y)

/-- the characters of a weekday string: blank and tab are skipped, every other character goes through `int()` -/
theorem translated_croncfg_weekday_string (P : CfgPrims TA DA SA TI DI SI TL DL SL ε) (s : List Char) :
    wdSeq P (.str s) = (s.filter fun c => c != ' ' && c != '\t').mapM fun c => liftP (P.intOfChar c) := by
  simp only [wdSeq]
  congr 1
  apply List.filter_congr
  intro c _
  by_cases h1 : c = ' ' <;> by_cases h2 : c = '\t' <;> simp [h1, h2]

/-- weekday numbers: anything outside 0..7 is a ValueError, 0 and 7 both mean Sunday (stored as 7), the stored
    set is canonical -/
theorem translated_croncfg_weekday_rules (P : CfgPrims TA DA SA TI DI SI TL DL SL ε) (xs : List Int) :
    (parse3 P none none (.seq xs) =
      match normWeekdays xs with
      | some s => .ok (none, none, some s)
      | none => .error .valueError) ∧
    parse3 P none none (.seq [0, 7, 3, 7]) = .ok (none, none, some [3, 7]) ∧
    (match parse3 P none none (.seq [1, 8]) with | .error .valueError => True | _ => False) := by
  refine ⟨?_, by rfl, by simp [parse3, wdSeq, pure, Except.pure]⟩
  rw [translated_croncfg_parse3_is_model]; rfl

/-- BRIDGE C07 ↔ C13 (weekday sequences): what the translated `_parse3` stores for a sequence of weekday numbers is,
    number by number, the list that C13's model of `TimeDate.parse` answers (`Interval.parseWeekdays`), and the two
    refuse the same sequences – for every sequence of integers. Before this theorem the two normal forms
    (`Cron.normWeekdays`, a canonical `Int` set; `Interval.weekdaysOfInts`, a filter of 1..7) met in the
    correspondence only (driver op `interval td`). -/
theorem translated_croncfg_weekdays_are_c13_weekdays (P : CfgPrims TA DA SA TI DI SI TL DL SL ε) (xs : List Int) :
    (match parse3 P none none (.seq xs) with
     | .ok (_, _, some s) => Interval.parseWeekdays (.ints xs) = .ok (s.map Int.toNat)
     | .ok (_, _, none) => False
     | .error .valueError => Interval.parseWeekdays (.ints xs) = .err .value
     | .error _ => False) := by
  rw [(translated_croncfg_weekday_rules P xs).1]
  cases h : normWeekdays xs with
  | some s => exact WeekdayBridge.normWeekdays_some h
  | none => exact WeekdayBridge.normWeekdays_none h

/-- BRIDGE C07 ↔ C13 (weekday strings): with `int(c)` = the digit's value for an ASCII digit and a failure for every
    other ASCII character (what CPython does; stated as the hypothesis on the primitive), the translated `_parse3`
    and C13's `parseWeekdays` agree on every ASCII weekday string: same refusals, same weekdays. -/
theorem translated_croncfg_weekday_strings_are_c13_weekdays (P : CfgPrims TA DA SA TI DI SI TL DL SL ε)
    (e0 : ε) (hint : ∀ c, P.intOfChar c = if Interval.isDigit c then .ok (Int.ofNat (Interval.dval c)) else .error e0)
    (s : List Char) (ha : Interval.asciiOk s = true) :
    (match parse3 P none none (.str s) with
     | .ok (_, _, some w) => Interval.parseWeekdays (.str s) = .ok (w.map Int.toNat)
     | .ok (_, _, none) => False
     | .error _ => Interval.parseWeekdays (.str s) = .err .value) := by
  rw [translated_croncfg_parse3_is_model]
  simp only [optParse]
  rw [translated_croncfg_weekday_string]
  have hf : (s.filter fun c => c != ' ' && c != '\t') = s.filter fun c => !(c == ' ' || c == '\t') := by
    apply List.filter_congr
    intro c _
    by_cases h1 : c = ' ' <;> by_cases h2 : c = '\t' <;> simp [h1, h2, bne]
  rw [hf]
  generalize hcs : (s.filter fun c => !(c == ' ' || c == '\t')) = cs
  have hpw : Interval.parseWeekdays (.str s) =
      if cs.all Interval.isDigit then Interval.weekdaysOfInts (cs.map fun c => Int.ofNat (Interval.dval c))
      else .err .value := by
    simp only [Interval.parseWeekdays, ha, Bool.not_true, Bool.false_eq_true, ↓reduceIte, hcs]
  -- the character-by-character conversion: all digits -> their values, otherwise the first failure
  have hmap : ∀ l : List Char,
      (l.mapM fun c => liftP (P.intOfChar c)) =
        if l.all Interval.isDigit then .ok (l.map fun c => Int.ofNat (Interval.dval c))
        else .error (.fromParser e0) := by
    intro l
    induction l with
    | nil => rfl
    | cons c r ih =>
      rw [List.mapM_cons, ih, hint]
      by_cases hc : Interval.isDigit c = true
      · by_cases hr : r.all Interval.isDigit = true
        · simp [hc, hr, liftP, bind, Except.bind, pure, Except.pure]
        · simp [hc, hr, liftP, bind, Except.bind]
      · simp [hc, liftP, bind, Except.bind]
  rw [hmap cs, hpw]
  by_cases hd : cs.all Interval.isDigit = true
  · simp only [hd, ↓reduceIte]
    have hb := WeekdayBridge.normWeekdays_is_weekdaysOfInts (cs.map fun c => Int.ofNat (Interval.dval c))
    cases hn : normWeekdays (cs.map fun c => Int.ofNat (Interval.dval c)) with
    | some w => rw [hn] at hb; simp only []; exact hb.symm
    | none => rw [hn] at hb; simp only []; exact hb.symm
  · simp only [hd, Bool.false_eq_true, ↓reduceIte]

/-- non-vacuity: a concrete sequence and a concrete string on both sides of the bridge -/
example : normWeekdays [0, 7, 3, 7] = some [3, 7] ∧ Interval.parseWeekdays (.ints [0, 7, 3, 7]) = .ok [3, 7] ∧
    Interval.parseWeekdays (.str "7 30".toList) = .ok [3, 7] ∧ normWeekdays [1, 8] = none ∧
    Interval.parseWeekdays (.ints [1, 8]) = .err .value := by decide

/-- `_export3`, `parse`, `get_state` -/
theorem translated_croncfg_export_is_model (P : CfgPrims TA DA SA TI DI SI TL DL SL ε)
    (t : Option TI) (d : Option DI) (w : Option (List Int)) :
    export3 P t d w = (t.map P.timesAsList, d.map P.datesAsList, w.map intSet) ∧
    tdGetState P t d w = export3 P t d w := by
  refine ⟨?_, rfl⟩
  unfold export3; cases w <;> simp [setOf_eq_intSet]

theorem translated_croncfg_parse_is_export_of_parse3 (P : CfgPrims TA DA SA TI DI SI TL DL SL ε)
    (t : Option TA) (d : Option DA) (w : WdArg) :
    tdParse P t d w = (parse3 P t d w).map fun r => export3 P r.1 r.2.1 r.2.2 := by
  unfold tdParse; cases parse3 P t d w <;> rfl

/-- the exported weekdays as an argument again -/
def wdArgOf : Option (List Int) → WdArg
  | none => .none
  | some s => .seq s

/-- **get_state / parse round trip**: whatever configuration `_parse3` produced, exporting it (`get_state`) and
    parsing the export again gives the same configuration – provided the interval classes accept their own
    `as_list()` output (`hT`, `hD`: C13's `asList_roundtrip`) -/
theorem translated_croncfg_export_parse_roundtrip (P : CfgPrims TA DA SA TI DI SI TL DL SL ε)
    (tArg : TL → TA) (dArg : DL → DA)
    (hT : ∀ x, P.timeInterval (tArg (P.timesAsList x)) = .ok x)
    (hD : ∀ x, P.dateInterval (dArg (P.datesAsList x)) = .ok x)
    (t : Option TA) (d : Option DA) (w : WdArg) (cfg : Option TI × Option DI × Option (List Int))
    (h : parse3 P t d w = .ok cfg) :
    parse3 P ((export3 P cfg.1 cfg.2.1 cfg.2.2).1.map tArg) ((export3 P cfg.1 cfg.2.1 cfg.2.2).2.1.map dArg)
      (wdArgOf (export3 P cfg.1 cfg.2.1 cfg.2.2).2.2) = .ok cfg := by
  obtain ⟨ct, cd, cw⟩ := cfg
  -- the weekdays of a parsed configuration are a fixed point of the normalisation
  have hw : ∀ s, cw = some s → normWeekdays s = some s := by
    intro s hs
    rw [translated_croncfg_parse3_is_model] at h
    cases h1 : optParse P.timeInterval t with
    | error e => simp [h1] at h
    | ok pt =>
      cases h2 : optParse P.dateInterval d with
      | error e => simp [h1, h2] at h
      | ok pd =>
        simp only [h1, h2] at h
        cases w with
        | none => simp at h; simp_all
        | str cs =>
          simp only [] at h
          cases h3 : wdSeq P (.str cs) with
          | error e => simp [h3] at h
          | ok xs =>
            simp only [h3] at h
            cases h4 : normWeekdays xs with
            | none => simp [h4] at h
            | some s' =>
              simp only [h4, Except.ok.injEq, Prod.mk.injEq] at h
              have : s' = s := by simp_all
              exact normWeekdays_fixed xs s (this ▸ h4)
        | seq ys =>
          simp only [] at h
          have h3 : wdSeq P (.seq ys) = .ok ys := rfl
          simp only [h3] at h
          cases h4 : normWeekdays ys with
          | none => simp [h4] at h
          | some s' =>
            simp only [h4, Except.ok.injEq, Prod.mk.injEq] at h
            have : s' = s := by simp_all
            exact normWeekdays_fixed ys s (this ▸ h4)
  rw [translated_croncfg_parse3_is_model]
  have e1 : optParse P.timeInterval ((export3 P ct cd cw).1.map tArg) = .ok ct := by
    cases ct <;> simp [export3, optParse, hT, liftP, Except.map]
  have e2 : optParse P.dateInterval ((export3 P ct cd cw).2.1.map dArg) = .ok cd := by
    cases cd <;> simp [export3, optParse, hD, liftP, Except.map]
  simp only [e1, e2]
  cases cw with
  | none => rfl
  | some s =>
    have hs := hw s rfl
    have hss : intSet s = s := by
      unfold normWeekdays at hs
      split at hs
      · have : SSorted s := by
          have := Option.some.inj hs
          rw [← this]; exact intSet_sorted _
        exact intSet_of_sorted s this
      · cases hs
    simp only [export3, Option.map_some, wdArgOf, setOf_eq_intSet, hss]
    have h3 : wdSeq P (.seq s) = .ok s := rfl
    simp only [h3, hs]

/-- **the configuration given to the constructor = the configuration a `reconfig` event with the same arguments
    installs**: the constructor stores `initdef = parse(args) = export(parse3(args))`; initialisation hands it to
    `init_from_value` = `_event_reconfig(**initdef)` (`translated_cron_reconfig_defaults`), which parses it again –
    and arrives at `parse3(args)`, the configuration a direct `reconfig(args)` installs -/
theorem translated_croncfg_init_config_is_reconfig_config (P : CfgPrims TA DA SA TI DI SI TL DL SL ε)
    (tArg : TL → TA) (dArg : DL → DA)
    (hT : ∀ x, P.timeInterval (tArg (P.timesAsList x)) = .ok x)
    (hD : ∀ x, P.dateInterval (dArg (P.datesAsList x)) = .ok x)
    (t : Option TA) (d : Option DA) (w : WdArg) (initdef : Option TL × Option DL × Option (List Int))
    (h : tdParse P t d w = .ok initdef) :
    parse3 P (initdef.1.map tArg) (initdef.2.1.map dArg) (wdArgOf initdef.2.2) = parse3 P t d w := by
  rw [translated_croncfg_parse_is_export_of_parse3] at h
  cases hp : parse3 P t d w with
  | error e => simp [hp, Except.map] at h
  | ok cfg =>
    simp only [hp, Except.map, Except.ok.injEq] at h
    rw [← h]
    exact translated_croncfg_export_parse_roundtrip P tArg dArg hT hD t d w cfg hp

/-- non-vacuity: with intervals that are their own list form, `weekdays="1 0 7"` is Monday and Sunday, exported as
    `[1, 7]`, and parsing `[1, 7]` gives the same set -/
example :
    let P : CfgPrims Nat Nat Nat Nat Nat Nat Nat Nat Nat Unit :=
      { timeInterval := .ok, dateInterval := .ok, dtInterval := .ok, timesAsList := id, datesAsList := id,
        spanAsList := id, intOfChar := fun c => if c.isDigit then .ok (c.toNat - 48) else .error () }
    tdParse P (some 5) none (.str ['1', ' ', '0', '\t', '7']) = .ok (some 5, none, some [1, 7]) ∧
    parse3 P (some 5) none (.seq [1, 7]) = .ok (some 5, none, some [1, 7]) := by
  exact ⟨rfl, rfl⟩

/-- `TimeSpan.parse` / `get_state`, and their round trip under the same kind of hypothesis -/
theorem translated_croncfg_timespan_parse_is_model (P : CfgPrims TA DA SA TI DI SI TL DL SL ε) (sArg : SL → SA)
    (hS : ∀ x, P.dtInterval (sArg (P.spanAsList x)) = .ok x) (span : SA) (x : SI) :
    tsParse P span = (liftP (P.dtInterval span)).map P.spanAsList ∧ tsGetState P x = P.spanAsList x ∧
    tsParse P (sArg (tsGetState P x)) = .ok (P.spanAsList x) := by
  refine ⟨rfl, rfl, ?_⟩
  simp [tsParse, tsGetState, hS, liftP, Except.map]

/-- the constructors: the service block is obtained FIRST, the configuration attributes start empty, `initdef=` is
    refused with TypeError before anything is parsed, the configuration is parsed into `initdef` (a bad one fails
    here, in the constructor), and only then the SBlock constructor runs with that `initdef` -/
theorem translated_croncfg_client_init_is_model :
    tdInit = [.getCron, .clearTimes, .clearDates, .clearWeekdays, .refuseInitdef, .computeInitdef, .superInit] ∧
    tsInit = [.getCron, .emptySpan, .refuseInitdef, .computeInitdef, .superInit] ∧
    tdInitDefaults = [("times", "None"), ("dates", "None"), ("weekdays", "None"), ("utc", "False")] ∧
    tsInitDefaults = [("span", "()"), ("utc", "False")] := ⟨rfl, rfl, rfl, rfl⟩

/-- the `range_endpoints()` that `_event_reconfig` iterates over IS the function translated from timeinterval.py
    (TrTie.translated_interval_range_endpoints_is_model in C13): on the microsecond scale of this model's
    configuration its values are exactly `timeEndpoints` -/
theorem translated_cron_time_endpoints_are_translated_range_endpoints (tzAware : Bool)
    (iv : List Interval.Range) (t : Nat) :
    t ∈ timeEndpoints (iv.map fun r => (Interval.timeUs r.1, Interval.timeUs r.2)) ↔
      ∃ e ∈ Gen.TrIv.range_endpoints (IntervalTie.modelPrims tzAware) .time iv, Interval.timeUs e = t := by
  have m := (IntervalTie.range_endpoints_eq tzAware .time iv).2
  simp only [timeEndpoints, List.mem_flatMap, List.mem_map, List.mem_cons, List.not_mem_nil, or_false]
  constructor
  · rintro ⟨p, ⟨r, hr, rfl⟩, h⟩
    rcases h with h | h
    · refine ⟨r.1, (m _).2 ?_, h.symm⟩
      simp only [Interval.rangeEndpoints, List.mem_flatMap]; exact ⟨r, hr, by simp⟩
    · refine ⟨r.2, (m _).2 ?_, h.symm⟩
      simp only [Interval.rangeEndpoints, List.mem_flatMap]; exact ⟨r, hr, by simp⟩
  · rintro ⟨e, he, rfl⟩
    have := (m e).1 he
    simp only [Interval.rangeEndpoints, List.mem_flatMap, List.mem_cons, List.not_mem_nil, or_false] at this
    obtain ⟨r, hr, h⟩ := this
    exact ⟨_, ⟨r, hr, rfl⟩, by rcases h with h | h <;> simp [h]⟩

end Edzed.TrTie

/-! ## The TIMING of the translated loop (EdzedProofs/CronTiming.lean)

`mtStep` (one pass of `while True:` of `Cron._maintask`, regenerated from the source) run in an environment model
`TimedEnv`: wall clock read through `dtnow()` (monotone, a read costs at most `L`), the four ways of sleeping
(each returns no earlier than requested and at most `W` later), a group of recalculations costs at most `C`,
declared forward jumps of the clock (at most `J` per primitive step; `J = 0`: none).  All times are rationals
in seconds; the float arithmetic of the code is treated as exact (the convention of the tie).
`wp E M Φ r`: `Φ` holds at the end of the pass `r` for EVERY behaviour of the environment, no exception is
raised, and every awaited sleep is positive and at most `M`. -/

namespace Edzed.TrTie
open Edzed.Cron Edzed.Gen.TrCron

section timing
variable {σ T DT B : Type} {P : MtPrims σ T DT B}

/-- **the ±12 h normalisation is right**: for an instant `A` whose time of day is `a` and a reading less than
    12 h away from it the `sleeptime` computed by the loop is exactly `A − reading` (negative: late) -/
theorem translated_cron_timing_sleeptime_is_distance (E : TimedEnv P) (a : T) (x : DT) (A : Rat) (k : Int)
    (hA : A = (k : Rat) * secPerDay + todS P a)
    (h1 : -(secPerDay / 2) < A - E.abs x) (h2 : A - E.abs x < secPerDay / 2) :
    secondsUntil P a (P.timeOf x) = A - E.abs x := secondsUntil_eq E a x A k hA h1 h2

/-- **one pass with a known index serves its alarm**: the loop is positioned at entry `i` (time of day `a`) and
    heading for the instant `A`; the latest reading is at most `G` before `A`, the clock at most `lat` after it.
    Then for every behaviour of the environment the pass ends as `PassOutcome` says: SERVED with a reading in
    `[A, A + _TT_ERROR]` that is at most `max (lat + L) (2L + W)` (+ the jumps declared during the pass) after
    `A`, recalculating exactly the blocks registered for `a` after the sleep, index + 1; or RELOAD (queue item);
    or RESET – only with a reading more than `_TT_ERROR` past `A` – recalculating every client.  No awaited sleep
    is longer than `G` (the distance to the alarm): the loop cannot stall. -/
theorem translated_cron_timing_pass_serves_alarm (E : TimedEnv P) (tt : List T) (n i : Nat) (a : T)
    (A G lat UP : Rat) (L : MtLocals T DT) (w : σ)
    (K : KnownSt E tt n i a A G lat L w)
    (kA : Int) (hA : A = (kA : Rat) * secPerDay + todS P a) (hG : G < secPerDay / 2)
    (hU0 : A + lat + E.L ≤ UP) (hU2 : A + 2 * E.L + E.W ≤ UP)
    (hwin : UP + 7 * E.J < A + secPerDay / 2) :
    wp E G (PassOutcome E tt n i a A G (E.off w) UP 7) (mtStep P L w) :=
  pass_known E G tt n i a A G lat UP L w (le_refl _) K kA hA hG hU0 hU2 hwin

/-- **a pass with an unknown index** (start, after a reload, after a reset): one reading `r`; the pass heads for
    the FIRST instant `A ≥ r` whose time of day is in the timetable (`A ≤ r + G`), all clients are recalculated
    with `r`, then as above with the bound `2L + W + C` -/
theorem translated_cron_timing_resync_pass (E : TimedEnv P) (tt : List T) (n : Nat) (g G : Rat)
    (L : MtLocals T DT) (w : σ) (h1 : L.v1 = false) (h2 : L.v2 = false) (h6 : L.v6 = none)
    (h4 : L.v4 = tt) (h5 : L.v5 = n) (hlen : tt.length = n) (hov : ttOk ≤ L.v0)
    (ok : TTok P tt g G) (hG : G < secPerDay / 2)
    (hwin : 2 * E.L + E.W + E.C + 8 * E.J < secPerDay / 2) :
    ∃ idx a A, ∃ kA : Int, idx < n ∧ tt[idx]? = some a ∧ A = (kA : Rat) * secPerDay + todS P a ∧
      E.abs (P.dtnow w).1 ≤ A ∧ A ≤ E.abs (P.dtnow w).1 + G ∧
      wp E G (PassOutcome E tt n idx a A G (E.off w) (A + 2 * E.L + E.W + E.C) 8) (mtStep P L w) :=
  pass_resync E G tt n g G L w (le_refl _) h1 h2 h6 h4 h5 hlen hov ok (ok.bis _) hG hwin

/-- a pending reload is a pass with an unknown index on the timetable rebuilt from `_SET24` and the CURRENT keys -/
theorem translated_cron_timing_reload_pass (L : MtLocals T DT) (w : σ) (h : L.v2 = true) :
    mtStep P L w = mtStep P ({ L with v2 := false, v4 := P.sortedUnion P.set24 (P.alarmKeys w), v5 := (P.sortedUnion P.set24 (P.alarmKeys w)).length, v6 := none } : MtLocals T DT) w :=
  head_reload L w h

/-- **no alarm is skipped between two consecutive passes**: after a SERVED pass the loop is positioned at the next
    entry of the timetable and heads for `A + nextGap` – the first instant after `A` whose time of day is in the
    timetable – with the invariant of `…_pass_serves_alarm` re-established -/
theorem translated_cron_timing_no_alarm_skipped (E : TimedEnv P) (tt : List T) (n i : Nat) (a : T)
    (A G g off0 UP m : Rat) (L' : MtLocals T DT) (w' : σ) (hlen : tt.length = n) (hi : i < n)
    (hget : tt[i]? = some a) (ok : TTok P tt g G) (kA : Int) (hA : A = (kA : Rat) * secPerDay + todS P a)
    (h : PassOutcome E tt n i a A G off0 UP m L' w') (hs : L'.v2 = false) (hs6 : L'.v6 ≠ none) :
    ∃ a' kA', tt[(i + 1) % n]? = some a' ∧
      A + nextGap P tt i = ((kA' : Int) : Rat) * secPerDay + todS P a' ∧
      A ≤ E.abs L'.v7 ∧ E.abs L'.v7 ≤ A + ttError ∧ E.abs L'.v7 ≤ UP + m * E.J ∧
      KnownSt E tt n ((i + 1) % n) a' (A + nextGap P tt i) G
        (UP - A + E.C + (m + 1) * E.J - nextGap P tt i) L' w' :=
  served_next E tt n i a A G g off0 UP m L' w' hlen hi hget ok kA hA h hs hs6

/-- **the service guarantee for every number of passes** (S2 of the acceptance predicate, from the environment
    assumptions instead of trace acceptance).  Without clock jumps (`J = 0`), with `2L + W + C ≤ _TT_ERROR` and
    consecutive timetable entries at least `L + C` and at most `G < 12 h` apart: from the initial state of
    `_maintask`, EACH of the first `N` passes – for every `N` and every behaviour of the environment – heads for
    an instant `A` of the timetable and either recalculates exactly the blocks registered for its time of day
    with a reading `r`, `A ≤ r ≤ A + 2L + W + C`, and advances the index by one, or is cut short by a reload
    request (the next pass re-positions the index with ONE reading and recalculates everybody with it); it never
    ends in a reset, never raises, and never awaits a sleep longer than `G`. -/
theorem translated_cron_timing_service_every_pass [Inhabited T] [Inhabited DT] (E : TimedEnv P) (g G : Rat)
    (hJ0 : E.J = 0) (hlam : lamServe E ≤ ttError) (hg : E.L + E.C ≤ g) (hG : G < secPerDay / 2)
    (htt : ∀ w, TTok P (P.sortedUnion P.set24 (P.alarmKeys w)) g G) (N : Nat) (w : σ) :
    allPasses E G (GoodPass E G) N (mtInit : MtLocals T DT) w :=
  all_passes_good E g G hJ0 hlam hg hG htt N mtInit w ⟨rfl, le_refl _, Or.inl rfl⟩

/-- … and from any state between two passes -/
theorem translated_cron_timing_service_from_ready (E : TimedEnv P) (g G : Rat)
    (hJ0 : E.J = 0) (hlam : lamServe E ≤ ttError) (hg : E.L + E.C ≤ g) (hG : G < secPerDay / 2)
    (htt : ∀ w, TTok P (P.sortedUnion P.set24 (P.alarmKeys w)) g G) (N : Nat)
    (L : MtLocals T DT) (w : σ) (h : Ready E g G L w) :
    allPasses E G (GoodPass E G) N L w :=
  all_passes_good E g G hJ0 hlam hg hG htt N L w h

/-- **the longest distance in the timetable is one hour, because of the hourly `_SET24` entries**: in a strictly
    sorted timetable that contains the 24 full hours consecutive entries (cyclically) are at most 3600 s apart –
    so `G = 3600` in the theorems above, and no awaited sleep is longer than one hour -/
theorem translated_cron_timing_hourly_gap (htod : ∀ t, 0 ≤ todS P t ∧ todS P t < secPerDay) (tt : List T)
    (hs : SortedTT P tt) (hh : Hourly P tt) (i : Nat) (hi : i < tt.length) : nextGap P tt i ≤ 3600 :=
  gap_le_hour htod tt hs hh i hi

/- FULL STATEMENT (not proved): for every block registered with the service and every instant `t` that is not within
   `lamServe` after a boundary of its configuration, the block's output at `t` is `pred cal cfg t` – i.e. hypothesis
   S2 (`coverage`) of `accepted_trace_correct` derived from `TimedEnv` and the translated loop instead of trace
   acceptance.  Missing: (a) the instantiation of `T`, `DT`, `abs`, `todS` with integer microseconds; (b) every
   boundary of a registered block is an instant of the loop's timetable (from
   `translated_cron_timedate_reconfig_registers_boundaries`, `…_timespan_reconfig_registers_alarm_times`,
   `…_reload_rebuilds_timetable`, `pred_piecewise_constant`); (c) a world model in which `recalc blk r` sets the
   block's output to `pred cal cfg r` (`translated_cron_timedate_recalc_is_pred`).  (b) + (c) are the hypothesis
   `hconst` / the reading `pr (abs r)` below. -/
/-- PARTIAL connection to the acceptance predicate: for a quantity `pr` of the wall clock that can change only at
    instants of the timetable (`hconst`: constant from `A` up to the next instant `A + nextGap`), the value computed
    from the reading of a SERVED pass is the right one at every instant from `UP + m·J` (at most `lamServe` after
    `A` without jumps) until the next alarm instant -/
theorem translated_cron_timing_value_right_until_next_alarm_partial (E : TimedEnv P) (tt : List T) (n i : Nat)
    (a : T) (A G g off0 UP m : Rat) (L' : MtLocals T DT) (w' : σ) (hlen : tt.length = n) (hi : i < n)
    (hget : tt[i]? = some a) (ok : TTok P tt g G) (kA : Int) (hA : A = (kA : Rat) * secPerDay + todS P a)
    (h : PassOutcome E tt n i a A G off0 UP m L' w') (hs : L'.v2 = false) (hs6 : L'.v6 ≠ none)
    (pr : Rat → Bool)
    (hconst : ∀ x y, A ≤ x → x ≤ y → y < A + nextGap P tt i → pr x = pr y)
    (t : Rat) (ht1 : UP + m * E.J ≤ t) (ht2 : t < A + nextGap P tt i) :
    pr t = pr (E.abs L'.v7) := by
  obtain ⟨_, _, _, _, h1, _, h3, _⟩ :=
    served_next E tt n i a A G g off0 UP m L' w' hlen hi hget ok kA hA h hs hs6
  exact (hconst (E.abs L'.v7) t h1 (by linarith) ht2).symm

/-- what `wp` demands of an awaited sleep: it is positive and at most `M` (so `wp E G …` = no stall), and of an
    exception: that it does not happen -/
theorem translated_cron_timing_wp_bounds_sleeps (E : TimedEnv P) (M d : Rat) (Φ : MtLocals T DT → σ → Prop)
    (w : σ) (k : σ → Res (MtLocals T DT) σ) (kq : Bool → σ → Res (MtLocals T DT) σ) (e : MExc)
    (l : MtLocals T DT) :
    (wp E M Φ (.sleep d w k) → 0 < d ∧ d ≤ M) ∧ (wp E M Φ (.waitQueue d w kq) → 0 < d ∧ d ≤ M) ∧
    ¬ wp E M Φ (.raise e l w) := by
  refine ⟨fun h => ?_, fun h => ?_, fun h => ?_⟩ <;> simp only [wp] at h
  · exact ⟨h.1, h.2.1⟩
  · exact ⟨h.1, h.2.1⟩

end timing

/-! ### the hypotheses are satisfiable (EdzedProofs/CronTimingDemo.lean)

`Demo.demoE`: the world is the wall clock (rational seconds), a reading returns it, `time.sleep(d)` advances it by
`d`, awaited sleeps return up to 1 ms late, no jumps; timetable 00:00 / 08:00 / 16:00 (`Demo.demo_ttok`). -/

open Edzed.Cron.Demo in
/-- the environment assumptions and the timetable assumptions of `…_service_every_pass` hold in the demo
    environment: every pass of the translated loop, from its initial state at any clock value, is a `GoodPass` -/
example (N : Nat) (w : Rat) : allPasses demoE 28800 (GoodPass demoE 28800) N (mtInit : MtLocals Tod Rat) w :=
  translated_cron_timing_service_every_pass demoE 28800 28800 rfl
    (by norm_num [lamServe, demoE, ttError]) (by norm_num [demoE]) (by norm_num [secPerDay])
    (fun _ => demo_ttok) N w

open Edzed.Cron.Demo in
/-- a concrete positioned state (`Demo.demo_known`: heading for 08:00, last reading 05:33:20): the pass serves
    08:00 with a reading at most 1 ms + … late, for every behaviour of the environment -/
example : wp demoE 28800 (PassOutcome demoE demoTT 3 1 t08 28800 28800 (demoE.off (20000 + 1 / 2))
      (28800 + 2 / 1000) 7) (mtStep demoP demoL (20000 + 1 / 2)) :=
  translated_cron_timing_pass_serves_alarm demoE demoTT 3 1 t08 28800 28800 (1 / 1000) (28800 + 2 / 1000)
    demoL (20000 + 1 / 2) demo_known 0 demo_A (by norm_num [secPerDay])
    (by norm_num [demoE]) (by norm_num [demoE]) (by norm_num [demoE, secPerDay])

open Edzed.Cron.Demo in
/-- … and the hypotheses of `…_resync_pass` / `…_no_alarm_skipped` (a well-formed timetable) are those of
    `Demo.demo_ttok`; the window hypothesis of `…_sleeptime_is_distance` holds for the reading 05:33:20 and 08:00 -/
example : secondsUntil demoP t08 (demoP.timeOf (20000 : Rat)) = 28800 - 20000 :=
  translated_cron_timing_sleeptime_is_distance demoE t08 (20000 : Rat) 28800 0 demo_A
    (by norm_num [demoE, secPerDay]) (by norm_num [demoE, secPerDay])

open Edzed.Cron.Demo in
/-- the timetable of exactly the 24 full hours (times of day = `Fin 24`) is sorted and hourly: every gap ≤ 1 h -/
example (i : Nat) (hi : i < (List.finRange 24).length) : nextGap hoursP (List.finRange 24) i ≤ 3600 :=
  translated_cron_timing_hourly_gap hours_range (List.finRange 24) hours_sorted hours_hourly i hi

open Edzed.Cron.Demo in
/-- the 08:00 alarm of the demo timetable served with the reading 08:00:00.0005 (`Demo.demo_outcome`): a quantity
    that changes at 08:00 and 16:00 only is right from 08:00:00.002 until 16:00 -/
example (t : Rat) (h1 : 28800 + 2 / 1000 + 7 * demoE.J ≤ t) (h2 : t < 28800 + nextGap demoP demoTT 1) :
    (fun x : Rat => decide (28800 ≤ x ∧ x < 57600)) t
      = (fun x : Rat => decide (28800 ≤ x ∧ x < 57600)) (demoE.abs demoL'.v7) :=
  translated_cron_timing_value_right_until_next_alarm_partial demoE demoTT 3 1 t08 28800 28800 28800 0
    (28800 + 2 / 1000) 7 demoL' (28800 + 6 / 10000) rfl (by omega) rfl demo_ttok 0 demo_A demo_outcome rfl
    (by simp [demoL']) _
    (by
      intro x y hx hxy hy
      have e : nextGap demoP demoTT 1 = 28800 := by
        simp [nextGap, demoTT, tod_demo, t16, t08]; norm_num
      rw [e] at hy
      have a1 : 28800 ≤ x ∧ x < 57600 := ⟨hx, by linarith⟩
      have a2 : 28800 ≤ y ∧ y < 57600 := ⟨by linarith, by linarith⟩
      show decide (28800 ≤ x ∧ x < 57600) = decide (28800 ≤ y ∧ y < 57600)
      rw [decide_eq_true a1, decide_eq_true a2])
    t h1 h2

/-! ### the "sleeps for a day" defect (repaired by 5cd81d8) as a machine-checked counterexample -/

/-- the midnight rule of `_maintask` BEFORE the repair: only "reading in hour 23, wake-up in hour 0" wraps -/
def secondsUntilOld {σ T DT B : Type} (P : MtPrims σ T DT B) (wakeup nowt : T) : Rat :=
  let s : Rat := secPerHour * (P.hour wakeup - P.hour nowt)
    + secPerMin * (P.minute wakeup - P.minute nowt)
    + (P.second wakeup - P.second nowt) + (P.microsecond wakeup - P.microsecond nowt) / 1000000
  if P.hour nowt = 23 ∧ P.hour wakeup = 0 then s + secPerDay else s

/-- times of day as (hour, minute, second, microsecond); nothing else matters here -/
def hmsPrims : MtPrims Unit (Rat × Rat × Rat × Rat) Unit Unit where
  dtnow w := ((), w)
  timeOf _ := (0, 0, 0, 0)
  set24 := []
  alarmKeys _ := []
  sortedUnion a _ := a
  bisectLeft _ _ := 0
  allClients _ := []
  hasAlarm _ _ := false
  clientsAt _ _ := []
  recalc _ _ w := w
  hour t := t.1
  minute t := t.2.1
  second t := t.2.2.1
  microsecond t := t.2.2.2
  blockingSleep _ w := w

/-- an alarm at 23:59:59.9995 whose wake-up is read at 00:00:00.0001 (0.6 ms late, past midnight): the old rule
    computes +86399.9994 s and would await `wait_for(…, 86399.9984)` – 24 times the one hour that
    `translated_cron_timing_pass_serves_alarm` allows (`wp E G` with `G ≤ 1 h`); the repaired normalisation gives
    −0.0006 s (late: serve at once) -/
theorem translated_cron_timing_prefix_midnight_stall :
    secondsUntilOld hmsPrims (23, 59, 59, 999500) (0, 0, 0, 100) = 863999994 / 10000 ∧
    secondsUntil hmsPrims (23, 59, 59, 999500) (0, 0, 0, 100) = -(6 / 10000) ∧
    (3600 : Rat) < secondsUntilOld hmsPrims (23, 59, 59, 999500) (0, 0, 0, 100) - ttOk := by
  unfold secondsUntilOld secondsUntil hmsPrims secPerHour secPerMin secPerDay ttOk
  norm_num

end Edzed.TrTie
