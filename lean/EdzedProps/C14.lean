/-
C14 — external events enter only a running circuit and are always marked as external.

Models: EdzedModel/ExtEvent.lean (ExtEvent constructor and send, block-name rules) on top of the
life-cycle model EdzedModel/ErrorReg.lean (`Circuit.is_ready`, shared with C09).  "History" = any list of
life-cycle operations (start, errors of every kind, abort, cancellation, shutdown, loop iterations).
-/
import EdzedModel.ExtEvent
import EdzedProofs.DataLemmas
import EdzedProofs.ErrorReg
import EdzedProps.C09
import EdzedModel.Gen.Translated
import EdzedModel.Gen.TranslatedExt

namespace Edzed.ExtEvent
open ErrorReg

/-- tie to the source: the prefix extracted from the current code is the documented one -/
theorem prefix_is_documented : pfx = ['_', 'e', 'x', 't', '_'] := by decide

/-! ### send delivers iff the circuit is running -/

/-- `send` refuses exactly when the circuit is not ready; a refusal carries no data (nothing is
    delivered), every other outcome happens only in a ready circuit -/
theorem send_refused_iff_not_ready (s : St) (ds : String) (v : Option Val) (d : Data) :
    sendIn s ds v d = .invalidState ↔ s.ready = false := by
  unfold sendIn send
  cases s.ready
  · simp
  · simp only [Bool.not_true, Bool.false_eq_true, ↓reduceIte]
    split <;> simp

/-- for every history from a fresh circuit the circuit is ready exactly while the simulation task is inside
    its `try` block (initialising or simulating) and no error has been delivered -/
theorem ready_exactly_while_running (ops : List Op) :
    (final {} ops).ready = true ↔ ((final {} ops).phase = .tryBlock ∧ (final {} ops).error = none) := by
  have hs := stopped_has_error ops {} (by simp [Stopped])
  unfold Stopped at hs
  constructor
  · intro h
    simp [St.ready] at h
    refine ⟨?_, h.2⟩
    cases hp : (final {} ops).phase <;> simp_all
  · intro ⟨hp, he⟩
    simp [St.ready, hp, he]

/-- before the start nothing is accepted -/
theorem refused_before_start (s : St) (h : s.phase = .notStarted) (ds : String) (v : Option Val) (d : Data) :
    sendIn s ds v d = .invalidState := by
  rw [send_refused_iff_not_ready]; simp [St.ready, h]

/-- after any kind of stop — error, abort, cancellation, shutdown — and for the rest of every history
    (aborting, cleaning up, finished) nothing is accepted -/
theorem refused_after_any_stop (s : St) (e : Err) (h : s.error = some e) (ops : List Op)
    (ds : String) (v : Option Val) (d : Data) :
    sendIn (final s ops) ds v d = .invalidState := by
  rw [send_refused_iff_not_ready]; exact not_ready_forever s e h ops

theorem refused_when_task_stopped (ops : List Op)
    (hp : (final {} ops).phase = .sleep0 ∨ (final {} ops).phase = .cleanup ∨ (final {} ops).phase = .done)
    (ds : String) (v : Option Val) (d : Data) :
    sendIn (final {} ops) ds v d = .invalidState := by
  rw [send_refused_iff_not_ready]; exact stopped_not_ready ops hp

/-! ### every delivered external event is marked -/

theorem isPrefixOf_append_self (l t : List Char) : l.isPrefixOf (l ++ t) = true := by
  induction l with
  | nil => simp [List.isPrefixOf]
  | cons a l ih => simp [List.isPrefixOf, ih]

theorem mkSource_prefixed (s : String) : prefixed (mkSource s) = true := by
  unfold mkSource
  split
  · assumption
  · simp only [prefixed, String.toList_append]
    exact isPrefixOf_append_self _ _

theorem mkSource_idempotent (s : String) : mkSource (mkSource s) = mkSource s := by
  have h := mkSource_prefixed s
  generalize mkSource s = t at h ⊢
  simp [mkSource, h]

/-- the default source stored by the constructor is marked, whatever string was given -/
theorem ctor_source_prefixed (dest : Dest) (e s : Val) (src : String) (h : ctor dest e s = .ok src) :
    prefixed src = true := by
  have key : ∀ (e s : Val), (match e with
      | .atom (.str e) =>
        if e == "" then CtorRes.typeError
        else match s with
          | .atom (.str s) => .ok (mkSource s)
          | _ => .typeError
      | _ => .typeError) = CtorRes.ok src → prefixed src = true := by
    intro e s h
    split at h
    · split at h
      · simp at h
      · split at h
        · simp only [CtorRes.ok.injEq] at h; subst h; exact mkSource_prefixed _
        · simp at h
    · simp at h
  cases dest
  case sblockObj => exact key e s h
  case sblockName => exact key e s h
  all_goals simp [ctor] at h

/-- **every delivered external event carries a `source` item beginning with the prefix**: the default one
    or the caller's (prefixed when necessary) — for all data, all source strings, with or without value -/
theorem ext_source_prefixed (ds : String) (hds : prefixed ds = true) (v : Option Val) (d r : Data)
    (h : send true ds v d = .delivered r) :
    ∃ src, r.get? "source" = some (.atom (.str src)) ∧ prefixed src = true := by
  unfold send at h
  simp only [Bool.not_true, Bool.false_eq_true, ↓reduceIte] at h
  split at h
  · injection h with h; subst h
    exact ⟨ds, Data.get?_set_same _ _ _, hds⟩
  · next src hsrc =>
    injection h with h; subst h
    split
    · next hp => exact ⟨src, hsrc, hp⟩
    · exact ⟨Gen.extPrefix ++ src, Data.get?_set_same _ _ _, by
        simp only [prefixed, String.toList_append]; exact isPrefixOf_append_self _ _⟩
  · simp at h

/-- a `source` item that is not a string is refused with TypeError and nothing is delivered -/
theorem non_string_source_refused (ds : String) (d : Data) (x : Val)
    (h : d.get? "source" = some x) (hx : ∀ s, x ≠ .atom (.str s)) :
    send true ds none d = .typeError := by
  cases x with
  | atom a =>
    cases a with
    | str s => exact absurd rfl (hx s)
    | _ => simp [send, h]
  | _ => simp [send, h]

/-- a positional value becomes the `value` item -/
theorem value_becomes_item (ds : String) (x : Val) (d r : Data)
    (h : send true ds (some x) d = .delivered r) : r.get? "value" = some x := by
  unfold send at h
  simp only [Bool.not_true, Bool.false_eq_true, ↓reduceIte] at h
  have hv : (d.set "value" x).get? "value" = some x := Data.get?_set_same _ _ _
  split at h
  · injection h with h; subst h
    rw [Data.get?_set_other _ _ _ _ (by decide)]; exact hv
  · injection h with h; subst h
    split
    · exact hv
    · rw [Data.get?_set_other _ _ _ _ (by decide)]; exact hv
  · simp at h

/-- all other data items arrive unchanged (every key except `source`, and `value` when a positional
    value was given) -/
theorem other_items_unchanged (ds : String) (v : Option Val) (d r : Data)
    (h : send true ds v d = .delivered r) (k : String) (hk : k ≠ "source") (hv : v.isSome → k ≠ "value") :
    r.get? k = d.get? k := by
  unfold send at h
  simp only [Bool.not_true, Bool.false_eq_true, ↓reduceIte] at h
  have h0 : (match v with | some x => d.set "value" x | none => d).get? k = d.get? k := by
    cases v with
    | none => rfl
    | some x => exact Data.get?_set_other _ _ _ _ (hv rfl)
  split at h
  · injection h with h; subst h
    rw [Data.get?_set_other _ _ _ _ hk]; exact h0
  · injection h with h; subst h
    split
    · exact h0
    · rw [Data.get?_set_other _ _ _ _ hk]; exact h0
  · simp at h

/-- a source that is already marked is not touched at all -/
theorem marked_source_kept (ds src : String) (d : Data)
    (h : d.get? "source" = some (.atom (.str src))) (hp : prefixed src = true) :
    send true ds none d = .delivered d := by
  unfold send
  simp [h, hp]

/-! ### no internally generated event can carry the mark -/

/- Full statement (NOT provable): ∀ b, b.accepted → ¬ pfx.isPrefixOf (internalSource b).
   Counter-example: an automatically named block of a user class called `ext` (or `ext_…`) is named
   `_ext_0`; see known_findings.json.  The hypothesis below is the one the proof forces. -/
theorem ext_prefix_auto (cls suffix : List Char) (h1 : cls ≠ ['e', 'x', 't'])
    (h2 : (['e', 'x', 't', '_'] : List Char).isPrefixOf cls = false) :
    (['e', 'x', 't', '_'] : List Char).isPrefixOf (cls ++ '_' :: suffix) = false := by
  rcases cls with _ | ⟨a, _ | ⟨b, _ | ⟨c, _ | ⟨d, rest⟩⟩⟩⟩
  · simp [List.isPrefixOf]
  · simp [List.isPrefixOf]
  · simp [List.isPrefixOf]
  · simp only [List.cons_append, List.nil_append, List.isPrefixOf, BEq.rfl, Bool.and_true]
    simp only [Bool.and_eq_false_iff, beq_eq_false_iff_ne, ne_eq]
    by_cases ha : 'e' = a
    · by_cases hb : 'x' = b
      · by_cases hc : 't' = c
        · exact absurd (by rw [← ha, ← hb, ← hc]) h1
        · exact Or.inr (Or.inr hc)
      · exact Or.inr (Or.inl hb)
    · exact Or.inl ha
  · simp only [List.cons_append, List.isPrefixOf] at h2 ⊢
    exact h2

theorem not_prefix_of_head (p : List Char) (l : List Char) (h : l.head? ≠ some '_') :
    ('_' :: p).isPrefixOf l = false := by
  match l, h with
  | [], _ => rfl
  | c :: t, h =>
    have hc : ('_' == c) = false := by
      simp only [beq_eq_false_iff_ne, ne_eq]
      intro hc; apply h; simp [← hc]
    simp [List.isPrefixOf, hc]

theorem auto_name_not_marked (cls suffix : List Char) (h1 : cls ≠ ['e', 'x', 't'])
    (h2 : (['e', 'x', 't', '_'] : List Char).isPrefixOf cls = false) :
    (['_', 'e', 'x', 't', '_'] : List Char).isPrefixOf (internalSource (.auto cls suffix)) = false := by
  show (['_', 'e', 'x', 't', '_'] : List Char).isPrefixOf ('_' :: (cls ++ '_' :: suffix)) = false
  rw [List.isPrefixOf]
  simp only [BEq.rfl, Bool.true_and]
  exact ext_prefix_auto cls suffix h1 h2

theorem internal_source_never_ext_partial (b : BlockName) (hb : b.accepted = true)
    (hcls : ∀ cls suffix, b = .auto cls suffix →
      cls ≠ ['e', 'x', 't'] ∧ (['e', 'x', 't', '_'] : List Char).isPrefixOf cls = false) :
    pfx.isPrefixOf (internalSource b) = false := by
  rw [prefix_is_documented]
  match b, hb, hcls with
  | .user n, hb, _ =>
    apply not_prefix_of_head
    simp only [BlockName.accepted, Bool.and_eq_true, bne_iff_ne, ne_eq] at hb
    exact hb.2
  | .auto cls suffix, _, hcls =>
    exact auto_name_not_marked cls suffix (hcls cls suffix rfl).1 (hcls cls suffix rfl).2
  | .ctrl, _, _ => decide
  | .notOf n, _, _ => simp [internalSource, BlockName.render, List.isPrefixOf]
  | .cron true, _, _ => decide
  | .cron false, _, _ => decide

/-- the counter-example that blocks the full statement: the automatic name of the first block of a
    class called `ext` (replayed on the implementation by the check) -/
theorem auto_named_ext_class_forges_prefix :
    (BlockName.auto ['e', 'x', 't'] ['0']).accepted = true ∧
    pfx.isPrefixOf (internalSource (.auto ['e', 'x', 't'] ['0'])) = true := by decide

/-- non-vacuity: a running circuit, a caller-given unmarked source, a positional value -/
example :
    ∃ r, sendIn (final {} [.start none]) "_ext_" (some (.int 7)) [("source", .str "sensor"), ("k", .int 1)]
        = .delivered r ∧
      r.get? "source" = some (.str "_ext_sensor") ∧ r.get? "value" = some (.int 7) ∧
      r.get? "k" = some (.int 1) := by
  refine ⟨_, rfl, ?_, ?_, ?_⟩ <;> decide

example : (final {} [.start none, .abortCall (.exc 1), .tick, .tick]).phase = .done ∧
    sendIn (final {} [.start none, .abortCall (.exc 1), .tick, .tick]) "_ext_" none [] = .invalidState := by
  decide

end Edzed.ExtEvent

/-! ### tie to the source by translation

tools/py2lean.py regenerates `Gen.Tr.isReady` from `Circuit.is_ready` and `Gen.Tr.extSource` from the assignment
`self._source = …` in `ExtEvent.__init__` on every run. -/
namespace Edzed.TrTie

theorem translated_is_ready_is_model (s : ErrorReg.St) :
    Gen.Tr.isReady (if s.phase = .notStarted then none else some ()) (s.error.map fun _ => ()) = s.ready := by
  unfold Gen.Tr.isReady ErrorReg.St.ready
  cases s.phase <;> cases s.error <;> simp

theorem translated_ext_source_is_model (src : String) : Gen.Tr.extSource src = ExtEvent.mkSource src := by
  unfold Gen.Tr.extSource ExtEvent.mkSource ExtEvent.prefixed
  rw [ExtEvent.prefix_is_documented]
  have : Gen.extPrefix = "_ext_" := by decide
  rw [this]

/-- the three outcomes of the translated `ExtEvent.send` as the model's result type -/
def sendResOf : Except Gen.TrX.ExtErr Data → ExtEvent.SendRes
  | .error .invalidState => .invalidState
  | .error .typeError => .typeError
  | .ok d => .delivered d

/-- the model's `send` IS the body of `ExtEvent.send` translated from the source; the omitted positional
    argument is the default `UNDEF` of the signature (an explicit value is never UNDEF) -/
theorem translated_ext_send_is_model (ready : Bool) (dflt : String) (value : Option Val) (data : Data)
    (hv : ∀ v, value = some v → v.isUndef = false) :
    sendResOf (Gen.TrX.extSend ready dflt (value.getD .undef) data) = ExtEvent.send ready dflt value data := by
  have hp : Gen.extPrefix = "_ext_" := by decide
  have hl : "_ext_".toList = ['_', 'e', 'x', 't', '_'] := by decide
  have core : ∀ d : Data,
      sendResOf (Gen.TrX.extSend true dflt .undef d) = ExtEvent.send true dflt none d := by
    intro d
    unfold Gen.TrX.extSend ExtEvent.send
    simp only [Bool.not_true, Bool.false_eq_true, ↓reduceIte, show Val.undef.isUndef = true from rfl]
    cases hs : d.get? "source" with
    | none => simp [sendResOf, Val.str]
    | some src =>
      cases src with
      | atom a =>
        cases a with
        | str x =>
          simp only [Gen.TrX.strOf?, ExtEvent.prefixed, ExtEvent.pfx, hp, Val.str, hl]
          by_cases hx : List.isPrefixOf ['_', 'e', 'x', 't', '_'] x.toList = true <;> simp [hx, sendResOf]
        | _ => simp [Gen.TrX.strOf?, sendResOf]
      | _ => simp [Gen.TrX.strOf?, sendResOf]
  cases ready
  · rfl
  · cases value with
    | none => exact core data
    | some v =>
      have h := hv v rfl
      have e1 : Gen.TrX.extSend true dflt v data = Gen.TrX.extSend true dflt .undef (data.set "value" v) := by
        unfold Gen.TrX.extSend
        simp only [h, show Val.undef.isUndef = true from rfl, Bool.not_true, Bool.not_false,
          Bool.false_eq_true, ↓reduceIte]
      have e2 : ExtEvent.send true dflt (some v) data = ExtEvent.send true dflt none (data.set "value" v) := rfl
      simp only [Option.getD_some]
      rw [e1, e2]
      exact core _

end Edzed.TrTie
