/-
C14 — external events enter only a running circuit and are always marked as external.

Models: EdzedModel/ExtEvent.lean (ExtEvent constructor and send, block-name rules) on top of the
life-cycle model EdzedModel/ErrorReg.lean (`Circuit.is_ready`, shared with C09).  "History" = any list of
life-cycle operations (start, errors of every kind, abort, cancellation, shutdown, loop iterations).
-/
import EdzedModel.ExtEvent
import EdzedProofs.DataLemmas
import EdzedProofs.ErrorReg
import EdzedProps.C09
import EdzedModel.Gen.Translated
import EdzedModel.Gen.TranslatedExt
import EdzedModel.Wiring
import EdzedProofs.BlkCtor
import EdzedProofs.BlkCtorTie

namespace Edzed.ExtEvent
open ErrorReg

/-- tie to the source: the prefix extracted from the current code is the documented one -/
theorem prefix_is_documented : pfx = ['_', 'e', 'x', 't', '_'] := by decide

/-! ### send delivers iff the circuit is running -/

/-- `send` refuses exactly when the circuit is not ready; a refusal carries no data (nothing is
    delivered), every other outcome happens only in a ready circuit -/
theorem send_refused_iff_not_ready (s : St) (ds : String) (v : Option Val) (d : Data) :
    sendIn s ds v d = .invalidState ↔ s.ready = false := by
  unfold sendIn send
  cases s.ready
  · simp
  · simp only [Bool.not_true, Bool.false_eq_true, ↓reduceIte]
    split <;> simp

/-- for every history from a fresh circuit the circuit is ready exactly while the simulation task is inside
    its `try` block (initialising or simulating) and no error has been delivered -/
theorem ready_exactly_while_running (ops : List Op) :
    (final {} ops).ready = true ↔ ((final {} ops).phase = .tryBlock ∧ (final {} ops).error = none) := by
  have hs := stopped_has_error ops {} (by simp [Stopped])
  unfold Stopped at hs
  constructor
  · intro h
    simp [St.ready] at h
    refine ⟨?_, h.2⟩
    cases hp : (final {} ops).phase <;> simp_all
  · intro ⟨hp, he⟩
    simp [St.ready, hp, he]

/-- before the start nothing is accepted -/
theorem refused_before_start (s : St) (h : s.phase = .notStarted) (ds : String) (v : Option Val) (d : Data) :
    sendIn s ds v d = .invalidState := by
  rw [send_refused_iff_not_ready]; simp [St.ready, h]

/-- after any kind of stop — error, abort, cancellation, shutdown — and for the rest of every history
    (aborting, cleaning up, finished) nothing is accepted -/
theorem refused_after_any_stop (s : St) (e : Err) (h : s.error = some e) (ops : List Op)
    (ds : String) (v : Option Val) (d : Data) :
    sendIn (final s ops) ds v d = .invalidState := by
  rw [send_refused_iff_not_ready]; exact not_ready_forever s e h ops

theorem refused_when_task_stopped (ops : List Op)
    (hp : (final {} ops).phase = .sleep0 ∨ (final {} ops).phase = .cleanup ∨ (final {} ops).phase = .done)
    (ds : String) (v : Option Val) (d : Data) :
    sendIn (final {} ops) ds v d = .invalidState := by
  rw [send_refused_iff_not_ready]; exact stopped_not_ready ops hp

/-! ### every delivered external event is marked -/

theorem isPrefixOf_append_self (l t : List Char) : l.isPrefixOf (l ++ t) = true := by
  induction l with
  | nil => simp [List.isPrefixOf]
  | cons a l ih => simp [List.isPrefixOf, ih]

theorem mkSource_prefixed (s : String) : prefixed (mkSource s) = true := by
  unfold mkSource
  split
  · assumption
  · simp only [prefixed, String.toList_append]
    exact isPrefixOf_append_self _ _

theorem mkSource_idempotent (s : String) : mkSource (mkSource s) = mkSource s := by
  have h := mkSource_prefixed s
  generalize mkSource s = t at h ⊢
  simp [mkSource, h]

/-- the default source stored by the constructor is marked, whatever string was given -/
theorem ctor_source_prefixed (dest : Dest) (e s : Val) (src : String) (h : ctor dest e s = .ok src) :
    prefixed src = true := by
  have key : ∀ (e s : Val), (match e with
      | .atom (.str e) =>
        if e == "" then CtorRes.typeError
        else match s with
          | .atom (.str s) => .ok (mkSource s)
          | _ => .typeError
      | _ => .typeError) = CtorRes.ok src → prefixed src = true := by
    intro e s h
    split at h
    · split at h
      · simp at h
      · split at h
        · simp only [CtorRes.ok.injEq] at h; subst h; exact mkSource_prefixed _
        · simp at h
    · simp at h
  cases dest
  case sblockObj => exact key e s h
  case sblockName => exact key e s h
  all_goals simp [ctor] at h

/-- **every delivered external event carries a `source` item beginning with the prefix**: the default one
    or the caller's (prefixed when necessary) — for all data, all source strings, with or without value -/
theorem ext_source_prefixed (ds : String) (hds : prefixed ds = true) (v : Option Val) (d r : Data)
    (h : send true ds v d = .delivered r) :
    ∃ src, r.get? "source" = some (.atom (.str src)) ∧ prefixed src = true := by
  unfold send at h
  simp only [Bool.not_true, Bool.false_eq_true, ↓reduceIte] at h
  split at h
  · injection h with h; subst h
    exact ⟨ds, Data.get?_set_same _ _ _, hds⟩
  · next src hsrc =>
    injection h with h; subst h
    split
    · next hp => exact ⟨src, hsrc, hp⟩
    · exact ⟨Gen.extPrefix ++ src, Data.get?_set_same _ _ _, by
        simp only [prefixed, String.toList_append]; exact isPrefixOf_append_self _ _⟩
  · simp at h

/-- a `source` item that is not a string is refused with TypeError and nothing is delivered -/
theorem non_string_source_refused (ds : String) (d : Data) (x : Val)
    (h : d.get? "source" = some x) (hx : ∀ s, x ≠ .atom (.str s)) :
    send true ds none d = .typeError := by
  cases x with
  | atom a =>
    cases a with
    | str s => exact absurd rfl (hx s)
    | _ => simp [send, h]
  | _ => simp [send, h]

/-- a positional value becomes the `value` item -/
theorem value_becomes_item (ds : String) (x : Val) (d r : Data)
    (h : send true ds (some x) d = .delivered r) : r.get? "value" = some x := by
  unfold send at h
  simp only [Bool.not_true, Bool.false_eq_true, ↓reduceIte] at h
  have hv : (d.set "value" x).get? "value" = some x := Data.get?_set_same _ _ _
  split at h
  · injection h with h; subst h
    rw [Data.get?_set_other _ _ _ _ (by decide)]; exact hv
  · injection h with h; subst h
    split
    · exact hv
    · rw [Data.get?_set_other _ _ _ _ (by decide)]; exact hv
  · simp at h

/-- all other data items arrive unchanged (every key except `source`, and `value` when a positional
    value was given) -/
theorem other_items_unchanged (ds : String) (v : Option Val) (d r : Data)
    (h : send true ds v d = .delivered r) (k : String) (hk : k ≠ "source") (hv : v.isSome → k ≠ "value") :
    r.get? k = d.get? k := by
  unfold send at h
  simp only [Bool.not_true, Bool.false_eq_true, ↓reduceIte] at h
  have h0 : (match v with | some x => d.set "value" x | none => d).get? k = d.get? k := by
    cases v with
    | none => rfl
    | some x => exact Data.get?_set_other _ _ _ _ (hv rfl)
  split at h
  · injection h with h; subst h
    rw [Data.get?_set_other _ _ _ _ hk]; exact h0
  · injection h with h; subst h
    split
    · exact h0
    · rw [Data.get?_set_other _ _ _ _ hk]; exact h0
  · simp at h

/-- a source that is already marked is not touched at all -/
theorem marked_source_kept (ds src : String) (d : Data)
    (h : d.get? "source" = some (.atom (.str src))) (hp : prefixed src = true) :
    send true ds none d = .delivered d := by
  unfold send
  simp [h, hp]

/-! ### no internally generated event can carry the mark -/

/- Full statement (NOT provable): ∀ b, b.accepted → ¬ pfx.isPrefixOf (internalSource b).
   Counter-example: an automatically named block of a user class called `ext` (or `ext_…`) is named
   `_ext_0`; see known_findings.json.  The hypothesis below is the one the proof forces. -/
theorem ext_prefix_auto (cls suffix : List Char) (h1 : cls ≠ ['e', 'x', 't'])
    (h2 : (['e', 'x', 't', '_'] : List Char).isPrefixOf cls = false) :
    (['e', 'x', 't', '_'] : List Char).isPrefixOf (cls ++ '_' :: suffix) = false := by
  rcases cls with _ | ⟨a, _ | ⟨b, _ | ⟨c, _ | ⟨d, rest⟩⟩⟩⟩
  · simp [List.isPrefixOf]
  · simp [List.isPrefixOf]
  · simp [List.isPrefixOf]
  · simp only [List.cons_append, List.nil_append, List.isPrefixOf, BEq.rfl, Bool.and_true]
    simp only [Bool.and_eq_false_iff, beq_eq_false_iff_ne, ne_eq]
    by_cases ha : 'e' = a
    · by_cases hb : 'x' = b
      · by_cases hc : 't' = c
        · exact absurd (by rw [← ha, ← hb, ← hc]) h1
        · exact Or.inr (Or.inr hc)
      · exact Or.inr (Or.inl hb)
    · exact Or.inl ha
  · simp only [List.cons_append, List.isPrefixOf] at h2 ⊢
    exact h2

theorem not_prefix_of_head (p : List Char) (l : List Char) (h : l.head? ≠ some '_') :
    ('_' :: p).isPrefixOf l = false := by
  match l, h with
  | [], _ => rfl
  | c :: t, h =>
    have hc : ('_' == c) = false := by
      simp only [beq_eq_false_iff_ne, ne_eq]
      intro hc; apply h; simp [← hc]
    simp [List.isPrefixOf, hc]

theorem auto_name_not_marked (cls suffix : List Char) (h1 : cls ≠ ['e', 'x', 't'])
    (h2 : (['e', 'x', 't', '_'] : List Char).isPrefixOf cls = false) :
    (['_', 'e', 'x', 't', '_'] : List Char).isPrefixOf (internalSource (.auto cls suffix)) = false := by
  show (['_', 'e', 'x', 't', '_'] : List Char).isPrefixOf ('_' :: (cls ++ '_' :: suffix)) = false
  rw [List.isPrefixOf]
  simp only [BEq.rfl, Bool.true_and]
  exact ext_prefix_auto cls suffix h1 h2

theorem internal_source_never_ext_partial (b : BlockName) (hb : b.accepted = true)
    (hcls : ∀ cls suffix, b = .auto cls suffix →
      cls ≠ ['e', 'x', 't'] ∧ (['e', 'x', 't', '_'] : List Char).isPrefixOf cls = false) :
    pfx.isPrefixOf (internalSource b) = false := by
  rw [prefix_is_documented]
  match b, hb, hcls with
  | .user n, hb, _ =>
    apply not_prefix_of_head
    simp only [BlockName.accepted, Bool.and_eq_true, bne_iff_ne, ne_eq] at hb
    exact hb.2
  | .auto cls suffix, _, hcls =>
    exact auto_name_not_marked cls suffix (hcls cls suffix rfl).1 (hcls cls suffix rfl).2
  | .ctrl, _, _ => decide
  | .notOf n, _, _ => simp [internalSource, BlockName.render, List.isPrefixOf]
  | .cron true, _, _ => decide
  | .cron false, _, _ => decide

/-- the counter-example that blocks the full statement: the automatic name of the first block of a
    class called `ext` (replayed on the implementation by the check) -/
theorem auto_named_ext_class_forges_prefix :
    (BlockName.auto ['e', 'x', 't'] ['0']).accepted = true ∧
    pfx.isPrefixOf (internalSource (.auto ['e', 'x', 't'] ['0'])) = true := by decide

/-- non-vacuity: a running circuit, a caller-given unmarked source, a positional value -/
example :
    ∃ r, sendIn (final {} [.start none]) "_ext_" (some (.int 7)) [("source", .str "sensor"), ("k", .int 1)]
        = .delivered r ∧
      r.get? "source" = some (.str "_ext_sensor") ∧ r.get? "value" = some (.int 7) ∧
      r.get? "k" = some (.int 1) := by
  refine ⟨_, rfl, ?_, ?_, ?_⟩ <;> decide

example : (final {} [.start none, .abortCall (.exc 1), .tick, .tick]).phase = .done ∧
    sendIn (final {} [.start none, .abortCall (.exc 1), .tick, .tick]) "_ext_" none [] = .invalidState := by
  decide

end Edzed.ExtEvent

/-! ### tie to the source by translation

tools/py2lean.py regenerates `Gen.Tr.isReady` from `Circuit.is_ready` and `Gen.Tr.extSource` from the assignment
`self._source = …` in `ExtEvent.__init__` on every run. -/
namespace Edzed.TrTie

theorem translated_is_ready_is_model (s : ErrorReg.St) :
    Gen.Tr.isReady (if s.phase = .notStarted then none else some ()) (s.error.map fun _ => ()) = s.ready := by
  unfold Gen.Tr.isReady ErrorReg.St.ready
  cases s.phase <;> cases s.error <;> simp

theorem translated_ext_source_is_model (src : String) : Gen.Tr.extSource src = ExtEvent.mkSource src := by
  unfold Gen.Tr.extSource ExtEvent.mkSource ExtEvent.prefixed
  rw [ExtEvent.prefix_is_documented]
  have : Gen.extPrefix = "_ext_" := by decide
  rw [this]

/-- the three outcomes of the translated `ExtEvent.send` as the model's result type -/
def sendResOf : Except Gen.TrX.ExtErr Data → ExtEvent.SendRes
  | .error .invalidState => .invalidState
  | .error .typeError => .typeError
  | .ok d => .delivered d

/-- the model's `send` IS the body of `ExtEvent.send` translated from the source; the omitted positional
    argument is the default `UNDEF` of the signature (an explicit value is never UNDEF) -/
theorem translated_ext_send_is_model (ready : Bool) (dflt : String) (value : Option Val) (data : Data)
    (hv : ∀ v, value = some v → v.isUndef = false) :
    sendResOf (Gen.TrX.extSend ready dflt (value.getD .undef) data) = ExtEvent.send ready dflt value data := by
  have hp : Gen.extPrefix = "_ext_" := by decide
  have hl : "_ext_".toList = ['_', 'e', 'x', 't', '_'] := by decide
  have core : ∀ d : Data,
      sendResOf (Gen.TrX.extSend true dflt .undef d) = ExtEvent.send true dflt none d := by
    intro d
    unfold Gen.TrX.extSend ExtEvent.send
    simp only [Bool.not_true, Bool.false_eq_true, ↓reduceIte, show Val.undef.isUndef = true from rfl]
    cases hs : d.get? "source" with
    | none => simp [sendResOf, Val.str]
    | some src =>
      cases src with
      | atom a =>
        cases a with
        | str x =>
          simp only [Gen.TrX.strOf?, ExtEvent.prefixed, ExtEvent.pfx, hp, Val.str, hl]
          by_cases hx : List.isPrefixOf ['_', 'e', 'x', 't', '_'] x.toList = true <;> simp [hx, sendResOf]
        | _ => simp [Gen.TrX.strOf?, sendResOf]
      | _ => simp [Gen.TrX.strOf?, sendResOf]
  cases ready
  · rfl
  · cases value with
    | none => exact core data
    | some v =>
      have h := hv v rfl
      have e1 : Gen.TrX.extSend true dflt v data = Gen.TrX.extSend true dflt .undef (data.set "value" v) := by
        unfold Gen.TrX.extSend
        simp only [h, show Val.undef.isUndef = true from rfl, Bool.not_true, Bool.not_false,
          Bool.false_eq_true, ↓reduceIte]
      have e2 : ExtEvent.send true dflt (some v) data = ExtEvent.send true dflt none (data.set "value" v) := rfl
      simp only [Option.getD_some]
      rw [e1, e2]
      exact core _


/-! ### the constructors and the circuit registry, translated

tools/py2lean_blkctor.py regenerates `Gen/TranslatedBlkCtor.lean` from the current source of `check_name`,
`Block.__init__`, `Block.has_method`, `SBlock.__init__`, `CBlock.__init__`, `ExtEvent.__init__`,
`Const.__new__/__init__`, `Circuit.__init__`, `Circuit.is_current_task`, `get_circuit`, `reset_circuit`: programs over a
heap of objects whose leaves are parameters (`BlkCtorPy.CPrims`).  `BlkCtorTie.prims` instantiates the leaves on the
heap of `EdzedModel/BlkCtor.lean`; the theorems `translated_ctor_…_is_model` say that the generated programs ARE the
model's functions, for all arguments and all states.  The property-level statements follow. -/

open Edzed.BlkCtorPy Edzed.BlkCtor Edzed.BlkCtorTie

theorem translated_ctor_check_name_is_model (a : Arg Nat) (nametype : String) (w : World) :
    Gen.TrBC.checkName prims a nametype w = (w, (checkName a).map fun _ => ()) := checkName_tie a nametype w

/-- `Circuit()` = allocation + the translated `Circuit.__init__`: the new object carries exactly the nine
    attributes of `freshCircuitAttrs`, in that order -/
theorem translated_ctor_circuit_init_is_model (w : World) :
    Gen.TrBC.circuitCall prims w = ((newCircuit w).1, .ok (newCircuit w).2) := circuitCall_tie w

theorem translated_ctor_get_circuit_is_model (w : World) :
    Gen.TrBC.getCircuit prims w = ((getCircuit w).1, .ok (some (getCircuit w).2)) := getCircuit_tie w

theorem translated_ctor_reset_circuit_is_model (w : World) :
    Gen.TrBC.resetCircuit prims w = (resetCircuit w, .ok ()) := resetCircuit_tie w

theorem translated_ctor_is_current_task_is_model (c : Nat) (w : World) :
    Gen.TrBC.isCurrentTask prims c w = (w, .ok (isCurrentTask w c)) := isCurrentTask_tie c w

theorem translated_ctor_has_method_is_model (o : Nat) (name : String) (w : World) :
    Gen.TrBC.hasMethod prims o name w = (w, hasMethod w o name) := hasMethod_tie o name w

theorem translated_ctor_block_init_is_model (self : Nat) (name comment onOutput reserved debug : Arg Nat)
    (xkw : Kw (Arg Nat)) (w : World) :
    Gen.TrBC.blockInit prims self name comment onOutput reserved debug xkw w
      = blockInit w self name comment onOutput reserved debug xkw :=
  blockInit_tie self name comment onOutput reserved debug xkw w

/-- the binding of `*args / **kwargs` to the signature of `Block.__init__` and its DEFAULTS
    (`comment=""`, `on_output=None`, `_reserved=False`, `debug=False`) -/
theorem translated_ctor_block_call_is_model (self : Nat) (args : List (Arg Nat)) (kw : Kw (Arg Nat)) (w : World) :
    Gen.TrBC.blockInitCall prims self args kw w = blockInitCall w self args kw := blockInitCall_tie self args kw w

theorem translated_ctor_sblock_init_is_model (self : Nat) (args : List (Arg Nat)) (onEvery : Arg Nat)
    (kw : Kw (Arg Nat)) (w : World) :
    Gen.TrBC.sblockInit prims self args onEvery kw w = sblockInit w self args onEvery kw :=
  sblockInit_tie self args onEvery kw w

theorem translated_ctor_sblock_call_is_model (self : Nat) (args : List (Arg Nat)) (kw : Kw (Arg Nat)) (w : World) :
    Gen.TrBC.sblockInitCall prims self args kw w = sblockInitCall w self args kw := sblockInitCall_tie self args kw w

theorem translated_ctor_cblock_init_is_model (self : Nat) (args : List (Arg Nat)) (kw : Kw (Arg Nat)) (w : World) :
    Gen.TrBC.cblockInit prims self args kw w = cblockInit w self args kw := cblockInit_tie self args kw w

theorem translated_ctor_cblock_call_is_model (self : Nat) (args : List (Arg Nat)) (kw : Kw (Arg Nat)) (w : World) :
    Gen.TrBC.cblockInitCall prims self args kw w = cblockInitCall w self args kw := cblockInitCall_tie self args kw w

theorem translated_ctor_ext_init_is_model (self : Nat) (dest etype source : Arg Nat) (w : World) :
    Gen.TrBC.extInit prims self dest etype source w = extInit w self dest etype source :=
  extInit_tie self dest etype source w

/-- the defaults of `ExtEvent(dest, etype='put', source='_ext_')` -/
theorem translated_ctor_ext_call_is_model (self : Nat) (args : List (Arg Nat)) (kw : Kw (Arg Nat)) (w : World) :
    Gen.TrBC.extInitCall prims self args kw w = extInitCall w self args kw := extInitCall_tie self args kw w

/-- `Const(value)` = the translated `__new__` followed by the translated `__init__` -/
theorem translated_ctor_const_is_model (cls : String) (v : Arg Nat) (w : World) :
    Gen.TrBC.constCall prims cls v w = constCall w cls v := constCall_tie cls v w

/-! #### the reserved names (C14: "user-defined blocks cannot have names beginning with an underscore") -/

/-- a given name beginning with `_` is refused with ValueError for EVERY falsy `_reserved` (False, None, 0, '',
    (), UNDEF …), whatever the other arguments and the state are -/
theorem translated_ctor_underscore_name_refused (w : World) (self : Nat) (s : String)
    (comment onOutput reserved debug : Arg Nat) (xkw : Kw (Arg Nat))
    (hs : strStartsWith s "_" = true) (hr : reserved.truthy = false) :
    (Gen.TrBC.blockInit prims self (.val (.str s)) comment onOutput reserved debug xkw w).2 = .error "ValueError" := by
  rw [blockInit_tie]
  have hne : (s == "") = false := by
    cases he : (s == "") with
    | false => rfl
    | true =>
      have : s = "" := by simpa using he
      subst this
      exact absurd hs (by decide)
  have hn : Arg.isNone (Arg.val (Val.str s) : Arg Nat) = false := rfl
  have hst : Arg.str? (Arg.val (Val.str s) : Arg Nat) = some s := rfl
  simp [blockInit, blockName, checkName, hn, hst, hne, hs, hr]

/-- non-vacuity: `_ctrl` without `_reserved` in an empty world -/
example : outcome (Gen.TrBC.blockInit prims 0 (.val (.str "_ctrl")) (.val (.str "")) .none (.val (.bool false))
    (.val (.bool false)) [] { heap := [{ cls := "K", bases := ["K", "SBlock", "Block"] }] }).2
      = "ValueError" := by decide

/-- a name that is neither None nor a str is a TypeError, the empty string a ValueError -/
theorem translated_ctor_bad_name_refused (w : World) (self : Nat) (name comment onOutput reserved debug : Arg Nat)
    (xkw : Kw (Arg Nat)) (hn : name.isNone = false) :
    (name.str? = none →
      (Gen.TrBC.blockInit prims self name comment onOutput reserved debug xkw w).2 = .error "TypeError")
    ∧ (name.str? = some "" →
      (Gen.TrBC.blockInit prims self name comment onOutput reserved debug xkw w).2 = .error "ValueError") := by
  rw [blockInit_tie]
  constructor <;> intro hs <;> simp [blockInit, blockName, checkName, hn, hs]

/-- a successful `Block.__init__` on an existing object has stored as `self.name` what the name rules
    (`BlkCtor.blockName`) give for the given name, `_reserved`, the class and the names already in the circuit -/
theorem translated_ctor_block_init_stores_name (w w' : World) (self : Nat)
    (name comment onOutput reserved debug : Arg Nat) (xkw : Kw (Arg Nat)) (hs : self < w.heap.length)
    (h : Gen.TrBC.blockInit prims self name comment onOutput reserved debug xkw w = (w', .ok ())) :
    ∃ nm cls names, blockName name reserved cls names = .ok nm ∧ w'.get? self "name" = some (.arg nm) := by
  rw [blockInit_tie] at h
  exact blockInit_name_stored w w' self name comment onOutput reserved debug xkw hs h

/-- **the reserved-name rule of C14 over ALL names and ALL `_reserved` values**: a name accepted by the rules
    of `Block.__init__` begins with `_ext_` exactly when
    (a) no name was given and the class is called `ext` or `ext_…` (the automatic name `_ext_<n>`: the known
        finding C14-auto-name-of-class-ext), or
    (b) a marked name was given together with a true `_reserved` (edzed's own reserved blocks; none of them is
        called `_ext_…`).
    So without `_reserved` the only forgeable case is (a). -/
theorem translated_ctor_accepted_name_marked_iff (name reserved : Arg Nat) (cls : String) (names : List String)
    (nm : Arg Nat) (h : blockName name reserved cls names = .ok nm) :
    argMarked nm = true ↔
      (name.isNone = true ∧ (cls.toList = ['e', 'x', 't'] ∨ strStartsWith cls "ext_" = true))
      ∨ (name.isNone = false ∧ reserved.truthy = true ∧ argMarked name = true) :=
  accepted_name_marked_iff name reserved cls names nm h

/-- the case the rule does NOT exclude, exposed: the automatic name of a block of a class called `ext` is accepted
    and begins with `_ext_` -- for every state of the circuit (whatever blocks exist already) -/
theorem translated_ctor_auto_name_of_class_ext_is_marked (reserved : Arg Nat) (names : List String) :
    ∃ nm, blockName .none reserved "ext" names = .ok nm ∧ argMarked nm = true := by
  refine ⟨_, rfl, ?_⟩
  rw [accepted_name_marked_iff .none reserved "ext" names _ rfl]
  exact Or.inl ⟨rfl, Or.inl (by decide)⟩

/-- … replayed through the translated constructor: `class ext(SBlock)`, `ext(None)` in a fresh world registers
    the block `_ext_0` -/
example :
    let w0 : World := { heap := [{ cls := "ext", bases := ["ext", "SBlock", "Block"] }] }
    let r := Gen.TrBC.sblockInitCall prims 0 [Arg.none] [] w0
    outcome r.2 = "ok" ∧ r.1.nameOf 0 = "_ext_0" ∧ (r.1.blocks 1).map (·.1) = ["_ext_0"] := by decide

/-- without `_reserved` no GIVEN name is marked: (b) needs a true `_reserved` -/
theorem translated_ctor_given_name_never_marked (name reserved : Arg Nat) (cls : String) (names : List String)
    (nm : Arg Nat) (hn : name.isNone = false) (hr : reserved.truthy = false)
    (h : blockName name reserved cls names = .ok nm) : argMarked nm = false := by
  cases hm : argMarked nm with
  | false => rfl
  | true =>
    rcases (accepted_name_marked_iff name reserved cls names nm h).mp hm with h1 | h1
    · rw [hn] at h1; cases h1.1
    · rw [hr] at h1; cases h1.2.1

/-- for a name GIVEN without `_reserved` the rules of the translated `Block.__init__` are the model of the names
    that `internal_source_never_ext_partial` talks about (`BlockName.user … .accepted`) -/
theorem translated_ctor_user_name_rule_is_block_name_model (s cls : String) (names : List String) :
    (blockName (.val (.str s)) (.val (.bool false)) cls names).toOption.isSome
      = (ExtEvent.BlockName.user s.toList).accepted := by
  have hn : Arg.isNone (Arg.val (Val.str s) : Arg Nat) = false := rfl
  have hst : Arg.str? (Arg.val (Val.str s) : Arg Nat) = some s := rfl
  have hr : Arg.truthy (Arg.val (Val.bool false) : Arg Nat) = false := by decide
  have h1 : "_".toList = ['_'] := by decide
  unfold blockName checkName ExtEvent.BlockName.accepted strStartsWith
  simp only [hn, hst, hr, h1, Bool.false_eq_true, ↓reduceIte, Bool.not_false, Bool.and_true]
  by_cases h : s = ""
  · subst h; rfl
  · have hne : s.toList ≠ [] := fun e => h (String.toList_eq_nil_iff.mp e)
    cases hl : s.toList with
    | nil => exact absurd hl hne
    | cons c r =>
      have hs : (s == "") = false := by simp [h]
      by_cases hc : c = '_'
      · subst hc; simp [hs, hl, Except.toOption]
      · have h3 : ¬ '_' = c := fun e => hc e.symm
        have h4 : (some c != some '_') = true := by simp [hc]
        simp [hs, hl, h3, h4, Except.toOption]

/-- the automatic name is the one of the model of the names (`BlockName.auto`) -/
theorem translated_ctor_auto_name_is_render (cls : String) (names : List String) :
    (autoName cls names).toList = (ExtEvent.BlockName.auto cls.toList
      (pyStrNat (names.countP fun n => strStartsWith n ("_" ++ cls ++ "_"))).toList).render := by
  unfold autoName ExtEvent.BlockName.render
  simp only [String.toList_append]
  have : "_".toList = ['_'] := by decide
  rw [this]
  simp

/-- a keyword argument that begins neither with `x_` nor with `X_` is refused -/
theorem translated_ctor_refused_keyword (w : World) (self : Nat) (name comment onOutput reserved debug : Arg Nat)
    (xkw : Kw (Arg Nat)) (hbad : xkw.any (fun p => !goodKey p.1) = true) :
    ∃ w' e, Gen.TrBC.blockInit prims self name comment onOutput reserved debug xkw w = (w', .error e) := by
  rw [blockInit_tie]
  exact blockInit_refuses_keyword w self name comment onOutput reserved debug xkw hbad

example : ∃ w' e, Gen.TrBC.blockInit prims 0 (.val (.str "a")) .none .none .none .none [("x_ok", .none), ("colour", .none)]
    { heap := [{ cls := "K", bases := ["K", "SBlock", "Block"] }] } = (w', .error e) :=
  translated_ctor_refused_keyword _ _ _ _ _ _ _ _ (by decide)

/-! #### the source of an ExtEvent -/

/-- **every constructed ExtEvent carries a marked default source**: for every `source` argument (the empty string
    included) a successful `ExtEvent.__init__` stored a str beginning with `_ext_` as `_source` -/
theorem translated_ctor_ext_source_marked (w w' : World) (self : Nat) (dest etype source : Arg Nat)
    (hs : self < w.heap.length) (h : Gen.TrBC.extInit prims self dest etype source w = (w', .ok ())) :
    ∃ s src, source.str? = some s ∧ w'.get? self "_source" = some (.str src) ∧ src = extSource s
      ∧ strStartsWith src "_ext_" = true := by
  rw [extInit_tie] at h
  obtain ⟨s, h1, h2⟩ := extInit_source_stored w w' self dest etype source h
  exact ⟨s, extSource s, h1, h2 hs, rfl, extSource_marked s⟩

/-- a `source` that is not a str -- None included -- is refused, whatever the destination and event type -/
theorem translated_ctor_ext_non_string_source_refused (w : World) (self : Nat) (dest etype source : Arg Nat)
    (hs : source.str? = none) :
    ∃ w' e, Gen.TrBC.extInit prims self dest etype source w = (w', .error e) := by
  rw [extInit_tie]
  exact extInit_non_string_source w self dest etype source hs

/-- `source=''` gives the bare mark; `source=None` a TypeError (non-vacuity of the two theorems above) -/
example :
    let w0 : World := { heap := [{ cls := "Circuit", bases := ["Circuit"], attrs := [("_blocks", .dict [("b", 1)])] },
                                 { cls := "K", bases := ["K", "SBlock", "Block"] }, {}], current := some 0 }
    (Gen.TrBC.extInit prims 2 (.val (.str "b")) (.val (.str "put")) (.val (.str "")) w0).1.get? 2 "_source"
        = some (.str "_ext_")
    ∧ outcome (Gen.TrBC.extInit prims 2 (.val (.str "b")) (.val (.str "put")) .none w0).2 = "TypeError"
    ∧ (Gen.TrBC.extInitCall prims 2 [.obj 1] [] w0).1.get? 2 "_source" = some (.str "_ext_") := by decide

/-- the stored source is the one of the model of `send` and of the older value translation -/
theorem translated_ctor_ext_source_is_mkSource (s : String) :
    extSource s = ExtEvent.mkSource s ∧ extSource s = Gen.Tr.extSource s := by
  have hp : Gen.extPrefix = "_ext_" := by decide
  constructor
  · unfold extSource ExtEvent.mkSource ExtEvent.prefixed ExtEvent.pfx strStartsWith
    rw [hp]
  · rw [translated_ext_source_is_model]
    unfold extSource ExtEvent.mkSource ExtEvent.prefixed ExtEvent.pfx strStartsWith
    rw [hp]

/-- the kind of destination, as the older model of the constructor (`ExtEvent.ctor`) classifies it -/
def extDestKind (w : World) : Arg Nat → ExtEvent.Dest
  | .val (.atom (.str n)) =>
    match findblock (getCircuit w).1 (getCircuit w).2 n with
    | none => .unknownName
    | some b => if (getCircuit w).1.isInstance b "SBlock" then .sblockName else .cblockName
  | .obj o =>
    if w.isInstance o "Block" then (if w.isInstance o "SBlock" then .sblockObj else .cblockObj) else .notABlock
  | .val _ => .notABlock

def extCtorOutcome : ExtEvent.CtorRes → String
  | .ok _ => "ok"
  | .typeError => "TypeError"
  | .keyError => "KeyError"

/-- the translated `ExtEvent.__init__` refines the constructor model the correspondence has compared with the real
    code from the start (`ExtEvent.ctor`: six kinds of destination x event type x source): same outcome -/
theorem translated_ctor_ext_init_refines_ctor (w : World) (self : Nat) (dest : Arg Nat) (e s : Val) :
    outcome (Gen.TrBC.extInit prims self dest (.val e) (.val s) w).2
      = extCtorOutcome (ExtEvent.ctor (extDestKind w dest) e s) := by
  rw [extInit_tie]
  have key : ∀ (w1 : World) (d : Arg Nat), isSBlock w1 d = true →
      outcome (match (Arg.val e : Arg Nat).str? with
        | none => (w1, (Except.error "TypeError" : Except PyExc Unit))
        | some e' =>
          if e' == "" then (w1, .error "TypeError")
          else
            match (Arg.val s : Arg Nat).str? with
            | none => (w1, .error "TypeError")
            | some s' =>
              (((w1.setAttr self "_dest" (.arg d)).setAttr self "_etype" (.arg (.val e))).setAttr self "_source"
                (.str (extSource s')), .ok ())).2
        = extCtorOutcome (match e with
            | .atom (.str e) =>
              if e == "" then ExtEvent.CtorRes.typeError
              else match s with
                | .atom (.str s) => .ok (ExtEvent.mkSource s)
                | _ => .typeError
            | _ => .typeError) := by
    intro w1 d _
    rcases e with _ | a | l | l
    · rfl
    · cases a with
      | none => rfl
      | num q k => rfl
      | str e' =>
        simp only [Arg.str?]
        by_cases he : (e' == "") = true
        · simp [he, outcome, extCtorOutcome]
        · simp only [he, Bool.false_eq_true, ↓reduceIte]
          rcases s with _ | a2 | l | l
          · rfl
          · cases a2 <;> rfl
          · rfl
          · rfl
    · rfl
    · rfl
  unfold extInit extDest extDestKind
  rcases dest with v | o
  · rcases v with _ | a | l | l
    · rfl
    · cases a with
      | none => rfl
      | num q k => rfl
      | str n =>
        simp only [Arg.str?]
        cases hf : findblock (getCircuit w).1 (getCircuit w).2 n with
        | none => rfl
        | some b =>
          simp only
          by_cases hsb : (getCircuit w).1.isInstance b "SBlock" = true
          · simp only [isSBlock, hsb, Bool.not_true, Bool.false_eq_true, ↓reduceIte]
            exact key _ (.obj b) (by simp [isSBlock, hsb])
          · simp only [isSBlock, hsb, Bool.not_false, ↓reduceIte, Bool.false_eq_true]
            rfl
    · rfl
    · rfl
  · simp only [Arg.str?]
    by_cases hb : w.isInstance o "Block" = true
    · simp only [hb, ↓reduceIte]
      by_cases hsb : w.isInstance o "SBlock" = true
      · simp only [isSBlock, hsb, Bool.not_true, Bool.false_eq_true, ↓reduceIte]
        exact key _ (.obj o) (by simp [isSBlock, hsb])
      · simp only [isSBlock, hsb, Bool.not_false, ↓reduceIte, Bool.false_eq_true]
        rfl
    · simp only [hb, Bool.false_eq_true, ↓reduceIte]
      rfl


/-! #### the initial state of a circuit -/

/-- **the state every other model starts from**: right after `Circuit.__init__` (translated) the circuit is not
    ready (`Circuit.is_ready()` -- the translated `Gen.Tr.isReady` -- is false), has no simulation task, no
    error, is not finalized and has no blocks: the initial `ErrorReg.St` and the initial `Wiring.Circ` -/
theorem translated_ctor_fresh_circuit_state (w w' : World) (c : Nat)
    (h : Gen.TrBC.circuitCall prims w = (w', .ok c)) :
    Gen.Tr.isReady (if w'.attrIsNone c "_simtask" then none else some ())
        (if w'.attrIsNone c "_error" then none else some ()) = false
    ∧ isReady w' c = ({} : ErrorReg.St).ready
    ∧ (w'.attrIsNone c "_simtask" = true ↔ ({} : ErrorReg.St).phase = .notStarted)
    ∧ (w'.attrIsNone c "_error" = true ↔ ({} : ErrorReg.St).error = none)
    ∧ w'.attrTruthy c "_finalized" = ({} : Wiring.Circ).finalized
    ∧ (!w'.attrIsNone c "_error") = ({} : Wiring.Circ).stopped
    ∧ (w'.blocks c).map (·.1) = ({} : Wiring.Circ).order
    ∧ isCurrentTask w' c = false := by
  rw [circuitCall_tie] at h
  simp only [Prod.mk.injEq, Except.ok.injEq] at h
  obtain ⟨h1, h2⟩ := h
  subst h1 h2
  obtain ⟨a, b, c', d, e, f⟩ := newCircuit_state w
  simp [a, b, c', d, e, f, Gen.Tr.isReady, ErrorReg.St.ready, isCurrentTask]

/-- a freshly imported module has no circuit: the model's initial world -/
theorem translated_ctor_module_starts_without_circuit :
    (Gen.TrBC.moduleCurrentCircuit : Option Nat) = ({} : World).current := rfl

/-- `get_circuit()` creates a circuit only when there is none, and then returns the same one again -/
theorem translated_ctor_get_circuit_idempotent (w : World) :
    ∃ c, (Gen.TrBC.getCircuit prims w).2 = .ok (some c)
      ∧ Gen.TrBC.getCircuit prims (Gen.TrBC.getCircuit prims w).1 = ((Gen.TrBC.getCircuit prims w).1, .ok (some c)) := by
  simp only [getCircuit_tie]
  refine ⟨_, rfl, ?_⟩
  have hc : (getCircuit w).1.current = some (getCircuit w).2 := by
    unfold getCircuit
    cases hcur : w.current <;> simp [hcur]
  generalize getCircuit w = r at hc
  obtain ⟨w1, c⟩ := r
  simp only at hc
  simp [getCircuit, hc]

/-- `reset_circuit()` with a current circuit makes a FRESH circuit the current one: not ready, without blocks,
    not finalized, without error -/
theorem translated_ctor_reset_gives_fresh_circuit (w : World) (c0 : Nat) (h : w.current = some c0) :
    ∃ c, (Gen.TrBC.resetCircuit prims w).1.current = some c
      ∧ isReady (Gen.TrBC.resetCircuit prims w).1 c = false
      ∧ (Gen.TrBC.resetCircuit prims w).1.blocks c = []
      ∧ (Gen.TrBC.resetCircuit prims w).1.attrTruthy c "_finalized" = false
      ∧ (Gen.TrBC.resetCircuit prims w).1.attrIsNone c "_error" = true := by
  simp only [resetCircuit_tie, resetCircuit, h]
  generalize (abort w c0 "EdzedCircuitError").1 = w1
  obtain ⟨a, _, c', d, e, _⟩ := newCircuit_state w1
  refine ⟨(newCircuit w1).2, rfl, ?_, ?_, ?_, ?_⟩
  · exact a
  · exact e
  · exact d
  · exact c'

/-- … and without a current circuit it does nothing (the early `return`) -/
theorem translated_ctor_reset_without_circuit (w : World) (h : w.current = none) :
    Gen.TrBC.resetCircuit prims w = (w, .ok ()) := by
  simp [resetCircuit_tie, resetCircuit, h]

/-! #### optional methods, Const -/

/-- `has_method`: the two placeholders `dummy_method` / `dummy_async_method`, a missing attribute, a lookup that
    raises AttributeError and a non-callable attribute all count as "not defined"; only a lookup that raises
    something else makes the call itself fail -/
theorem translated_ctor_has_method_iff (o : Nat) (name : String) (w : World) :
    ((Gen.TrBC.hasMethod prims o name w).2 = .ok true ↔ lookup w o name = some .method)
    ∧ ((∃ e, (Gen.TrBC.hasMethod prims o name w).2 = .error e) ↔ lookup w o name = some .propRuntimeError) := by
  rw [hasMethod_tie]
  unfold hasMethod
  cases lookup w o name with
  | none => simp
  | some m => cases m <;> simp

/-- `Const(UNDEF)` is refused -/
theorem translated_ctor_const_undef_refused (cls : String) (w : World) :
    (Gen.TrBC.constCall prims cls .undef w).2 = .error "ValueError" := by
  rw [constCall_tie]
  simp [constCall, Arg.isUndef, Arg.undef]

/-- equal hashable values share ONE instance (`Const(1) is Const(True)`), unhashable ones never do -/
example :
    let r1 := Gen.TrBC.constCall prims "Const" (.val (.int 1)) {}
    let r2 := Gen.TrBC.constCall prims "Const" (.val (.bool true)) r1.1
    let r3 := Gen.TrBC.constCall prims "Const" (.val (.lst [])) r2.1
    let r4 := Gen.TrBC.constCall prims "Const" (.val (.lst [])) r3.1
    r1.2.toOption = some 0 ∧ r2.2.toOption = some 0 ∧ r3.2.toOption = some 1 ∧ r4.2.toOption = some 2 := by decide

end Edzed.TrTie
