/-
C01 — combinational outputs agree with their inputs whenever the circuit is idle.

Model: EdzedModel/Simulate.lean (Circuit._simulate, eval_block, set_output's queueing, the
library CBlocks).  The theorems hold for every circuit of library blocks in which no block reads
its own output (acyclic networks in particular), every initial SBlock state, every sequence of
external events / evaluation choices / pauses — any number of SBlock changes per burst, any
evaluation order the simulator may pick, with CBlock→SBlock event feedback.
-/
import EdzedModel.Simulate
import EdzedProofs.Simulate
import EdzedModel.Gen.Translated
import EdzedProofs.SimTie
import EdzedProofs.CBlocksTie

namespace Edzed.Sim

/-- `first_pass`: when `_simulate` starts (all CBlocks in the eval set) the invariant holds -/
theorem first_pass (c : Circuit) (outS : Nat → Val) : Inv Val.pyEq c.net (start c outS) := by
  intro b hb _
  left
  simpa [start, Circuit.net] using hb

/-- `inv_preserved`: every operation preserves "each block that disagrees with its inputs is
    pending (in the eval set or downstream of a queued SBlock)" -/
theorem inv_preserved (c : Circuit) (hok : c.ok) (s : St Val) (h : Inv Val.pyEq c.net s) (op : Op) :
    Inv Val.pyEq c.net (step c s op) := by
  have wf := circuit_wf c hok
  cases op with
  | ext i k v =>
    have g := deliver_grows c.skinds s.outS s.Q i k v
    exact env_change_inv Val.pyEq c.net wf s h _ _ g.1 g.2
  | eval b =>
    have hd := drain_inv Val.pyEq c.net s h
    simp only [step, evalOp]
    split
    · exact hd
    · split
      · exact hd
      · split
        · exact hd
        · have g := effects_grows c b (c.net.fcalc b (drain c.net s).outC (drain c.net s).outS)
            (drain c.net s).outS (drain c.net s).Q
          exact eval_inv Val.pyEq c.net wf _ hd b _ _ g.1 g.2
  | idle =>
    simp only [step, idleOp]
    split
    · have hd := drain_inv Val.pyEq c.net s h
      intro b hb hdirty
      exact hd b hb hdirty
    · exact h

theorem run_inv (c : Circuit) (hok : c.ok) (s : St Val) (h : Inv Val.pyEq c.net s) (ops : List Op) :
    Inv Val.pyEq c.net (run c s ops) := by
  induction ops generalizing s with
  | nil => exact h
  | cons op ops ih => exact ih _ (inv_preserved c hok s h op)

/-- `idle_consistent`: whenever the simulator pauses — after the first pass following
    initialisation and after every burst — every combinational block's output equals (Python `==`)
    its function applied to the current outputs of its inputs -/
theorem idle_consistent (c : Circuit) (hok : c.ok) (outS : Nat → Val) (ops : List Op)
    (s' : St Val) (hidle : idleOp c (run c (start c outS) ops) = some s')
    (b : Nat) (hb : b < c.cblocks.length) :
    (s'.outC b).pyEq (calcBlk (c.blk b) (s'.outC b) s'.outC s'.outS) = true := by
  have hinv := run_inv c hok _ (first_pass c outS) ops
  generalize run c (start c outS) ops = s at hinv hidle
  have hd := drain_inv Val.pyEq c.net s hinv
  simp only [idleOp] at hidle
  split at hidle
  · next hi =>
    injection hidle with hs
    subst hs
    simp only [isIdle, Bool.and_eq_true, List.isEmpty_iff, List.all_eq_true, List.mem_range,
      Bool.not_eq_true'] at hi
    exact idle_clean Val.pyEq c.net _ hd (fun x hx => hi.2 x hx) hi.1 b hb
  · exact absurd hidle (by simp)

/-- `library_idempotent`: the hypothesis of the scheduling argument holds for every library
    block; for Compare it needs `low ≤ high`, which is exactly the constructor's check -/
theorem library_idempotent (b : CBlk) (hok : b.ok = true) (own : Val) (o e : Nat → Val) :
    calcBlk b (calcBlk b own o e) o e = calcBlk b own o e := calcBlk_idem b hok own o e

/-! ### the documented functions -/

theorem not_spec (b : CBlk) (h : b.fn = .not) (src : Src) (hp : b.pos = [src]) (own : Val) (o e : Nat → Val) :
    calcBlk b own o e = Val.bool (!(src.val o e).truthy) := by
  unfold calcBlk; simp [h, hp]

theorem and_spec (b : CBlk) (h : b.fn = .and) (own : Val) (o e : Nat → Val) :
    calcBlk b own o e = Val.bool (b.pos.all fun s => (s.val o e).truthy) := by
  unfold calcBlk; simp [h, List.all_map]; rfl

theorem or_spec (b : CBlk) (h : b.fn = .or) (own : Val) (o e : Nat → Val) :
    calcBlk b own o e = Val.bool (b.pos.any fun s => (s.val o e).truthy) := by
  unfold calcBlk; simp [h, List.any_map]; rfl

theorem xor_spec (b : CBlk) (h : b.fn = .xor) (own : Val) (o e : Nat → Val) :
    calcBlk b own o e = Val.bool (((b.pos.filter fun s => (s.val o e).truthy).length) % 2 == 1) := by
  unfold calcBlk; simp [h, countTruthy, List.filter_map]; rfl

theorem override_spec (b : CBlk) (null : Val) (h : b.fn = .override null) (own : Val) (o e : Nat → Val) :
    calcBlk b own o e =
      if (lookupNamed o e b.named "override").pyEq null then lookupNamed o e b.named "input"
      else lookupNamed o e b.named "override" := by
  unfold calcBlk; simp [h]

/-- Compare: hysteresis between `low` and `high` -/
theorem compare_spec (b : CBlk) (low high : Rat) (h : b.fn = .compare low high) (hlh : low ≤ high)
    (src : Src) (hp : b.pos = [src]) (own : Val) (o e : Nat → Val) :
    let x := numOf (src.val o e)
    (high ≤ x → calcBlk b own o e = Val.bool true) ∧
    (x < low → calcBlk b own o e = Val.bool false) ∧
    (own.isUndef = false → low ≤ x → x < high → calcBlk b own o e = Val.bool own.truthy) ∧
    (own.isUndef = true → calcBlk b own o e = Val.bool (decide ((low + high) / 2 ≤ x))) := by
  intro x
  rw [calcBlk_compare b low high h]
  simp only [hp, List.map_cons, List.map_nil, List.headD_cons]
  have hmid1 : low ≤ (low + high) / 2 := by grind
  have hmid2 : (low + high) / 2 ≤ high := by grind
  refine ⟨fun hx => ?_, fun hx => ?_, fun hu h1 h2 => ?_, fun hu => ?_⟩
  · have : (if own.isUndef = true then (low + high) / 2 else if own.truthy = true then low else high) ≤ x := by
      split
      · exact Rat.le_trans hmid2 hx
      · split
        · exact Rat.le_trans hlh hx
        · exact hx
    simp [x, this]
  · have : ¬ (if own.isUndef = true then (low + high) / 2 else if own.truthy = true then low else high) ≤ x := by
      intro hle
      have : low ≤ x := by
        split at hle
        · exact Rat.le_trans hmid1 hle
        · split at hle
          · exact hle
          · exact Rat.le_trans hlh hle
      exact absurd this (Rat.not_le.mpr hx)
    simp [x, this]
  · simp only [hu, Bool.false_eq_true, ↓reduceIte]
    cases ht : own.truthy
    · simp [x, Rat.not_le.mpr h2]
    · simp [x, h1]
  · simp [hu, x]

/-- non-vacuity: a concrete circuit (x = s0 xor s1, y = not x, feedback y → 'put' s1 excluded)
    satisfies `Circuit.ok` -/
example : ∃ c : Circuit, c.ok ∧ c.cblocks.length = 2 :=
  ⟨{ cblocks := [{ fn := .xor, pos := [.s 0, .s 1] }, { fn := .not, pos := [.c 0] }],
     skinds := [.input, .input], nblocks := 4 },
   by
     intro b hb
     have : b = 0 ∨ b = 1 := by simp at hb; omega
     rcases this with rfl | rfl <;> exact ⟨rfl, by decide⟩,
   rfl⟩

end Edzed.Sim

/-! ### tie to the source by translation

tools/py2lean.py regenerates `Gen.Tr.compareCalc`, `overrideCalc`, `xorFunc` from `Compare.calc_output`,
`Override.calc_output` and the lambda of `Xor` on every run. -/
namespace Edzed.TrTie

theorem translated_compare_is_model (low high : Rat) (own v : Val) (outC outS : Nat → Val) :
    Sim.calcBlk { fn := .compare low high, pos := [.k v] } own outC outS
      = Val.bool (Gen.Tr.compareCalc low high own (Sim.numOf v)) := by
  unfold Gen.Tr.compareCalc
  simp only [Sim.calcBlk, List.map, Sim.Src.val, List.headD]
  cases own.isUndef <;> simp

theorem translated_override_is_model (null inp ov : Val) (outC outS : Nat → Val) :
    Sim.calcBlk { fn := .override null, named := [("input", .k inp), ("override", .k ov)] } .undef outC outS
      = Gen.Tr.overrideCalc null inp ov := by
  simp [Sim.calcBlk, Sim.lookupNamed, Sim.Src.val, Gen.Tr.overrideCalc]

theorem translated_xor_is_model (pos : List Sim.Src) (own : Val) (outC outS : Nat → Val) :
    Sim.calcBlk { fn := .xor, pos := pos } own outC outS
      = Val.bool (Gen.Tr.xorFunc (pos.map (Sim.Src.val outC outS))) := by
  simp only [Sim.calcBlk, Gen.Tr.xorFunc, Sim.countTruthy]
  congr 1
  generalize (List.filter Val.truthy (List.map (Sim.Src.val outC outS) pos)).length = n
  rcases Nat.mod_two_eq_zero_or_one n with h | h <;> simp [h]

theorem translated_not_is_model (x : Sim.Src) (own : Val) (outC outS : Nat → Val) :
    Sim.calcBlk { fn := .not, pos := [x] } own outC outS = Val.bool (Gen.Tr.notCalc (x.val outC outS)) := by
  simp [Sim.calcBlk, Gen.Tr.notCalc]

theorem translated_and_is_model (pos : List Sim.Src) (own : Val) (outC outS : Nat → Val) :
    Sim.calcBlk { fn := .and, pos := pos } own outC outS
      = Val.bool (Gen.Tr.andFunc (pos.map (Sim.Src.val outC outS))) := rfl

theorem translated_or_is_model (pos : List Sim.Src) (own : Val) (outC outS : Nat → Val) :
    Sim.calcBlk { fn := .or, pos := pos } own outC outS
      = Val.bool (Gen.Tr.orFunc (pos.map (Sim.Src.val outC outS))) := rfl

/-! ### the simulator loop that C01's operations `start`, `eval b`, `idle` stand for

`Gen.TrL.simInit` / `simStep` are regenerated from the current AST of `Circuit._simulate`
(tools/py2lean_sim.py); `SimTie.simPrims` instantiates their primitives with the model (details in
EdzedProps/C10.lean, EdzedProofs/SimTie.lean). -/

open Edzed.SimTie Edzed.Gen.TrL in
/-- the first pass starts from what the CODE computes before its loop: every CBlock is in the eval set
    (so `first_pass`'s invariant holds initially), the counter is 0 -/
theorem translated_first_pass_is_start (c : Sim.Circuit) (en : (Nat → Bool) → List Nat) (outS : Nat → Val) :
    toSt (simInit (simPrims c en)).2.1 (simInit (simPrims c en)).2.2 ⟨fun _ => .undef, outS, []⟩
      = Sim.start c outS := by
  rw [simInit_eq]; rfl

open Edzed.SimTie Edzed.Gen.TrL in
/-- one pass through the body of the code's `while True:` (not at the pause) leaves the locals and the
    world exactly as C01's operation `eval b` does, for a block `b` of the eval set: the queue is drained
    BEFORE the evaluation, the block is taken out, its `oconnections` enter only when its output changed;
    the pass never suspends -/
theorem translated_iteration_is_eval_op (c : Sim.Circuit) (en : (Nat → Bool) → List Nat) (hen : Enumerates c en)
    (s : Sim.St Val) (h : pauseCond c s = false) :
    ∃ b, match simStep (simPrims c en) c.limit s.E s.cnt (worldOf s) with
      | .next (E', cnt') w' => toSt E' cnt' w' = Sim.step c s (.eval b)
      | .raise _ (E', _) w' => toSt E' s.cnt w' = Sim.step c s (.eval b)
      | .await _ => False := by
  obtain ⟨b, _, heq⟩ := simStep_j1_eq c en hen s
  refine ⟨b, ?_⟩
  rw [simStep_nopause c en s h, heq]
  simp only [Sim.step]
  rcases hr : Sim.evalOp c s b with ⟨s', r⟩
  cases r with
  | ok ch v => rfl
  | illegalChoice => rfl
  | instability =>
    have := Burst.evalOp_instability c s b (by rw [hr])
    rcases Burst.evalOp_cases c s b with ⟨_, h2⟩ | ⟨_, _, h3⟩ | ⟨_, _, _, h3⟩ | ⟨_, _, _, _, ch', v', h3⟩
    · rw [h2] at hr; cases hr
    · rw [h3] at hr
      cases hr
      rfl
    · rw [h3] at hr; cases hr
    · rw [h3] at hr; cases hr

open Edzed.SimTie in
/-- C01's operation `idle` succeeds exactly where the code's loop reaches its pause condition
    `not eval_set and queue.empty()` (after at most one `continue`) -/
theorem translated_pause_is_idle (c : Sim.Circuit) (s s' : Sim.St Val) (h : Sim.idleOp c s = some s') :
    pauseCond c (Sim.drain c.net s) = true ∧ s' = { Sim.drain c.net s with cnt := 0 } :=
  idle_pause c s s' h

/-! ### constructors and argument passing of the library CBlocks (edzed/blocklib/cblocks.py)

`Gen.TrC.*` (EdzedModel/Gen/TranslatedCBlocks.lean) is regenerated by tools/py2lean_cblocks.py from the
current source: the constructors as lists of actions in program order, `FuncBlock.calc_output` as the
call its function receives, the `start()` methods as their signature demands.  Model:
EdzedModel/CBlocks.lean; lemmas: EdzedProofs/CBlocksTie.lean. -/

section CBlocks
open Edzed.Sim Edzed.CBlocks Edzed.CBlocksTie Edzed.Gen.TrC

/-- `FuncBlock.calc_output`: for every set of connected inputs (`self.inputs` = the dict keys,
    `self._in[name]` = a value for a single input, a tuple for a group) and both `unpack` modes the
    function receives exactly the model's documented call -/
theorem translated_funcblock_calc_is_model (b : CBlk) (h : KeysOk b) (unpack : Bool) (outC outS : Nat → Val) :
    funcBlockCalc unpack (inputKeys b) (lookupArg (entries b outC outS))
      = some (funcCall b unpack outC outS) :=
  funcBlockCalc_eq b h unpack outC outS

/-- … hence the output of a FuncBlock in the simulator model (`Sim.calcBlk`) IS its function applied to the
    call the translated code makes -/
theorem translated_funcblock_output_is_function_of_call (b : CBlk) (f : Script) (u : Bool)
    (hfn : b.fn = .func f u) (h : KeysOk b) (own : Val) (outC outS : Nat → Val) :
    ∃ c, funcBlockCalc u (inputKeys b) (lookupArg (entries b outC outS)) = some c ∧
         calcBlk b own outC outS = Script.apply f u c :=
  ⟨_, funcBlockCalc_eq b h u outC outS, calcBlk_func b f u hfn h own outC outS⟩

/-- the documented shape of that call: unnamed inputs are separate positional values when `unpack` is
    true and ONE tuple when it is false; a named single input is a keyword VALUE, a named group a keyword
    TUPLE; nothing else is passed -/
theorem translated_funcblock_documented_arguments (b : CBlk) (h : KeysOk b) (outC outS : Nat → Val) :
    funcBlockCalc true (inputKeys b) (lookupArg (entries b outC outS))
      = some ⟨(b.pos.map (Src.val outC outS)).map Arg.one,
              b.named.map (fun p => (p.1, Arg.one (p.2.val outC outS)))
              ++ b.groups.map (fun g => (g.1, Arg.many (g.2.map (Src.val outC outS))))⟩ ∧
    funcBlockCalc false (inputKeys b) (lookupArg (entries b outC outS))
      = some ⟨[Arg.many (b.pos.map (Src.val outC outS))],
              b.named.map (fun p => (p.1, Arg.one (p.2.val outC outS)))
              ++ b.groups.map (fun g => (g.1, Arg.many (g.2.map (Src.val outC outS))))⟩ :=
  ⟨funcBlockCalc_eq b h true outC outS, funcBlockCalc_eq b h false outC outS⟩

/-- `FuncBlock.__init__` stores the function and the flag BEFORE the base class constructor runs, and
    `unpack` defaults to `True` (the model's `mkFunc`) -/
theorem translated_funcblock_init_is_model (f : Script) (unpack : Option Bool) :
    runCtor (funcBlockInit unpack) = .ok ([("_func", .func), ("_unpack", .bool (unpack.getD true))], true) ∧
    mkFunc f unpack = .func f (unpack.getD true) :=
  ⟨rfl, rfl⟩

theorem translated_funcblock_unpack_defaults_to_true :
    runCtor (funcBlockInit none) = .ok ([("_func", .func), ("_unpack", .bool true)], true) := rfl

/-- `And`, `Or`, `Xor` are FuncBlocks that pass `unpack=False`: their function (translated separately:
    `andFunc`, `orFunc`, `xorFunc`) receives ONE tuple of all unnamed inputs – which is how `Sim.calcBlk`
    computes them -/
theorem translated_logic_blocks_pass_one_tuple (b : CBlk) (h : KeysOk b) (outC outS : Nat → Val) :
    runCtor andInit = .ok ([("_func", .func), ("_unpack", .bool false)], true) ∧
    runCtor orInit = .ok ([("_func", .func), ("_unpack", .bool false)], true) ∧
    runCtor xorInit = .ok ([("_func", .func), ("_unpack", .bool false)], true) ∧
    (funcBlockCalc false (inputKeys b) (lookupArg (entries b outC outS))).map (·.pos)
      = some [Arg.many (b.pos.map (Src.val outC outS))] ∧
    calcBlk { b with fn := .and } .undef outC outS = Val.bool (Gen.Tr.andFunc (b.pos.map (Src.val outC outS))) ∧
    calcBlk { b with fn := .or } .undef outC outS = Val.bool (Gen.Tr.orFunc (b.pos.map (Src.val outC outS))) := by
  refine ⟨rfl, rfl, rfl, ?_, rfl, rfl⟩
  rw [funcBlockCalc_eq b h false outC outS]
  rfl

/-- `Compare.__init__` IS the model's `mkCompare`: `high < low` is tested FIRST and refused with ValueError
    (nothing is stored, the base class constructor does not run); otherwise both thresholds are stored -/
theorem translated_compare_init_is_model (low high : Rat) :
    (runCtor (compareInit low high)).map (fun _ => Fn.compare low high)
      = (mkCompare low high).mapError (fun _ => "ValueError") := by
  rw [runCtor_compareInit]
  unfold mkCompare
  by_cases h : high < low <;> simp [h, Except.map, Except.mapError]

theorem translated_compare_refuses_high_below_low (low high : Rat) (h : high < low) :
    compareInit low high = [Prim.raise "ValueError"] := by
  simp [compareInit, h]

/-- a Compare that was constructed has `low ≤ high` – the hypothesis of C01's `library_idempotent` /
    `compare_spec` is discharged by the translated constructor guard -/
theorem translated_compare_constructed_is_ok (low high : Rat) (attrs : List (String × CVal) × Bool)
    (h : runCtor (compareInit low high) = .ok attrs) :
    attrs = ([("_low", .rat low), ("_high", .rat high)], true) ∧
    (CBlk.ok { fn := .compare low high } = true) := by
  rw [runCtor_compareInit] at h
  by_cases hlt : high < low
  · simp [hlt] at h
  · simp only [hlt, ↓reduceIte, Except.ok.injEq] at h
    refine ⟨h.symm, ?_⟩
    simp only [CBlk.ok, decide_eq_true_eq]
    exact Rat.not_lt.mp hlt

/-- THE HYSTERESIS LAW from the translated code alone: for every Compare whose translated constructor
    succeeded, the translated `calc_output` gives True at or above `high`, False below `low`, keeps its
    output in between, and compares with the mean on the first evaluation -/
theorem translated_compare_hysteresis (low high : Rat) (attrs : List (String × CVal) × Bool)
    (h : runCtor (compareInit low high) = .ok attrs) (own : Val) (x : Rat) :
    (high ≤ x → Gen.Tr.compareCalc low high own x = true) ∧
    (x < low → Gen.Tr.compareCalc low high own x = false) ∧
    (own.isUndef = false → low ≤ x → x < high → Gen.Tr.compareCalc low high own x = own.truthy) ∧
    (own.isUndef = true → Gen.Tr.compareCalc low high own x = decide ((low + high) / 2 ≤ x)) := by
  have hok := (translated_compare_constructed_is_ok low high attrs h).2
  simp only [CBlk.ok, decide_eq_true_eq] at hok
  exact compareCalc_hysteresis low high hok own x

/-- `Override.__init__`: `null_value` defaults to `None` (the model's `mkOverride`) -/
theorem translated_override_init_is_model (null : Option Val) :
    runCtor (overrideInit null) = .ok ([("_null", .val (null.getD Val.none))], true) ∧
    mkOverride null = .override (null.getD Val.none) :=
  ⟨rfl, rfl⟩

/-- `start()` of Not / Compare / Override: the base class first, then exactly the inputs `Sim.calcBlk`
    reads are demanded – one unnamed input, resp. the single inputs `input` and `override` -/
theorem translated_cblock_start_signatures :
    notStart = [.superStart, .checkSignature [("_", some 1)]] ∧
    compareStart = [.superStart, .checkSignature [("_", some 1)]] ∧
    overrideStart = [.superStart, .checkSignature [("input", none), ("override", none)]] :=
  ⟨rfl, rfl, rfl⟩

/-- `FuncBlock.start` IS the model's `funcStart`: a trial call with `inspect.signature(func).bind` in the
    slot of the function decides whether the function fits the connected inputs -/
theorem translated_funcblock_start_is_model (trial : Option String) :
    runStart .user false (funcBlockStart trial) = funcStart trial :=
  runStart_funcBlockStart trial

/-- … the trial call happens with `bind` in the slot, BEFORE the base class `start()`; whatever it raises,
    the user's function is back in the slot afterwards (`finally`), and the base class is started only when
    the function fits; a mismatch (TypeError) is reported as TypeError, anything else passes unchanged -/
theorem translated_funcblock_start_restores_function (trial : Option String) :
    (∃ rest, funcBlockStart trial = .saveFunc :: .setFunc .bind :: .calcOutput :: rest) ∧
    (runStart .user false (funcBlockStart trial)).1 = .user ∧
    ((runStart .user false (funcBlockStart trial)).2.1 = true ↔ trial = none) ∧
    (∀ e, trial = some e → (runStart .user false (funcBlockStart trial)).2.2 = .error e) := by
  rw [runStart_funcBlockStart]
  refine ⟨⟨_, rfl⟩, ?_, ?_, ?_⟩
  · cases trial <;> rfl
  · cases trial <;> simp [funcStart]
  · intro e he; subst he; rfl

/-! non-vacuity -/

/-- a FuncBlock `f(s0, c0, c=s1, g=(c0, s0))` -/
def exBlk : CBlk :=
  { fn := .func .glen true, pos := [.s 0, .c 0], named := [("c", .s 1)], groups := [("g", [.c 0, .s 0])] }

example : KeysOk exBlk := by unfold KeysOk; decide

example : funcBlockCalc true (inputKeys exBlk) (lookupArg (entries exBlk (fun _ => Val.bool true) (fun _ => Val.int 3)))
    = some ⟨[.one (Val.int 3), .one (Val.bool true)],
            [("c", .one (Val.int 3)), ("g", .many [Val.bool true, Val.int 3])]⟩ := by decide +kernel

example : funcBlockCalc false (inputKeys exBlk) (lookupArg (entries exBlk (fun _ => Val.bool true) (fun _ => Val.int 3)))
    = some ⟨[.many [Val.int 3, Val.bool true]],
            [("c", .one (Val.int 3)), ("g", .many [Val.bool true, Val.int 3])]⟩ := by decide +kernel

/-- the constructor guard has both outcomes -/
example : runCtor (compareInit 1 2) = .ok ([("_low", .rat 1), ("_high", .rat 2)], true)
    ∧ runCtor (compareInit 2 2) = .ok ([("_low", .rat 2), ("_high", .rat 2)], true)
    ∧ runCtor (compareInit 2 1) = .error "ValueError" := by
  refine ⟨?_, ?_, ?_⟩
  · rw [runCtor_compareInit, if_neg (by decide +kernel)]
  · rw [runCtor_compareInit, if_neg (by decide +kernel)]
  · rw [runCtor_compareInit, if_pos (by decide +kernel)]

end CBlocks

end Edzed.TrTie
