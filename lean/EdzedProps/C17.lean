/-
C17 — An Input never outputs a value that its validators reject.

Model: EdzedModel/Validate.lean (mirrors `_Validation._validate`, `Input`, `InputExp`, with the
repair patches/C17-allowed-unhashable.diff).  The validators are ARBITRARY functions
(`check : Val → Val`, `schema : Val → Option Val`, `none` = raises) and an arbitrary `allowed` list;
all statements hold for every configuration, every value and every event sequence.

`Accepts c v w` is the acceptance condition of the property text, written without reference to
the model's `validate`: `v` is among `allowed` (when given), `check v` is a true value (when given)
and `schema v` does not raise (when given) and yields `w` (`w = v` without a schema).
-/
import EdzedModel.Validate
import EdzedProofs.Validate
import EdzedProofs.ValidateTie
import EdzedModel.Gen.Constants

namespace Edzed.Validate

/-- `v` is among the allowed values (when `allowed` is given): it is hashable and equal
    (Python `==`: `True == 1 == 1.0`) to a member -/
def Allows (c : Cfg) (v : Val) : Prop :=
  ∀ l, c.allowed = some l → v.hashable = true ∧ ∃ a ∈ l, v.pyEq a = true

/-- `check v` is a true value (when `check` is given) -/
def Checks (c : Cfg) (v : Val) : Prop :=
  ∀ f, c.check = some f → (f v).truthy = true

/-- `schema v` does not raise and returns `w` (when given); otherwise `w` is `v` itself -/
def Converts (c : Cfg) (v w : Val) : Prop :=
  match c.schema with
  | none => w = v
  | some s => s v = .ok w

def Accepts (c : Cfg) (v w : Val) : Prop := Allows c v ∧ Checks c v ∧ Converts c v w

/-- no validator accepts `v` with a proper result (a schema result UNDEF cannot be an output) -/
def Refused (c : Cfg) (v : Val) : Prop := ∀ w, Accepts c v w → w = .undef

/-- `_validate` returns `w` iff the value is accepted with conversion `w` -/
theorem validate_iff (c : Cfg) (v w : Val) : validate c v = some w ↔ Accepts c v w :=
  validate_spec c v w

/-- membership in `allowed` does not depend on which operand of `==` is the member (CPython's set
    lookup compares the stored key with the probe; the model writes `v == a`) -/
theorem allowed_membership_symmetric (l : List Val) (v : Val) :
    inAllowed l v = (v.hashable && l.any (fun a => a.pyEq v)) := by
  unfold inAllowed
  congr 2
  funext a
  exact Val.pyEq_comm v a

/-- **accept_iff**: the put event returns True iff the value is among `allowed` ∧ `check` gives a
    true value ∧ `schema` does not raise (and yields a value that can be an output) -/
theorem accept_iff (c : Cfg) (out v : Val) :
    (put c out v).res = .ret true ↔ ∃ w, Accepts c v w ∧ w ≠ .undef := by
  simp only [← validate_iff]
  unfold put
  cases h : validate c v with
  | none => simp
  | some w => cases hw : w.isUndef <;> simp_all [Val.isUndef_iff, Val.isUndef_false_iff]

/-- … and returns False iff one of the three validators refuses the value -/
theorem refuse_iff (c : Cfg) (out v : Val) :
    (put c out v).res = .ret false ↔ ¬ ∃ w, Accepts c v w := by
  simp only [← validate_iff]
  unfold put
  cases h : validate c v with
  | none => simp
  | some w => cases hw : w.isUndef <;> simp [hw]

/-- the only other outcome: the schema produced UNDEF, `set_output` refuses it, the handler fails -/
theorem abort_iff (c : Cfg) (out v : Val) :
    (put c out v).res = .abort ↔ Accepts c v .undef := by
  simp only [← validate_iff]
  unfold put
  cases h : validate c v with
  | none => simp
  | some w => cases hw : w.isUndef <;> simp_all [Val.isUndef_iff, Val.isUndef_false_iff]

/-- an accepted put makes the output equal (`==`) to `schema v` (or `v`); the stored object is the
    new value unless the old output already compared equal to it (`set_output` keeps it then) -/
theorem accepted_put_sets_output (c : Cfg) (out v w : Val) (h : Accepts c v w) (hw : w ≠ .undef) :
    (put c out v).out.pyEq w = true ∧
    ((put c out v).out = w ∨ ((put c out v).out = out ∧ out.pyEq w = true)) := by
  have hp := put_some c out v w ((validate_iff c v w).2 h) hw
  rw [hp.1]
  refine ⟨store_pyEq out w, ?_⟩
  unfold store; split <;> simp_all

/-- **reject_changes_nothing**: an event that does not return True leaves the output alone -/
theorem reject_changes_nothing (c : Cfg) (out v : Val) (h : (put c out v).res ≠ .ret true) :
    (put c out v).out = out := by
  unfold put at *
  split
  · rfl
  · split
    · rfl
    · simp_all

/-- sequences: puts that are all refused change nothing, however many -/
theorem refused_puts_change_nothing (c : Cfg) (out : Val) (vs : List Val)
    (h : ∀ u ∈ vs, Refused c u) : run c out vs = out := by
  induction vs generalizing out with
  | nil => rfl
  | cons u us ih =>
    rw [run_cons, ih _ (fun x hx => h x (List.mem_cons_of_mem _ hx))]
    apply reject_changes_nothing
    intro ht
    obtain ⟨w, hw, hne⟩ := (accept_iff c out u).1 ht
    exact hne (h u (List.mem_cons_self) w hw)

/-- **output_is_last_accepted**: after EVERY sequence of puts the output equals the conversion of
    the last accepted put (`pre` arbitrary, `v` accepted with `w`, nothing accepted afterwards) -/
theorem output_is_last_accepted (c : Cfg) (out : Val) (pre post : List Val) (v w : Val)
    (hv : Accepts c v w) (hw : w ≠ .undef) (hpost : ∀ u ∈ post, Refused c u) :
    (run c out (pre ++ v :: post)).pyEq w = true := by
  rw [run_append, run_cons, refused_puts_change_nothing c _ post hpost]
  exact (accepted_put_sets_output c _ v w hv hw).1

/-- an output is valid w.r.t. a history of submitted values: still UNDEF, or the conversion
    `schema v` of a submitted value `v` that all validators accept -/
def ValidOut (c : Cfg) (hist : List Val) (o : Val) : Prop :=
  o = .undef ∨ ∃ v ∈ hist, Accepts c v o

theorem put_valid (c : Cfg) (hist : List Val) (out v : Val) (h : ValidOut c hist out) :
    ValidOut c (hist ++ [v]) (put c out v).out := by
  have mono : ValidOut c (hist ++ [v]) out := by
    rcases h with h | ⟨x, hx, hacc⟩
    · exact .inl h
    · exact .inr ⟨x, List.mem_append_left _ hx, hacc⟩
  cases hv : validate c v with
  | none => rw [(put_none c out v hv).1]; exact mono
  | some w =>
    by_cases hw : w = .undef
    · subst hw; rw [(put_undef c out v hv).1]; exact mono
    · rw [(put_some c out v w hv hw).1]
      rcases store_cases out w with h1 | h1 <;> rw [h1]
      · exact mono
      · exact .inr ⟨v, by simp, (validate_iff c v w).1 hv⟩

theorem run_valid (c : Cfg) (hist : List Val) (out : Val) (vs : List Val)
    (h : ValidOut c hist out) : ValidOut c (hist ++ vs) (run c out vs) := by
  induction vs generalizing hist out with
  | nil => simpa [run_nil] using h
  | cons v vs ih =>
    rw [run_cons]
    have := ih (hist ++ [v]) _ (put_valid c hist out v h)
    simpa using this

theorem run_ne_undef (c : Cfg) (out : Val) (vs : List Val) (h : out ≠ .undef) :
    run c out vs ≠ .undef := by
  induction vs generalizing out with
  | nil => exact h
  | cons v vs ih =>
    rw [run_cons]; apply ih
    cases hv : validate c v with
    | none => rw [(put_none c out v hv).1]; exact h
    | some w =>
      by_cases hw : w = .undef
      · subst hw; rw [(put_undef c out v hv).1]; exact h
      · rw [(put_some c out v w hv hw).1]; exact store_ne_undef out w hw

/-- start-up keeps validity: whatever was restored / given as initdef, a started Input has an
    output that is the accepted conversion of one of the two -/
theorem init_valid (c : Cfg) (restored : Option Val) (initdef o : Val)
    (h : (init c restored initdef).1 = .ok o) :
    o ≠ .undef ∧ ValidOut c (restored.toList ++ [initdef]) o := by
  unfold init at h
  simp only at h
  split at h
  · cases h
  · split at h
    · cases h
    · next hne =>
      injection h with h
      refine ⟨by rw [← h]; intro hh; simp [hh, Val.isUndef] at hne, ?_⟩
      rw [← h]
      have h1 : ValidOut c restored.toList (restorePut c restored).out := by
        unfold restorePut
        cases restored with
        | none => exact .inl rfl
        | some r => simpa using put_valid c [] .undef r (.inl rfl)
      unfold initdefPut
      split
      · exact put_valid c _ _ _ h1
      · rcases h1 with h1 | ⟨x, hx, hacc⟩
        · exact .inl h1
        · exact .inr ⟨x, List.mem_append_left _ hx, hacc⟩

/-- **output_always_valid**: over ALL histories (any restored state, any initdef, any sequence of
    puts) the output of a started Input is never UNDEF and is always the conversion `schema v` of
    a value `v` of that history which `allowed`, `check` and `schema` accept -/
theorem output_always_valid (c : Cfg) (restored : Option Val) (initdef o : Val) (vs : List Val)
    (h : (init c restored initdef).1 = .ok o) :
    run c o vs ≠ .undef ∧
    ∃ v ∈ restored.toList ++ [initdef] ++ vs, Accepts c v (run c o vs) := by
  have ⟨hne, hv⟩ := init_valid c restored initdef o h
  have h1 := run_ne_undef c o vs hne
  refine ⟨h1, ?_⟩
  rcases run_valid c _ o vs hv with h2 | h2
  · exact absurd h2 h1
  · exact h2

/-- **schema_last**: the user's functions are called at most once each, `check` before `schema`,
    both with the submitted (unconverted) value … -/
theorem calls_shape (c : Cfg) (v : Val) : (calls c v).Sublist [.check v, .schema v] :=
  calls_sublist c v

/-- … `check` only for a value that is among the allowed ones … -/
theorem check_called_iff (c : Cfg) (v x : Val) :
    Call.check x ∈ calls c v ↔ x = v ∧ c.check.isSome = true ∧ Allows c v :=
  calls_check c v x

/-- … and `schema` last: only for a value that `allowed` and `check` have already accepted -/
theorem schema_last (c : Cfg) (v x : Val) :
    Call.schema x ∈ calls c v ↔ x = v ∧ c.schema.isSome = true ∧ Allows c v ∧ Checks c v :=
  calls_schema c v x

/-! ### constructors and start-up -/

/-- `allowed` with an unhashable member cannot even be turned into a set -/
theorem unhashable_allowed_refused (c : Cfg) (initdef : Val) (h : c.allowedHashable = false) :
    (construct c initdef).1 = .error .typeError := by
  simp [construct, h]

/-- **bad_initdef_refused**: the constructor of an Input with an initdef succeeds iff the initdef
    is accepted, and raises ValueError iff it is not -/
theorem bad_initdef_refused (c : Cfg) (initdef : Val) (hh : c.allowedHashable = true)
    (hi : initdef ≠ .undef) :
    ((construct c initdef).1 = .ok () ↔ ∃ w, Accepts c initdef w) ∧
    ((construct c initdef).1 = .error .valueError ↔ ¬ ∃ w, Accepts c initdef w) := by
  have hu : initdef.isUndef = false := (Val.isUndef_false_iff _).2 hi
  simp only [← validate_iff]
  unfold construct
  cases hv : validate c initdef <;> simp [hh, hu]

/-- no initdef, nothing to refuse -/
theorem no_initdef_accepted (c : Cfg) (hh : c.allowedHashable = true) :
    (construct c .undef).1 = .ok () := by
  simp [construct, hh, Val.isUndef]

/-- **bad_expired_refused** (and the initdef of an InputExp): the constructor succeeds iff the
    initdef (when given) and the expired value are both accepted; what is kept are their
    conversions `inp`, `x`; otherwise it raises ValueError -/
theorem exp_constructor_iff (c : Cfg) (initdef expired : Val) (hh : c.allowedHashable = true)
    (inp : Option Val) (x : Val) :
    (constructExp c initdef expired).1 = .ok (inp, x) ↔
      ((initdef = .undef ∧ inp = none) ∨
       (initdef ≠ .undef ∧ ∃ w, Accepts c initdef w ∧ inp = some w)) ∧
      Accepts c expired x := by
  simp only [← validate_iff]
  unfold constructExp
  by_cases hi : initdef = .undef
  · subst hi
    cases hx : validate c expired <;> simp [hh, Val.isUndef, eq_comm]
  · have hu : initdef.isUndef = false := (Val.isUndef_false_iff _).2 hi
    cases hv : validate c initdef <;> cases hx : validate c expired <;>
      simp [hh, hu, hi, eq_comm]

theorem bad_expired_refused (c : Cfg) (initdef expired : Val) (hh : c.allowedHashable = true)
    (h : ¬ ∃ w, Accepts c expired w) :
    (constructExp c initdef expired).1 = .error .valueError := by
  simp only [← validate_iff] at h
  have hx : validate c expired = none := by
    cases hv : validate c expired with
    | none => rfl
    | some w => exact absurd ⟨w, hv⟩ h
  unfold constructExp
  by_cases hi : initdef.isUndef = true
  · simp [hh, hi, hx]
  · cases hv : validate c initdef <;> simp [hh, hi, hx]

theorem exp_bad_initdef_refused (c : Cfg) (initdef expired : Val) (hh : c.allowedHashable = true)
    (hi : initdef ≠ .undef) (h : ¬ ∃ w, Accepts c initdef w) :
    (constructExp c initdef expired).1 = .error .valueError := by
  simp only [← validate_iff] at h
  have hx : validate c initdef = none := by
    cases hv : validate c initdef with
    | none => rfl
    | some w => exact absurd ⟨w, hv⟩ h
  have hu : initdef.isUndef = false := (Val.isUndef_false_iff _).2 hi
  simp [constructExp, hh, hu, hx]

/-- **restore_validated**: a saved state passes through the same validation – a refused one is
    ignored (start-up proceeds exactly as without saved state) … -/
theorem restore_validated (c : Cfg) (r initdef : Val) (h : ¬ ∃ w, Accepts c r w) :
    (init c (some r) initdef).1 = (init c none initdef).1 := by
  simp only [← validate_iff] at h
  have hx : validate c r = none := by
    cases hv : validate c r with
    | none => rfl
    | some w => exact absurd ⟨w, hv⟩ h
  have hp := put_none c .undef r hx
  have e1 : (restorePut c (some r)).out = (restorePut c none).out := hp.1
  have e2 : (restorePut c (some r)).res = (restorePut c none).res := hp.2
  unfold init
  simp only [e1, e2]

/-- … an accepted one becomes the output in its converted form (the initdef is not used then) -/
theorem restore_accepted (c : Cfg) (r initdef w : Val) (h : Accepts c r w) (hw : w ≠ .undef) :
    (init c (some r) initdef).1 = .ok w := by
  have hp := put_some c .undef r w ((validate_iff c r w).2 h) hw
  have hu : w.isUndef = false := (Val.isUndef_false_iff _).2 hw
  simp [init, restorePut, initdefPut, hp.1, hp.2, store_undef w hw, hu]

/-! ### InputExp -/

/-- the put event of an InputExp is accepted under the same condition -/
theorem exp_accept_iff (e : ExpCfg) (s : ExpState) (v : Val) :
    (putExp e s v).2.1 = true ↔ ∃ w, Accepts e.v v w := by
  simp only [← validate_iff]
  unfold putExp
  cases hv : validate e.v v <;> simp

/-- a refused put leaves state, value, output and the running timer alone -/
theorem exp_reject_changes_nothing (e : ExpCfg) (s : ExpState) (v : Val)
    (h : (putExp e s v).2.1 = false) : (putExp e s v).1 = s := by
  unfold putExp at *
  cases hv : validate e.v v <;> simp_all

/-- an accepted put stores `schema v`, makes the block 'valid', restarts the timer and shows the
    stored value at the output -/
theorem exp_accepted_put (e : ExpCfg) (s : ExpState) (v w : Val) (h : Accepts e.v v w) :
    (putExp e s v).1.st = .valid ∧ (putExp e s v).1.input = some w ∧
    (putExp e s v).1.deadline = e.duration.map (s.now + ·) ∧
    (w ≠ .undef → (putExp e s v).1.out.pyEq w = true) := by
  have hv := (validate_iff e.v v w).2 h
  unfold putExp
  simp only [hv, calcOutput, Option.getD, true_and]
  intro hw
  have hu : w.isUndef = false := (Val.isUndef_false_iff _).2 hw
  simp [setOut, hu, store_pyEq]

/-- the values submitted by an operation sequence -/
def putsOf (ops : List ExpOp) : List Val :=
  ops.filterMap fun | .put v => some v | .wait _ => none

/-- validity of an InputExp w.r.t. the submitted values: while 'valid' the stored value is the
    accepted conversion of one of them and the output equals it; when 'expired' the output equals
    the (validated) expired value -/
def ExpValid (e : ExpCfg) (hist : List Val) (s : ExpState) : Prop :=
  match s.st with
  | .valid => ∃ w, s.input = some w ∧ (∃ v ∈ hist, Accepts e.v v w) ∧
      (w ≠ .undef → s.out.pyEq w = true)
  | .expired => e.expired ≠ .undef → s.out.pyEq e.expired = true

theorem ExpValid.mono (e : ExpCfg) (h1 h2 : List Val) (s : ExpState) (h : ExpValid e h1 s) :
    ExpValid e (h1 ++ h2) s := by
  unfold ExpValid at *
  split at h
  · obtain ⟨w, hi, ⟨v, hv, ha⟩, ho⟩ := h
    exact ⟨w, hi, ⟨v, List.mem_append_left _ hv, ha⟩, ho⟩
  · exact h

theorem wait_valid (e : ExpCfg) (hist : List Val) (s : ExpState) (d : Nat)
    (h : ExpValid e hist s) : ExpValid e hist (wait e s d) := by
  have key : ExpValid e hist (expire e { s with now := s.now + d }) := by
    unfold ExpValid expire
    simp only [calcOutput]
    intro hx
    have hu : e.expired.isUndef = false := (Val.isUndef_false_iff _).2 hx
    simp [setOut, hu, store_pyEq]
  unfold wait
  split
  · split
    · exact key
    · exact h
  · exact h

theorem putExp_valid (e : ExpCfg) (hist : List Val) (s : ExpState) (v : Val)
    (h : ExpValid e hist s) : ExpValid e (hist ++ [v]) (putExp e s v).1 := by
  cases hv : validate e.v v with
  | none =>
    have : (putExp e s v).1 = s := by simp [putExp, hv]
    rw [this]; exact ExpValid.mono e hist [v] s h
  | some w =>
    have ha := (validate_iff e.v v w).1 hv
    obtain ⟨h1, h2, _, h4⟩ := exp_accepted_put e s v w ha
    unfold ExpValid
    rw [h1]
    exact ⟨w, h2, ⟨v, by simp, ha⟩, h4⟩

theorem runExp_valid (e : ExpCfg) (hist : List Val) (s : ExpState) (ops : List ExpOp)
    (h : ExpValid e hist s) : ExpValid e (hist ++ putsOf ops) (runExp e s ops) := by
  induction ops generalizing hist s with
  | nil => simpa [putsOf, runExp] using h
  | cons op ops ih =>
    rw [runExp_cons]
    cases op with
    | put v =>
      have := ih (hist ++ [v]) _ (putExp_valid e hist s v h)
      simpa [putsOf, stepExp] using this
    | wait d =>
      have := ih hist _ (wait_valid e hist s d h)
      simpa [putsOf, stepExp] using this

/-- the regular initialisation of a constructed InputExp is valid -/
theorem initExp_valid (c : Cfg) (initdef : Val) (dur : Option Nat) (inp : Option Val) (x : Val) (s0 : ExpState)
    (hi : (initdef = .undef ∧ inp = none) ∨ (initdef ≠ .undef ∧ ∃ w, Accepts c initdef w ∧ inp = some w))
    (hs : initExp ⟨c, dur, x⟩ inp = some s0) : ExpValid ⟨c, dur, x⟩ [initdef] s0 := by
  rcases hi with ⟨_, hi⟩ | ⟨_, w, hacc, hi⟩
  · subst hi
    simp only [initExp] at hs
    split at hs
    · cases hs
    · injection hs with hs
      subst hs
      simp only [ExpValid]
      intro _
      exact Val.pyEq_refl x
  · subst hi
    simp only [initExp] at hs
    split at hs
    · cases hs
    · injection hs with hs
      subst hs
      simp only [ExpValid]
      exact ⟨w, rfl, ⟨initdef, by simp, hacc⟩, fun _ => Val.pyEq_refl w⟩

/-- a restored state is valid w.r.t. the saved value: a 'valid' state holds the accepted conversion of
    the saved value (with the repair), an 'expired' one shows the expired value -/
theorem restoreExp_valid (e : ExpCfg) (sv : SavedExp) (s : ExpState) (cl : List Call)
    (h : restoreExp e sv = (.restored s, cl)) : ExpValid e sv.input.toList s := by
  rcases sv with ⟨st, rem, input⟩
  have key : ∀ (st' : St) (inp' : Option Val) (dl : Option Nat),
      (st' = .valid → ∃ v w, input = some v ∧ inp' = some w ∧ Accepts e.v v w) →
      ExpValid e input.toList ⟨st', inp', setOut .undef (calcOutput e st' inp'), 0, dl⟩ := by
    intro st' inp' dl hv
    cases st' with
    | expired =>
      simp only [ExpValid, calcOutput]
      intro hx
      have hu : e.expired.isUndef = false := (Val.isUndef_false_iff _).2 hx
      simp [setOut, hu, store_pyEq]
    | valid =>
      obtain ⟨v, w, h1, h2, h3⟩ := hv rfl
      subst h1; subst h2
      simp only [ExpValid, calcOutput, Option.getD]
      refine ⟨w, rfl, ⟨v, by simp, h3⟩, ?_⟩
      intro hw
      have hu : w.isUndef = false := (Val.isUndef_false_iff _).2 hw
      simp [setOut, hu, store_pyEq]
  cases st with
  | expired =>
    simp only [restoreExp, fsmRestore] at h
    cases rem with
    | none =>
      simp only [Prod.mk.injEq, RestoreRes.restored.injEq] at h
      rw [← h.1]; exact key _ _ _ (by intro hh; cases hh)
    | some r =>
      by_cases hr : r ≤ 0 <;> simp [hr] at h
  | valid =>
    cases input with
    | none => simp [restoreExp] at h
    | some v =>
      cases hv : validate e.v v with
      | none => simp [restoreExp, hv] at h
      | some w =>
        have hacc := (validate_iff e.v v w).1 hv
        simp only [restoreExp, hv, fsmRestore] at h
        cases rem with
        | none =>
          simp only [Prod.mk.injEq, RestoreRes.restored.injEq] at h
          rw [← h.1]; exact key _ _ _ (fun _ => ⟨v, w, rfl, rfl, hacc⟩)
        | some r =>
          by_cases hr : r ≤ 0
          · simp [hr] at h
          · simp only [hr, if_false, Prod.mk.injEq, RestoreRes.restored.injEq] at h
            rw [← h.1]; exact key _ _ _ (fun _ => ⟨v, w, rfl, rfl, hacc⟩)

/-- the values a start-up can take over: the initdef and the value of the saved state -/
def startVals (initdef : Val) (saved : Option SavedExp) : List Val :=
  initdef :: (saved.bind (·.input)).toList

/-- **output_always_valid** for InputExp: from a successfully constructed and started block – started
    regularly or from ANY saved persistent state – after EVERY sequence of puts and waits: while 'valid'
    the value part is the accepted conversion of a submitted value (initdef, saved value or put) and the
    output equals it; when 'expired' the output equals the expired value, which itself passed the
    validation -/
theorem exp_output_always_valid (c : Cfg) (initdef expired : Val) (dur : Option Nat)
    (inp : Option Val) (x : Val) (saved : Option SavedExp) (s0 : ExpState) (ops : List ExpOp)
    (hc : (constructExp c initdef expired).1 = .ok (inp, x)) (hh : c.allowedHashable = true)
    (hs : (startExp ⟨c, dur, x⟩ inp saved).1 = some s0) :
    Accepts c expired x ∧
    ExpValid ⟨c, dur, x⟩ (startVals initdef saved ++ putsOf ops) (runExp ⟨c, dur, x⟩ s0 ops) := by
  have hc' := (exp_constructor_iff c initdef expired hh inp x).1 hc
  refine ⟨hc'.2, ?_⟩
  have hinit : ∀ s, initExp ⟨c, dur, x⟩ inp = some s → ExpValid ⟨c, dur, x⟩ (startVals initdef saved) s :=
    fun s h => ExpValid.mono _ [initdef] _ s (initExp_valid c initdef dur inp x s hc'.1 h)
  have h0 : ExpValid ⟨c, dur, x⟩ (startVals initdef saved) s0 := by
    cases saved with
    | none => exact hinit s0 hs
    | some sv =>
      simp only [startExp] at hs
      rcases hr : restoreExp ⟨c, dur, x⟩ sv with ⟨res, cl⟩
      rw [hr] at hs
      cases res with
      | restored s =>
        simp only at hs
        split at hs
        · exact hinit s0 hs
        · injection hs with hs
          subst hs
          have := restoreExp_valid ⟨c, dur, x⟩ sv s cl hr
          unfold ExpValid at this ⊢
          split at this
          · obtain ⟨w, hi, ⟨v, hv, ha⟩, ho⟩ := this
            exact ⟨w, hi, ⟨v, by simp [startVals]; right; simpa using hv, ha⟩, ho⟩
          · exact this
      | ignored => exact hinit s0 hs
      | failed => exact hinit s0 hs
  exact runExp_valid ⟨c, dur, x⟩ _ s0 ops h0

/-- **restore_validated** for InputExp (the repaired behaviour): a saved 'valid' state whose value is
    refused by the validators (or is missing) is not restored at all – no state, no value, no timer is
    taken over – and the block gets exactly its regular initialisation -/
theorem exp_restore_validated (e : ExpCfg) (inp : Option Val) (rem : Option Int) (input : Option Val)
    (h : ∀ v, input = some v → ¬ ∃ w, Accepts e.v v w) :
    (startExp e inp (some ⟨.valid, rem, input⟩)).1 = initExp e inp := by
  cases input with
  | none => simp [startExp, restoreExp]
  | some v =>
    have hv : validate e.v v = none := by
      cases hv : validate e.v v with
      | none => rfl
      | some w => exact absurd ⟨w, (validate_iff e.v v w).1 hv⟩ (h v rfl)
    simp [startExp, restoreExp, hv]

/-- … an accepted one is restored in its CONVERTED form `schema v` (as `Input._restore_state` does):
    state 'valid', value and output `w`, the timer with its remaining time (none for an infinite one) -/
theorem exp_restore_accepted (e : ExpCfg) (inp : Option Val) (rem : Option Int) (v w : Val)
    (h : Accepts e.v v w) (hw : w ≠ .undef) (hr : ∀ r, rem = some r → 0 < r) :
    (startExp e inp (some ⟨.valid, rem, some v⟩)).1 =
      some ⟨.valid, some w, w, 0, rem.map Int.toNat⟩ := by
  have hv := (validate_iff e.v v w).2 h
  have hu : w.isUndef = false := (Val.isUndef_false_iff _).2 hw
  cases rem with
  | none => simp [startExp, restoreExp, hv, fsmRestore, calcOutput, setOut, hu, store_undef w hw]
  | some r =>
    have : ¬ r ≤ 0 := by have := hr r rfl; omega
    simp [startExp, restoreExp, hv, fsmRestore, this, calcOutput, setOut, hu, store_undef w hw]

/-- … and an overdue saved state is ignored whatever its value -/
theorem exp_restore_overdue (e : ExpCfg) (inp : Option Val) (st : St) (r : Int) (input : Option Val)
    (hr : r ≤ 0) : (startExp e inp (some ⟨st, some r, input⟩)).1 = initExp e inp := by
  cases st with
  | expired => simp [startExp, restoreExp, fsmRestore, hr]
  | valid =>
    cases input with
    | none => simp [startExp, restoreExp]
    | some v => cases hv : validate e.v v <;> simp [startExp, restoreExp, hv, fsmRestore, hr]

/-- the value part after any sequence is the conversion of the last accepted put: `v` accepted
    with `w`, afterwards only waits and refused puts -/
theorem exp_value_is_last_accepted (e : ExpCfg) (s : ExpState) (pre post : List ExpOp)
    (v w : Val) (hv : Accepts e.v v w) (hpost : ∀ u ∈ putsOf post, ¬ ∃ w', Accepts e.v u w') :
    (runExp e s (pre ++ .put v :: post)).input = some w := by
  rw [runExp_append, runExp_cons]
  have h1 : (stepExp e (runExp e s pre) (.put v)).input = some w :=
    (exp_accepted_put e _ v w hv).2.1
  generalize stepExp e (runExp e s pre) (.put v) = t at h1
  induction post generalizing t with
  | nil => exact h1
  | cons op ops ih =>
    rw [runExp_cons]
    apply ih
    · intro u hu; apply hpost
      cases op <;> simp [putsOf] at hu ⊢ <;> simp [hu]
    · cases op with
      | put u =>
        have : ¬ ∃ w', Accepts e.v u w' := hpost u (by simp [putsOf])
        have hr : (putExp e t u).2.1 = false := by
          cases hb : (putExp e t u).2.1 with
          | false => rfl
          | true => exact absurd ((exp_accept_iff e t u).1 hb) this
        simp only [stepExp, exp_reject_changes_nothing e t u hr, h1]
      | wait d =>
        simp only [stepExp, wait]
        split
        · split
          · simpa [expire] using h1
          · exact h1
        · exact h1

/-! ### a raising schema refuses, whatever it raises -/

/-- **raising_schema_rejects**: if the schema function raises for `v` – an exception of ANY class
    `k` (ValueError, TypeError, KeyError, ZeroDivisionError, AttributeError, a library's own
    `Exception` subclass) – the value is refused: `_validate` reports a refusal, the put event
    returns False and the output is unchanged -/
theorem raising_schema_rejects (c : Cfg) (s : Val → Except Exc Val) (v out : Val) (k : Exc)
    (hs : c.schema = some s) (hk : s v = .error k) :
    validate c v = none ∧ (put c out v).res = .ret false ∧ (put c out v).out = out := by
  have hv : validate c v = none := by
    cases h : validate c v with
    | none => rfl
    | some w =>
      have := ((validate_iff c v w).1 h).2.2
      simp [Converts, hs, hk] at this
  exact ⟨hv, (put_none c out v hv).2, (put_none c out v hv).1⟩

/-- … likewise for an InputExp: nothing changes, not even the running timer -/
theorem exp_raising_schema_rejects (e : ExpCfg) (s : Val → Except Exc Val) (st : ExpState)
    (v : Val) (k : Exc) (hs : e.v.schema = some s) (hk : s v = .error k) :
    (putExp e st v).1 = st ∧ (putExp e st v).2.1 = false := by
  have hv := (raising_schema_rejects e.v s v .undef k hs hk).1
  simp [putExp, hv]

/-- the class of the exception is never looked at: re-labelling the exceptions of a schema by an
    arbitrary map `f` of classes changes no validation result and no call of user code -/
theorem exception_class_irrelevant (c : Cfg) (f : Exc → Exc) (v : Val) :
    validateT { c with schema := c.schema.map (fun s x => (s x).mapError f) } v = validateT c v := by
  rcases c with ⟨a, ch, sc⟩
  cases sc with
  | none => rfl
  | some s =>
    have key : ∀ x, ((s x).mapError f).toOption = (s x).toOption := by
      intro x; cases s x <;> rfl
    simp only [validateT, checkStage, schemaStage, Option.map, key]

/-! ### `allowed` is a snapshot -/

/-- the values submitted by a sequence of puts interleaved with caller-side mutations -/
def wputs (ops : List WOp) : List Val :=
  ops.filterMap fun | .put v => some v | .mutate _ => none

/-- **allowed_is_snapshot**: whatever the caller does with its own collection object after the
    block has been created (any sequence of clear / add / remove, at any points between the
    events), the block validates against the contents at construction time: its validators are
    unchanged and its output is the one the puts alone produce -/
theorem allowed_is_snapshot (w : World) (ops : List WOp) :
    (w.run ops).cfg = w.cfg ∧ (w.run ops).out = run w.cfg w.out (wputs ops) := by
  induction ops generalizing w with
  | nil => exact ⟨rfl, rfl⟩
  | cons op ops ih =>
    have h := ih (w.step op)
    cases op with
    | put v =>
      simp only [World.run, List.foldl_cons] at h ⊢
      simp only [World.step, World.put] at h ⊢
      simpa [wputs, run_cons] using h
    | mutate m =>
      simp only [World.run, List.foldl_cons] at h ⊢
      simp only [World.step, World.mutate] at h ⊢
      simpa [wputs] using h

/-- in particular every later validation is the validation with the construction-time set -/
theorem validate_after_caller_mutations (allowed : Option (List Val)) (check : Option (Val → Val))
    (schema : Option (Val → Except Exc Val)) (ms : List Mut) (v : Val) :
    validate ((World.new allowed check schema).run (ms.map .mutate)).cfg v =
      validate ⟨allowed, check, schema⟩ v := by
  rw [(allowed_is_snapshot _ _).1]; rfl

def ewops (ops : List EWOp) : List ExpOp :=
  ops.filterMap fun | .op o => some o | .mutate _ => none

/-- the same for an InputExp -/
theorem exp_allowed_is_snapshot (w : ExpWorld) (ops : List EWOp) :
    (w.run ops).e = w.e ∧ (w.run ops).s = runExp w.e w.s (ewops ops) := by
  induction ops generalizing w with
  | nil => exact ⟨rfl, rfl⟩
  | cons op ops ih =>
    have h := ih (w.step op)
    simp only [ExpWorld.run, List.foldl_cons] at h ⊢
    cases op with
    | op o =>
      cases o with
      | put v =>
        simp only [ExpWorld.step, ExpWorld.put] at h ⊢
        simpa [ewops, runExp_cons, stepExp] using h
      | wait d =>
        simp only [ExpWorld.step, ExpWorld.wait] at h ⊢
        simpa [ewops, runExp_cons, stepExp] using h
    | mutate m =>
      simp only [ExpWorld.step, ExpWorld.mutate] at h ⊢
      simpa [ewops] using h

/-! ### tie to the source and non-vacuity -/

/-- the tables extracted from the current code are the ones the model implements: `Input` handles
    `put` with a required `value`; `InputExp` goes to 'valid' on `put` from any state (guarded by
    `cond_put`) and from 'valid' to 'expired' by its timer -/
theorem tables_match_model :
    Gen.inputHandlers = [("put", ["value"], [], true)] ∧
    Gen.inputExpStates = ["expired", "valid"] ∧
    Gen.inputExpTrans = [("put", none, some "valid")] ∧
    Gen.inputExpTimed = [("valid", .goto "expired", .none)] ∧
    Gen.inputExpMethods = [("cond", "put")] := by decide

/-- allowed {1, 2}; check refuses 2; schema maps exactly `True` to "a", `1` to 1 and raises otherwise -/
def exCfg : Cfg :=
  ⟨some [Val.int 1, Val.int 2],
   some (fun v => if v = Val.int 2 then Val.str "" else Val.int 7),
   some (fun v => if v = Val.bool true then .ok (Val.str "a") else if v = Val.int 1 then .ok (Val.int 1)
     else if v = Val.flt 1 then .error .zeroDivisionError else .error .custom)⟩

example : Accepts exCfg (Val.bool true) (Val.str "a") ∧ Val.str "a" ≠ .undef :=
  ⟨(validate_iff _ _ _).1 (by decide +kernel), by decide⟩

example : Refused exCfg (Val.int 2) ∧ Refused exCfg (.lst [.num 1 .int]) ∧ Refused exCfg (Val.flt 1) := by
  have key : ∀ v, validate exCfg v = none → Refused exCfg v := fun v hn w hw => by
    have := (validate_iff _ _ _).2 hw
    rw [hn] at this; cases this
  exact ⟨key _ (by decide +kernel), key _ (by decide +kernel), key _ (by decide +kernel)⟩

example : run exCfg (Val.int 1) [Val.bool true, Val.int 2, .lst [.num 1 .int], Val.flt 1] = Val.str "a" := by
  decide +kernel

example : (init exCfg (some (.lst [.num 1 .int])) (Val.int 1)).1 = .ok (Val.int 1) ∧
    (init exCfg (some (Val.bool true)) (Val.int 1)).1 = .ok (Val.str "a") ∧
    (construct exCfg (Val.int 2)).1 = .error .valueError ∧ exCfg.allowedHashable = true :=
  ⟨by decide +kernel, by decide +kernel, rfl, rfl⟩

example : (constructExp exCfg (Val.int 1) (Val.bool true)).1 = .ok (some (Val.int 1), Val.str "a") ∧
    (constructExp exCfg (Val.int 1) .none).1 = .error .valueError ∧
    ((initExp ⟨exCfg, some 10, Val.str "a"⟩ (some (Val.int 1))).map
      (fun s => (runExp ⟨exCfg, some 10, Val.str "a"⟩ s [.wait 4, .put (Val.int 2), .wait 7, .put (Val.bool true), .wait 4]).out))
      = some (Val.str "a") :=
  ⟨rfl, rfl, by decide +kernel⟩
/-- the caller clears and refills its set between two puts: no effect -/
example : ((World.new exCfg.allowed exCfg.check exCfg.schema).run
      [.put (Val.bool true), .mutate .clear, .mutate (.add (Val.flt 1)), .put (Val.int 1),
       .mutate (.remove (Val.int 1)), .put (Val.flt 1), .put (Val.int 3)]).out = Val.int 1 := by
  decide +kernel

/-- `exCfg`'s schema raises ZeroDivisionError for 1.0 and a custom exception for 3: both refused -/
example : validate exCfg (Val.flt 1) = none ∧ validate exCfg (Val.int 3) = none := by
  decide +kernel

end Edzed.Validate

/-! ### tie to the source by translation

`tools/py2lean_validate.py` regenerates `EdzedModel/Gen/TranslatedValidate.lean` from the CURRENT source of
`_Validation.__init__/_validate`, `Input.__init__/init_from_value/_restore_state/_event_put` and
`InputExp.__init__/cond_put/calc_output` on every run: each method becomes a program (statement order,
conditions, try/except with its exception classes, early returns, raises and call arguments from the AST)
over the object's attributes, with the calls it makes as primitives.  `ValidateTie.prims` gives the
primitives their meaning (`value in frozenset`, `frozenset(collection)`, a user callable that returns or
raises and is logged, `set_output`, `event('put')` reaching the handler); the theorems below say that the
translated programs ARE the model's definitions, for every configuration, object state and value. -/
namespace Edzed.TrTie
open Edzed.Validate Edzed.ValidateTie
open Edzed.Gen
open Edzed.Gen.TrV hiding validate calcOutput

/-- the translated `_validate` IS the model's `validateT` – the result (`w` returned / ValueError) and
    the log of the calls of user code – on every object that carries the validators of `c` -/
theorem translated_validate_is_model (c : Cfg) (o : Obj) (h : Agrees c o) (v : Val) :
    TrV.validate prims v o =
      ({ o with calls := o.calls ++ (validateT c v).2.map tagOf }, outcome (resultX (validateT c v).1)) :=
  validate_is_model c o h v

/-- … and for user callables that may raise ANY exception it is the exception-level reference
    `validateX`: allowed → check → schema in this order, each only when present; a value not in the set
    (or unhashable) and a falsy check result give ValueError; an exception of the check function leaves
    `_validate` as it is; every `Exception` of the schema becomes ValueError; the schema's result is
    returned whatever it is (also None) -/
theorem translated_validate_is_reference (o : Obj) (v : Val) :
    TrV.validate prims v o =
      ({ o with calls := o.calls ++ (validateX o.allowed o.check o.schema v).2 },
       outcome (validateX o.allowed o.check o.schema v).1) :=
  validate_eq prims prims_contains prims_callUser v o

/-- the reference restricted to the model's validators is the model -/
theorem translated_validate_reference_is_model (c : Cfg) (v : Val) :
    validateX c.allowed (c.check.map liftCheck) (c.schema.map liftSchema) v =
      (resultX (validateT c v).1, (validateT c v).2.map tagOf) :=
  validateX_model c v

/-- a schema result None is a converted value like any other -/
theorem translated_validate_schema_none_is_a_value (o : Obj) (s : Fn) (v : Val)
    (ha : o.allowed = none) (hc : o.check = none) (hs : o.schema = some s) (hn : s v = .ok Val.none) :
    (TrV.validate prims v o).2 = .ret Val.none := by
  rw [translated_validate_is_reference, ha, hc, hs]
  simp [validateX, hn, outcome]

/-- an exception raised by the check function is not turned into a refusal by `_validate` -/
theorem translated_validate_check_exception_propagates (o : Obj) (f : Fn) (v : Val) (k : PyExc)
    (ha : o.allowed = none) (hc : o.check = some f) (hk : f v = .error k) :
    (TrV.validate prims v o).2 = .raise k := by
  rw [translated_validate_is_reference, ha, hc]
  simp [validateX, hk, outcome]

/-- the translated `_event_put` IS the model's put step: new output, return value (or the failure of
    `set_output(UNDEF)`, which is outside the `try`) and the calls of user code -/
theorem translated_validate_put_is_model (c : Cfg) (o : Obj) (h : Agrees c o) (v : Val) :
    TrV.eventPut prims v o =
      ({ o with calls := o.calls ++ (put c o.output v).calls.map tagOf, output := (put c o.output v).out },
       putOutcome (put c o.output v).res) :=
  eventPut_eq prims prims_contains prims_callUser prims_setOutput c o h v

/-- the put handler with user callables that may raise anything -/
theorem translated_validate_put_is_reference (o : Obj) (v : Val) :
    TrV.eventPut prims v o =
      match validateX o.allowed o.check o.schema v with
      | (.ok w, cl) =>
        if w.isUndef then ({ o with calls := o.calls ++ cl }, .raise "ValueError")
        else ({ o with calls := o.calls ++ cl, output := store o.output w }, .ret (Val.bool true))
      | (.error k, cl) =>
        ({ o with calls := o.calls ++ cl }, if excIsA k "ValueError" then .ret (Val.bool false) else .raise k) :=
  eventPut_eqX o v

/-- `_Validation.__init__`: `schema` and `check` are stored as given; `_allowed` is None for None and
    otherwise a frozenset COPY of the contents the caller's collection has at that moment (the snapshot;
    TypeError for an unhashable member) -/
theorem translated_validate_init_takes_snapshot (sc ch : Option Fn) (al : Option Coll) (kw : Val) (o : Obj) :
    TrV.validationInit prims sc ch al kw o =
      match al with
      | none => ({ o with schema := sc, check := ch, allowed := none, initdef := kw }, .next ())
      | some coll =>
        if coll.items.all Val.hashable then
          ({ o with schema := sc, check := ch, allowed := some coll.items, initdef := kw }, .next ())
        else ({ o with schema := sc, check := ch }, .raise "TypeError") :=
  validationInit_eq prims rfl rfl sc ch al kw o

/-- `Input.__init__` IS the model's `construct` -/
theorem translated_validate_input_init_is_model (c : Cfg) (initdef : Val) (o : Obj) :
    TrV.inputInit prims (c.schema.map liftSchema) (c.check.map liftCheck) (collOf c) initdef o =
      if c.allowedHashable then
        ({ objInit c initdef o with calls := o.calls ++ (construct c initdef).2.map tagOf },
         ctorOutcome (construct c initdef).1)
      else
        ({ o with schema := c.schema.map liftSchema, check := c.check.map liftCheck },
         ctorOutcome (construct c initdef).1) :=
  inputInit_eq c initdef o

/-- `Input.init_from_value` and `_restore_state` (an alias) ARE the model's restoring / initialising put:
    the value goes through the handler of the `put` event -/
theorem translated_validate_restore_is_model (c : Cfg) (o : Obj) (h : Agrees c o) (hu : o.output = .undef)
    (r : Val) :
    TrV.inputRestoreState prims r o =
      ({ o with calls := o.calls ++ (restorePut c (some r)).calls.map tagOf,
                output := (restorePut c (some r)).out },
       initOutcome (restorePut c (some r)).res) := by
  rw [inputRestoreState_alias, inputInitFromValue_eq c o h r, hu]
  rfl

theorem translated_validate_init_from_value_is_model (c : Cfg) (o : Obj) (h : Agrees c o) (v : Val) :
    TrV.inputInitFromValue prims v o =
      ({ o with calls := o.calls ++ (put c o.output v).calls.map tagOf, output := (put c o.output v).out },
       initOutcome (put c o.output v).res) :=
  inputInitFromValue_eq c o h v

/-- `InputExp.__init__` IS the model's `constructExp` -/
theorem translated_validate_exp_init_is_model (c : Cfg) (initdef expired : Val) (o : Obj) :
    (TrV.expInit prims (c.schema.map liftSchema) (c.check.map liftCheck) (collOf c) initdef expired o).2 =
        expCtorOutcome (constructExp c initdef expired).1 ∧
    (c.allowedHashable = true →
      (TrV.expInit prims (c.schema.map liftSchema) (c.check.map liftCheck) (collOf c) initdef expired o).1.calls =
        o.calls ++ (constructExp c initdef expired).2.map tagOf) ∧
    (∀ inp e, (constructExp c initdef expired).1 = .ok (inp, e) →
      (TrV.expInit prims (c.schema.map liftSchema) (c.check.map liftCheck) (collOf c) initdef expired o).1 =
        { objInit c (initState initdef) o with
          calls := o.calls ++ (constructExp c initdef expired).2.map tagOf,
          sdataInput := if initdef.isUndef then o.sdataInput else inp,
          expired := e }) :=
  expInit_eq c initdef expired o _ rfl

/-- `InputExp._restore_state` (patches/C17-inputexp-restore-unvalidated.diff) IS the model's `restoreExp`:
    for a saved 'valid' state `sdata['input']` goes through `_validate` BEFORE `FSM._restore_state` is
    called – a missing or refused value raises and nothing (no state, no value, no timer) is restored –
    and the FSM takes over the CONVERTED value; any other state is handed to the FSM as it is -/
theorem translated_validate_exp_restore_is_model (e : ExpCfg) (o : Obj) (h : Agrees e.v o)
    (he : o.expired = e.expired) (sv : SavedExp) :
    (TrV.expRestoreState prims (savedOf sv) o).1 =
        restoredObj { o with calls := o.calls ++ (restoreExp e sv).2.map tagOf } (restoreExp e sv).1 ∧
    outKind (TrV.expRestoreState prims (savedOf sv) o).2 =
        (match (restoreExp e sv).1 with | .failed => OutKind.raises | _ => OutKind.falls) :=
  expRestoreState_eq e o h he sv

/-- `InputExp.cond_put` IS the validating part of the model's `putExp` -/
theorem translated_validate_cond_put_is_model (e : ExpCfg) (s : ExpState) (o : Obj) (h : Agrees e.v o)
    (v : Val) (hv : o.eventValue = some v) (hi : o.sdataInput = s.input) :
    TrV.condPut prims o =
      ({ o with calls := o.calls ++ (putExp e s v).2.2.map tagOf, sdataInput := (putExp e s v).1.input },
       .ret (Val.bool (putExp e s v).2.1)) :=
  condPut_eq e s o h v hv hi

/-- `InputExp.calc_output` IS the model's `calcOutput` -/
theorem translated_validate_calc_output_is_model (e : ExpCfg) (st : St) (input : Option Val) (o : Obj)
    (hs : o.state = stName st) (hi : o.sdataInput = input) (he : o.expired = e.expired)
    (hv : st = .valid → input.isSome = true) :
    TrV.calcOutput prims o = (o, .ret (Validate.calcOutput e st input)) :=
  calcOutput_eq e st input o hs hi he hv

/-- non-vacuity: an object with the validators of `exCfg` (constructed by the translated `__init__`) -/
example : Agrees exCfg (objInit exCfg (Val.int 1) {}) := objInit_agrees _ _ _

end Edzed.TrTie
