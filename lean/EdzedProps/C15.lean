/-
C15 — the finalized circuit's connection data is complete, consistent and frozen.

Model: EdzedModel/Wiring.lean (mirrors `Block.__init__`/`addblock`, `CBlock.connect`,
`_validate_blk`, the two passes of `_finalize`, `finalize` with the repair
patches/C15-finalize-resolves-names.diff, `_BlockResolver`, `input_signature`, `get_conf`).
Blocks are identified by their names (unique inside a circuit; `addBlock` refuses duplicates).

`Reach c`: `c` was built through the API in any order and any number of calls — block
creation, `connect`, `Event`/filter registration, `set_persistent_data`, `finalize` (also
failed attempts, which leave a half-processed circuit, and retries).  All statements hold
for every reachable circuit; there is no bound on the number of blocks, inputs or calls.
-/
import EdzedModel.Wiring
import EdzedProofs.Wiring
import EdzedModel.Gen.TranslatedSig
import EdzedModel.Gen.TranslatedVblk
import EdzedModel.Gen.TranslatedWiring
import EdzedProofs.WiringTie
import EdzedModel.Gen.TranslatedCsig
import EdzedModel.Gen.TranslatedCBlocks
import EdzedProofs.CsigTie

namespace Edzed.Wiring

inductive Reach : Circ → Prop where
  | empty : Reach {}
  | addBlock {c c' n k r} : Reach c → addBlock c n k r = .ok c' → Reach c'
  | connect {c c' b pos named} : Reach c → connect c b pos named = .ok c' → Reach c'
  | register {c c' r needS} : Reach c → register c r needS = .ok c' → Reach c'
  | setStorage {c c' d} : Reach c → setStorage c d = .ok c' → Reach c'
  | finalize {c} : Reach c → Reach (finalize c).1

theorem reach_good {c : Circ} (h : Reach c) : Good c := by
  induction h with
  | empty => exact good_empty
  | addBlock _ h ih => exact addBlock_good h ih
  | connect _ h ih => exact connect_good h ih
  | register _ h ih => exact register_good h ih
  | setStorage _ h ih => exact setStorage_good h ih
  | finalize _ ih => exact (finalize_good ih).1

/-- `wiring_biconditional`: after a successful `finalize()` of any circuit built through the API,
    for all blocks A and every CBlock B:  B ∈ A.oconnections ⇔ A ∈ B.iconnections ⇔ A feeds one
    of B's inputs.  (The first equivalence holds for every pair of names.) -/
theorem wiring_biconditional {c w : Circ} (hr : Reach c) (h : finalize c = (w, none))
    (a b : String) (cls : CCls) (hb : w.kind b = some (.c cls)) :
    (b ∈ w.oconn a ↔ a ∈ w.iconn b) ∧
    (a ∈ w.iconn b ↔ Ref.obj false a ∈ allRefs (w.inputs b)) := by
  have g := finalize_good (reach_good hr)
  rw [h] at g
  obtain ⟨g, hf⟩ := g
  have hd := g.done (hf rfl) b cls hb
  refine ⟨g.inv.sym a b, fun ha => ?_, fun ha => ((hd _ ha).2 a rfl).1⟩
  obtain ⟨f, hf'⟩ := g.inv.sub a b ha
  cases f with
  | false => exact hf'
  | true => have := (hd _ hf').1; cases this

/-- the symmetric half also holds in every reachable state, finalized or not, even after a
    failed `finalize()` (no block ever claims a connection that the other side does not know,
    and every registered connection is visible in `inputs`) -/
theorem connections_consistent_always {c : Circ} (hr : Reach c) (a b : String) :
    (b ∈ c.oconn a ↔ a ∈ c.iconn b) ∧ (a ∈ c.iconn b → ∃ f, Ref.obj f a ∈ allRefs (c.inputs b)) :=
  ⟨(reach_good hr).inv.sym a b, (reach_good hr).inv.sub a b⟩

/-- `refs_resolved` (1): in the finalized circuit every input of every CBlock is a block object
    of this circuit that exists under that name, or a `Const` -/
theorem refs_resolved {c w : Circ} (hr : Reach c) (h : finalize c = (w, none))
    (b : String) (cls : CCls) (hb : w.kind b = some (.c cls)) (r : Ref)
    (hm : r ∈ allRefs (w.inputs b)) :
    (∃ a, r = .obj false a ∧ (w.kind a).isSome ∧ a ∈ w.iconn b) ∨ ∃ v, r = .const v := by
  have g := finalize_good (reach_good hr)
  rw [h] at g
  obtain ⟨h1, h2⟩ := g.1.done (g.2 rfl) b cls hb r hm
  cases r with
  | obj f a =>
    cases f with
    | false => exact Or.inl ⟨a, rfl, (h2 a rfl).2, (h2 a rfl).1⟩
    | true => cases h1
  | const v => exact Or.inr ⟨v, rfl⟩
  | name s => cases h1
  | val v => cases h1

/-- `refs_resolved` (2): what `_validate_blk` returns for one reference: a block object stays,
    a name becomes the existing block of exactly that name, a `Const` stays, any other value
    is wrapped into the `Const` of that value; foreign blocks and UNDEF are never accepted -/
theorem resolution_rule {c c' : Circ} {r r' : Ref} (h : validateBlk c r = .ok (c', r')) :
    r' = r.target ∧ r.okShape = true ∧ ∀ n, r' = .obj false n → (c'.kind n).isSome :=
  ⟨(validateBlk_vb h).target, (validateBlk_vb h).shape, (validateBlk_vb h).exists_⟩

/-- `refs_resolved` (3): processing one block in `_finalize` replaces its inputs position by
    position (names, group sizes and order kept) and registers all of them -/
theorem block_inputs_resolved {c c' : Circ} {b : String} (hb : (c.kind b).isSome)
    (h : finalizeBlk c b = (c', none)) :
    c'.inputs b = (c.inputs b).map (fun p => (p.1, p.2.mapT)) ∧
    (c'.inputs b).map (fun p => (p.1, p.2.sigVal)) = (c.inputs b).map (fun p => (p.1, p.2.sigVal)) ∧
    ∀ a, Ref.obj false a ∈ allRefs (c'.inputs b) → a ∈ c'.iconn b := by
  have fb := finalizeBlk_fb hb h
  obtain ⟨h1, _, h3⟩ := fb.ok rfl
  refine ⟨h1, ?_, fun a ha => ((h3 _ ha).2 a rfl).1⟩
  rw [h1]; simp [mapI, Inp.mapT_sigVal]

/-- `inverter_unique_shared`: a `'_not_X'` reference always resolves to THE block of that name;
    the first reference creates it (a `Not` whose only input is the name `X`, appended to the
    circuit), every later reference -- in whatever grown circuit -- finds it and creates nothing -/
theorem inverter_unique_shared {c c1 : Circ} {s : String} {r1 : Ref}
    (h : validateBlk c (.name s) = .ok (c1, r1)) :
    r1 = .obj false s ∧
    (c1 = c ∨ (c.kind s = none ∧ c1.order = c.order ++ [s] ∧
       ((c1.kind s = some .s ∧ c1.inputs = c.inputs) ∨
        (c1.kind s = some (.c .not) ∧ ∃ t, notTarget? s = some t ∧
           c1.inputs = upd c.inputs s [("_", .group [.name t])])))) ∧
    ∀ c2 : Circ, (∀ x k, c1.kind x = some k → c2.kind x = some k) →
      validateBlk c2 (.name s) = .ok (c2, r1) := by
  simp only [validateBlk] at h
  obtain ⟨e, hn⟩ := validateName_spec h
  refine ⟨e, ?_, fun c2 hk => ?_⟩
  · rcases hn.created with h0 | ⟨a1, _, a3, _, a5⟩
    · exact Or.inl h0
    · exact Or.inr ⟨a1, a3, a5⟩
  · obtain ⟨k, hk1⟩ := Option.isSome_iff_exists.mp hn.kind
    have h2 := hk s k hk1
    simp [validateBlk, validateName, findblock, h2, e]

/-- `inverter_target_is_suffix`: the block an automatic inverter is connected to is named by
    EXACTLY the characters after the five-character prefix `_not_` -- nothing more is stripped,
    whatever the name begins with (`_not_tx` inverts `tx`, never `x`; `_not_north` inverts `north`) -/
theorem inverter_target_is_suffix (s t : String) :
    notTarget? s = some t ↔ s = "_not_" ++ t ∧ startsUnderscore t = false := by
  constructor
  · intro h
    refine ⟨?_, notTarget_noUnderscore h⟩
    unfold notTarget? at h
    split at h
    · next rest hs =>
      split at h
      · cases h
      · cases h
        apply String.toList_injective
        rw [hs, String.toList_append, String.toList_ofList]
        simp
    · cases h
  · rintro ⟨rfl, hu⟩
    unfold notTarget?
    have : ("_not_" ++ t).toList = '_' :: 'n' :: 'o' :: 't' :: '_' :: t.toList := by
      rw [String.toList_append]; rfl
    rw [this]
    simp only
    unfold startsUnderscore at hu
    split
    · next x tl hx => rw [hx] at hu; simp at hu
    · simp [String.ofList_toList]

/-- a duplicate of an existing name (hence a second inverter) is always refused -/
theorem duplicate_name_refused (c : Circ) (n : String) (k : BKind) (r : Bool)
    (h : (c.kind n).isSome) : ∃ e, addBlock c n k r = .error e := by
  unfold addBlock
  split
  · exact ⟨_, rfl⟩
  · split
    · exact ⟨_, rfl⟩
    · split
      · exact ⟨_, rfl⟩
      · simp

/-- `conf_matches_signature`: `get_conf()['inputs']` has the same input names in the same order
    as `input_signature()`, a group where the signature has a size (the same size), a single
    name where it has `None` -/
theorem conf_matches_signature (c : Circ) (b : String) (l : List (String × ConfInp))
    (sig : List (String × Option Nat))
    (h1 : getConfInputs c b = some (some l)) (h2 : inputSignature c b = .ok sig) :
    l.map (fun p => (p.1, p.2.sigVal)) = sig := by
  unfold getConfInputs at h1
  unfold inputSignature at h2
  split at h1
  · split at h2
    · cases h2
    · cases h2
      simp only [Option.some.injEq] at h1
      generalize c.inputs b = ins at h1
      induction ins generalizing l with
      | nil => simp at h1; subst h1; rfl
      | cons p rest ih =>
        obtain ⟨k, i⟩ := p
        simp only [List.mapM_cons, Option.bind_eq_bind] at h1
        cases hc : i.conf with
        | none => simp [hc] at h1
        | some x =>
          cases hr : rest.mapM (fun p => (p.2.conf).map fun x => (p.1, x)) with
          | none => simp [hc, hr] at h1
          | some l' =>
            simp [hc, hr] at h1
            subst h1
            simp only [List.map_cons, ih l' hr]
            congr 1
            cases i with
            | single r =>
              simp only [Inp.conf, Option.map_eq_some_iff] at hc
              obtain ⟨_, _, rfl⟩ := hc; rfl
            | group rs =>
              simp only [Inp.conf, Option.map_eq_some_iff] at hc
              obtain ⟨ns, hns, rfl⟩ := hc
              simp only [ConfInp.sigVal, Inp.sigVal]
              have : ∀ (rs : List Ref) (ns : List String), rs.mapM Ref.confName = some ns →
                  ns.length = rs.length := by
                intro rs
                induction rs with
                | nil => intro ns h; simp at h; subst h; rfl
                | cons r rs ih2 =>
                  intro ns h
                  simp only [List.mapM_cons, Option.bind_eq_bind] at h
                  cases h3 : r.confName with
                  | none => simp [h3] at h
                  | some y =>
                    cases h4 : rs.mapM Ref.confName with
                    | none => simp [h3, h4] at h
                    | some ns' => simp [h3, h4] at h; subst h; simp [ih2 ns' h4]
              rw [this rs ns hns]
  · cases h1

/-- in a finalized reachable circuit `get_conf()` of a connected CBlock never trips over an
    unresolved reference -/
theorem conf_defined {c : Circ} (hr : Reach c) (hf : c.finalized = true) (b : String) (cls : CCls)
    (hb : c.kind b = some (.c cls)) : getConfInputs c b ≠ some none := by
  have hd := (reach_good hr).done hf b cls hb
  unfold getConfInputs
  rw [if_pos hf]
  simp only [ne_eq, Option.some.injEq]
  unfold Done at hd
  generalize c.inputs b = ins at hd
  induction ins with
  | nil => simp
  | cons p rest ih =>
    obtain ⟨k, i⟩ := p
    have hi : ∃ x, i.conf = some x := by
      have hres : ∀ r ∈ i.refs, r.resolved = true := fun r hr' =>
        (hd r (by rw [allRefs_cons]; exact List.mem_append.mpr (Or.inl hr'))).1
      cases i with
      | single r =>
        obtain ⟨n, hn⟩ := confName_of_resolved r (hres r (by simp [Inp.refs]))
        exact ⟨.single n, by simp [Inp.conf, hn]⟩
      | group rs =>
        obtain ⟨ns, hns⟩ := mapM_confName rs (fun r hr' => hres r (by simpa [Inp.refs] using hr'))
        exact ⟨.group ns, by simp [Inp.conf, hns]⟩
    obtain ⟨x, hx⟩ := hi
    have hrest := ih (fun r hr' => hd r (by rw [allRefs_cons]; exact List.mem_append.mpr (Or.inr hr')))
    cases h5 : rest.mapM (fun p => (p.2.conf).map fun x => (p.1, x)) with
    | none => exact absurd h5 hrest
    | some l' => simp [List.mapM_cons, hx, h5]

/-- `resolver_by_name`: a successful run of the resolver replaces every name held by an event or
    a filter by the block of exactly that name, which exists and is an SBlock where one is
    required; objects given directly are kept -/
theorem resolver_by_name {c w : Circ} (h : resolve c = (w, none)) :
    w.slots = c.slots.map Slot.res ∧
    ∀ sl ∈ c.slots, ∀ s, sl.ref = .name s →
      ∃ k, w.kind s = some k ∧ (sl.needS = true → k = .s) := by
  have := (resolveSlots_rs _ _ _ _ _ h).2 rfl
  simpa using this

/-- after a successful `finalize()` (repaired code) no event or filter holds a name any more:
    `Event.dest` is available -/
theorem dest_available_after_finalize {c w : Circ} (hf : c.finalized = false)
    (h : finalize c = (w, none)) (i : Nat) (sl : Slot) (hs : w.slots[i]? = some sl) :
    ∃ n, slotDest w i = .ok n := by
  unfold finalize at h
  rw [if_neg (by simp [hf])] at h
  split at h
  · cases h
  · next c1 h1 =>
    split at h
    · cases h
    · next c2 h2 =>
      cases h
      have hr := (resolver_by_name h1).1
      have hw : WF c1 → True := fun _ => trivial
      have hs2 : c2.slots = c1.slots := by
        unfold finalizeCore at h2
        split at h2
        · cases h2
        · next c3 h3 =>
          have hL1 : ∀ b ∈ cblockNames c1, (c1.kind b).isSome := fun b hb => by
            obtain ⟨_, cls, hk⟩ := mem_cblockNames.mp hb; exact isSome_of_kind hk
          have p1 := finalizePass_fp _ c1 c3 none hL1 h3
          have hL2 : ∀ b ∈ notNames c3, (c3.kind b).isSome := fun b hb =>
            isSome_of_kind (mem_notNames.mp hb).2
          have p2 := finalizePass_fp _ c3 c2 none hL2 h2
          rw [p2.grow.slots, p1.grow.slots]
      simp only at hs
      rw [hs2, hr] at hs
      unfold slotDest
      simp only
      rw [hs2, hr, hs]
      rw [List.getElem?_map] at hs
      cases h0 : c.slots[i]? with
      | none => simp [h0] at hs
      | some sl0 =>
        simp [h0] at hs
        subst hs
        obtain ⟨ref, ns⟩ := sl0
        cases ref with
        | name s => exact ⟨s, rfl⟩
        | obj n => exact ⟨n, rfl⟩

/-- `bad_refs_fail`: each class of invalid reference is refused with an error -/
theorem bad_refs_fail (c : Circ) :
    -- a name that is neither a block nor an automatic name
    (∀ s, c.kind s = none → startsUnderscore s = false → validateBlk c (.name s) = .error .keyError) ∧
    -- a block of another circuit; UNDEF
    (∀ n, validateBlk c (.obj true n) = .error .valueError) ∧
    validateBlk c (.val .undef) = .error .valueError ∧
    -- an event destination / IfNotIitialized control block that is a CBlock, given as object
    (∀ n cls, c.kind n = some (.c cls) → register c (.obj n) true = .error .typeError) ∧
    -- wrongly shaped connect() calls
    (∀ b pos named, pos.any Ref.isMultiple = true → ∃ e, connect c b pos named = .error e) ∧
    (∀ b, ∃ e, connect c b [] [] = .error e) ∧
    (∀ b pos named, named.any (fun p => p.1 == "_") = true → ∃ e, connect c b pos named = .error e) ∧
    (∀ b pos named, c.inputs b ≠ [] → ∃ e, connect c b pos named = .error e) ∧
    -- an unconnected block has no signature (start() of Not / Override fails)
    (∀ b esig, c.inputs b = [] → checkSignature c b esig = .error .invalidState) := by
  refine ⟨?_, ?_, ?_, ?_, ?_, ?_, ?_, ?_, ?_⟩
  · intro s hk hs; simp [validateBlk, validateName, hs, findblock, hk]
  · intro n; simp [validateBlk]
  · simp [validateBlk]
  · intro n cls hk; simp [register, hk]
  · intro b pos named hm
    cases hc : connect c b pos named with
    | error e => exact ⟨e, rfl⟩
    | ok c' => have := (connect_ok hc).2.2.2.2.1; rw [hm] at this; cases this
  · intro b
    cases hc : connect c b [] [] with
    | error e => exact ⟨e, rfl⟩
    | ok c' =>
      unfold connect checkNotFinalized at hc
      split at hc
      · split at hc
        · cases hc
        · split at hc
          · cases hc
          · simp at hc
      · cases hc
  · intro b pos named hm
    cases hc : connect c b pos named with
    | error e => exact ⟨e, rfl⟩
    | ok c' =>
      unfold connect checkNotFinalized at hc
      split at hc
      · split at hc
        · cases hc
        · split at hc
          · cases hc
          · split at hc
            · cases hc
            · simp [hm] at hc
      · cases hc
  · intro b pos named hm
    cases hc : connect c b pos named with
    | error e => exact ⟨e, rfl⟩
    | ok c' => exact absurd (connect_ok hc).2.2.2.1 hm
  · intro b esig hb; simp [checkSignature, inputSignature, hb]

/-- a block whose inputs contain a foreign block or UNDEF can not be finalized -/
theorem bad_refs_fail_block {c c' : Circ} {b : String} (hb : (c.kind b).isSome)
    (h : finalizeBlk c b = (c', none)) : ∀ r ∈ allRefs (c.inputs b), r.okShape = true :=
  ((finalizeBlk_fb hb h).ok rfl).2.1

/-- `foreign_input_refused`: a circuit in which ANY input of ANY CBlock -- a single input, a member
    of a named or of the unnamed group, the input of a `Not` -- is a block object of another
    circuit (whatever its name, also one no block of this circuit has) or UNDEF cannot be
    finalized: `finalize()` (hence the start) fails -/
theorem foreign_input_refused {c : Circ} (hr : Reach c) (hf : c.finalized = false)
    (b : String) (cls : CCls) (hb : c.kind b = some (.c cls)) (r : Ref)
    (hm : r ∈ allRefs (c.inputs b)) (hbad : r.okShape = false) : (finalize c).2 ≠ none := by
  intro hnone
  unfold finalize at hnone
  rw [if_neg (by simp [hf])] at hnone
  split at hnone
  · cases hnone
  · next c1 h1 =>
    have rs := (resolveSlots_rs _ _ _ _ _ h1).1
    have hin := resolveSlots_inputs _ _ _ _ _ h1 b (isSome_of_kind hb)
    split at hnone
    · cases hnone
    · next c2 h2 =>
      have := finalizeCore_shapes (rs.wf (reach_good hr).wf) h2 b cls (rs.kind b _ hb) r
        (by rw [hin]; exact hm)
      rw [hbad] at this; cases this

/-- every input the resolver lets through is a block of THIS circuit or a Const: the result of
    `_validate_blk` is never a foreign block, and a block it returns is registered in the circuit
    it returns -/
theorem resolved_input_is_local_or_const {c c' : Circ} {r r' : Ref}
    (h : validateBlk c r = .ok (c', r')) :
    (∃ n, r' = .obj false n ∧ (c'.kind n).isSome) ∨ ∃ v, r' = .const v := by
  have vb := validateBlk_vb h
  have hres := target_resolved r
  rw [← vb.target] at hres
  cases r' with
  | obj f n =>
    cases f with
    | false => exact Or.inl ⟨n, rfl, vb.exists_ n rfl⟩
    | true => cases hres
  | const v => exact Or.inr ⟨v, rfl⟩
  | name s => cases hres
  | val v => cases hres

/-- a destination by name that turns out to be of the wrong kind makes the resolver fail -/
theorem bad_refs_fail_wrong_kind_by_name {c w : Circ} {e : Option Err} (h : resolve c = (w, e))
    (sl : Slot) (hs : sl ∈ c.slots) (s : String) (hn : sl.ref = .name s) (hS : sl.needS = true)
    (hk : ∀ w' : Circ, (∀ x k, c.kind x = some k → w'.kind x = some k) → w'.kind s ≠ some .s) :
    e ≠ none := by
  intro he
  subst he
  obtain ⟨k, h1, h2⟩ := (resolver_by_name h).2 sl hs s hn
  have := (resolveSlots_rs _ _ _ _ _ h).1.kind
  exact hk w this (by rw [h1, h2 hS])

/-- `frozen_after_finalize`: in a finalized circuit no block can be added, nothing can be
    connected, the storage cannot be replaced; `finalize()` itself is idempotent -/
theorem frozen_after_finalize (c : Circ) (hf : c.finalized = true) :
    (∀ n k r, ∃ e, addBlock c n k r = .error e) ∧
    (∀ b pos named, ∃ e, connect c b pos named = .error e) ∧
    (∀ d, setStorage c d = .error .invalidState) ∧
    finalize c = (c, none) := by
  refine ⟨?_, ?_, ?_, ?_⟩
  · intro n k r
    cases h : addBlock c n k r with
    | error e => exact ⟨e, rfl⟩
    | ok c' => have := (addBlock_ok h).2.1; rw [hf] at this; cases this
  · intro b pos named
    cases h : connect c b pos named with
    | error e => exact ⟨e, rfl⟩
    | ok c' => have := (connect_ok h).2.1; rw [hf] at this; cases this
  · intro d
    unfold setStorage checkNotFinalized
    split <;> simp_all
  · simp [finalize, hf]

/-- a successful `finalize()` finalizes (so that everything above applies) -/
theorem finalize_sets_flag {c w : Circ} (hr : Reach c) (h : finalize c = (w, none)) :
    w.finalized = true := by
  have g := finalize_good (reach_good hr)
  rw [h] at g
  exact g.2 rfl

/-! non-vacuity: a circuit with a forward reference by name, a shared inverter shortcut and a
    Const finalizes, and the hypotheses of the theorems above are met -/
def demo : Circ :=
  let c0 : Circ := {}
  match addBlock c0 "a" (.c .any) false with
  | .error _ => c0
  | .ok c1 =>
    match connect c1 "a" [.name "_not_s", .name "_not_s", .val (.atom (.num 2 .int))] [("g", .group [.name "s"])] with
    | .error _ => c1
    | .ok c2 =>
      match addBlock c2 "s" .s false with
      | .error _ => c2
      | .ok c3 => c3

example : (finalize demo).2 = none ∧ (finalize demo).1.order = ["a", "s", "_not_s"] ∧
    (finalize demo).1.iconn "a" = ["_not_s", "s"] ∧ (finalize demo).1.oconn "s" = ["a", "_not_s"] ∧
    (finalize demo).1.kind "_not_s" = some (.c .not) := by
  decide

/-! ### the form in which a group is handed over is not an input

    `connect()` stores `tuple(inp)` for every keyword argument that `_is_multiple` accepts -- a
    tuple, a list, any other Sequence, an iterator or a generator.  In the model a group IS its
    member list; a tuple / list VALUE given for a keyword is normalised to the group of its items
    (`normInp`).  Everything after `connect` (finalisation, connection data, `get_conf`,
    `input_signature`, `check_signature`) is a function of the circuit, so it depends on the
    member lists only. -/

/-- `connect_depends_on_members`: two `connect()` calls whose keyword arguments have the same
    names and, after normalisation, the same member lists give the same circuit (or the same error) -/
theorem connect_depends_on_members (c : Circ) (b : String) (pos : List Ref) (named1 named2 : Inputs)
    (h : named1.map (fun p => (p.1, normInp p.2)) = named2.map (fun p => (p.1, normInp p.2))) :
    connect c b pos named1 = connect c b pos named2 := by
  have hlen : named1.isEmpty = named2.isEmpty := by
    have := congrArg List.length h
    simp only [List.length_map] at this
    cases named1 <;> cases named2 <;> simp_all
  have hany : named1.any (fun p => p.1 == "_") = named2.any (fun p => p.1 == "_") := by
    have e : ∀ l : Inputs, l.any (fun p => p.1 == "_") =
        (l.map (fun p => (p.1, normInp p.2))).any (fun p => p.1 == "_") := by
      intro l; rw [List.any_map]; rfl
    rw [e named1, e named2, h]
  unfold connect connectInputs
  rw [hlen, hany, h]

/-- a tuple value, a list value and the explicit group of their items are the same input -/
theorem group_forms_agree (c : Circ) (b k : String) (pos : List Ref) (l : List Atom) (rest : Inputs) :
    connect c b pos ((k, .single (.val (.tup l))) :: rest) =
      connect c b pos ((k, .group (l.map fun a => .val (.atom a))) :: rest) ∧
    connect c b pos ((k, .single (.val (.lst l))) :: rest) =
      connect c b pos ((k, .group (l.map fun a => .val (.atom a))) :: rest) := by
  constructor <;> apply connect_depends_on_members <;> simp [normInp]

/-! ### shape of the inputs: `check_signature` (called by `start()` of Not, Override, Compare and
    of custom blocks) -/

/-- `check_signature_accepts_iff`: the check passes exactly if the block is connected, the input
    names are the expected ones and EVERY input has the expected shape: a single input where a
    single input is expected, a group -- of a size within the bounds, 0 included -- where a group
    is expected -/
theorem check_signature_accepts_iff (c : Circ) (b : String) (esig : List (String × Expect)) :
    checkSignature c b esig = .ok () ↔
      ∃ bsig, inputSignature c b = .ok bsig ∧ sameKeys bsig esig = true ∧
        ∀ p ∈ esig, ∃ v, bsig.lookup p.1 = some v ∧ p.2.accepts v := by
  unfold checkSignature
  cases hs : inputSignature c b with
  | error e => simp
  | ok bsig =>
    simp only [Except.ok.injEq, exists_eq_left']
    by_cases h1 : sigEq bsig esig = true
    · simp only [h1, if_true, true_iff]
      exact sigEq_sound h1
    · simp only [h1, if_false, Bool.false_eq_true]
      by_cases h2 : sameKeys bsig esig = true
      · simp only [h2, Bool.not_true, Bool.false_eq_true, if_false, true_and]
        constructor
        · intro h p hp
          split at h
          · cases h
          · next hany =>
            simp only [List.any_eq_true, not_exists, not_and] at hany
            have := hany p hp
            cases hl : bsig.lookup p.1 with
            | none => simp [hl] at this
            | some v =>
              simp only [hl, Bool.not_eq_true] at this
              exact ⟨v, rfl, (valueDiff_false_iff _ _).mp this⟩
        · intro h
          split
          · next hany =>
            simp only [List.any_eq_true] at hany
            obtain ⟨p, hp, hd⟩ := hany
            obtain ⟨v, hv, ha⟩ := h p hp
            simp only [hv] at hd
            have := (valueDiff_false_iff _ _).mpr ha
            rw [this] at hd; cases hd
          · rfl
      · simp [h2]

/-- a mismatch is always refused with ValueError (an unconnected block with InvalidState) -/
theorem check_signature_refuses (c : Circ) (b : String) (esig : List (String × Expect)) :
    checkSignature c b esig = .ok () ∨ checkSignature c b esig = .error .valueError ∨
    (c.inputs b = [] ∧ checkSignature c b esig = .error .invalidState) := by
  unfold checkSignature inputSignature
  split
  · next e he =>
    split at he
    · next hi => cases he; exact Or.inr (Or.inr ⟨by simpa using hi, rfl⟩)
    · cases he
  · split
    · exact Or.inl rfl
    · split
      · exact Or.inr (Or.inl rfl)
      · split
        · exact Or.inr (Or.inl rfl)
        · exact Or.inl rfl

/-- `empty_group_is_not_single`: a group of ANY size -- also the explicitly connected empty group
    `name=()` -- where a single input is expected makes the check fail; so does a single input
    where a group (exact size or range) is expected -/
theorem empty_group_is_not_single (c : Circ) (b k : String) (esig : List (String × Expect))
    (bsig : List (String × Option Nat)) (hs : inputSignature c b = .ok bsig) :
    (∀ n, (k, Expect.single) ∈ esig → bsig.lookup k = some (some n) →
        checkSignature c b esig = .error .valueError) ∧
    (∀ e, e ≠ Expect.single → (k, e) ∈ esig → bsig.lookup k = some none →
        checkSignature c b esig = .error .valueError) := by
  have hne : c.inputs b ≠ [] := by
    unfold inputSignature at hs
    split at hs
    · cases hs
    · next h => simpa using h
  have no_ok : ∀ e v, (k, e) ∈ esig → bsig.lookup k = some v → ¬ e.accepts v →
      checkSignature c b esig = .error .valueError := by
    intro e v he hl hna
    rcases check_signature_refuses c b esig with h | h | ⟨h, _⟩
    · obtain ⟨bs, h1, _, h3⟩ := (check_signature_accepts_iff c b esig).mp h
      rw [hs] at h1; cases h1
      obtain ⟨v', hv', ha⟩ := h3 (k, e) he
      rw [hl] at hv'; cases hv'
      exact absurd ha hna
    · exact h
    · exact absurd h hne
  refine ⟨fun n he hl => no_ok _ _ he hl (by simp [Expect.accepts]), fun e hne' he hl => no_ok _ _ he hl ?_⟩
  cases e with
  | single => exact absurd rfl hne'
  | exact n => simp [Expect.accepts]
  | range lo hi => simp [Expect.accepts]
  | malformed => simp [Expect.accepts]

/-- what `start()` checks for the library blocks: `Not` needs exactly one unnamed input,
    `Override` the two single inputs `input` and `override` -/
theorem library_signatures :
    expectedSig .not = some [("_", .exact 1)] ∧
    expectedSig .ovr = some [("input", .single), ("override", .single)] ∧
    ∀ esig, expectedSig (.sig esig) = some esig := ⟨rfl, rfl, fun _ => rfl⟩

example : ∃ c : Circ, checkSignature c "b" [("input", .single), ("g", .range (some 0) (some 2))] = .ok () ∧
    checkSignature c "b" [("input", .single), ("g", .single)] = .error .valueError :=
  ⟨{ inputs := fun _ => [("input", .single (.name "x")), ("g", .group [])] }, by rfl, by rfl⟩

end Edzed.Wiring

/-! ### tie to the source by translation (tools/py2lean_sig.py regenerates `Gen.Tr.sigValueDiff` from
    the inner helper `valuediff_msg` of `CBlock.check_signature`) -/
namespace Edzed.TrTie
open Edzed.Wiring

/-- Python value of an expectation: `None` | int | `(cmin, cmax)`; a malformed one has none -/
def encExpect : Expect → Option (Option (Nat ⊕ (Option Nat × Option Nat)))
  | .single => some none
  | .exact n => some (some (.inl n))
  | .range lo hi => some (some (.inr (lo, hi)))
  | .malformed => none

/-- the model's item comparison IS the translated `valuediff_msg` (for every well-formed
    expectation and every signature value, the empty group included) -/
theorem translated_valuediff_is_model (e : Expect) (v : Option Nat)
    (x : Option (Nat ⊕ (Option Nat × Option Nat))) (h : encExpect e = some x) :
    Gen.Tr.sigValueDiff v x = valueDiff e v := by
  cases e with
  | single => cases h; cases v <;> rfl
  | exact n =>
    cases h
    cases v with
    | none => rfl
    | some k =>
      simp only [Gen.Tr.sigValueDiff, valueDiff, bne]
      by_cases hkn : k = n <;> simp [hkn]
  | malformed => cases h
  | range lo hi =>
    cases h
    cases v with
    | none => rfl
    | some k => cases lo <;> cases hi <;> simp [Gen.Tr.sigValueDiff, valueDiff]

/-! #### the resolver `Circuit._validate_blk` (tools/py2lean_vblk.py regenerates the decision tree
     `Gen.Tr.validateBlkTree` from the current source) -/

def vblkStartsNot (s : String) : Bool :=
  match s.toList with
  | '_' :: 'n' :: 'o' :: 't' :: '_' :: _ => true
  | _ => false

/-- `blk[5:6] == '_'` -/
def vblkSixth (s : String) : Bool :=
  match s.toList.drop 5 with
  | '_' :: _ => true
  | _ => false

def vblkStr? : Ref → Option String
  | .name s => some s
  | .val (.atom (.str s)) => some s
  | _ => none

/-- what the tests of the resolver see of the string `s` in circuit `c` -/
def vblkNameArg (c : Circ) (s : String) : Gen.Tr.VArg :=
  { isStr := true, startsUnderscore := startsUnderscore s, startsNot := vblkStartsNot s,
    sixthUnderscore := vblkSixth s, isCtrl := s == "_ctrl", nameKnown := (c.kind s).isSome }

/-- what the tests of the resolver see of a reference in circuit `c` -/
def vblkClassify (c : Circ) (r : Ref) : Gen.Tr.VArg :=
  match r with
  | .const _ => { isConst := true }
  | .obj foreign n => { isBlockObj := true, member := !foreign && (c.kind n).isSome }
  | r =>
    match vblkStr? r with
    | some s => vblkNameArg c s
    | none => {}

/-- the actions, in terms of the model's constructors -/
def vblkRun (c : Circ) (r : Ref) : Gen.Tr.VAct → Except Err (Circ × Ref)
  | .retSelf =>
    match r with
    | .const v => .ok (c, .const v)
    | .obj _ n => .ok (c, .obj false n)
    | _ => .error .typeError
  | .mkCtrl =>
    match vblkStr? r with
    | some s =>
      match addBlock c s .s true with
      | .error e => .error e
      | .ok c1 => .ok (c1, .obj false s)
    | none => .error .typeError
  | .mkNot =>
    match vblkStr? r with
    | some s =>
      match addBlock c s (.c .not) true with
      | .error e => .error e
      | .ok c1 =>
        -- `.connect(blk.removeprefix('_not_'))` on a name that starts with `_not_`
        match connect c1 s [.name (String.ofList (s.toList.drop 5))] [] with
        | .error e => .error e
        | .ok c2 => .ok (c2, .obj false s)
    | none => .error .typeError
  | .findblock =>
    match vblkStr? r with
    | some s => findblock c s
    | none => .error .typeError
  | .mkConst =>
    match r with
    | .val .undef => .error .valueError          -- `Const(UNDEF)`
    | .val v => .ok (c, .const v)
    | _ => .error .typeError
  | .raiseValueError => .error .valueError

theorem vblk_notTarget (s : String) :
    notTarget? s = if vblkStartsNot s && !vblkSixth s then some (String.ofList (s.toList.drop 5)) else none := by
  unfold notTarget? vblkStartsNot vblkSixth
  split
  · next rest heq =>
    simp only [heq, List.drop_succ_cons, List.drop_zero, Bool.true_and]
    cases rest with
    | nil => simp
    | cons a tl =>
      by_cases ha : a = '_'
      · subst ha; simp
      · simp [ha]
  · next hne =>
    split
    · next rest heq => exact absurd heq (hne rest)
    · simp

theorem vblk_name (c : Circ) (s : String) (r : Ref) (hr : vblkStr? r = some s)
    (hc : vblkClassify c r = vblkNameArg c s) :
    vblkRun c r (Gen.Tr.validateBlkTree (vblkClassify c r)) = validateName c s := by
  rw [hc]
  unfold Gen.Tr.validateBlkTree validateName vblkNameArg
  simp only [Bool.false_eq_true, if_false, if_true]
  by_cases h1 : (startsUnderscore s && !(c.kind s).isSome) = true
  · simp only [h1, if_true]
    by_cases h2 : (s == "_ctrl") = true
    · simp only [h2, if_true, vblkRun, hr]
      cases addBlock c s .s true <;> rfl
    · simp only [h2, if_false, Bool.false_eq_true]
      rw [vblk_notTarget]
      by_cases h3 : (vblkStartsNot s && !vblkSixth s) = true
      · simp only [h3, if_true, vblkRun, hr]
        cases addBlock c s (.c .not) true with
        | error e => rfl
        | ok c1 => cases connect c1 s [.name (String.ofList (s.toList.drop 5))] [] <;> rfl
      · simp only [h3, if_false, Bool.false_eq_true, vblkRun, hr]
  · simp only [h1, if_false, Bool.false_eq_true, vblkRun, hr]

/-- the model's resolver IS the translated decision tree of `Circuit._validate_blk`, run on the
    classification of the reference, with the model's block / Const constructors as actions:
    same tests in the same order -- in particular membership of the OBJECT in the circuit decides
    for block objects, and the inverter is connected to `blk.removeprefix('_not_')` -/
theorem translated_validate_blk_is_model (c : Circ) (r : Ref) :
    vblkRun c r (Gen.Tr.validateBlkTree (vblkClassify c r)) = validateBlk c r := by
  cases r with
  | const v => rfl
  | name s => exact vblk_name c s _ rfl rfl
  | obj f n =>
    cases f <;> cases h : (c.kind n).isSome <;>
      simp [vblkClassify, Gen.Tr.validateBlkTree, validateBlk, vblkRun, h]
  | val v =>
    cases v with
    | undef => rfl
    | tup l => rfl
    | lst l => rfl
    | atom a =>
      cases a with
      | none => rfl
      | num q k => rfl
      | str s => exact vblk_name c s _ rfl rfl

/-! #### construction and finalisation (tools/py2lean_wiring.py regenerates the programs
     `Gen.TrW.…` from the current source; EdzedProofs/WiringTie.lean interprets their primitives in the
     model: `WiringTie.prims`).  Each theorem: running the translated method on ANY circuit gives
     exactly the state and the error (or success) of the model's operation.  `KeysOK c`: the input
     names of every CBlock are distinct -- they are the keys of a Python dict. -/

open Edzed.WiringTie

/-- `_is_multiple`: a group (any Sequence but str, or an iterator) is multiple, a single reference is
    multiple exactly if it is a tuple / list value -/
theorem translated_wiring_is_multiple (kd : BKind) (a : Inp) :
    Gen.TrW.isMultiple (prims kd) a = (match a with
      | .group _ => true
      | .single r => r.isMultiple) := isMultiple_prims kd a

theorem translated_wiring_check_not_finalized (kd : BKind) (c : Circ) :
    Gen.TrW.checkNotFinalized (prims kd) c =
      (c, match Wiring.checkNotFinalized c with
          | Except.ok () => Except.ok ()
          | Except.error e => Except.error (excOf e)) := checkNotFinalized_run kd c

theorem translated_wiring_set_persistent_data (kd : BKind) (c : Circ) (d : Option Nat) :
    Gen.TrW.setPersistentData (prims kd) d c = ofExcept c (Wiring.setStorage c d) :=
  setPersistentData_run kd c d

/-- the model's block creation = the name rules of `Block.__init__`, then the translated `addblock` -/
theorem translated_wiring_addblock (kd : BKind) (c : Circ) (n : String) (reserved : Bool) :
    Wiring.addBlock c n kd reserved =
      if n.isEmpty then .error .valueError
      else if startsUnderscore n && !reserved then .error .valueError
      else match Gen.TrW.addblock (prims kd) n c with
        | (c', .ok ()) => .ok c'
        | (_, .error _) =>
          match Wiring.checkNotFinalized c with
          | .error e => .error e
          | .ok () => .error .valueError := addblock_run kd c n reserved

/-- `CBlock.connect(*pos, **named)` of a CBlock `b`: the translated statements (only-once rule, no
    inputs, the reserved name, no sequence as positional input, the unnamed group stored as given,
    every keyword argument stored as `tuple(inp)` if multiple and as is otherwise -- no other pass
    over a keyword argument) ARE the model's `connect` -/
theorem translated_wiring_connect (kd : BKind) (c : Circ) (b : String) (cls : CCls) (pos : List Ref)
    (named : Inputs) (hb : c.kind b = some (.c cls)) (hnd : (named.map (·.1)).Nodup) :
    Gen.TrW.connect (prims kd) b (pos.map Inp.single) named c = ofExcept c (Wiring.connect c b pos named) :=
  connect_run kd c b cls pos named hb hnd

/-- `_BlockResolver.register`, run for the holder object just created -/
theorem translated_wiring_register (kd : BKind) (c : Circ) (r : SRef) (needS : Bool) :
    Gen.TrW.register (prims kd) (c.slots.length, needS) (withSlots (c.slots ++ [⟨r, needS⟩]) c) =
      match Wiring.register c r needS with
      | .ok c' => (c', .ok ())
      | .error e => (withSlots (c.slots ++ [⟨r, needS⟩]) c, .error (excOf e)) := register_run kd c r needS

/-- `_BlockResolver.__init__`: a new resolver has no registration to resolve (and keeps the resolve
    function it was given, `Circuit._validate_blk`: checked by the generator) -/
theorem translated_wiring_resolver_init (kd : BKind) (c : Circ) :
    Gen.TrW.resolverInit (prims kd) c = (c, .ok ()) ∧ (prims kd).unresolved ({} : Circ) = [] :=
  ⟨rfl, rfl⟩

/-- `_BlockResolver.resolve`: every registration that holds a name, in order: resolve, check the
    type, store; the first failure ends the loop with what was stored so far -/
theorem translated_wiring_resolve (kd : BKind) (c : Circ) :
    Gen.TrW.resolve (prims kd) c = ofState (Wiring.resolve c) := resolve_run kd c

/-- `Circuit._finalize`: the translated loops ARE the model's two passes -- all CBlocks of a
    snapshot, then all `Not` blocks of a snapshot taken AFTER the first pass (so that the inverters
    it created are processed), per block: every input resolved and stored under its name, then
    every non-Const input registered in `iconnections` and in the `oconnections` of the circuit's
    block of that name -/
theorem translated_wiring_finalize_inner (kd : BKind) (c : Circ) (hk : KeysOK c) :
    Gen.TrW.finalizeInner (prims kd) c = ofState (Wiring.finalizeCore c) :=
  (finalizeInner_run kd c hk).1

/-- `Circuit.finalize`: nothing when finalized; otherwise resolver, `_finalize`, then the flag -/
theorem translated_wiring_finalize (kd : BKind) (c : Circ) (hk : KeysOK c) :
    Gen.TrW.finalize (prims kd) c = ofState (Wiring.finalize c) := finalize_run kd c hk

/-- the start (`run_forever`) completes the wiring by the resolver FOLLOWED BY `finalize()` -- also
    for a circuit that was finalized explicitly before (registrations made after that are resolved) --
    and the model's `start` is built on exactly that prefix -/
theorem translated_wiring_start (kd : BKind) (c : Circ) (hk : KeysOK c) :
    Gen.TrW.startWiring (prims kd) c = ofState (startPrefix c) ∧
    (c.stopped = false → c.order.isEmpty = false →
      Wiring.start c = (match startPrefix c with
        | (c2, some e) => ({ c2 with stopped := true }, some e)
        | (c2, none) => ({ c2 with stopped := true }, Wiring.startBlocks c2 c2.order))) :=
  ⟨startWiring_run kd c hk, start_uses_prefix c⟩

/-- `KeysOK` is kept by everything the finalisation does -/
theorem translated_wiring_keys_kept (c c' : Circ) (hk : KeysOK c) (h : Wiring.finalizeCore c = (c', none)) :
    KeysOK c' := (finalizeInner_run (.s) c hk).2 c' h

example : KeysOK {} := fun b cls h => by simp at h

/-! #### the signature check of combinational blocks (tools/py2lean_csig.py regenerates
     `Gen.TrCS.…`; EdzedProofs/CsigTie.lean interprets the primitives: `CsigTie.cprims`) -/

open Edzed.CsigTie

/-- `CBlock.input_signature` -/
theorem translated_csig_input_signature_is_model {V : Type} (c : Circ) (cm) (out : Ref → V) (b : String) :
    Gen.TrCS.inputSignature (cprims c cm out) (c.inputs b) =
      (match Wiring.inputSignature c b with
        | .ok l => .ok l
        | .error _ => .error .invalidState) := inputSignature_run c cm out b

/-- `setdiff_msg`: the message has a section for the unexpected names (each with what difflib
    suggests) iff there are any, then one for the missing names iff there are any -/
theorem translated_csig_setdiff_msg_is_model {V : Type} (c : Circ) (cm) (out : Ref → V) (a e : List String) :
    Gen.TrCS.setdiffMsg (cprims c cm out) a e =
      .ok (sectsOf cm (a.filter fun k => !e.contains k) (e.filter fun k => !a.contains k)) :=
  setdiffMsg_run c cm out a e

/-- `CBlock.check_signature`, for EVERY well-formed expected signature and every connection set:
    the translated statements return the block's signature exactly when the model has no diagnosis,
    and raise the ValueError the model's diagnosis describes (names / differing inputs) otherwise;
    an unconnected block raises EdzedInvalidState -/
theorem translated_csig_check_signature_is_model {V : Type} (c : Circ) (cm) (out : Ref → V) (b : String)
    (esig : List (String × Expect)) (ee : List (String × Gen.TrCS.E)) (he : encSig esig = some ee) :
    Gen.TrCS.checkSignature (cprims c cm out) (c.inputs b) ee =
      (match Wiring.checkSignatureD c b esig, Wiring.inputSignature c b with
        | .ok none, .ok bsig => .ok bsig
        | .ok (some d), _ => .error (excOfDiag cm d)
        | _, _ => .error .invalidState) := checkSignature_run c cm out b esig ee he

/-- the argument of `check_signature` in a translated `start()` (tools/py2lean_cblocks.py):
    `super().start()` first, then the check with a literal dict of `None` / sizes -/
def sigOfStart : List Gen.TrC.StartPrim → Option (List (String × Gen.TrCS.E))
  | [.superStart, .checkSignature l] => some (l.map fun p => (p.1, p.2.map Sum.inl))
  | _ => none

/-- the CALL SITES: `Not.start`, `Compare.start`, `Override.start` (translated in
    Gen/TranslatedCBlocks.lean) hand exactly the model's expectation to the `check_signature`
    translated here -/
theorem translated_sig_start_call_sites :
    sigOfStart Gen.TrC.notStart = (expectedSig .not).bind encSig ∧
    sigOfStart Gen.TrC.compareStart = (expectedSig .not).bind encSig ∧
    sigOfStart Gen.TrC.overrideStart = (expectedSig .ovr).bind encSig := ⟨rfl, rfl, rfl⟩

/-- `Circuit.getblocks`: all blocks in creation order, or those of the class asked for -- the
    snapshots `_finalize` takes are the model's `cblockNames` / `notNames` -/
theorem translated_csig_getblocks_is_model {V : Type} (c : Circ) (cm) (out : Ref → V) :
    Gen.TrCS.getblocks (cprims c cm out) c.order none = .ok c.order ∧
    Gen.TrCS.getblocks (cprims c cm out) c.order (some .cblock) = .ok (cblockNames c) ∧
    Gen.TrCS.getblocks (cprims c cm out) c.order (some .not) = .ok (notNames c) := getblocks_run c cm out

/-- `CBlock.InputGetter.__getitem__` -/
theorem translated_csig_getitem_is_model {V : Type} (c : Circ) (cm) (out : Ref → V) (b name : String) :
    Gen.TrCS.inputGetterGetitem (cprims c cm out) (c.inputs b) name =
      (match Wiring.inputGet out c b name with
        | .ok v => .ok v
        | .error _ => .error .keyError) := getitem_run c cm out b name

/-- `CBlock.__init_subclass__` -/
theorem translated_csig_init_subclass_is_model (hasAddon : Bool) :
    Gen.TrCS.cblockInitSubclass hasAddon =
      (match cblockSubclassAllowed hasAddon with
        | .ok () => .ok ()
        | .error _ => .error .typeError) := by
  cases hasAddon <;> rfl

/-! property-level consequences -/

/-- a combinational block class with an SBlock add-on is refused when the class is defined -/
theorem cblock_with_addon_refused : cblockSubclassAllowed true = .error .typeError ∧
    cblockSubclassAllowed false = .ok () := ⟨rfl, rfl⟩

/-- `check_signature` raises its ValueError exactly if the block is connected and the sets of input
    names differ or some input has not the expected shape (single / group size within the bounds) -/
theorem check_signature_raises_iff (c : Circ) (b : String) (esig : List (String × Expect)) :
    (∃ d, Wiring.checkSignatureD c b esig = .ok (some d)) ↔
      ∃ bsig, Wiring.inputSignature c b = .ok bsig ∧
        ¬ (sameKeys bsig esig = true ∧ ∀ p ∈ esig, ∃ v, bsig.lookup p.1 = some v ∧ p.2.accepts v) := by
  have h1 := checkSignature_iff_diag c b esig
  have h2 := Wiring.check_signature_accepts_iff c b esig
  unfold Wiring.checkSignatureD at h1 ⊢
  cases hs : Wiring.inputSignature c b with
  | error e => simp
  | ok bsig =>
    rw [hs] at h1
    simp only [hs, Except.ok.injEq, exists_eq_left'] at h2
    simp only [Except.ok.injEq, exists_eq_left']
    constructor
    · rintro ⟨d, hd⟩ hacc
      have := h1.mp (h2.mpr hacc)
      rw [Except.ok.injEq] at this
      rw [this] at hd; cases hd
    · intro hna
      cases hd : sigDiagnosis bsig esig with
      | some d => exact ⟨d, rfl⟩
      | none => exact absurd (h2.mp (h1.mpr (by simp only [hd]))) hna

/-- the "unexpected / missing" message names exactly the connected inputs that are not expected
    and the expected inputs that are not connected -/
theorem check_signature_message_names (bsig : List (String × Option Nat)) (esig : List (String × Expect))
    (u m : List String) (h : sigDiagnosis bsig esig = some (.names u m)) :
    (∀ k, k ∈ u ↔ k ∈ keysOf bsig ∧ k ∉ keysOf esig) ∧
    (∀ k, k ∈ m ↔ k ∈ keysOf esig ∧ k ∉ keysOf bsig) := by
  unfold sigDiagnosis at h
  split at h
  · cases h
  · split at h
    · cases h
      constructor <;> intro k <;> simp [List.mem_filter]
    · split at h
      · cases h
      · simp only at h; split at h <;> cases h

/-- the other message has one item for exactly the expected inputs whose shape differs -/
theorem check_signature_message_values (bsig : List (String × Option Nat)) (esig : List (String × Expect))
    (l : List String) (h : sigDiagnosis bsig esig = some (.values l)) :
    ∀ k, k ∈ l ↔ ∃ e, (k, e) ∈ esig ∧
      (match bsig.lookup k with
        | some v => valueDiff e v = true
        | none => True) := by
  unfold sigDiagnosis at h
  split at h
  · cases h
  · split at h
    · cases h
    · split at h
      · cases h
      · simp only at h
        split at h
        · cases h
        · cases h
          intro k
          simp only [keysOf, List.mem_map, List.mem_filter]
          constructor
          · rintro ⟨⟨k', e⟩, ⟨hm, hq⟩, rfl⟩
            refine ⟨e, hm, ?_⟩
            cases hl : bsig.lookup k' with
            | none => trivial
            | some v => simpa [hl] using hq
          · rintro ⟨e, hm, hq⟩
            refine ⟨(k, e), ⟨hm, ?_⟩, rfl⟩
            cases hl : bsig.lookup k with
            | none => simp [hl]
            | some v => simpa [hl] using hq

example : sigDiagnosis [("a", none), ("g", some 0)] [("a", .single), ("x", .exact 1)] =
    some (.names ["g"] ["x"]) := by decide

example : sigDiagnosis [("a", some 0), ("g", some 3)] [("a", .single), ("g", .range (some 0) (some 2))] =
    some (.values ["a", "g"]) := by decide

/-- `CBlock.get_conf`: the item 'type', and -- only in a finalized circuit -- the item 'inputs'
    with the name of every single input and the tuple of names of every group, in the order of
    `inputs` (an unresolved reference has no `.name`: AttributeError) -/
theorem translated_csig_get_conf_is_model {V : Type} (c : Circ) (cm) (out : Ref → V) (b : String) :
    Gen.TrCS.cblockGetConf (cprims c cm out) c.finalized (c.inputs b) =
      (match Wiring.getConfInputs c b with
        | none => .ok { type := "combinational", inputs := none }
        | some none => .error .attributeError
        | some (some l) => .ok { type := "combinational", inputs := some (l.map fun p => (p.1, confSum p.2)) }) :=
  getConf_run c cm out b

/-- what the trial call of `FuncBlock.start` raises: `bind` of the function's signature refuses the
    connected inputs with TypeError -/
def trialOf (f : FSig) (unpack : Bool) (ins : Inputs) : Option String :=
  match Wiring.funcStart f unpack ins with
  | .ok () => none
  | .error _ => some "TypeError"

/-- the CALL SITE of the binding: the translated `FuncBlock.start` (Gen/TranslatedCBlocks.lean), given
    what the trial call does for a function with signature `f`, goes on to the base class exactly
    when the function can be called with the connected inputs, and raises TypeError otherwise -- the
    user's function restored first in both cases -/
theorem translated_sig_funcblock_start_call_site (f : FSig) (unpack : Bool) (ins : Inputs) :
    Gen.TrC.funcBlockStart (trialOf f unpack ins) =
      .saveFunc :: .setFunc .bind :: .calcOutput :: .setFunc .user ::
        [if f.binds (callShape unpack ins).1 (callShape unpack ins).2 then .superStart else .raise "TypeError"] := by
  unfold trialOf Wiring.funcStart
  cases f.binds (callShape unpack ins).1 (callShape unpack ins).2 <;> rfl

/-- `FuncBlock.start` accepts exactly the connection sets the function can be called with: the
    members of the unnamed group as positional arguments (or the whole group as one argument when
    `unpack=False`) and every other input by keyword -- not more positional arguments than
    parameters unless `*args`, every keyword a parameter not yet given by position (or `**kwargs`),
    every parameter without default supplied -/
theorem funcblock_start_accepts_iff_callable (f : FSig) (unpack : Bool) (ins : Inputs) :
    Wiring.funcStart f unpack ins = .ok () ↔
      Callable f (callShape unpack ins).1 (callShape unpack ins).2 := by
  unfold Wiring.funcStart
  rw [← binds_iff]
  cases f.binds (callShape unpack ins).1 (callShape unpack ins).2 <;> simp

/-- a refusal is a TypeError -/
theorem funcblock_start_refuses_with_type_error (f : FSig) (unpack : Bool) (ins : Inputs) :
    Wiring.funcStart f unpack ins = .ok () ∨ Wiring.funcStart f unpack ins = .error .typeError := by
  unfold Wiring.funcStart
  split <;> simp

example : (Wiring.funcStart { pos := [("a", false), ("b", true)], kwonly := [("k", false)] } true
    [("_", .group [.name "x"]), ("k", .single (.name "y"))]).isOk = true := by decide

example : (Wiring.funcStart { pos := [("a", false), ("b", true)], kwonly := [("k", false)] } true
    [("_", .group [.name "x"]), ("a", .single (.name "y")), ("k", .single (.name "y"))]).isOk = false := by
  decide

example : (Wiring.funcStart { pos := [("a", false)] } false
    [("_", .group [.name "x", .name "y", .name "z"])]).isOk = true := by decide

end Edzed.TrTie
