/-
C10 — a circuit that cannot settle is stopped with the instability error after a bounded number
of evaluations; one that settles along few paths is never reported; a pause means consistency.

Model: EdzedModel/Burst.lean (`burst`: the loop of `Circuit._simulate` between two pauses, built
from C01's `evalOp`/`idleOp` of EdzedModel/Simulate.lean, with `eval_cnt` and
`eval_limit = _MAX_EVALS_PER_BLOCK * len(circuit._blocks)`).  `choices` is the sequence of blocks
the loop takes from its eval set; every theorem holds for ALL sequences, i.e. for every
selection order `select_blk` and Python's set iteration could produce.  Networks may be cyclic,
blocks may read their own output, CBlocks may send on_output events to SBlocks (feedback).
-/
import EdzedModel.Burst
import EdzedProofs.Burst
import EdzedProofs.SimTie
import EdzedModel.Gen.Translated

namespace Edzed.Burst
open Edzed.Sim

/-- the limit counts ALL blocks of the circuit, times the constant generated from the source -/
theorem limit_counts_all_blocks (c : Circuit) : c.limit = Gen.maxEvalsPerBlock * c.nblocks := rfl

/-- the margin the property text speaks of ("3 x number of blocks") is what the source says -/
theorem margin_as_documented : Gen.maxEvalsPerBlock = 3 := by decide

/-- `burst_bounded`: between two pauses at most `limit` evaluations happen – whatever the network
    (cyclic, event feedback) and whatever the selection order; the instability error comes after
    exactly `limit` evaluations; and the loop cannot go on beyond that: a sequence of `limit`
    choices always ends in a pause or in the error (`illegal` = the sequence is not one the loop
    can produce). -/
theorem burst_bounded (c : Circuit) (s : St Val) (hs : BurstStart c s) (choices : List Nat) :
    (burst c s choices).evals ≤ c.limit ∧
    ((burst c s choices).fin = .unstable → (burst c s choices).evals = c.limit) ∧
    (c.limit ≤ choices.length → (burst c s choices).fin ≠ .more) := by
  have h0 := burstStart_cnt c s hs
  have := burst_count c s choices (by omega)
  rw [h0] at this
  simpa using this

/-- the same from the middle of a burst: what was already counted plus what follows stays within
    the limit (every state of every run has `cnt ≤ limit`) -/
theorem burst_bounded_from (c : Circuit) (outS : Nat → Val) (ops : List Op) (choices : List Nat) :
    let s := run c (start c outS) ops
    s.cnt + (burst c s choices).evals ≤ c.limit ∧
    (c.limit ≤ choices.length + s.cnt → (burst c s choices).fin ≠ .more) := by
  intro s
  have h0 : s.cnt ≤ c.limit := run_cnt c _ (Nat.zero_le _) ops
  have := burst_count c s choices h0
  exact ⟨by omega, this.2.2⟩

/-- whenever the simulator pauses the network is consistent: every CBlock output equals
    (Python `==`) its function of the current outputs – also for cyclic networks, self-loops and
    event feedback (C01's invariant argument, here without C01's "no block reads itself") -/
theorem burst_idle_consistent (c : Circuit) (hok : OkW c) (outS : Nat → Val) (ops : List Op)
    (choices : List Nat) (hidle : (burst c (run c (start c outS) ops) choices).fin = .idle) :
    Consistent c (burst c (run c (start c outS) ops) choices).st.outC
      (burst c (run c (start c outS) ops) choices).st.outS := by
  have hinv := burst_inv c hok _ (run_inv' c hok _ (start_inv c outS) ops) choices
  have hst := burst_idle_state c _ choices hidle
  intro b hb
  exact idle_clean Val.pyEq c.net _ hinv hst.2.2 hst.1 b hb

/-- `unsat_is_detected`: if no assignment of outputs is consistent, then from every reachable
    state every sequence of `limit` choices the loop can make ends in the instability error –
    the run cannot pause (`burst_idle_consistent`) and cannot go on (`burst_bounded`). -/
theorem unsat_is_detected (c : Circuit) (hok : OkW c) (outS : Nat → Val) (ops : List Op)
    (choices : List Nat)
    (hunsat : ∀ outC outS', ¬ Consistent c outC outS')
    (hlegal : (burst c (run c (start c outS) ops) choices).fin ≠ .illegal)
    (hlen : c.limit ≤ choices.length) :
    (burst c (run c (start c outS) ops) choices).fin = .unstable := by
  have h0 : (run c (start c outS) ops).cnt ≤ c.limit := run_cnt c _ (Nat.zero_le _) ops
  have hc := (burst_count c _ choices h0).2.2 (by omega)
  have hi := burst_idle_consistent c hok outS ops choices
  cases hf : (burst c (run c (start c outS) ops) choices).fin with
  | unstable => rfl
  | idle => exact absurd (hi hf) (hunsat _ _)
  | illegal => exact absurd hf hlegal
  | more => exact absurd hf hc

/-- the same for a network without on_output events when only the CURRENT inputs (SBlock outputs)
    admit no consistent assignment – e.g. `xor(ctrl, own output)` once `ctrl` is true -/
theorem unsat_is_detected_fixed_inputs (c : Circuit) (hok : OkW c) (hne : ∀ b, (c.blk b).events = [])
    (outS : Nat → Val) (ops : List Op) (choices : List Nat)
    (hunsat : ∀ outC, ¬ Consistent c outC (run c (start c outS) ops).outS)
    (hlegal : (burst c (run c (start c outS) ops) choices).fin ≠ .illegal)
    (hlen : c.limit ≤ choices.length) :
    (burst c (run c (start c outS) ops) choices).fin = .unstable := by
  have h0 : (run c (start c outS) ops).cnt ≤ c.limit := run_cnt c _ (Nat.zero_le _) ops
  have hc := (burst_count c _ choices h0).2.2 (by omega)
  have hi := burst_idle_consistent c hok outS ops choices
  rw [burst_outS c hne] at hi
  cases hf : (burst c (run c (start c outS) ops) choices).fin with
  | unstable => rfl
  | idle => exact absurd (hi hf) (hunsat _)
  | illegal => exact absurd hf hlegal
  | more => exact absurd hf hc

/-- `potential_decreases`: for any potential `P` (a block weighs at least 1 + everything a change
    of its output wakes up, directly or through its on_output events) EVERY evaluation lowers the
    weight of what is pending (eval set + queued SBlocks) by at least one – whichever block of the
    eval set was selected, whether or not its output changed. -/
theorem potential_decreases (c : Circuit) (P : Nat → Nat) (hP : IsPot c P) (s : St Val) (b : Nat)
    (ch : Bool) (v : Val) (h : (evalOp c s b).2 = .ok ch v) :
    phi c.net P (evalOp c s b).1 + 1 ≤ phi c.net P s :=
  evalOp_phi c P hP s b ch v h

/-- `dag_within_budget_never_unstable`: if the pending weight fits into what is left of the
    limit, no selection order leads to the instability error, and the burst makes at most that
    many evaluations.  A potential exists iff the network including its event feedback is acyclic;
    the least one is the number of paths starting in a block. -/
theorem dag_within_budget_never_unstable (c : Circuit) (P : Nat → Nat) (hP : IsPot c P) (s : St Val)
    (choices : List Nat) (h : s.cnt + phi c.net P s ≤ c.limit) :
    (burst c s choices).fin ≠ .unstable ∧ (burst c s choices).evals ≤ phi c.net P s :=
  burst_dag c P hP s choices h

/-- a burst caused by external events `es` after a pause: if the paths starting in the blocks
    connected to the changed SBlocks number at most `3 × blocks` (the documented margin), the
    circuit is never reported as unstable and the number of evaluations is at most that number
    of paths -/
theorem ext_burst_within_budget (c : Circuit) (P : Nat → Nat) (hP : IsPot c P) (s0 s : St Val)
    (hidle : idleOp c s0 = some s) (es : List Ext) (choices : List Nat)
    (h : listSum (sWeight c.net P) (es.map (·.i)) ≤ 3 * c.nblocks) :
    (burst c (applyExts c s es) choices).fin ≠ .unstable ∧
    (burst c (applyExts c s es) choices).evals ≤ listSum (sWeight c.net P) (es.map (·.i)) := by
  have hi := phi_idle c P s0 s hidle
  have he := phi_exts c P s es
  have hc := exts_cnt c s es
  have hl : c.limit = 3 * c.nblocks := by rw [limit_counts_all_blocks, margin_as_documented]
  have := burst_dag c P hP (applyExts c s es) choices (by omega)
  exact ⟨this.1, by omega⟩

/-- the first pass (all CBlocks pending) under an arbitrary selection order: bounded by the
    number of all paths -/
theorem first_pass_within_budget (c : Circuit) (P : Nat → Nat) (hP : IsPot c P) (outS : Nat → Val)
    (choices : List Nat) (h : wsum P (fun _ => true) c.cblocks.length ≤ 3 * c.nblocks) :
    (burst c (start c outS) choices).fin ≠ .unstable ∧
    (burst c (start c outS) choices).evals ≤ wsum P (fun _ => true) c.cblocks.length := by
  have hl : c.limit = 3 * c.nblocks := by rw [limit_counts_all_blocks, margin_as_documented]
  have hphi := phi_start c P outS
  have := burst_dag c P hP (start c outS) choices (by rw [hphi, hl]; simpa [start] using h)
  rw [hphi] at this
  exact this

/-- the check the driver uses to decide whether the path table is a potential is sound -/
theorem path_table_check_sound (c : Circuit) (h : isPotB c (tbl (pathTable c)) = true) :
    IsPot c (tbl (pathTable c)) :=
  isPotB_sound c _ h

/-- what `select_blk` may return (the specification the correspondence validates every recorded
    choice against) is a block of the eval set – the theorems above, which hold for every such
    choice, cover it -/
theorem select_blk_choice_is_legal (c : Circuit) (E : Nat → Bool) (b : Nat) (h : selectOk c E b = true) :
    E b = true ∧ b < c.net.n := by
  simp only [selectOk, Bool.and_eq_true, decide_eq_true_eq] at h
  exact ⟨h.1.1, h.1.2⟩

/-- With the choices `select_blk` makes (a block without pending inputs if there is one) a burst
    on an acyclic network whose eval set is closed under successors – the FIRST PASS in particular –
    evaluates every pending block at most once: the first pass of a DAG costs one evaluation per
    CBlock however many paths there are, and is never reported as unstable.

    Partial: stated for networks without on_output events.  The full statement (with CBlock→SBlock
    event feedback) does not hold for the code: `select_blk` looks at direct CBlock inputs only,
    so with `a --event--> s --> b` it may evaluate `b` before `a` and `b` again afterwards; for
    that case the bound is the path count of `first_pass_within_budget`. -/
theorem first_pass_select_blk_linear_partial (c : Circuit) (P : Nat → Nat) (hP : IsPot c P)
    (hne : ∀ b, (c.blk b).events = []) (outS : Nat → Val) (choices : List Nat)
    (hsel : choicesOk c (start c outS) choices = true)
    (hn : c.cblocks.length ≤ c.nblocks) :
    (burst c (start c outS) choices).fin ≠ .unstable ∧
    (burst c (start c outS) choices).evals ≤ c.cblocks.length := by
  have hl : c.limit = 3 * c.nblocks := by rw [limit_counts_all_blocks, margin_as_documented]
  have hcard : card (start c outS).E c.cblocks.length = c.cblocks.length := card_all _
  have := burst_select c P hP hne (start c outS) (start_closed c outS) choices hsel
    (by rw [hcard, hl]; simp only [start]; omega)
  rw [hcard] at this
  exact this

/-! ### non-vacuity -/

/-- three inverters in a ring (tests/test_simulator.py::test_instability_1) -/
def ring3 : Circuit :=
  { cblocks := [{ fn := .not, pos := [.c 2] }, { fn := .not, pos := [.c 0] }, { fn := .not, pos := [.c 1] }],
    skinds := [], nblocks := 3 }

example : OkW ring3 := by
  intro b hb
  have : b = 0 ∨ b = 1 ∨ b = 2 := by simp [ring3] at hb; omega
  rcases this with rfl | rfl | rfl <;> rfl

/-- the hypothesis of `unsat_is_detected` is satisfiable: the ring has no consistent assignment -/
example : ∀ outC outS, ¬ Consistent ring3 outC outS := by
  intro o e h
  have h0 := truthy_of_pyEq_bool _ _ (h 0 (by decide))
  have h1 := truthy_of_pyEq_bool _ _ (h 1 (by decide))
  have h2 := truthy_of_pyEq_bool _ _ (h 2 (by decide))
  simp only [ring3, Circuit.blk, List.getD, List.getElem?_cons_zero, List.getElem?_cons_succ,
    Option.getD_some, List.map_cons, List.map_nil, List.headD_cons, Src.val] at h0 h1 h2
  rw [h2, h1] at h0
  cases hx : (o 0).truthy <;> simp [hx] at h0

/-- … and the simulator's own run on it (select_blk's choices 0,1,2,0,…) ends with the error after
    `limit = 9` evaluations -/
example : (burst ring3 (start ring3 fun _ => .undef) [0, 1, 2, 0, 1, 2, 0, 1, 2]).fin = .unstable
    ∧ (burst ring3 (start ring3 fun _ => .undef) [0, 1, 2, 0, 1, 2, 0, 1, 2]).evals = 9 := by
  decide +kernel

/-- a diamond  s0 → c0, c1 → c2 = xor(c0, c1), with c2 sending 'put' to s1 which c3 reads -/
def diamond : Circuit :=
  { cblocks := [{ fn := .not, pos := [.s 0] }, { fn := .or, pos := [.s 0] },
                { fn := .xor, pos := [.c 0, .c 1], events := [(1, .put)] }, { fn := .not, pos := [.s 1] }],
    skinds := [.input, .input], nblocks := 6 }

/-- the hypothesis `IsPot` is satisfiable, with feedback: the path table of the diamond -/
example : IsPot diamond (tbl (pathTable diamond)) :=
  path_table_check_sound diamond (by decide +kernel)

example : pathTable diamond = [3, 3, 2, 1] := by decide +kernel

/-- the diamond without its event: hypotheses of `first_pass_select_blk_linear_partial` are
    satisfiable, choices 0,1,2,3 are choices of `select_blk` -/
def diamond0 : Circuit :=
  { cblocks := [{ fn := .not, pos := [.s 0] }, { fn := .or, pos := [.s 0] },
                { fn := .xor, pos := [.c 0, .c 1] }, { fn := .not, pos := [.s 1] }],
    skinds := [.input, .input], nblocks := 6 }

example : isPotB diamond0 (tbl (pathTable diamond0)) = true
    ∧ choicesOk diamond0 (start diamond0 fun _ => Val.bool false) [0, 1, 2, 3] = true
    ∧ choicesOk diamond0 (start diamond0 fun _ => Val.bool false) [2, 0, 1, 3] = false := by
  decide +kernel

end Edzed.Burst

namespace Edzed.TrTie
open Edzed.Sim Edzed.Burst Edzed.SimTie Edzed.Gen.TrL

/-- the model's limit IS the translated right-hand side of `eval_limit = …` in `Circuit._simulate`, with
    `len(self._blocks)` = the number of ALL blocks -/
theorem translated_eval_limit_is_model (c : Sim.Circuit) :
    Gen.Tr.evalLimit Gen.maxEvalsPerBlock c.nblocks = c.limit := rfl

/-! ### the main loop `Circuit._simulate`, translated statement by statement

`Gen.TrL.simInit` / `simStep` / `selectBlk` (EdzedModel/Gen/TranslatedSimulate.lean) are regenerated from
the current AST on every run; their primitives (`queue.empty()`, `sblk.oconnections`, `cblk.eval_block()`,
set operations, …) are parameters.  `SimTie.simPrims c en` instantiates them with the model's operations on
masks; `en` is the iteration order of Python sets – every theorem holds for EVERY enumeration.  The
theorems say that the translated code computes the model's `start`, `evalOp`, `idleOp` and respects the
model's specification `selectOk` of `select_blk`: an edit of the method that changes what it does breaks
one of them. -/

/-- the statements before `while True:` compute the model's start state: `eval_limit` = the limit over ALL
    blocks, `eval_set` = all CBlocks, `eval_cnt` = 0 -/
theorem translated_simulate_init_is_model (c : Circuit) (en : (Nat → Bool) → List Nat) (outS : Nat → Val) :
    (simInit (simPrims c en)).1 = c.limit ∧
    toSt (simInit (simPrims c en)).2.1 (simInit (simPrims c en)).2.2 ⟨fun _ => .undef, outS, []⟩
      = start c outS := by
  rw [simInit_eq]
  exact ⟨rfl, rfl⟩

/-- `select_blk`, whatever the iteration order of the set: it returns a member (never fails its `assert` on
    a non-empty set) that the model's specification allows – no pending input, or the minimum number when
    every member has some -/
theorem translated_select_blk_is_model (c : Circuit) (en : (Nat → Bool) → List Nat) (hen : Enumerates c en)
    (E : Nat → Bool) (h : ∃ b, b < c.cblocks.length ∧ E b = true) :
    ∃ r, selectBlk (simPrims c en) E = some r ∧ selectOk c E r = true :=
  selectBlk_selectOk c en hen E h

/-- … and it returns AT THE FIRST member without pending inputs (any primitives, any enumeration) -/
theorem translated_select_blk_first_zero {S Blk SBlk σ ε : Type} (P : Prims S Blk SBlk σ ε) (s : S) (z : Blk)
    (hz : (P.enum s).find? (fun x => ((P.iconnC x).filter (fun inp => P.mem inp s)).length == 0) = some z) :
    selectBlk P s = some z :=
  selectBlk_first_zero P s z hz

/-- ONE PASS through the body of `while True:` when the loop is not at its pause IS the model's `evalOp`
    (drain the queue – `continue` if nothing is to be evaluated – count, compare with the limit using `>`,
    take a block out of the set, evaluate it, add its `oconnections` only when it changed) for a block `b`
    that the specification of `select_blk` allows.  `embed` reads the model's result as the end of the
    pass: `.ok` ↦ next pass with the new locals, nothing pending ↦ `continue`, `.instability` ↦ the
    `EdzedCircuitError` raised with `eval_cnt` already incremented. -/
theorem translated_simulate_step_is_model (c : Circuit) (en : (Nat → Bool) → List Nat) (hen : Enumerates c en)
    (s : St Val) (h : pauseCond c s = false) :
    ∃ b, (anyPending c.net (drain c.net s).E = true → s.cnt + 1 ≤ c.limit →
            selectOk c (drain c.net s).E b = true) ∧
      simStep (simPrims c en) c.limit s.E s.cnt (worldOf s) = embed (evalOp c s b) := by
  rw [simStep_nopause c en s h]
  exact simStep_j1_eq c en hen s

/-- AT THE PAUSE (`not eval_set and queue.empty()`): the model's `idleOp` succeeds; the translated pass
    suspends in `await queue.get()`; and when it is resumed with the first item `i` of a queue `i :: Q'`
    (SBlock outputs `outS'` changed meanwhile by external events) the rest of the pass – `eval_cnt = 0`,
    `eval_set |= i.oconnections`, drain `Q'`, … – IS the model's `evalOp` on the state `idleOp` left
    (counter 0) with the whole queue. -/
theorem translated_simulate_pause_is_model (c : Circuit) (en : (Nat → Bool) → List Nat) (hen : Enumerates c en)
    (s : St Val) (h : pauseCond c s = true) :
    idleOp c s = some { drain c.net s with cnt := 0 } ∧
    ∃ k, simStep (simPrims c en) c.limit s.E s.cnt (worldOf s) = .await k ∧
      ∀ (i : Nat) (Q' : List Nat) (outC' outS' : Nat → Val),
        ∃ b, (anyPending c.net (drain c.net ⟨outC', outS', s.E, i :: Q', 0⟩).E = true → 0 + 1 ≤ c.limit →
                selectOk c (drain c.net ⟨outC', outS', s.E, i :: Q', 0⟩).E b = true) ∧
          k i ⟨outC', outS', Q'⟩ = embed (evalOp c ⟨outC', outS', s.E, i :: Q', 0⟩ b) := by
  refine ⟨(pause_idle c s h).1, _, simStep_pause c en s h, ?_⟩
  intro i Q' outC' outS'
  obtain ⟨b, hb, heq⟩ := simStep_j1_eq c en hen ⟨outC', outS', fun x => s.E x || (c.net.succS i).contains x, Q', 0⟩
  have hd := drain_head c outC' outS' s.E i Q' 0
  refine ⟨b, ?_, ?_⟩
  · rw [← hd]; exact hb
  · rw [← evalOp_of_drain_eq c _ _ b hd]
    exact heq

/-- conversely, whenever the model pauses (`idleOp` succeeds) the loop is at its pause condition, at the
    latest after one `continue` (the pass that drained a queue of SBlocks nobody reads) -/
theorem translated_pause_condition_is_idleOp (c : Circuit) (s s' : St Val) (h : idleOp c s = some s') :
    pauseCond c (drain c.net s) = true ∧ s' = { drain c.net s with cnt := 0 } :=
  idle_pause c s s' h

/-! non-vacuity on the diamond: two iteration orders, two different (both allowed) first choices -/

example : Enumerates Burst.diamond0 (enumAsc Burst.diamond0) ∧ Enumerates Burst.diamond0 (enumDesc Burst.diamond0) :=
  ⟨enumAsc_enumerates _, enumDesc_enumerates _⟩

example : selectBlk (simPrims Burst.diamond0 (enumAsc Burst.diamond0)) (fun b => decide (b < 4)) = some 0
    ∧ selectBlk (simPrims Burst.diamond0 (enumDesc Burst.diamond0)) (fun b => decide (b < 4)) = some 3
    ∧ selectBlk (simPrims Burst.diamond0 (enumDesc Burst.diamond0)) (fun b => b == 2 || b == 1) = some 1
    ∧ pauseCond Burst.diamond0 (start Burst.diamond0 fun _ => Val.bool false) = false := by
  decide +kernel

/-- the first pass of the translated loop on the diamond evaluates block 0 (ascending order): `eval_cnt`
    becomes 1, block 0 leaves the set, its output becomes `not False` -/
example :
    (match simStep (simPrims Burst.diamond0 (enumAsc Burst.diamond0)) Burst.diamond0.limit
        (fun b => decide (b < 4)) 0 ⟨fun _ => .undef, fun _ => Val.bool false, []⟩ with
     | .next (E, cnt) w => cnt == 1 && !E 0 && E 1 && E 2 && E 3 && (w.outC 0 == Val.bool true)
     | _ => false) = true := by
  decide +kernel

end Edzed.TrTie
