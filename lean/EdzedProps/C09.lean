/-
C09 — the first error stops the simulation and is the one that gets reported.

Model: EdzedModel/ErrorReg.lean.  A *history* is any list of operations of the environment
(external events of every kind, abort() calls, cancellations, monitored / supporting tasks failing,
shutdown(), SIGTERM, loop iterations) — no bound on its length, every interleaving of immediate and
deferred error sources.  `deliveries` is the log of everything handed to the simulator's two register
writers (`Circuit.abort` and the `except` clause of `run_forever`) in the order it happened.
-/
import EdzedModel.ErrorReg
import EdzedProofs.ErrorReg
import EdzedModel.Gen.TranslatedSim
import EdzedModel.Gen.Translated
import EdzedProofs.ErrorRegTie

namespace Edzed.ErrorReg

/-- **first error wins**: after every history that starts with an empty register, `Circuit.error` is the
    FIRST error delivered to the simulator (none iff nothing was delivered) -/
theorem first_error_wins (s : St) (h : s.error = none) (ops : List Op) :
    (final s ops).error = (deliveries s ops).head? := by
  rw [run_error, h, firstOf_none]

/-- the reported error is never replaced and never returns to `None`, whatever happens later
    (further errors, abort() calls, cancellations, shutdown) -/
theorem error_never_replaced (s : St) (e : Err) (h : s.error = some e) (ops : List Op) :
    (final s ops).error = some e := by
  rw [run_error, h, firstOf_some]

/-- the same statement along one history: what the register holds after a prefix is what it holds
    after the whole history -/
theorem error_stable_along_history (s : St) (a b : List Op) (e : Err)
    (h : (final s a).error = some e) : (final s (a ++ b)).error = some e := by
  rw [run_append]; exact error_never_replaced _ e h b

/-- once the simulation has an error the circuit is not ready, and stays so for ever -/
theorem not_ready_forever (s : St) (e : Err) (h : s.error = some e) (ops : List Op) :
    (final s ops).ready = false := by
  have := error_never_replaced s e h ops
  simp [St.ready, this]

/-- invariant: a simulation task that has left its `try` block (clean-up, finished) has an error set -/
def Stopped (s : St) : Prop :=
  (s.phase = .sleep0 ∨ s.phase = .cleanup ∨ s.phase = .done) → s.error.isSome

/-- the simulation task in its try block: it stays there, or it has just delivered something -/
theorem wakeStep_sim_try (s : St) (hp : s.phase = .tryBlock) :
    (wakeStep s .sim).1.phase = .tryBlock ∨ (wakeStep s .sim).2 ≠ [] := by
  simp only [wakeStep, hp]
  cases hm : s.mustCancel
  · cases ha : s.armed with
    | none => simp [hp]
    | some a => cases a <;> simp <;> split <;> simp
  · simp

theorem wakeStep_stopped (s : St) (w : Wake) (h : Stopped s) : Stopped (wakeStep s w).1 := by
  have he := wakeStep_error s w
  intro hq
  rw [he]
  cases hs : s.error with
  | some e => simp [firstOf]
  | none =>
    have hph : s.phase = .notStarted ∨ s.phase = .tryBlock := by
      cases hp : s.phase <;> simp_all [Stopped]
    simp only [firstOf]
    rcases hph with hp | hp
    · exfalso
      cases w <;> simp [wakeStep, hp, St.abort, hs] at hq
    · cases w with
      | sim =>
        rcases wakeStep_sim_try s hp with h1 | h1
        · simp [h1] at hq
        · cases hd : (wakeStep s .sim).2 <;> simp_all
      | _ => simp [wakeStep, hp, St.abort, hs] at hq ⊢

theorem tickFold_stopped (ws : List Wake) (acc : St × List Err) (h : Stopped acc.1) :
    Stopped (tickFold ws acc).1 := by
  induction ws generalizing acc with
  | nil => simpa [tickFold] using h
  | cons w ws ih =>
    simp only [tickFold, List.foldl_cons]
    exact ih _ (wakeStep_stopped _ w h)

theorem step_stopped (s : St) (op : Op) (h : Stopped s) : Stopped (step s op).1 := by
  cases op with
  | tick =>
    simp only [step]
    exact tickFold_stopped s.wake _ (by simpa [Stopped] using h)
  | finish =>
    simp only [step]
    split
    · next hp =>
      have hp' : s.phase = .cleanup := by simpa using hp
      intro _; simpa using h (Or.inr (Or.inl hp'))
    · exact h
  | start i =>
    have he := step_error s (.start i)
    intro hq; rw [he]
    cases hs : s.error with
    | some e => simp [firstOf]
    | none =>
      have hph : s.phase = .notStarted ∨ s.phase = .tryBlock := by
        cases hp : s.phase <;> simp_all [Stopped]
      rcases hph with hp | hp
      · cases i with
        | some id => simp [step, hp, hs, firstOf] at hq ⊢
        | none => cases hf : s.earlyFail <;> simp [step, hp, hs, hf, firstOf] at hq ⊢
      · simp [step, hp] at hq
  | handlerErr id f =>
    intro hq
    rw [step_error]
    cases hs : s.error with
    | some e => simp [firstOf]
    | none =>
      have hph : s.phase = .notStarted ∨ s.phase = .tryBlock := by
        cases hp : s.phase <;> simp_all [Stopped]
      rcases hph with hp | hp <;> cases hf : (Fault.inHandler f).fatal <;>
        simp [step, hp, hs, hf, St.ready, St.abort] at hq ⊢
  | earlyInitFail id =>
    simp only [step]
    split
    · simpa [Stopped] using h
    · exact h
  | supTrigger i id => cases id <;> simpa [step, Stopped] using h
  | nestedUnknown c =>
    simp only [step]
    split
    · split <;> simpa [Stopped] using h
    · exact h
  | _ =>
    intro hq
    rw [step_error]
    cases hs : s.error with
    | some e => simp [firstOf]
    | none =>
      have hph : s.phase = .notStarted ∨ s.phase = .tryBlock := by
        cases hp : s.phase <;> simp_all [Stopped]
      rcases hph with hp | hp <;>
        simp [step, hp, hs, St.ready, St.abort] at hq ⊢

/-- for every history from a fresh circuit: a stopped simulation has an error — hence a stopped
    simulation is not ready ("once the simulation has stopped the circuit is not ready") -/
theorem stopped_has_error (ops : List Op) (s : St) (h : Stopped s) : Stopped (final s ops) := by
  unfold final run
  suffices ∀ acc : St × List Err, Stopped acc.1 →
      Stopped (ops.foldl (fun acc op => let r := step acc.1 op; (r.1, acc.2 ++ r.2.dels)) acc).1 from
    this (s, []) h
  induction ops with
  | nil => intro acc h; exact h
  | cons op ops ih => intro acc h; simp only [List.foldl_cons]; exact ih _ (step_stopped _ op h)

theorem stopped_not_ready (ops : List Op)
    (hp : (final {} ops).phase = .sleep0 ∨ (final {} ops).phase = .cleanup ∨ (final {} ops).phase = .done) :
    (final {} ops).ready = false := by
  have := stopped_has_error ops {} (by simp [Stopped]) hp
  cases he : (final {} ops).error <;> simp_all [St.ready]

/-! ### what the API reports -/

/-- a cancellation counts as a normal stop: shutdown() returns; run() returns None unless a
    supporting task failed -/
theorem cancel_is_normal_stop (s : St) (t : Nat) (h : s.error = some (.cancelled t)) (n : Nat) :
    shutdownRaises s = none ∧
    (firstSupError s.supDone n = none → runRaises s n = none) := by
  simp [shutdownRaises, runRaises, h, Err.isCancel]

/-- a real error is what run_forever(), shutdown() and run() raise — for run() even when supporting
    tasks have failed as well -/
theorem error_is_reraised (s : St) (e : Err) (h : s.error = some e) (hc : e.isCancel = false) (n : Nat) :
    runForeverRaises s = some e ∧ shutdownRaises s = some e ∧ runRaises s n = some e := by
  simp [runForeverRaises, shutdownRaises, runRaises, h, hc]

/-- run(): otherwise the error of the first failing supporting task (in the order of its arguments) -/
theorem run_result_supporting (s : St) (t : Nat) (h : s.error = some (.cancelled t)) (n : Nat) :
    runRaises s n = (firstSupError s.supDone n).map Err.exc := by
  simp [shutdownRaises, runRaises, h, Err.isCancel]

/-- abort() before the start makes the start fail with that error: the task never enters the
    simulation and no later history changes the error -/
theorem abort_before_start (s : St) (hp : s.phase = .notStarted) (he : s.error = none) (e : Err)
    (i : Option Nat) (ops : List Op) :
    let s1 := (step s (.abortCall e)).1
    let s2 := (step s1 (.start i)).1
    s2.phase = .sleep0 ∧ s2.error = some e ∧ (final s2 ops).error = some e := by
  have ha : s.abort e = { s with error := some e } := by simp [St.abort, he, hp]
  have h2 : (step (step s (.abortCall e)).1 (.start i)).1.error = some e := by
    rw [step_error]; simp [step, ha, firstOf]
  refine ⟨?_, h2, error_never_replaced _ e h2 ops⟩
  simp [step, ha, hp]

/-! ### classification of error sources -/

/-- an external event with wrong parameters or of an unknown type is reported to the caller only:
    no delivery, no state change -/
theorem harmless_outcomes_reported_only (s : St) :
    (step s .paramErr).1 = s ∧ (step s .paramErr).2.dels = [] ∧
    (step s .unknownEvt).1 = s ∧ (step s .unknownEvt).2.dels = [] := by
  simp [step]

/-- **classification, over the exception families**: `SBlock.event` calls abort() -- the fault is fatal -- unless the
    exception says "unknown event type" (EdzedUnknownEvent) or comes from the call itself (wrong parameters:
    a traceback of one level); total in the family and the depth -/
theorem classification_total (x : Family × Bool) :
    fatalSeen x = true ↔ ¬ (x.1 = .unknownEvent ∨ x.2 = false) := by
  obtain ⟨f, d⟩ := x
  cases f <;> cases d <;> simp [fatalSeen]

/-- which faults are errors *inside* a handler according to the property text.  Reading chosen: a handler that
    raises EdzedUnknownEvent ITSELF declares the event unknown (that is how `_event()` reports unknown types);
    an EdzedUnknownEvent that comes from ANOTHER event sent by the handler is an error inside the handler -/
def Fault.documentedFatal : Fault → Bool
  | .inHandler f => f != .unknownEvent
  | .wrongParams => false
  | .unknownType => false
  | .nested => true

/- Full statement (NOT provable, the code violates it for `nested`): ∀ flt, flt.fatal = flt.documentedFatal.
   See `nested_unknown_event_not_fatal` and known_findings.json. -/
/-- every exception family raised inside a handler (generic, EdzedCircuitError, EdzedInvalidState, TypeError) is
    fatal, wrong parameters and unknown types are not: the code's classification is the documented one -/
theorem classification_by_fault_partial (flt : Fault) (h : flt ≠ .nested) :
    flt.fatal = flt.documentedFatal := by
  cases flt with
  | inHandler f => cases f <;> rfl
  | wrongParams => rfl
  | unknownType => rfl
  | nested => exact absurd rfl h

/-- which external-event operations are errors *inside* a handler according to the property text -/
def documentedFatal : Op → Bool
  | .handlerErr _ f => (Fault.inHandler f).documentedFatal
  | .ctrlAbort _ | .ctrlAbortText | .ctrlShutdown | .nestedUnknown _ => true
  | _ => false

/- Full statement (NOT provable, the code violates it for `nestedUnknown`):
     ∀ s op, s.ready → isExternalEvent op → ((step s op).2.dels ≠ [] ↔ documentedFatal op)
   An internal event of an unknown type raised while a handler runs (an `on_output` event to another block
   or an FSM entry action sending to its own block) passes through `except EdzedUnknownEvent: raise`
   without abort(); see known_findings.json.  Proved: the statement for every other external event. -/
theorem classification_partial (s : St) (h : s.ready = true) (op : Op)
    (hext : op = .paramErr ∨ op = .unknownEvt ∨ (∃ i f, op = .handlerErr i f) ∨ (∃ i, op = .ctrlAbort i) ∨
            op = .ctrlShutdown ∨ op = .ctrlAbortText) :
    ((step s op).2.dels ≠ [] ↔ documentedFatal op = true) := by
  rcases hext with rfl | rfl | ⟨i, f, rfl⟩ | ⟨i, rfl⟩ | rfl | rfl
  · simp [step, h, documentedFatal]
  · simp [step, h, documentedFatal]
  · cases f <;> simp [step, h, documentedFatal, Fault.documentedFatal, Fault.fatal, fatalSeen, Fault.seen]
  · simp [step, h, documentedFatal]
  · simp [step, h, documentedFatal]
  · simp [step, h, documentedFatal]

/-- the counter-example that blocks the full statement (replayed on the implementation by the check) -/
theorem nested_unknown_event_not_fatal :
    ∀ c, documentedFatal (.nestedUnknown c) = true ∧
    (step { phase := .tryBlock } (.nestedUnknown c)).2.dels = [] ∧
    (step { phase := .tryBlock } (.nestedUnknown c)).1.ready = true := by decide

/-- an exception of ANY family but EdzedUnknownEvent inside an event handler terminates the simulation even though
    the caller gets (and may swallow) the exception: the register is written before the exception reaches the caller -/
theorem handler_error_is_fatal (s : St) (h : s.ready = true) (id : Nat) (f : Family) (hf : f ≠ .unknownEvent) :
    (step s (.handlerErr id f)).1.error = some (.wrapped id) ∧
    (step s (.handlerErr id f)).2.reply = .raised (.exc id) ∧
    (step s (.handlerErr id f)).1.ready = false := by
  simp [St.ready] at h
  obtain ⟨hp, he⟩ := h
  cases f <;> simp_all [step, abort_error, firstOf, St.ready, Fault.fatal, fatalSeen, Fault.seen]

/-- … inside the simulation task as well (an `on_output` event of a block evaluated by the simulator): the wrapped
    error is recorded first, then the exception ends the task -/
theorem handler_error_in_simtask_is_fatal (s : St) (hp : s.phase = .tryBlock) (hc : s.mustCancel = false)
    (he : s.error = none) (id : Nat) (f : Family) (ha : s.armed = some (.calcHandler id f)) :
    (wakeStep s .sim).1.error = some (if f = .unknownEvent then .exc id else .wrapped id) ∧
    (wakeStep s .sim).1.phase = .sleep0 := by
  cases f <;> simp [wakeStep, hp, hc, ha, caught_error, abort_error, he, firstOf, Fault.fatal, fatalSeen, Fault.seen]

/-- a synchronous initialisation routine that fails EARLY (reached through an event during the start-up, the
    sender swallows the exception) still makes the start fail: the failed step is not attempted again, the block
    is found uninitialised, and that error is never replaced -/
theorem early_init_failure_is_fatal (s : St) (hp : s.phase = .notStarted) (he : s.error = none) (id : Nat)
    (ops : List Op) :
    let s1 := (step s (.earlyInitFail id)).1
    let s2 := (step s1 (.start none)).1
    (step s (.earlyInitFail id)).2.reply = .raised (.exc id) ∧ s1.error = none ∧
    s2.phase = .sleep0 ∧ s2.error = some .notInit ∧ (final s2 ops).error = some .notInit := by
  have h2 : (step (step s (.earlyInitFail id)).1 (.start none)).1.error = some .notInit := by
    rw [step_error]; simp [step, hp, he, firstOf]
  refine ⟨by simp [step, hp, he], by simp [step, hp, he], ?_, h2, error_never_replaced _ _ h2 ops⟩
  simp [step, hp, he]

/-- an output calculation that raises ends the simulation with that exception -/
theorem calc_error_is_fatal (s : St) (hp : s.phase = .tryBlock) (hc : s.mustCancel = false)
    (he : s.error = none) (id : Nat) (ha : s.armed = some (.calc id)) :
    (wakeStep s .sim).1.error = some (.exc id) ∧ (wakeStep s .sim).1.phase = .sleep0 := by
  simp [wakeStep, hp, hc, ha, caught_error, he, firstOf]

/-- a failing monitored block task ends the simulation with its exception -/
theorem monitored_task_error_is_fatal (s : St) (he : s.error = none) (id : Nat) :
    (wakeStep s (.mon id)).1.error = some (.exc id) := by
  simp [wakeStep, abort_error, he, firstOf]

/-- the ControlBlock events -/
theorem control_events (s : St) (h : s.ready = true) (id : Nat) :
    (step s (.ctrlAbort id)).1.error = some (.reported id) ∧
    (step s .ctrlAbortText).1.error = some .reportedText ∧
    (step s .ctrlShutdown).1.error = some (.cancelled 2) := by
  simp [St.ready] at h
  obtain ⟨hp, he⟩ := h
  simp [step, hp, abort_error, he, firstOf, St.ready]

/-- non-vacuity: a handler error racing with abort() and a shutdown in the same instant —
    the first one delivered is reported by everything -/
example :
    let s := final {} [.start none, .handlerErr 1 .circuitError, .abortCall (.exc 2), .shutdownTask, .tick, .tick, .tick]
    s.error = some (.wrapped 1) ∧ s.phase = .done ∧ shutdownRaises s = some (.wrapped 1) ∧
    deliveries {} [.start none, .handlerErr 1 .circuitError, .abortCall (.exc 2), .shutdownTask, .tick, .tick, .tick]
      = [.wrapped 1, .exc 2, .cancelled 0, .cancelled 1] := by decide

example :
    let s := final { runMode := true } [.start none, .supTrigger 1 (some 7), .tick, .tick, .tick, .tick, .tick]
    s.error = some (.cancelled 1) ∧ s.phase = .done ∧ runRaises s 3 = some (.exc 7) := by decide

end Edzed.ErrorReg

/-! ### the translation tie: `Circuit.abort` -/
namespace Edzed.TrTie
open Edzed.ErrorReg Edzed.Gen.TrS

/-- what the code sees of the model state: `_error`, `_simtask`, `_simtask.done()` -/
def abortView (s : St) : List Prim :=
  abortActs (s.error.map fun _ => ()) (if s.phase == .notStarted then none else some ()) (s.phase == .done)

/-- `self._error = exc` is executed exactly when no error was recorded before: the first error wins -/
theorem translated_abort_sets_error_iff_first (s : St) :
    (Prim.setError ∈ abortView s) ↔ s.error = none := by
  unfold abortView abortActs
  cases s.error <;> cases hp : s.phase <;> simp

/-- the model's `abort` IS the translated one: the recorded error afterwards, and the request to cancel
    the simulation task (made iff the error was recorded now and the task exists and is not finished) -/
theorem translated_abort_is_model (s : St) (e : Err) :
    (s.abort e).error = (if Prim.setError ∈ abortView s then some e else s.error)
    ∧ (s.abort e).mustCancel = (s.mustCancel || decide (Prim.cancelTask ∈ abortView s)) := by
  unfold abortView abortActs St.abort St.addWake
  cases he : s.error <;> cases hp : s.phase <;> simp [he] <;> (try split) <;> simp

/-- the error is recorded BEFORE the cancellation of the simulation task is requested (an exception raised
    by `cancel()`, e.g. on a closed event loop, cannot leave the circuit "ready" without an error): the
    action list is `[setError]`, `[setError, cancelTask]`, or nothing but the early return -/
theorem translated_abort_records_error_first (s : St) :
    abortView s = [.ret none] ∨ abortView s = [.setError] ∨ abortView s = [.setError, .cancelTask] := by
  unfold abortView abortActs
  cases s.error <;> cases hp : s.phase <;> simp

/-! ### the translation tie: `_check_started`, `shutdown`, `wait_init`, `run()`, its SIGTERM handler, and the
    error-recording skeleton of `run_forever`

The programs of Gen/TranslatedErrReg.lean (and `run_forever` of Gen/TranslatedLifecycle.lean) are regenerated from
the current Python source on every run; their primitives are instantiated with the model's operations in
EdzedProofs/ErrorRegTie.lean.  `env k` is what the rest of the world does to the model state while the
coroutine is suspended at its k-th `await`: an ARBITRARY function -- the theorems hold for every environment.
`TS` = the model state `st` plus what the entry points touch outside it (the deliveries to `abort`, the log of
awaits with the SIGTERM-handler flag, `_init_done`, the locals of run_forever). -/
section ErrRegTie
open Edzed.ErrorRegTie Edzed.Gen.TrD
open Edzed.Gen

/-- `Circuit.is_ready()` (translated) IS the model's `St.ready` -- in particular it is false as soon as an error
    is recorded, also while the simulation task is still cleaning up (it follows the error, not the task) -/
theorem translated_errreg_is_ready_follows_error (s : St) :
    Gen.Tr.isReady (if s.phase = .notStarted then none else some ()) (s.error.map fun _ => ()) = s.ready ∧
    (s.error.isSome → Gen.Tr.isReady (if s.phase = .notStarted then none else some ()) (s.error.map fun _ => ()) = false) := by
  unfold Gen.Tr.isReady St.ready
  cases s.phase <;> cases s.error <;> simp

/-- `_check_started()`: nothing when the simulation task exists; otherwise one yield -- at which the caller may
    be cancelled (CancelledError propagates) --, and EdzedInvalidState if the task still does not exist afterwards -/
theorem translated_errreg_check_started_is_model (env : Nat → St → St) (s : TS) :
    (callFn (TrE.checkStarted (csPrims env)) : M TS PyExc Unit Unit) s =
      if s.st.phase != .notStarted then (s, .next ())
      else if s.cancelAt s.log.length then (s.await env .yield, .raise callerCancelled)
      else if (s.await env .yield).st.phase != .notStarted then (s.await env .yield, .next ())
      else (s.await env .yield, .raise .invalidState) := by
  unfold TrE.checkStarted callFn
  by_cases h : s.st.phase = .notStarted
  · cases hx : s.cancelAt s.log.length
    · by_cases h2 : (s.await env .yield).st.phase = .notStarted <;>
        simp [h, h2, hx, awaitM, bind_apply, get_apply, pure_apply, raise_apply, ret_apply]
    · simp [h, hx, awaitM, bind_apply, get_apply]
  · simp [h, bind_apply, get_apply, pure_apply, ret_apply]

theorem translated_errreg_check_started_passes (env : Nat → St → St) (s : TS) (h : s.st.phase ≠ .notStarted) :
    (callFn (TrE.checkStarted (csPrims env)) : M TS PyExc Unit Unit) s = (s, .next ()) := by
  rw [translated_errreg_check_started_is_model]; simp [h]

theorem translated_errreg_check_started_refuses (env : Nat → St → St) (s : TS) (h : s.st.phase = .notStarted)
    (h2 : (env s.log.length s.st).phase = .notStarted) (hr : s.cancelAt s.log.length = false) :
    (callFn (TrE.checkStarted (csPrims env)) : M TS PyExc Unit Unit) s = (s.await env .yield, .raise .invalidState) := by
  rw [translated_errreg_check_started_is_model]; simp [h, h2, hr, TS.await]

/-- `shutdown()` of a started simulation IS the model's `shut` wake followed by `shutdownRaises`: up to
    `await asyncio.wait([self._simtask])` exactly `abort(CancelledError('shutdown'))` is delivered (the model's
    `wakeStep … shut`: state and delivery log), and when the simulation task has ended -- whatever happened
    meanwhile -- the call returns iff the recorded error is a cancellation, else re-raises the recorded error.
    (`hr`: the caller is not cancelled while it waits; see `translated_errreg_shutdown_caller_cancel_not_forwarded`) -/
theorem translated_errreg_shutdown_is_model (env : Nat → St → St) (s : TS) (h : s.st.phase ≠ .notStarted)
    (hr : s.cancelAt s.log.length = false) :
    TrE.shutdown (sdPrims env false) s =
      let s1 : TS := { s with st := (wakeStep s.st .shut).1, dels := s.dels ++ (wakeStep s.st .shut).2 }
      (s1.await env .simtask,
       match shutdownRaises (s1.await env .simtask).st with
       | some e => .raise (.err e)
       | none => .next ()) := by
  unfold TrE.shutdown
  simp [h, hr, translated_errreg_check_started_passes, bind_apply, get_apply, abortP, awaitM,
    wakeStep, runForeverRaises, shutdownRaises]
  cases he : ((TS.await env Aw.simtask { s with st := s.st.abort (Err.cancelled 1), dels := s.dels ++ [Err.cancelled 1] }).st.error) with
  | none => simp [he, bind_apply, pure_apply]
  | some e => cases hc : e.isCancel <;> simp [he, hc, pure_apply, raise_apply, bind_apply]

/-- shutdown() of a simulation that was never started (and does not start during the yield either):
    EdzedInvalidState, nothing is delivered -- the model's `shut` wake in phase `notStarted` changes nothing -/
theorem translated_errreg_shutdown_not_started (env : Nat → St → St) (cur : Bool) (s : TS)
    (h : s.st.phase = .notStarted) (h2 : (env s.log.length s.st).phase = .notStarted)
    (hr : s.cancelAt s.log.length = false) :
    TrE.shutdown (sdPrims env cur) s = (s.await env .yield, .raise .invalidState) ∧
    wakeStep s.st .shut = (s.st, []) := by
  unfold TrE.shutdown
  simp [h, h2, hr, translated_errreg_check_started_refuses, bind_apply, wakeStep]

/-- the caller of shutdown() is cancelled while it waits for the simulation task (`asyncio.wait`):
    `abort(CancelledError('shutdown'))` was ALREADY delivered (the model's `shut` wake: state and delivery log), the
    cancellation is NOT forwarded to the simulation task -- its state is exactly what the environment made of it
    during the await, there is no `rawCancel` step, the cleanup runs on --, and shutdown() raises the CALLER's own
    CancelledError (`callerCancelled`), whatever the state of the simulation task at that moment -/
theorem translated_errreg_shutdown_caller_cancel_not_forwarded (env : Nat → St → St) (s : TS) (h : s.st.phase ≠ .notStarted)
    (hx : s.cancelAt s.log.length = true) :
    let s1 : TS := { s with st := (wakeStep s.st .shut).1, dels := s.dels ++ (wakeStep s.st .shut).2 }
    (TrE.shutdown (sdPrims env false) s = (s1.await env .simtask, .raise callerCancelled)) ∧
    (TrE.shutdown (sdPrims env false) s).1.st = env s.log.length (s.st.abort (.cancelled 1)) ∧
    (TrE.shutdown (sdPrims env false) s).1.dels = s.dels ++ [.cancelled 1] := by
  unfold TrE.shutdown
  simp [h, hx, translated_errreg_check_started_passes, bind_apply, get_apply, abortP, awaitM, wakeStep, TS.await]

/-- non-vacuity of the two theorems above: a running simulation, once with a caller that is not cancelled, once
    with a caller cancelled while the simulation is still cleaning up (shutdown() raises the caller's
    CancelledError and the simulation's state is the environment's, not a `rawCancel` successor) -/
example :
    let s : TS := { st := { phase := .tryBlock } }
    (s.st.phase ≠ .notStarted ∧ s.cancelAt s.log.length = false) ∧
    (TrE.shutdown (sdPrims (fun _ t => t) false) { s with cancelAt := fun _ => true }).2 = .raise callerCancelled := by
  simp [TrE.shutdown, callFn, TrE.checkStarted, bind_apply, get_apply, pure_apply, abortP, awaitM, TS.await]

/-- shutdown() called from the simulation task itself is refused BEFORE anything is delivered -/
theorem translated_errreg_shutdown_refused_in_simtask (env : Nat → St → St) (s : TS) (h : s.st.phase ≠ .notStarted) :
    TrE.shutdown (sdPrims env true) s = (s, .raise .invalidState) := by
  unfold TrE.shutdown
  simp [h, translated_errreg_check_started_passes, bind_apply, get_apply, raise_apply]

/-- `wait_init()` on a started simulation: AttributeError when `_init_done` does not exist (the helper task is
    created OUTSIDE the `try`, nothing is awaited); otherwise it waits once, cancels the helper task in any
    case, and raises EdzedInvalidState iff the simulation task is done or an error is recorded by then -/
theorem translated_errreg_wait_init_is_model (env : Nat → St → St) (s : TS) (h : s.st.phase ≠ .notStarted)
    (hr : s.cancelAt s.log.length = false) :
    TrE.waitInit (wiPrims env) s =
      match s.initDone with
      | none => (s, .raise .attributeError)
      | some _ =>
        let s1 : TS := { s.await env .waitInit with waiter := some false }
        (s1, if s1.st.phase == .done || s1.st.error.isSome then .raise .invalidState else .next ()) := by
  unfold TrE.waitInit
  cases hi : s.initDone with
  | none => simp [h, hi, translated_errreg_check_started_passes, bind_apply]
  | some b =>
    simp [h, hi, hr, awaitM, translated_errreg_check_started_passes, bind_apply, get_apply, pure_apply, raise_apply, tryFinally_apply, TS.await]
    by_cases hd : (env s.log.length s.st).phase = .done
    · cases he : (env s.log.length s.st).error with
      | none => simp [hd, he, bind_apply, get_apply, pure_apply, raise_apply]
      | some e => cases hc : e.isCancel <;> simp [hd, he, hc, bind_apply, get_apply, pure_apply, raise_apply]
    · cases he : (env s.log.length s.st).error <;> simp [hd, he, bind_apply, get_apply, pure_apply, raise_apply]

/-- the helper task created by wait_init() is cancelled on EVERY exit: for every environment and both outcomes of
    the await (returned / the caller was cancelled while waiting), the helper is cancelled when wait_init() is left;
    and when the await was cancelled, the CancelledError propagates, nothing else having happened to the state than
    the environment's step and the helper's cancellation (the `finally:` -- two statements in sequence would skip
    the cancellation exactly here, as edzed.run() cancels its supporting coroutines) -/
theorem translated_errreg_wait_init_cancels_helper_on_every_exit (env : Nat → St → St) (s : TS) (b : Bool)
    (h : s.st.phase ≠ .notStarted) (hi : s.initDone = some b) :
    (TrE.waitInit (wiPrims env) s).1.waiter = some false ∧
    (s.cancelAt s.log.length = true →
      TrE.waitInit (wiPrims env) s = ({ s.await env .waitInit with waiter := some false }, .raise callerCancelled)) := by
  cases hx : s.cancelAt s.log.length
  · rw [translated_errreg_wait_init_is_model env s h hx, hi]
    simp
  · have : TrE.waitInit (wiPrims env) s = ({ s.await env .waitInit with waiter := some false }, .raise callerCancelled) := by
      unfold TrE.waitInit
      simp [h, hi, hx, awaitM, translated_errreg_check_started_passes, bind_apply, pure_apply, tryFinally_apply, TS.await]
    rw [this]
    simp

/-- … hence, with the invariant `Stopped` (a finished simulation has an error): wait_init() returns normally
    iff the circuit is ready when the wait is over -/
theorem translated_errreg_wait_init_returns_iff_ready (env : Nat → St → St) (s : TS) (b : Bool)
    (h : s.st.phase ≠ .notStarted) (hi : s.initDone = some b) (hr : s.cancelAt s.log.length = false)
    (hn : (env s.log.length s.st).phase ≠ .notStarted) (hs : Stopped (env s.log.length s.st)) :
    ((TrE.waitInit (wiPrims env) s).2 = .next ()) ↔ (env s.log.length s.st).ready = true := by
  rw [translated_errreg_wait_init_is_model env s h hr, hi]
  simp only [TS.await, St.ready]
  by_cases hd : (env s.log.length s.st).phase = .done
  · have := hs (Or.inr (Or.inr hd))
    by_cases he : (env s.log.length s.st).error = none
    · simp [he] at this
    · simp [hd, he]
  · by_cases he : (env s.log.length s.st).error = none
    · simp [hd, he, hn]
    · have : (env s.log.length s.st).error.isSome = true := by
        cases h' : (env s.log.length s.st).error <;> simp_all
      simp [hd, he, hn, this]

/-- `_TerminatingSignal.__init__`: the signal number is stored in any case; without one nothing else happens, with
    one the message of the later CancelledError is built (`signal.strsignal` may raise for an invalid number) -/
theorem translated_errreg_sig_init_is_model (sc : Bool) (o : Option Unit) (s : TS) :
    TrE.sigInit (sgPrims sc) o s =
      match o with
      | some _ => ({ s with signo := true, msg := sigMsg }, .next ())
      | none => ({ s with signo := false }, .ret false) := by
  unfold TrE.sigInit
  cases o <;> simp [bind_apply, pure_apply, ret_apply, sigMsg]

/-- `_TerminatingSignal.__enter__`: without a signal number nothing; else the old handler is saved FIRST (the value
    saved is the one from before the installation), then the new one installed -/
theorem translated_errreg_sig_enter_is_model (sc : Bool) (s : TS) :
    TrE.sigEnter (sgPrims sc) s =
      if s.signo then ({ s with saved := some s.handler, handler := true }, .next ()) else (s, .ret false) := by
  unfold TrE.sigEnter
  cases h : s.signo <;> simp [h, bind_apply, get_apply, pure_apply, ret_apply]

/-- `__exit__` restores the saved handler and returns a FALSE value on every path: an exception of the `with`
    body propagates (what `M.withCtx` assumes in the translated `run()`) -/
theorem translated_errreg_sig_exit_returns_false (sc : Bool) (s : TS) (b : Bool) (hs : s.saved = some b) :
    TrE.sigExit (sgPrims sc) s =
      (if s.signo then { s with handler := b } else s, .ret false) := by
  unfold TrE.sigExit
  cases h : s.signo <;> simp [h, hs, bind_apply, get_apply, ret_apply, pure_apply]

/-- … and without a signal number it touches nothing -/
theorem translated_errreg_sig_exit_without_signal (sc : Bool) (s : TS) (hs : s.signo = false) :
    TrE.sigExit (sgPrims sc) s = (s, .ret false) := by
  unfold TrE.sigExit
  simp [hs, bind_apply, get_apply, ret_apply, pure_apply]

/-- the actions of the signal handler -/
theorem translated_errreg_sig_handler_acts (sc : Bool) (s : TS) :
    TrE.sigHandler (sgPrims sc) s =
      ({ s with st := (step s.st .sigterm).1, sched := s.sched ++ [.cancelled 4], chained := s.chained || sc }, .next ()) := by
  unfold TrE.sigHandler
  cases sc <;> simp [bind_apply, get_apply, pure_apply, step]


/-- the "stop everything" loop over supporting tasks: each one that is not done is cancelled; the model state is untouched -/
theorem translated_errreg_run_stop_loop_cancels_unfinished (env : Nat → St → St) : ∀ (l : List Nat) (s : TS),
    TrE.run_for1 (runPrims env) (l.map Tk.sup) s =
      ({ s with cancelled := s.cancelled ++ (l.filter fun i => !(s.st.supDone.any (·.1 == i))).map Tk.sup }, .next ()) := by
  intro l
  induction l with
  | nil => intro s; simp [TrE.run_for1, pure_apply]
  | cons i l ih =>
    intro s
    simp only [List.map_cons]
    unfold TrE.run_for1
    cases hd : s.st.supDone.any (·.1 == i) <;>
      simp [hd, bind_apply, get_apply, taskDone, ih, List.filter_cons]


/-- the collection loop over supporting tasks #k … #k+m-1: the first failure (in the order of the arguments)
    is kept unless an error was collected before -/
theorem translated_errreg_run_collect_supporting (env : Nat → St → St) (n : Nat) : ∀ (m k : Nat) (re : Option PyExc) (s : TS), k + m ≤ n →
    TrE.run_for2 (runPrims env) (coros n) ((List.range' k m).map fun (i : Nat) => ((i : Int), Tk.sup i)) re s =
      (s, .next (orElseSup re ((List.range' k m).findSome? (supFailure s.st.supDone)))) := by
  intro m
  induction m with
  | zero => intro k re s _; cases re <;> simp [TrE.run_for2, pure_apply, orElseSup]
  | succ m ih =>
    intro k re s hk
    simp only [List.range'_succ, List.map_cons]
    unfold TrE.run_for2
    have hlen : (coros n).length = n := by simp [coros]
    have h1 : -(n : Int) ≤ (k : Int) ∧ (k : Int) < (n : Int) := by omega
    have h2 : ¬ ((k : Int) < 0) := by omega
    cases hf : supFailure s.st.supDone k with
    | some id =>
      cases re <;>
        simp [hf, bind_apply, pure_apply, raise_apply, tryExcept_apply, hlen, h1, h2, addNote_quiet, ih (k + 1) _ s (by omega),
          orElseSup, List.findSome?_cons, Err.isCancel]
    | none =>
      cases hd : s.st.supDone.any (·.1 == k) <;> cases re <;>
        simp [hf, hd, bind_apply, pure_apply, raise_apply, tryExcept_apply, ih (k + 1) _ s (by omega),
          orElseSup, List.findSome?_cons, Err.isCancel]


/-- the whole collection loop of run(): the simulation task first, then the supporting tasks in order -/
theorem translated_errreg_run_collect_is_runRaises (env : Nat → St → St) (n : Nat) (s : TS)
    (hr : s.cancelAt s.log.length = false) :
    TrE.run_for2 (runPrims env) (coros n) (((-1 : Int), Tk.sim) :: (List.range' 0 n).map fun (i : Nat) => ((i : Int), Tk.sup i)) none s =
      (s.await env .simtask, .next ((runRaises (s.await env .simtask).st n).map PyExc.err)) := by
  unfold TrE.run_for2
  have hc := fun re => translated_errreg_run_collect_supporting env n n 0 re (s.await env .simtask) (by omega)
  cases he : (s.await env .simtask).st.error with
  | none =>
    simp [bind_apply, pure_apply, tryExcept_apply, awaitSim, hr, runForeverRaises, he, hc, orElseSup, runRaises, shutdownRaises,
      firstSupError_eq, List.range_eq_range']
    congr 1; funext i; simp only [Function.comp_apply]; cases supFailure (TS.await env Aw.simtask s).st.supDone i <;> rfl
  | some e =>
    cases hk : e.isCancel <;>
    simp [bind_apply, pure_apply, tryExcept_apply, awaitSim, hr, runForeverRaises, he, hk, hc, orElseSup, runRaises, shutdownRaises,
      firstSupError_eq, List.range_eq_range']
    congr 1; funext i; simp only [Function.comp_apply]; cases supFailure (TS.await env Aw.simtask s).st.supDone i <;> rfl


/-- the signal handler IS the model's `sigterm`: it queues `abort(CancelledError(<signal message>))` (the model's
    wake entry `sig`, which delivers exactly that error) and chains to the previous handler iff it is callable -/
theorem translated_errreg_sig_handler_is_sigterm (sc : Bool) (s : TS) :
    TrE.sigHandler (sgPrims sc) s =
      ({ s with st := (step s.st .sigterm).1, sched := s.sched ++ [.cancelled 4], chained := s.chained || sc },
       .next ()) ∧
    (wakeStep (step s.st .sigterm).1 .sig).2 = [.cancelled 4] := by
  refine ⟨translated_errreg_sig_handler_acts sc s, ?_⟩
  simp [wakeStep]

/-- `run(*coroutines)` with n ≥ 1 supporting coroutines IS the model's account of it (`runModel`): the
    SIGTERM handler is installed (iff `catch_sigterm`) while run() awaits inside the `with` and removed before
    the tasks are collected; after `asyncio.wait` every UNFINISHED SUPPORTING task is cancelled -- the simulation
    task at position 0 is not (the model's `runWaiter`) --, after one yield `abort(CancelledError('shutdown'))`
    is delivered iff the simulation task is not done (the model's `runAbort`: state and delivery log), and what
    run() raises at the end is the model's `runRaises`: the simulation's error unless it is a cancellation,
    else the error of the first failing supporting task in the order of the arguments, else nothing.
    `cx`: which awaits of run() are interrupted by a cancellation of run()'s own task -- a cancellation inside
    `asyncio.wait` (cx 1) is swallowed by the `except CancelledError: pass` around it, run() goes on to stop
    everything exactly as if the wait had returned; the other awaits are taken as returning -/
theorem translated_errreg_run_is_model (env : Nat → St → St) (cx : Nat → Bool) (n : Nat) (c : Bool) (s0 : St)
    (hn : 0 < n) (h1 : (env 0 s0).phase ≠ .done)
    (hx0 : cx 0 = false) (hx2 : cx 2 = false) (hx3 : cx 3 = false) :
    TrE.run (runPrims env) (coros n) c { st := s0, cancelAt := cx } =
      ({ st := (runModel env s0).1
         dels := (runModel env s0).2
         log := [(.yield, c), (.wait, c), (.yield, c), (.simtask, false)]
         signo := c, msg := (if c then sigMsg else ""), saved := (if c then some false else none), handler := false, waited := true
         cancelled := ((List.range n).filter fun i => !((env 1 (env 0 s0)).supDone.any (·.1 == i))).map Tk.sup
         cancelAt := cx },
       outcomeOf (runRaises (runModel env s0).1 n)) := by
  have hlen : (coros n).length = n := by simp [coros]
  have hne : (coros n).isEmpty = false := by cases n with | zero => omega | succ n => simp [coros, List.replicate_succ]
  have henum : TrE.enumFrom (-1 : Int) (Tk.sim :: (List.range n).map Tk.sup) =
      ((-1 : Int), Tk.sim) :: (List.range' 0 n).map fun (i : Nat) => ((i : Int), Tk.sup i) := by
    rw [TrE.enumFrom, List.range_eq_range']
    exact congrArg _ (enumFrom_sups n 0)
  unfold TrE.run
  by_cases hd : (env 2 ((env 1 (env 0 s0)).addWake .runAbort)).phase = .done <;> cases c <;> cases hx1 : cx 1 <;>
  simp [withCtx_apply, bind_apply, tryFinally_apply, callFn, translated_errreg_sig_init_is_model, addNote_quiet, translated_errreg_sig_enter_is_model,
    translated_errreg_sig_exit_returns_false, translated_errreg_sig_exit_without_signal, hne, hlen, pure_apply, get_apply,
    tryExcept_apply, taskDone, h1, hd, TS.await, awaitM, callerCancelled, hx0, hx1, hx2, hx3,
    translated_errreg_run_stop_loop_cancels_unfinished, henum, abortP, runModel, wakeStep,
    translated_errreg_run_collect_is_runRaises]
  all_goals (generalize runRaises _ n = r; cases r <;> rfl)

/-- run()'s own task is cancelled at the yield after "stop everything": the CancelledError leaves run() through the
    `with` (the SIGTERM handler is removed), `abort(CancelledError('shutdown'))` is NOT delivered and no task is
    awaited -- what the code does; the supporting tasks were cancelled before -/
theorem translated_errreg_run_cancelled_at_second_yield (env : Nat → St → St) (cx : Nat → Bool) (n : Nat) (c : Bool) (s0 : St)
    (hn : 0 < n) (h1 : (env 0 s0).phase ≠ .done) (hx0 : cx 0 = false) (hx2 : cx 2 = true) :
    TrE.run (runPrims env) (coros n) c { st := s0, cancelAt := cx } =
      ({ st := env 2 (wakeStep (env 1 (env 0 s0)) .runWaiter).1
         log := [(.yield, c), (.wait, c), (.yield, c)]
         signo := c, msg := (if c then sigMsg else ""), saved := (if c then some false else none), handler := false, waited := true
         cancelled := ((List.range n).filter fun i => !((env 1 (env 0 s0)).supDone.any (·.1 == i))).map Tk.sup
         cancelAt := cx },
       .raise callerCancelled) := by
  have hlen : (coros n).length = n := by simp [coros]
  have hne : (coros n).isEmpty = false := by cases n with | zero => omega | succ n => simp [coros, List.replicate_succ]
  unfold TrE.run
  cases c <;> cases hx1 : cx 1 <;>
  simp [withCtx_apply, bind_apply, tryFinally_apply, callFn, translated_errreg_sig_init_is_model, addNote_quiet, translated_errreg_sig_enter_is_model,
    translated_errreg_sig_exit_returns_false, translated_errreg_sig_exit_without_signal, hne, hlen, pure_apply, get_apply,
    tryExcept_apply, taskDone, h1, TS.await, awaitM, callerCancelled, hx0, hx1, hx2,
    translated_errreg_run_stop_loop_cancels_unfinished, wakeStep]

/-- run() never cancels the simulation task directly (it would abort the clean-up) -/
theorem translated_errreg_run_skips_simtask (env : Nat → St → St) (n : Nat) (c : Bool) (s0 : St)
    (hn : 0 < n) (h1 : (env 0 s0).phase ≠ .done) :
    Tk.sim ∉ (TrE.run (runPrims env) (coros n) c { st := s0 }).1.cancelled := by
  rw [translated_errreg_run_is_model env (fun _ => false) n c s0 hn h1 rfl rfl rfl]
  simp

/-- run() without supporting coroutines: run_forever is awaited in the caller's own task, a cancellation is a
    normal end (`return`), a real error propagates: the model's `runRaises … 0` -/
theorem translated_errreg_run_without_coroutines (env : Nat → St → St) (c : Bool) (s0 : St) :
    TrE.run (runPrims env) [] c { st := s0 } =
      ({ st := env 0 s0, log := [(.runForever, c)], signo := c, msg := (if c then sigMsg else ""), saved := (if c then some false else none), handler := false },
       match runRaises (env 0 s0) 0 with
       | some e => .raise (.err e)
       | none => .ret ()) := by
  unfold TrE.run
  cases he : (env 0 s0).error with
  | none =>
    cases c <;>
    simp [withCtx_apply, bind_apply, tryFinally_apply, callFn, translated_errreg_sig_init_is_model, addNote_quiet, translated_errreg_sig_enter_is_model, translated_errreg_sig_exit_returns_false, translated_errreg_sig_exit_without_signal, pure_apply, get_apply,
      tryExcept_apply, TS.await, awaitSim, awaitM, runForeverRaises, he, ret_apply, runRaises, shutdownRaises, firstSupError]
  | some e =>
    cases hk : e.isCancel <;> cases c <;>
    simp [withCtx_apply, bind_apply, tryFinally_apply, callFn, translated_errreg_sig_init_is_model, addNote_quiet, translated_errreg_sig_enter_is_model, translated_errreg_sig_exit_returns_false, translated_errreg_sig_exit_without_signal, pure_apply, get_apply,
      tryExcept_apply, TS.await, awaitSim, awaitM, runForeverRaises, he, hk, ret_apply, raise_apply, runRaises, shutdownRaises, firstSupError]

/-- the simulation task is already finished after the first yield: its error is re-raised (a cancellation:
    RuntimeError), no supporting task is ever created, the SIGTERM handler is removed -/
theorem translated_errreg_run_simtask_dead_early (env : Nat → St → St) (n : Nat) (c : Bool) (s0 : St)
    (hn : 0 < n) (h1 : (env 0 s0).phase = .done) :
    TrE.run (runPrims env) (coros n) c { st := s0 } =
      ({ st := env 0 s0, log := [(.yield, c)], signo := c, msg := (if c then sigMsg else ""), saved := (if c then some false else none), handler := false },
       match shutdownRaises (env 0 s0) with
       | some e => .raise (.err e)
       | none => .raise .runtimeError) := by
  have hne : (coros n).isEmpty = false := by cases n with | zero => omega | succ n => simp [coros, List.replicate_succ]
  unfold TrE.run
  cases he : (env 0 s0).error with
  | none =>
    cases c <;>
    simp [withCtx_apply, bind_apply, tryFinally_apply, callFn, translated_errreg_sig_init_is_model, addNote_quiet, translated_errreg_sig_enter_is_model, translated_errreg_sig_exit_returns_false, translated_errreg_sig_exit_without_signal, pure_apply, get_apply, hne,
      tryExcept_apply, TS.await, awaitM, taskDone, h1, runForeverRaises, he, raise_apply, shutdownRaises]
  | some e =>
    cases hk : e.isCancel <;> cases c <;>
    simp [withCtx_apply, bind_apply, tryFinally_apply, callFn, translated_errreg_sig_init_is_model, addNote_quiet, translated_errreg_sig_enter_is_model, translated_errreg_sig_exit_returns_false, translated_errreg_sig_exit_without_signal, pure_apply, get_apply, hne,
      tryExcept_apply, TS.await, awaitM, taskDone, h1, runForeverRaises, he, hk, raise_apply, shutdownRaises]

/-- abort() before the start: the translated `run_forever` still registers the task (`_simtask`), raises the
    recorded error INSIDE its try block (so that it is the task's own error and `shutdown()` re-raises it), starts
    no block, never creates `_init_done`, never simulates -- the model's `start` with an error already recorded,
    then the `sleep(0)` step -- and raises that error -/
theorem translated_errreg_run_forever_abort_before_start (sc : RfScript) (s0 : St) (e0 : Err)
    (hp : s0.phase = .notStarted) (he : s0.error = some e0)
    (hy : ∀ s, (s.error.isSome → (sc.envYield s).error = s.error) ∧ (sc.envYield s).phase = s.phase) :
    TrL.runForever (erfPrims sc) { st := s0 } =
      ({ st := (wakeStep (sc.envYield (step s0 (.start sc.initErr)).1) .sim).1 }, .raise (.err e0)) := by
  rw [start_pre_error s0 _ e0 hp he]
  have hye := fun s h => (hy s).1 h
  have hyp := fun s => (hy s).2
  have hwe := fun s h => (wake_sleep0 s h).1
  unfold TrL.runForever
  by_cases hm : (sc.envYield ({ s0 with phase := .tryBlock, error := some e0, runWaiting := s0.runMode } : St).leaveTry).mustCancel = true <;>
  cases hk : e0.isCancel <;>
  simp [hp, he, hk, hm, bind_apply, get_apply, pure_apply, raise_apply, tryExcept_apply, hye, hyp, hwe]

/-
Full statement: the same with the start-up split into its awaits (`envInit` arbitrary), for an empty circuit
(EdzedCircuitError is not an `Err` of the model) and with failing start()/async initialisation.  The model's
`start` is ONE step, so the tie fixes `envInit = id`; the hypotheses on the environments say what every
history of the model satisfies between two steps of the simulation task: it does not move the task's phase
and never replaces a recorded error.
-/
/-- `run_forever` IS the model's account of the simulation task (`rfModel` = `start`, then the `sim` wake that
    leaves the try block, then the `sim` wake at the `sleep(0)`, then `finish`): the except clause records the
    exception that left the try block iff no error was recorded (`St.caught`), one pending cancellation is
    swallowed at the `sleep(0)`, and the task ends by raising the recorded error (`runForeverRaises`) -/
theorem translated_errreg_run_forever_is_model_partial (sc : RfScript) (s0 : St)
    (hp : s0.phase = .notStarted) (he : s0.error = none) (hi : sc.envInit = id)
    (hs : ∀ s, (sc.envSim s).phase = s.phase)
    (ht : sc.initErr = none → s0.earlyFail = false → (thrownAt (sc.envSim (step s0 (.start none)).1)).2.isSome = true)
    (hy : ∀ s, (s.error.isSome → (sc.envYield s).error = s.error) ∧ (sc.envYield s).phase = s.phase)
    (hz : ∀ s, (s.error.isSome → (sc.envStop s).error = s.error) ∧ (sc.envStop s).phase = s.phase) :
    TrL.runForever (erfPrims sc) { st := s0 } =
      ({ st := rfModel sc s0, started := [0], startOk := true, initDone := some (sc.initErr.isNone && !s0.earlyFail),
         simulated := (sc.initErr.isNone && !s0.earlyFail) },
       match runForeverRaises (rfModel sc s0) with
       | some e => .raise (.err e)
       | none => .raise .typeError) ∧
    (runForeverRaises (rfModel sc s0)).isSome = true := by
  have hye := fun s h => (hy s).1 h
  have hyp := fun s => (hy s).2
  have hze := fun s h => (hz s).1 h
  have hzp := fun s => (hz s).2
  have hwe := fun s h => (wake_sleep0 s h).1
  have hwp := fun s h => (wake_sleep0 s h).2
  have hfe := fun s h => finish_cleanup s h
  cases hie : sc.initErr with
  | some id =>
    unfold rfModel TrL.runForever
    simp only [hie]
    rw [start_init_error s0 id hp he]
    by_cases hm : (sc.envYield ({ s0 with phase := .tryBlock, error := some (.exc id), runWaiting := s0.runMode } : St).leaveTry).mustCancel = true <;>
    by_cases hc : (sc.envYield ({ s0 with phase := .tryBlock, error := some (.exc id), runWaiting := s0.runMode } : St).leaveTry).slowCleanup = true <;>
    simp [hp, he, hi, hm, hc, St.caught, runForeverRaises, bind_apply, get_apply, pure_apply, raise_apply, tryExcept_apply,
      TrL.runForever_for1, hye, hyp, hze, hzp, hwe, hwp, hfe]
  | none =>
    cases hef : s0.earlyFail with
    | true =>
      -- the block whose step failed early is found uninitialised by `_init_sblocks_sync_2`
      unfold rfModel TrL.runForever
      simp only [hie]
      rw [start_early_fail s0 hp he hef]
      by_cases hm : (sc.envYield ({ s0 with phase := .tryBlock, error := some .notInit, runWaiting := s0.runMode, earlyFail := true } : St).leaveTry).mustCancel = true <;>
      by_cases hc : (sc.envYield ({ s0 with phase := .tryBlock, error := some .notInit, runWaiting := s0.runMode, earlyFail := true } : St).leaveTry).slowCleanup = true <;>
      simp [hp, he, hi, hie, hef, hm, hc, St.caught, runForeverRaises, bind_apply, get_apply, pure_apply, raise_apply, tryExcept_apply,
        TrL.runForever_for1, hye, hyp, hze, hzp, hwe, hwp, hfe]
    | false =>
    have ht' := ht hie hef
    rw [start_ok s0 hp he hef] at ht'
    unfold rfModel TrL.runForever
    simp only [hie]
    rw [start_ok s0 hp he hef]
    have hS : ({ s0 with phase := .tryBlock, runWaiting := s0.runMode } : St) =
        { s0 with phase := .tryBlock, error := none, runWaiting := s0.runMode, earlyFail := false } := by rw [← he, ← hef]
    rw [hS] at ht' ⊢
    have hph : (sc.envSim { s0 with phase := .tryBlock, error := none, runWaiting := s0.runMode, earlyFail := false }).phase = .tryBlock := by
      rw [hs]
    simp only [show (({ s0 with phase := .tryBlock, error := none, runWaiting := s0.runMode, earlyFail := false } : St).phase == Phase.tryBlock) = true from rfl,
      if_true, wakeStep_sim_try_eq _ hph]
    obtain ⟨T, hT⟩ : ∃ T, T = thrownAt (sc.envSim { s0 with phase := .tryBlock, error := none, runWaiting := s0.runMode, earlyFail := false }) := ⟨_, rfl⟩
    rw [← hT] at ht' ⊢
    obtain ⟨T1, T2⟩ := T
    cases T2 with
    | none => simp at ht'
    | some e =>
      have hT' := hT.symm
      cases hte : T1.error with
      | none =>
        by_cases hm : (sc.envYield ({ T1 with error := some e } : St).leaveTry).mustCancel = true <;>
        by_cases hc : (sc.envYield ({ T1 with error := some e } : St).leaveTry).slowCleanup = true <;>
        cases hk : e.isCancel <;>
        simp [hp, he, hi, hef, hT', hte, hm, hc, hk, St.caught, runForeverRaises, bind_apply, get_apply, pure_apply, raise_apply,
          tryExcept_apply, TrL.runForever_for1, hye, hyp, hze, hzp, hwe, hwp, hfe]
      | some e1 =>
        by_cases hm : (sc.envYield T1.leaveTry).mustCancel = true <;>
        by_cases hc : (sc.envYield T1.leaveTry).slowCleanup = true <;>
        cases hk : e.isCancel <;>
        simp [hp, he, hi, hef, hT', hte, hm, hc, hk, St.caught, runForeverRaises, bind_apply, get_apply, pure_apply, raise_apply,
          tryExcept_apply, TrL.runForever_for1, hye, hyp, hze, hzp, hwe, hwp, hfe]

/-- a second `run_forever()` is refused before anything else happens: the model's `start` outside `notStarted` -/
theorem translated_errreg_run_forever_restart_refused (sc : RfScript) (s : TS) (h : s.st.phase ≠ .notStarted) :
    TrL.runForever (erfPrims sc) s = (s, .raise .invalidState) ∧
    step s.st (.start sc.initErr) = (s.st, { reply := .invalidState }) := by
  unfold TrL.runForever
  by_cases hd : s.st.phase = .done <;>
    simp [h, hd, step, bind_apply, get_apply, pure_apply, raise_apply]

/-- an error recorded DURING the start-up without an exception reaching run_forever (an abort() whose
    cancellation was swallowed by a failing init task): the simulation is NOT entered, `_init_done` stays
    unset, the recorded error is raised after the clean-up -- a simulation with an error never runs -/
theorem translated_errreg_run_forever_no_simulation_with_error (sc : RfScript) (s0 : St) (e1 : Err)
    (hp : s0.phase = .notStarted) (he : s0.error = none) (hie : sc.initErr = none) (hef : s0.earlyFail = false)
    (hi : (sc.envInit { s0 with phase := .tryBlock, error := none, runWaiting := s0.runMode, earlyFail := false }).error = some e1)
    (hif : (sc.envInit { s0 with phase := .tryBlock, error := none, runWaiting := s0.runMode, earlyFail := false }).earlyFail = false)
    (hy : ∀ s, (s.error.isSome → (sc.envYield s).error = s.error) ∧ (sc.envYield s).phase = s.phase)
    (hz : ∀ s, (s.error.isSome → (sc.envStop s).error = s.error) ∧ (sc.envStop s).phase = s.phase) :
    ∃ s', TrL.runForever (erfPrims sc) { st := s0 } = (s', .raise (.err e1)) ∧
      s'.simulated = false ∧ s'.initDone = some false ∧ s'.st.error = some e1 := by
  have hye := fun s h => (hy s).1 h
  have hyp := fun s => (hy s).2
  have hze := fun s h => (hz s).1 h
  have hzp := fun s => (hz s).2
  have hwe := fun s h => (wake_sleep0 s h).1
  have hwp := fun s h => (wake_sleep0 s h).2
  have hfe := fun s h => finish_cleanup s h
  unfold TrL.runForever
  by_cases hm : (sc.envYield (sc.envInit { s0 with phase := .tryBlock, error := none, runWaiting := s0.runMode, earlyFail := false }).leaveTry).mustCancel = true <;>
  by_cases hc : (sc.envYield (sc.envInit { s0 with phase := .tryBlock, error := none, runWaiting := s0.runMode, earlyFail := false }).leaveTry).slowCleanup = true <;>
  simp [hp, he, hie, hef, hi, hif, hm, hc, bind_apply, get_apply, pure_apply, raise_apply,
          tryExcept_apply, TrL.runForever_for1, hye, hyp, hze, hzp, hwe, hwp, hfe]

/-- the model's `waitInitReply`, case "an error was recorded before the start" (the recorded observation): the
    translated run_forever never creates `_init_done`, so the translated `wait_init()` on the failed simulation
    raises AttributeError (not EdzedInvalidState) -/
theorem translated_errreg_wait_init_after_abort_before_start (sc : RfScript) (env : Nat → St → St) (s0 : St) (e0 : Err)
    (hp : s0.phase = .notStarted) (he : s0.error = some e0)
    (hy : ∀ s, (s.error.isSome → (sc.envYield s).error = s.error) ∧ (sc.envYield s).phase = s.phase) :
    ∃ s', TrL.runForever (erfPrims sc) { st := s0 } = (s', .raise (.err e0)) ∧ s'.initDone = none ∧
      TrE.waitInit (wiPrims env) s' = (s', .raise .attributeError) ∧
      waitInitReply s0 sc.initErr = .attributeError := by
  refine ⟨_, translated_errreg_run_forever_abort_before_start sc s0 e0 hp he hy, rfl, ?_, by simp [waitInitReply, he]⟩
  rw [translated_errreg_wait_init_is_model (hr := rfl)]
  have hph : (sc.envYield (step s0 (.start sc.initErr)).1).phase = .sleep0 := by
    rw [(hy _).2, start_pre_error s0 _ e0 hp he]; simp
  have := (wake_sleep0 _ hph).2
  simp only [this]
  split <;> simp

/-- … case "the start-up fails": the translated run_forever ends with the error recorded (`_init_done` exists, unset),
    and the translated `wait_init()` raises EdzedInvalidState whatever else happens while it waits -/
theorem translated_errreg_wait_init_after_failed_start (sc : RfScript) (env : Nat → St → St) (s0 : St) (id : Nat)
    (hp : s0.phase = .notStarted) (he : s0.error = none) (hie : sc.initErr = some id) (hi : sc.envInit = _root_.id)
    (hs : ∀ s, (sc.envSim s).phase = s.phase)
    (hy : ∀ s, (s.error.isSome → (sc.envYield s).error = s.error) ∧ (sc.envYield s).phase = s.phase)
    (hz : ∀ s, (s.error.isSome → (sc.envStop s).error = s.error) ∧ (sc.envStop s).phase = s.phase)
    (henv : ∀ k s, s.error.isSome → (env k s).error.isSome) :
    ∃ s', (TrL.runForever (erfPrims sc) { st := s0 }).1 = s' ∧ s'.initDone = some false ∧
      (TrE.waitInit (wiPrims env) s').2 = .raise .invalidState ∧
      waitInitReply s0 sc.initErr = .invalidState := by
  have hm := translated_errreg_run_forever_is_model_partial sc s0 hp he hi hs (by simp [hie]) hy hz
  have hd := rfModel_done sc s0 hp he hs (by simp [hie]) (fun s => (hy s).2) (fun s => (hz s).2)
  refine ⟨_, rfl, ?_, ?_, by simp [waitInitReply, he, hie]⟩
  · rw [hm.1]; simp [hie]
  · rw [hm.1, translated_errreg_wait_init_is_model _ _ (by simp [hd]) rfl]
    have hsome : (rfModel sc s0).error.isSome = true := hm.2
    have := henv 0 (rfModel sc s0) hsome
    simp [hie, TS.await, this]

/-- … case "the start-up succeeds": with `_init_done` present, `wait_init()` returns normally as long as no error
    is recorded and the task is running when the wait is over -/
theorem translated_errreg_wait_init_of_running_simulation (env : Nat → St → St) (s : TS) (b : Bool)
    (h : s.st.phase ≠ .notStarted) (hi : s.initDone = some b)
    (he : (env s.log.length s.st).error = none) (hd : (env s.log.length s.st).phase ≠ .done) (s0 : St) (h0 : s0.error = none)
    (h0f : s0.earlyFail = false) (hr : s.cancelAt s.log.length = false) :
    (TrE.waitInit (wiPrims env) s).2 = .next () ∧ waitInitReply s0 none = .ok := by
  rw [translated_errreg_wait_init_is_model env s h hr, hi]
  simp [TS.await, he, hd, waitInitReply, h0, h0f]

/-- non-vacuity of the hypotheses of `translated_errreg_run_forever_is_model_partial` and
    `translated_errreg_run_is_model`: a cancellation requested while the circuit is simulated ends run_forever with
    CancelledError; run() with two supporting coroutines of which #1 fails with exception 7 while the simulation
    runs: the simulation is stopped with CancelledError('shutdown') and run() raises exception 7 -/
example :
    let sc : RfScript := { envSim := fun s => { s with mustCancel := true } }
    (TrL.runForever (erfPrims sc) { st := {} }).2 = .raise (.err (.cancelled 0)) ∧
    (rfModel sc {}).phase = .done ∧ (rfModel sc {}).error = some (.cancelled 0) := by
  intro sc
  have h := translated_errreg_run_forever_is_model_partial sc {} rfl rfl rfl (fun _ => rfl) (fun _ _ => rfl)
    (fun _ => ⟨fun _ => rfl, rfl⟩) (fun _ => ⟨fun _ => rfl, rfl⟩)
  have hm : rfModel sc {} = { phase := .done, error := some (.cancelled 0), wake := [.sim] } := by rfl
  rw [h.1, hm]
  exact ⟨rfl, rfl, rfl⟩

/-- the environment of the second example -/
def exampleEnv : Nat → St → St := fun k s =>
  if k = 0 then (step s (.start none)).1                                             -- the task starts
  else if k = 1 then (step (step s (.supTrigger 1 (some 7))).1 .tick).1              -- coroutine #1 fails
  else if k = 2 then s
  else (step (step s .tick).1 .tick).1                                               -- the simulation stops

example :
    (TrE.run (runPrims exampleEnv) (coros 2) true { st := { runMode := true } }).2 = .raise (.err (.exc 7)) ∧
    (TrE.run (runPrims exampleEnv) (coros 2) true { st := { runMode := true } }).1.dels = [.cancelled 1] ∧
    (TrE.run (runPrims exampleEnv) (coros 2) true { st := { runMode := true } }).1.st.error = some (.cancelled 1) := by
  have h := translated_errreg_run_is_model exampleEnv (fun _ => false) 2 true { runMode := true } (by decide) (by decide +kernel) rfl rfl rfl
  have h1 : runRaises (runModel exampleEnv { runMode := true }).1 2 = some (.exc 7) := by decide +kernel
  have h2 : (runModel exampleEnv { runMode := true }).2 = [.cancelled 1] := by decide +kernel
  have h3 : (runModel exampleEnv { runMode := true }).1.error = some (.cancelled 1) := by decide +kernel
  rw [h]
  exact ⟨by simp only [h1]; rfl, h2, h3⟩

/-! #### `SBlock.event` (Gen/TranslatedDispatch.lean, translated for C11) and `init_sblock` (Gen/TranslatedInitSb.lean,
     translated for C05) instantiated with the error register -/

/-- the translated `SBlock.event` makes the model's classification: whatever the fault of the delivery -- an
    exception of any family raised by the handler's own code, wrong parameters, an unknown type, an unknown event sent
    by the handler -- `abort(<wrapped error>)` is called iff `Fault.fatal` (i.e. unless the `except EdzedUnknownEvent:
    raise` clause or the one-level traceback applies), BEFORE the exception reaches the caller; the exception is
    re-raised in every case and `_event_active` is reset -/
theorem translated_errreg_event_classification (flt : Fault) (id fuel : Nat) (s : EvSt) (ha : s.active = false)
    (hm : s.marker < 0 ∨ 2 ≤ s.marker) (b : Bool) :
    TrD.event (evPrims flt id b) (fuel + 1) (faultEtype flt) () s =
      ({ s with st := if flt.fatal then s.st.abort (.wrapped id) else s.st
                dels := if flt.fatal then s.dels ++ [.wrapped id] else s.dels
                active := false },
       .raise (.raised flt.seen.1 flt.seen.2)) := by
  have hg : ¬ ((0 : Int) ≤ s.marker ∧ s.marker < (2 : Int)) := by omega
  unfold TrD.event TrD.event_loop1
  cases flt with
  | inHandler f =>
    cases f <;>
      simp [ha, hg, faultEtype, Fault.fatal, fatalSeen, Fault.seen, bind_apply, get_apply, pure_apply, raise_apply, ret_apply,
        tryExcept_apply, tryFinally_apply]
  | wrongParams =>
    simp [ha, hg, faultEtype, Fault.fatal, fatalSeen, Fault.seen, bind_apply, get_apply, pure_apply, raise_apply, ret_apply,
      tryExcept_apply, tryFinally_apply]
  | unknownType =>
    simp [ha, hg, faultEtype, Fault.fatal, fatalSeen, Fault.seen, bind_apply, get_apply, pure_apply, raise_apply, ret_apply,
      tryExcept_apply, tryFinally_apply]
  | nested =>
    simp [ha, hg, faultEtype, Fault.fatal, fatalSeen, Fault.seen, bind_apply, get_apply, pure_apply, raise_apply, ret_apply,
      tryExcept_apply, tryFinally_apply]

/-- … hence the model's `handlerErr` IS what the translated `SBlock.event` does to the error register for a
    handler that raises an exception of family `f`: same state, same deliveries -/
theorem translated_errreg_event_handler_error_is_model (f : Family) (id fuel : Nat) (s : EvSt) (ha : s.active = false)
    (hm : s.marker < 0 ∨ 2 ≤ s.marker) (hr : s.st.ready = true) (b : Bool) :
    (TrD.event (evPrims (.inHandler f) id b) (fuel + 1) .known () s).1.st = (step s.st (.handlerErr id f)).1 ∧
    (TrD.event (evPrims (.inHandler f) id b) (fuel + 1) .known () s).1.dels = s.dels ++ (step s.st (.handlerErr id f)).2.dels := by
  have h := translated_errreg_event_classification (.inHandler f) id fuel s ha hm b
  simp only [faultEtype] at h
  rw [h]
  cases hf : (Fault.inHandler f).fatal <;> simp [step, hr, hf]

/-- **a failed initialisation step is never attempted again**: when `init_regular()` raises, the translated
    `init_sblock` leaves the step marker NEGATIVE (the except clause does not touch it) and re-raises; and with a
    negative marker every later `init_sblock` call -- from the synchronous passes or from an event -- does nothing -/
theorem translated_errreg_failed_init_step_never_attempted_again (s : EvSt) (full : Bool)
    (h : s.marker = 1 ∨ (s.marker = 0 ∧ full = true)) :
    TrI.init_sblock (isPrims true) () full s =
      ({ s with marker := -2, initCalls := s.initCalls + 1 }, .raise .initFailed) ∧
    (∀ (t : EvSt) (fails full' : Bool), t.marker < 0 → TrI.init_sblock (isPrims fails) () full' t = (t, .next ())) := by
  constructor
  · unfold TrI.init_sblock
    rcases h with h | ⟨h, rfl⟩ <;>
      simp [h, bind_apply, get_apply, pure_apply, raise_apply, tryExcept_apply]
  · intro t fails full' ht
    have h0 : t.marker ≠ 0 := by omega
    have h1 : t.marker ≠ 1 := by omega
    unfold TrI.init_sblock
    simp [h0, h1, bind_apply, get_apply, pure_apply, tryExcept_apply]

/-- the model's `earlyInitFail`: an event reaches a block whose initialisation is not complete (marker 0 or 1) and
    its `init_regular()` raises: the exception leaves the translated `SBlock.event` BEFORE the handler's try block --
    nothing is handed to abort() (the register is untouched), the marker stays negative, `_event_active` is reset;
    the start-up then finds the block uninitialised (the model's `start` with `earlyFail`) -/
theorem translated_errreg_early_init_failure_reaches_caller_only (flt : Fault) (id fuel : Nat) (s : EvSt)
    (ha : s.active = false) (hm : s.marker = 0 ∨ s.marker = 1) :
    TrD.event (evPrims flt id true) (fuel + 1) (faultEtype flt) () s =
      ({ s with marker := -2, initCalls := s.initCalls + 1, active := false }, .raise .initFailed) ∧
    (∀ i, (step s.st (.earlyInitFail i)).1.error = s.st.error ∧ (step s.st (.earlyInitFail i)).2.dels = []) := by
  constructor
  · have hg : ((0 : Int) ≤ s.marker ∧ s.marker < (2 : Int)) := by omega
    have hi := (translated_errreg_failed_init_step_never_attempted_again { s with active := false } true
      (by rcases hm with h | h <;> simp [h])).1
    unfold TrD.event TrD.event_loop1
    cases flt <;>
      simp [ha, hg, hi, faultEtype, bind_apply, get_apply, pure_apply, raise_apply, ret_apply, withCtx_apply,
        tryExcept_apply, tryFinally_apply]
  · intro i
    simp only [step]
    split <;> simp

/-! #### the ControlBlock events and `add_note` -/

/-- the model operation of an 'abort' control event with the given `error` item -/
def ctlAbortOp : CtlErr → Op
  | .exception id => .ctrlAbort id
  | _ => .ctrlAbortText

/-- the error the 'abort' control event hands to abort(): an EdzedCircuitError whose `__cause__` is the reported
    error exactly when that is an Exception -/
def ctlAbortErr : CtlErr → Err
  | .exception id => .reported id
  | _ => .reportedText

/-- `ControlBlock._event_abort` IS the model's `ctrlAbort` / `ctrlAbortText`: exactly ONE abort(EdzedCircuitError …)
    is delivered -- with the reported error as its cause iff that is an Exception (not a string, not the default, not
    a bare BaseException) --, nothing is awaited, the handler returns normally; for a ready circuit state and
    deliveries are those of the model's operation -/
theorem translated_errreg_ctl_abort_is_model (e : CtlErr) (s : TS) :
    TrE.ctlAbort ctPrims () e s =
      ({ s with st := s.st.abort (ctlAbortErr e), dels := s.dels ++ [ctlAbortErr e] }, .next ()) ∧
    (s.st.ready = true →
      (TrE.ctlAbort ctPrims () e s).1.st = (step s.st (ctlAbortOp e)).1 ∧
      (TrE.ctlAbort ctPrims () e s).1.dels = s.dels ++ (step s.st (ctlAbortOp e)).2.dels) := by
  have h : TrE.ctlAbort ctPrims () e s =
      ({ s with st := s.st.abort (ctlAbortErr e), dels := s.dels ++ [ctlAbortErr e] }, .next ()) := by
    unfold TrE.ctlAbort
    cases e <;> simp [bind_apply, pure_apply, abortP, ctlAbortErr]
  refine ⟨h, fun hr => ?_⟩
  rw [h]
  cases e <;> simp [ctlAbortOp, ctlAbortErr, step, hr]

/-- `ControlBlock._event_shutdown` IS the model's `ctrlShutdown`: `abort(CancelledError(<shutdown requested by …>))`
    -- what `shutdown()` delivers, with another message -- and NOTHING is awaited (the log of awaits is unchanged) -/
theorem translated_errreg_ctl_shutdown_is_model (s : TS) :
    TrE.ctlShutdown (α := CtlErr) ctPrims () s =
      ({ s with st := s.st.abort (.cancelled 2), dels := s.dels ++ [.cancelled 2] }, .next ()) ∧
    (TrE.ctlShutdown (α := CtlErr) ctPrims () s).1.log = s.log ∧
    (s.st.ready = true →
      (TrE.ctlShutdown (α := CtlErr) ctPrims () s).1.st = (step s.st .ctrlShutdown).1 ∧
      (TrE.ctlShutdown (α := CtlErr) ctPrims () s).1.dels = s.dels ++ (step s.st .ctrlShutdown).2.dels) := by
  have h : TrE.ctlShutdown (α := CtlErr) ctPrims () s =
      ({ s with st := s.st.abort (.cancelled 2), dels := s.dels ++ [.cancelled 2] }, .next ()) := by
    unfold TrE.ctlShutdown
    simp [bind_apply, pure_apply, abortP]
  refine ⟨h, by rw [h], fun hr => ?_⟩
  rw [h]
  simp [step, hr]

/-- `add_note(exc, note)` cannot change what is reported: it returns normally, touches nothing but the note of the
    exception (attached natively on Python ≥ 3.11, else prepended to a str first argument, else dropped), and the
    model state is unchanged -- it is called inside except clauses BEFORE abort() / the re-raise -/
theorem translated_errreg_add_note_is_harmless (hasNotes firstStr : Bool) (e : PyExc) (s : TS) :
    TrE.addNote (ntPrims hasNotes firstStr false) e () s =
      ({ s with noted := if hasNotes || firstStr then s.noted + 1 else s.noted }, .next ()) := by
  unfold TrE.addNote
  cases hasNotes <;> cases firstStr <;> simp [bind_apply, get_apply, pure_apply]

/-- … what it MAY do (declared): when the native `exc.add_note` raises (a note that is not a str) that TypeError
    leaves add_note -- and would replace the original error in the caller's except clause; the fallback branch for
    older Pythons cannot raise -/
theorem translated_errreg_add_note_failure_propagates (firstStr : Bool) (e : PyExc) (s : TS) :
    TrE.addNote (ntPrims true firstStr true) e () s = (s, .raise .typeError) ∧
    (TrE.addNote (ntPrims false firstStr true) e () s).2 = .next () := by
  unfold TrE.addNote
  cases firstStr <;> simp [bind_apply, get_apply, pure_apply]

end ErrRegTie

end Edzed.TrTie
