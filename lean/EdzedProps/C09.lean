/-
C09 — the first error stops the simulation and is the one that gets reported.

Model: EdzedModel/ErrorReg.lean.  A *history* is any list of operations of the environment
(external events of every kind, abort() calls, cancellations, monitored / supporting tasks failing,
shutdown(), SIGTERM, loop iterations) — no bound on its length, every interleaving of immediate and
deferred error sources.  `deliveries` is the log of everything handed to the simulator's two register
writers (`Circuit.abort` and the `except` clause of `run_forever`) in the order it happened.
-/
import EdzedModel.ErrorReg
import EdzedProofs.ErrorReg
import EdzedModel.Gen.TranslatedSim

namespace Edzed.ErrorReg

/-- **first error wins**: after every history that starts with an empty register, `Circuit.error` is the
    FIRST error delivered to the simulator (none iff nothing was delivered) -/
theorem first_error_wins (s : St) (h : s.error = none) (ops : List Op) :
    (final s ops).error = (deliveries s ops).head? := by
  rw [run_error, h, firstOf_none]

/-- the reported error is never replaced and never returns to `None`, whatever happens later
    (further errors, abort() calls, cancellations, shutdown) -/
theorem error_never_replaced (s : St) (e : Err) (h : s.error = some e) (ops : List Op) :
    (final s ops).error = some e := by
  rw [run_error, h, firstOf_some]

/-- the same statement along one history: what the register holds after a prefix is what it holds
    after the whole history -/
theorem error_stable_along_history (s : St) (a b : List Op) (e : Err)
    (h : (final s a).error = some e) : (final s (a ++ b)).error = some e := by
  rw [run_append]; exact error_never_replaced _ e h b

/-- once the simulation has an error the circuit is not ready, and stays so for ever -/
theorem not_ready_forever (s : St) (e : Err) (h : s.error = some e) (ops : List Op) :
    (final s ops).ready = false := by
  have := error_never_replaced s e h ops
  simp [St.ready, this]

/-- invariant: a simulation task that has left its `try` block (clean-up, finished) has an error set -/
def Stopped (s : St) : Prop :=
  (s.phase = .sleep0 ∨ s.phase = .cleanup ∨ s.phase = .done) → s.error.isSome

/-- the simulation task in its try block: it stays there, or it has just delivered something -/
theorem wakeStep_sim_try (s : St) (hp : s.phase = .tryBlock) :
    (wakeStep s .sim).1.phase = .tryBlock ∨ (wakeStep s .sim).2 ≠ [] := by
  simp only [wakeStep, hp]
  cases hm : s.mustCancel
  · cases ha : s.armed with
    | none => simp [hp]
    | some a => cases a <;> simp
  · simp

theorem wakeStep_stopped (s : St) (w : Wake) (h : Stopped s) : Stopped (wakeStep s w).1 := by
  have he := wakeStep_error s w
  intro hq
  rw [he]
  cases hs : s.error with
  | some e => simp [firstOf]
  | none =>
    have hph : s.phase = .notStarted ∨ s.phase = .tryBlock := by
      cases hp : s.phase <;> simp_all [Stopped]
    simp only [firstOf]
    rcases hph with hp | hp
    · exfalso
      cases w <;> simp [wakeStep, hp, St.abort, hs] at hq
    · cases w with
      | sim =>
        rcases wakeStep_sim_try s hp with h1 | h1
        · simp [h1] at hq
        · cases hd : (wakeStep s .sim).2 <;> simp_all
      | _ => simp [wakeStep, hp, St.abort, hs] at hq ⊢

theorem tickFold_stopped (ws : List Wake) (acc : St × List Err) (h : Stopped acc.1) :
    Stopped (tickFold ws acc).1 := by
  induction ws generalizing acc with
  | nil => simpa [tickFold] using h
  | cons w ws ih =>
    simp only [tickFold, List.foldl_cons]
    exact ih _ (wakeStep_stopped _ w h)

theorem step_stopped (s : St) (op : Op) (h : Stopped s) : Stopped (step s op).1 := by
  cases op with
  | tick =>
    simp only [step]
    exact tickFold_stopped s.wake _ (by simpa [Stopped] using h)
  | finish =>
    simp only [step]
    split
    · next hp =>
      have hp' : s.phase = .cleanup := by simpa using hp
      intro _; simpa using h (Or.inr (Or.inl hp'))
    · exact h
  | start i =>
    have he := step_error s (.start i)
    intro hq; rw [he]
    cases hs : s.error with
    | some e => simp [firstOf]
    | none =>
      have hph : s.phase = .notStarted ∨ s.phase = .tryBlock := by
        cases hp : s.phase <;> simp_all [Stopped]
      rcases hph with hp | hp
      · cases i <;> simp [step, hp, hs, firstOf] at hq ⊢
      · simp [step, hp] at hq
  | supTrigger i id => cases id <;> simpa [step, Stopped] using h
  | nestedUnknown c =>
    simp only [step]
    split
    · split <;> simpa [Stopped] using h
    · exact h
  | _ =>
    intro hq
    rw [step_error]
    cases hs : s.error with
    | some e => simp [firstOf]
    | none =>
      have hph : s.phase = .notStarted ∨ s.phase = .tryBlock := by
        cases hp : s.phase <;> simp_all [Stopped]
      rcases hph with hp | hp <;>
        simp [step, hp, hs, St.ready, St.abort] at hq ⊢

/-- for every history from a fresh circuit: a stopped simulation has an error — hence a stopped
    simulation is not ready ("once the simulation has stopped the circuit is not ready") -/
theorem stopped_has_error (ops : List Op) (s : St) (h : Stopped s) : Stopped (final s ops) := by
  unfold final run
  suffices ∀ acc : St × List Err, Stopped acc.1 →
      Stopped (ops.foldl (fun acc op => let r := step acc.1 op; (r.1, acc.2 ++ r.2.dels)) acc).1 from
    this (s, []) h
  induction ops with
  | nil => intro acc h; exact h
  | cons op ops ih => intro acc h; simp only [List.foldl_cons]; exact ih _ (step_stopped _ op h)

theorem stopped_not_ready (ops : List Op)
    (hp : (final {} ops).phase = .sleep0 ∨ (final {} ops).phase = .cleanup ∨ (final {} ops).phase = .done) :
    (final {} ops).ready = false := by
  have := stopped_has_error ops {} (by simp [Stopped]) hp
  cases he : (final {} ops).error <;> simp_all [St.ready]

/-! ### what the API reports -/

/-- a cancellation counts as a normal stop: shutdown() returns; run() returns None unless a
    supporting task failed -/
theorem cancel_is_normal_stop (s : St) (t : Nat) (h : s.error = some (.cancelled t)) (n : Nat) :
    shutdownRaises s = none ∧
    (firstSupError s.supDone n = none → runRaises s n = none) := by
  simp [shutdownRaises, runRaises, h, Err.isCancel]

/-- a real error is what run_forever(), shutdown() and run() raise — for run() even when supporting
    tasks have failed as well -/
theorem error_is_reraised (s : St) (e : Err) (h : s.error = some e) (hc : e.isCancel = false) (n : Nat) :
    runForeverRaises s = some e ∧ shutdownRaises s = some e ∧ runRaises s n = some e := by
  simp [runForeverRaises, shutdownRaises, runRaises, h, hc]

/-- run(): otherwise the error of the first failing supporting task (in the order of its arguments) -/
theorem run_result_supporting (s : St) (t : Nat) (h : s.error = some (.cancelled t)) (n : Nat) :
    runRaises s n = (firstSupError s.supDone n).map Err.exc := by
  simp [shutdownRaises, runRaises, h, Err.isCancel]

/-- abort() before the start makes the start fail with that error: the task never enters the
    simulation and no later history changes the error -/
theorem abort_before_start (s : St) (hp : s.phase = .notStarted) (he : s.error = none) (e : Err)
    (i : Option Nat) (ops : List Op) :
    let s1 := (step s (.abortCall e)).1
    let s2 := (step s1 (.start i)).1
    s2.phase = .sleep0 ∧ s2.error = some e ∧ (final s2 ops).error = some e := by
  have ha : s.abort e = { s with error := some e } := by simp [St.abort, he, hp]
  have h2 : (step (step s (.abortCall e)).1 (.start i)).1.error = some e := by
    rw [step_error]; simp [step, ha, firstOf]
  refine ⟨?_, h2, error_never_replaced _ e h2 ops⟩
  simp [step, ha, hp]

/-! ### classification of error sources -/

/-- an external event with wrong parameters or of an unknown type is reported to the caller only:
    no delivery, no state change -/
theorem harmless_outcomes_reported_only (s : St) :
    (step s .paramErr).1 = s ∧ (step s .paramErr).2.dels = [] ∧
    (step s .unknownEvt).1 = s ∧ (step s .unknownEvt).2.dels = [] := by
  simp [step]

/-- which external-event operations are errors *inside* a handler according to the property text -/
def documentedFatal : Op → Bool
  | .handlerErr _ | .ctrlAbort _ | .ctrlShutdown | .nestedUnknown _ => true
  | _ => false

/- Full statement (NOT provable, the code violates it for `nestedUnknown`):
     ∀ s op, s.ready → isExternalEvent op → ((step s op).2.dels ≠ [] ↔ documentedFatal op)
   An internal event of an unknown type raised while a handler runs (an `on_output` event to another block
   or an FSM entry action sending to its own block) passes through `except EdzedUnknownEvent: raise`
   without abort(); see known_findings.json.  Proved: the statement for every other external event. -/
theorem classification_partial (s : St) (h : s.ready = true) (op : Op)
    (hext : op = .paramErr ∨ op = .unknownEvt ∨ (∃ i, op = .handlerErr i) ∨ (∃ i, op = .ctrlAbort i) ∨
            op = .ctrlShutdown) :
    ((step s op).2.dels ≠ [] ↔ documentedFatal op = true) := by
  rcases hext with rfl | rfl | ⟨i, rfl⟩ | ⟨i, rfl⟩ | rfl <;> simp [step, h, documentedFatal]

/-- the counter-example that blocks the full statement (replayed on the implementation by the check) -/
theorem nested_unknown_event_not_fatal :
    ∀ c, documentedFatal (.nestedUnknown c) = true ∧
    (step { phase := .tryBlock } (.nestedUnknown c)).2.dels = [] ∧
    (step { phase := .tryBlock } (.nestedUnknown c)).1.ready = true := by decide

/-- an exception inside an event handler terminates the simulation even though the caller gets
    (and may swallow) the exception: the register is written before the exception reaches the caller -/
theorem handler_error_is_fatal (s : St) (h : s.ready = true) (id : Nat) :
    (step s (.handlerErr id)).1.error = some (.wrapped id) ∧
    (step s (.handlerErr id)).2.reply = .raised (.exc id) ∧
    (step s (.handlerErr id)).1.ready = false := by
  simp [St.ready] at h
  obtain ⟨hp, he⟩ := h
  simp [step, hp, abort_error, he, firstOf, St.ready]

/-- an output calculation that raises ends the simulation with that exception -/
theorem calc_error_is_fatal (s : St) (hp : s.phase = .tryBlock) (hc : s.mustCancel = false)
    (he : s.error = none) (id : Nat) (ha : s.armed = some (.calc id)) :
    (wakeStep s .sim).1.error = some (.exc id) ∧ (wakeStep s .sim).1.phase = .sleep0 := by
  simp [wakeStep, hp, hc, ha, caught_error, he, firstOf]

/-- a failing monitored block task ends the simulation with its exception -/
theorem monitored_task_error_is_fatal (s : St) (he : s.error = none) (id : Nat) :
    (wakeStep s (.mon id)).1.error = some (.exc id) := by
  simp [wakeStep, abort_error, he, firstOf]

/-- the ControlBlock events -/
theorem control_events (s : St) (h : s.ready = true) (id : Nat) :
    (step s (.ctrlAbort id)).1.error = some (.reported id) ∧
    (step s .ctrlShutdown).1.error = some (.cancelled 2) := by
  simp [St.ready] at h
  obtain ⟨hp, he⟩ := h
  simp [step, hp, abort_error, he, firstOf, St.ready]

/-- non-vacuity: a handler error racing with abort() and a shutdown in the same instant —
    the first one delivered is reported by everything -/
example :
    let s := final {} [.start none, .handlerErr 1, .abortCall (.exc 2), .shutdownTask, .tick, .tick, .tick]
    s.error = some (.wrapped 1) ∧ s.phase = .done ∧ shutdownRaises s = some (.wrapped 1) ∧
    deliveries {} [.start none, .handlerErr 1, .abortCall (.exc 2), .shutdownTask, .tick, .tick, .tick]
      = [.wrapped 1, .exc 2, .cancelled 0, .cancelled 1] := by decide

example :
    let s := final { runMode := true } [.start none, .supTrigger 1 (some 7), .tick, .tick, .tick, .tick, .tick]
    s.error = some (.cancelled 1) ∧ s.phase = .done ∧ runRaises s 3 = some (.exc 7) := by decide

end Edzed.ErrorReg

/-! ### the translation tie: `Circuit.abort` -/
namespace Edzed.TrTie
open Edzed.ErrorReg Edzed.Gen.TrS

/-- what the code sees of the model state: `_error`, `_simtask`, `_simtask.done()` -/
def abortView (s : St) : List Prim :=
  abortActs (s.error.map fun _ => ()) (if s.phase == .notStarted then none else some ()) (s.phase == .done)

/-- `self._error = exc` is executed exactly when no error was recorded before: the first error wins -/
theorem translated_abort_sets_error_iff_first (s : St) :
    (Prim.setError ∈ abortView s) ↔ s.error = none := by
  unfold abortView abortActs
  cases s.error <;> cases hp : s.phase <;> simp

/-- the model's `abort` IS the translated one: the recorded error afterwards, and the request to cancel
    the simulation task (made iff the error was recorded now and the task exists and is not finished) -/
theorem translated_abort_is_model (s : St) (e : Err) :
    (s.abort e).error = (if Prim.setError ∈ abortView s then some e else s.error)
    ∧ (s.abort e).mustCancel = (s.mustCancel || decide (Prim.cancelTask ∈ abortView s)) := by
  unfold abortView abortActs St.abort St.addWake
  cases he : s.error <;> cases hp : s.phase <;> simp [he] <;> (try split) <;> simp

/-- the error is recorded BEFORE the cancellation of the simulation task is requested (an exception raised
    by `cancel()`, e.g. on a closed event loop, cannot leave the circuit "ready" without an error): the
    action list is `[setError]`, `[setError, cancelTask]`, or nothing but the early return -/
theorem translated_abort_records_error_first (s : St) :
    abortView s = [.ret none] ∨ abortView s = [.setError] ∨ abortView s = [.setError, .cancelTask] := by
  unfold abortView abortActs
  cases s.error <;> cases hp : s.phase <;> simp

end Edzed.TrTie
