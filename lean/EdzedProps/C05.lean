/-
C05 — after start-up every block has a valid output, taken from the documented sources.

Model: EdzedModel/Init.lean (`exec` = the synchronous call tree of `init_sblock` / `SBlock.event` /
`set_output`, `phase0 … firstPass` = the phases of `run_forever`, `runTasks`/`schedule` = `_run_tasks`,
`waitInit` = `wait_init` WITH the repair patches/C05-wait-init-after-failure.diff).
All statements hold for every configuration `c` (any number of blocks, any scripts, any on_output
topology incl. cycles, any completion times, any recursion budget).

-/
import EdzedModel.Init
import EdzedProofs.Init
import EdzedProofs.InitOrder
import EdzedProofs.InitAsyncOrder
import EdzedProofs.InitClosure
import EdzedProofs.InitTie
import EdzedProofs.InitSbTie
import EdzedProofs.InitSbEarly
import EdzedProofs.AsyncInitTie

namespace Edzed.Init

/-- `wait_init()` returned normally ⇒ every block's output differs from UNDEF -- the sequential blocks AND
    the combinational blocks (every one of them has been evaluated in the first pass) --, the simulation is
    running (`is_ready()`), and the first evaluation pass has been done without a failure -/
theorem wait_init_ok_implies_valid (c : Cfg) (v : View) (hv : v.of (run c))
    (h : waitInit v = .returned) :
    (∀ b, b < c.n → (run c).out b ≠ .undef) ∧
    ((run c).cout.length = c.cblocks.length ∧ ∀ o ∈ (run c).cout, o ≠ .undef) ∧
    (run c).running = true ∧ (run c).firstPassDone = true ∧ c.cblocks.any CScript.fails = false := by
  obtain ⟨_, he, _⟩ := hv
  have hnf : (run c).failed = false := by
    unfold waitInit at h
    cases hd : v.simtaskDone <;> cases hi : v.initDone <;> cases hx : v.error <;> simp_all
  have hok : (run c).ok = true := by
    have := failed_iff_not_ok (run c); rw [hnf] at this; simpa using this.symm
  obtain ⟨hok1, hfp, _, hout, hcb, hco⟩ := firstPass_ok c (afterCheck c) hok
  obtain ⟨_, hall, hchk⟩ := check_ok c (syncPhase c (afterAsync c)) hok1
  have hcout : (run c).cout.length = c.cblocks.length ∧ ∀ o ∈ (run c).cout, o ≠ .undef := by
    have e : (run c).cout = c.cblocks.map CScript.value := hco
    rw [e]
    refine ⟨by simp, ?_⟩
    intro o ho
    simp only [List.mem_map] at ho
    obtain ⟨x, hx, rfl⟩ := ho
    have hf : x.fails = false := by
      have := List.any_eq_false.mp hcb x hx
      simpa using this
    cases x with
    | raises => simp [CScript.fails] at hf
    | returns w =>
      intro hu
      simp only [CScript.value] at hu
      simp [CScript.fails, hu, Val.isUndef] at hf
  refine ⟨?_, hcout, by simp [St.running, hnf], hfp, hcb⟩
  intro b hb
  have hrun : (run c).out = (syncPhase c (afterAsync c)).out := by
    show (firstPass c (afterCheck c)).out = _
    rw [hout]; show (check c (syncPhase c (afterAsync c))).out = _; rw [hchk]
  rw [hrun]
  simp only [allInitialised, List.all_eq_true, List.mem_range] at hall
  have := hall b hb
  intro hu
  rw [hu] at this
  simp [Val.isUndef] at this

example : ∃ c v, View.of (run c) v ∧ waitInit v = .returned :=
  ⟨{ n := 1, blk := fun _ => { initdef := some (Val.int 1, .direct) }, fuel := 8 },
   ⟨true, false, false⟩, by unfold View.of; decide, by decide⟩

/-- if a block is still uninitialised after the last phase, or the very first evaluation fails, or the
    initialisation failed earlier, or a recursive event was refused at any moment of the initialisation
    (even if the exception was swallowed, e.g. by `init_from_persistent_data`), then the simulation is not
    running and a released `wait_init()` raises -/
theorem failed_init_raises (c : Cfg) (v : View) (hv : v.of (run c)) (hw : waitInit v ≠ .waiting)
    (h : allInitialised c (syncPhase c (afterAsync c)) = false ∨ c.cblocks.any CScript.fails = true ∨
         (afterCheck c).failed = true ∨ (∃ d, Entry.refused d ∈ (run c).log)) :
    waitInit v = .raised ∧ (run c).running = false := by
  have hf : (run c).failed = true := by
    rcases h with h | h | h | h
    · have : (run c).ok = false := firstPass_not_ok c _ (check_not_init c _ h)
      rw [failed_iff_not_ok, this]; rfl
    · have : (run c).ok = false := firstPass_raises c _ h
      rw [failed_iff_not_ok, this]; rfl
    · rw [failed_iff_not_ok]
      have : (run c).ok = false := by
        apply firstPass_not_ok
        rw [failed_iff_not_ok] at h; simpa using h
      rw [this]; rfl
    · simp [St.failed, run_Rf c h]
  obtain ⟨_, he, _⟩ := hv
  refine ⟨?_, by simp [St.running, hf]⟩
  unfold waitInit at hw ⊢
  rw [hf] at he
  cases hd : v.simtaskDone <;> cases hi : v.initDone <;> simp_all

/-- a refused recursive event sets the error register at once, whoever catches the exception
    (patches/C11-refused-recursion-aborts.diff) -/
theorem refused_recursion_sets_error (c : Cfg) (d : Nat) (h : Entry.refused d ∈ (run c).log) :
    (run c).aborted = true ∧ (run c).running = false := by
  have ha := run_Rf c ⟨d, h⟩
  exact ⟨ha, by simp [St.running, St.failed, ha]⟩

/-- the swallowed refusal of the integrator's example: the restore of block 1 (via its own event) starts an
    event loop 1 → 0 → 2 → 1 inside `init_from_persistent_data`; the start-up fails -/
example : ∃ c, Entry.refused 1 ∈ (run c).log ∧ (run c).failed = true ∧ (run c).errorKind = some "CircuitError" :=
  ⟨{ n := 3, blk := fun i =>
      if i = 0 then { dests := [2] }
      else if i = 1 then { persist := .restores (Val.int 13) .viaEvent, dests := [0] }
      else { persist := .restores (Val.int 12) .direct, dests := [1] },
     fuel := 64 }, by decide, by decide, by decide⟩

example : ∃ c, c.cblocks.any CScript.fails = true ∧ (run c).initDone = true ∧ (run c).failed = true :=
  ⟨{ n := 1, blk := fun _ => { initdef := some (Val.int 1, .direct) }, cblocks := [.raises], fuel := 8 },
   by decide, by decide, by decide⟩

/-- a combinational block whose function returns UNDEF in the first pass makes the start-up fail
    (`eval_block` tests for UNDEF before its `previous == value` fast path) -/
theorem undef_in_first_pass_fails (c : Cfg) (h : CScript.returns .undef ∈ c.cblocks) :
    (run c).running = false := by
  have hany : c.cblocks.any CScript.fails = true := List.any_eq_true.mpr ⟨_, h, rfl⟩
  have : (run c).ok = false := firstPass_raises c _ hany
  simp [St.running, failed_iff_not_ok, this]

example : ∃ c, CScript.returns .undef ∈ c.cblocks ∧ (run c).initDone = true ∧ (run c).failed = true :=
  ⟨{ n := 1, blk := fun _ => { initdef := some (Val.int 1, .direct) },
     cblocks := [.returns (Val.int 3), .returns .undef], fuel := 8 }, by decide, by decide, by decide⟩

/-- defect #2 of DESIGN.md section 5, as a fact about the code BEFORE the repair: there is a start-up whose
    first evaluation pass fails and a moment (the clean-up is still running) at which the unrepaired
    `wait_init` returns normally -/
theorem legacy_wait_init_returns_after_failed_first_pass :
    ∃ c v, View.of (run c) v ∧ (run c).failed = true ∧ waitInitLegacy v = .returned ∧
      waitInit v = .raised :=
  ⟨{ n := 1, blk := fun _ => { initdef := some (Val.int 1, .direct) }, cblocks := [.raises], fuel := 8 },
   ⟨true, false, true⟩, by unfold View.of; decide, by decide, by decide, by decide⟩

/-- Per block the calls of `_restore_state` (P), `init_async` (A), `init_regular` (R) and
    `init_from_value(initdef)` (D) form a sublist of [P, A, R, D] -- each at most once, in the documented order.
    The one exception, exactly as the code behaves: a block whose step 2 had already been begun when
    `_init_sblocks_async` collected its tasks (`init_steps_completed` 2 or -2 after `_init_sblocks_sync_1`; only an
    incoming event, which runs the pending synchronous steps first, does that) and which was still
    uninitialised gets its `init_async` afterwards: its calls form a sublist of [P, R, D, A], and no synchronous
    routine follows.  Holds for every topology and whatever events arrive during the initialisation. -/
theorem source_order (c : Cfg) (b : Nat) :
    (proj4 b (run c).log).Sublist [.P, .A, .R, .D] ∨
    ((proj4 b (run c).log).Sublist [.P, .R, .D, .A] ∧
      ((afterSync1 c).steps b = 2 ∨ (afterSync1 c).steps b = -2)) :=
  run_order4 c b

/-- every initialisation routine -- `init_async` included -- runs at most once per block -/
theorem routine_at_most_once (c : Cfg) (b : Nat) (k : SK4) :
    (proj4 b (run c).log).count k ≤ 1 := by
  rcases source_order c b with h | ⟨h, _⟩
  · have h1 := h.count_le k
    have : List.count k [SK4.P, .A, .R, .D] ≤ 1 := by cases k <;> decide
    omega
  · have h1 := h.count_le k
    have : List.count k [SK4.P, .R, .D, .A] ≤ 1 := by cases k <;> decide
    omega

/-- the synchronous routines alone: restore, init_regular, initdef in this order, each at most once -/
theorem sync_source_order (c : Cfg) (b : Nat) :
    (proj b (run c).log).Sublist [.P, .R, .D] :=
  shape_sublist _ _ (run_J c b)

/-- both orders occur: a plain block with all four sources, and a block that an event reached during
    `_init_sblocks_sync_1` while its `init_regular` raises (swallowed by the sender's restore) -/
example : ∃ c, proj4 0 (run c).log = [.P, .A, .R, .D] :=
  ⟨{ n := 1, blk := fun _ => { persist := .raises, async := .fails 5, timeout := 10,
                               initdef := some (Val.int 1, .direct) }, fuel := 16 }, by decide⟩

example : ∃ c, proj4 1 (run c).log = [.R, .A] ∧ (afterSync1 c).steps 1 = -2 :=
  ⟨{ n := 2, blk := fun i =>
      if i = 0 then { persist := .restores (Val.int 1) .direct, dests := [1] }
      else { regular := .raises, async := .returns (Val.int 9) 5, timeout := 10 },
     fuel := 32 }, by decide, by decide⟩

/-- the steps reached and the calls made go together: a block that completed both steps has called
    `init_regular` exactly once -/
theorem completed_steps_called_regular (c : Cfg) (b : Nat) (h : (run c).steps b = 2) :
    (proj b (run c).log).count .R = 1 := by
  have := run_J c b
  rw [h, shape2] at this
  rcases this with e | e | e | e <;> rw [e] <;> decide

example : ∃ c, proj 0 (run c).log = [.P, .R, .D] :=
  ⟨{ n := 1, blk := fun _ => { persist := .raises, initdef := some (Val.int 1, .viaEvent), dests := [0] },
     fuel := 16 }, by decide⟩

/-! ### InitAsync: the initdef is used iff the coroutine did not deliver -- whatever the initdef's truth value

`Regular.quietNone` is `InitAsync.init_regular`; the block is uninitialised at step 2 iff `init_async` has not
set the output (failed, timed out, cancelled).  The three theorems describe step 2 of `init_sblock` completely. -/

/-- not delivered, an initdef was given (ANY value `v`: 0, False, '' and None included): the output None is NOT
    set, `init_from_value(initdef)` is called -/
theorem initasync_initdef_used_if_not_delivered (c : Cfg) (rec : Call → St → St) (b : Nat) (s : St) (v : Val)
    (how : How) (hq : (c.blk b).regular = .quietNone) (hd : (c.blk b).initdef = some (v, how))
    (hok : s.ok = true) (hu : (s.out b).isUndef = true) :
    step2 c rec b s =
      (if !(rec (applyCall how b v) (((s.setSteps b (-2)).push (.regular b)).push (.initdef b true))).ok
       then rec (applyCall how b v) (((s.setSteps b (-2)).push (.regular b)).push (.initdef b true))
       else (rec (applyCall how b v)
         (((s.setSteps b (-2)).push (.regular b)).push (.initdef b true))).setSteps b 2) :=
  step2_initasync_uses_initdef c rec b s v how hq hd hok hu

/-- delivered: neither None nor the initdef is applied -/
theorem initasync_initdef_unused_if_delivered (c : Cfg) (rec : Call → St → St) (b : Nat) (s : St)
    (hq : (c.blk b).regular = .quietNone) (hok : s.ok = true) (hu : (s.out b).isUndef = false) :
    step2 c rec b s = ((s.setSteps b (-2)).push (.regular b)).setSteps b 2 :=
  step2_initasync_initialised c rec b s hq hok hu

/-- the output None without output events is set only when NO initdef was given -/
theorem initasync_none_only_without_initdef (c : Cfg) (rec : Call → St → St) (b : Nat) (s : St)
    (hq : (c.blk b).regular = .quietNone) (hd : (c.blk b).initdef = Option.none)
    (hok : s.ok = true) (hu : (s.out b).isUndef = true) :
    step2 c rec b s = (((s.setSteps b (-2)).push (.regular b)).setOut b Val.none).setSteps b 2 :=
  step2_initasync_no_initdef c rec b s hq hd hok hu

/-- a failing coroutine, the falsy default 0 and a destination that only the event can initialise:
    the default is used and forwarded, start-up succeeds -/
example : ∃ c, (run c).failed = false ∧ (run c).out 0 = Val.int 0 ∧ (run c).out 1 = Val.int 0 ∧
    Entry.initdef 0 true ∈ (run c).log :=
  ⟨{ n := 2, blk := fun i => if i = 0 then { async := .fails 5, timeout := 10, regular := .quietNone,
                                             initdef := some (Val.int 0, .direct), dests := [1] } else {},
     fuel := 32 }, by decide, by decide, by decide, by decide⟩

namespace TrTie

/-- the model's `quietNone` IS the translated `InitAsync.init_regular` applied to the block's output and initdef
    (guard, the `Block.is_initialized` it calls, and the action list are taken from the current source by
    tools/py2lean_init.py; names are resolved through the MRO / module globals, not by spelling): a changed guard -- e.g. the truth value of the initdef instead
    of `is not UNDEF` -- changes the generated definition and this theorem stops compiling -/
theorem translated_initasync_regular_is_model (c : Cfg) (rec : Call → St → St) (b : Nat) (a : St)
    (hq : (c.blk b).regular = .quietNone)
    (hv : ∀ v h, (c.blk b).initdef = some (v, h) → v.isUndef = false) :
    regularBody c rec b a =
      applyActs rec b (Edzed.Gen.TrInit.initAsyncRegular (a.out b) (initdefVal (c.blk b))) false a :=
  regularBody_tie c rec b a hq hv

/-! #### `Circuit.init_sblock`, `_init_sblocks_sync_1`, `_init_sblocks_sync_2` (tools/py2lean_initsb.py) -/

open Edzed.Gen.TrD Edzed.Gen.TrI

/-- the program generated from the current source of `Circuit.init_sblock` IS the reference program
    (steps, conditions, order of the routines, the `try` around them): definitionally -/
theorem translated_init_sblock_is_reference {σ ε β : Type} :
    @init_sblock σ ε β = @isbRef σ ε β := rfl

theorem translated_init_sblocks_sync_1_is_reference {σ ε β : Type} (P : InitPrims σ ε β) :
    init_sblocks_sync_1 P = sync1Ref P := by
  have h1 : ∀ l, init_sblocks_sync_1_for1 P l = initLoop P l := by
    intro l; induction l with
    | nil => rfl
    | cons a r ih => simp only [init_sblocks_sync_1_for1, initLoop, ih]
  unfold init_sblocks_sync_1 sync1Ref
  rw [h1]

theorem translated_init_sblocks_sync_2_is_reference {σ ε β : Type} (P : InitPrims σ ε β) (fuel : Nat) :
    init_sblocks_sync_2 P fuel = sync2Ref P fuel := by
  have h1 : ∀ l, init_sblocks_sync_2_for1 P l = initLoop P l := by
    intro l; induction l with
    | nil => rfl
    | cons a r ih => simp only [init_sblocks_sync_2_for1, initLoop, ih]
  have h2 : ∀ l, init_sblocks_sync_2_for2 P l = checkLoop P l := by
    intro l; induction l with
    | nil => rfl
    | cons a r ih => simp only [init_sblocks_sync_2_for2, checkLoop, ih]
  have h3 : ∀ l, init_sblocks_sync_2_for3 P l = saveLoop P l := by
    intro l; induction l with
    | nil => rfl
    | cons a r ih => simp only [init_sblocks_sync_2_for3, saveLoop, ih]
  have h4 : ∀ n, init_sblocks_sync_2_loop4 P n = drainLoop P n := by
    intro n; induction n with
    | zero => rfl
    | succ k ih => simp only [init_sblocks_sync_2_loop4, drainLoop, ih]
  unfold init_sblocks_sync_2 sync2Ref
  simp only [h1, h2, h3, h4]

/-- the translated `init_sblock`, run with the routines of block `b` as operations of the model, IS the model's
    `initBody` -- in every run in which no routine (and nothing it triggers) calls `Circuit.abort()` -/
theorem translated_init_sblock_is_model (c : Cfg) (rec : Call → St → St) (b : Nat) (full : Bool) (s : St)
    (hok : s.ok = true) (hna : (initBody c rec b full s).aborted = false) :
    runM (init_sblock (isbPrims c rec) b full) s = initBody c rec b full s := by
  rw [translated_init_sblock_is_reference]
  exact isbRef_model c rec b full s hok hna

/-- ... hence it is one step of the model's call tree -/
theorem translated_init_sblock_is_exec (c : Cfg) (fuel : Nat) (b : Nat) (full : Bool) (s : St)
    (hok : s.ok = true) (hna : (exec c (fuel + 1) (.initS b full) s).aborted = false) :
    runM (init_sblock (isbPrims c (exec c fuel)) b full) s = exec c (fuel + 1) (.initS b full) s := by
  have e : exec c (fuel + 1) (.initS b full) s = initBody c (exec c fuel) b full s := by
    simp [exec, body, hok]
  rw [e] at hna ⊢
  exact translated_init_sblock_is_model c (exec c fuel) b full s hok hna

/-- The abort case.  After a routine has called `Circuit.abort()` (through an event handler or a monitored
    task) the Python code goes on -- the remaining routines of the block still run --, the model stops at the
    abort.  Not an equality: both end in a state whose error register is set, i.e. the start-up fails
    (`failed_init_raises`) and nothing the code still did is observed. -/
theorem translated_init_sblock_after_abort_partial (c : Cfg) (rec : Call → St → St)
    (hst : ∀ call s, s.aborted = true → (rec call s).aborted = true) (b : Nat) (full : Bool) (s : St)
    (hok : s.ok = true) (hab : (initBody c rec b full s).aborted = true) :
    (runM (init_sblock (isbPrims c rec) b full) s).aborted = true := by
  rw [translated_init_sblock_is_reference]
  exact isbRef_abort c rec hst b full s hok hab

/-- the hypothesis of the abort case holds for the model's call tree -/
theorem translated_init_sblock_exec_keeps_abort (c : Cfg) (fuel : Nat) :
    ∀ call s, s.aborted = true → (exec c fuel call s).aborted = true :=
  exec_abortSticky c fuel

/-- `_init_sblocks_sync_1` translated IS the model's synchronous phase (blocks in creation order,
    `init_sblock(blk, full=False)` = `.initS b false`; it ends at the first exception) -/
theorem translated_init_sblocks_sync_1_is_model (c : Cfg) (s : St) (hs : s.exc = Option.none) :
    runM (init_sblocks_sync_1 (isbPrims c (exec c c.fuel))) s = syncPhase c s := by
  rw [translated_init_sblocks_sync_1_is_reference]
  exact sync1Ref_model c s hs

/-- `_init_sblocks_sync_2` translated IS the second synchronous phase followed by the all-initialised test --
    when nothing has aborted (after an abort the code still runs the test loop, the model has stopped).
    Outside the model, instantiated as absent: the storage, `save_persistent_state`, the queue of changed blocks -/
theorem translated_init_sblocks_sync_2_is_model (c : Cfg) (fuel : Nat) (s : St) (hs : s.exc = Option.none)
    (hna : (syncPhase c s).aborted = false) :
    runM (init_sblocks_sync_2 (isbPrims c (exec c c.fuel)) (fuel + 1)) s = check c (syncPhase c s) := by
  rw [translated_init_sblocks_sync_2_is_reference]
  exact sync2Ref_model c fuel s hs hna

/-- the early-initialisation call site: the part `if 0 <= init_steps_completed < 2: with _enable_event:
    init_sblock(self, full=True)` of the translated `SBlock.event` (C11's reference program `initPart`), run with
    the C05 primitives, is the early-initialisation step of the model's `eventBody` -/
theorem translated_event_early_init_is_model (rec : Call → St → St) (d : Nat) (s : St)
    (ha : s.active d = true) :
    fin (Edzed.TrTie.initPart (earlyPrims rec d) s) =
      if 0 ≤ s.steps d ∧ s.steps d < 2
      then (rec (.initS d true) (s.setActive d false)).setActive d true
      else s :=
  initPart_is_eventBody_step rec d s ha

/-- ... and that part IS in the program generated from the current source of `SBlock.event`: the translated
    `event` is the reference program `eventRef`, whose body starts with `initPart` (the same obligation as C11's
    `translated_event_is_reference`, repeated here because the guard `0 <= init_steps_completed < 2` and the call
    `init_sblock(self, full=True)` belong to the start-up) -/
theorem translated_event_early_init_site_is_reference {σ ε τ δ ν η ρ γ : Type} :
    @Edzed.Gen.TrD.event σ ε τ δ ν η ρ γ = @Edzed.TrTie.eventRef σ ε τ δ ν η ρ γ := by
  first
  | rfl
  | (funext P fuel etype data
     unfold Edzed.Gen.TrD.event Edzed.TrTie.eventRef Edzed.TrTie.checkPart
     cases P.isStr etype <;> cases P.etypeTruthy etype <;> cases P.isEventType etype <;> rfl)

/-! #### the init waiter (`AddonAsyncInit`), `InitAsync`, `ValuePoll`, constant `init_regular`s, `get_state`,
     `_enable_event` (tools/py2lean_asyncinit.py → Gen/TranslatedAsyncInit.lean, model EdzedModel/AsyncInit.lean) -/

section asyncinit
open Edzed.AsyncInit Edzed.Gen.TrAI

/-- `AddonAsyncInit.__init__ / start / set_output / init_async` translated ARE the model's waiter operations -/
theorem translated_asyncinit_addon_is_model (env : Env) (o : Obj) (v : Val) :
    interp env 8 asyncInit_init o v = .done (aiInit o) Option.none ∧
    interp env 8 asyncInit_start o v = .done (aiStart o) Option.none ∧
    interp env 8 asyncInit_set_output o v = aiSetOutput o v ∧
    interp env 8 asyncInit_init_async o v = aiInitAsync o :=
  ⟨addon_init_model env o v, addon_start_model env o v, addon_set_output_model env o v,
   addon_init_async_model env o v⟩

/-- `InitAsync.__init__ / init_async / init_from_value` translated ARE the model's -/
theorem translated_asyncinit_initasync_is_model (env : Env) (o : Obj) (v : Val) (hc : env.asyncInitClass = false) :
    interp env 8 initAsync_init o v = iaInit env o ∧
    interp env 8 initAsync_init_async o v = iaInitAsync env o ∧
    interp env 8 initAsync_init_from_value o v = plainSetOutput o v :=
  ⟨initasync_init_model env o v, initasync_init_async_model env o v hc, initasync_init_from_value_model env o v hc⟩

/-- `ValuePoll.__init__ / _maintask (one pass of its loop) / init_from_value` translated ARE the model's -/
theorem translated_asyncinit_valuepoll_is_model (env : Env) (o : Obj) (v : Val) (hc : env.asyncInitClass = true) :
    interp env 8 valuePoll_init o v = vpInit env o ∧
    interp env 12 valuePoll_maintask o v = vpPass env o ∧
    interp env 8 valuePoll_init_from_value o v = aiSetOutput o v :=
  ⟨valuepoll_init_model env o v, valuepoll_maintask_model env o v hc, valuepoll_init_from_value_model env o v hc⟩

/-- the one-line `init_regular` of ControlBlock / Repeat / OutputAsync / OutputFunc: `set_output` of the constant
    None / 0 / 0 / False (a `Regular.sets` script of the start-up model) -/
theorem translated_asyncinit_const_init_regular_is_model (env : Env) (o : Obj) (v : Val)
    (hc : env.asyncInitClass = false) :
    interp env 8 controlBlock_init_regular o v = plainSetOutput o Val.none ∧
    interp env 8 repeat_init_regular o v = plainSetOutput o (Val.int 0) ∧
    interp env 8 outputAsync_init_regular o v = plainSetOutput o (Val.int 0) ∧
    interp env 8 outputFunc_init_regular o v = plainSetOutput o (Val.bool false) :=
  const_init_regular_model env o v hc

/-- the default `SBlock.get_state` and the `_enable_event` context manager -/
theorem translated_asyncinit_get_state_enable_event_is_model (env : Env) (o : Obj) (v : Val) :
    interp env 8 sblock_get_state o v = getState o ∧
    interp env 8 enableEvent_init o v = .done { o with blockStored := true } Option.none ∧
    interp env 8 enableEvent_enter o v = .done (eeEnter o) Option.none ∧
    interp env 8 enableEvent_exit o v = eeExit o :=
  ⟨get_state_model env o v, (enable_event_model env o v).1, (enable_event_model env o v).2.1,
   (enable_event_model env o v).2.2⟩

/-! property-level consequences -/

/-- the waiter of a started block is released by the first `set_output` of a value other than UNDEF -- and only
    by that: UNDEF is refused and leaves the waiter (and everything else) alone -/
theorem asyncinit_waiter_released_exactly_on_first_output (o : Obj) (v : Val) (hs : o.ev = some false) :
    (v.isUndef = false →
      (aiSetOutput o v).isDone = true ∧ (aiSetOutput o v).obj.ev = some true ∧
      (aiSetOutput o v).obj.out.pyEq v = true) ∧
    (v.isUndef = true → aiSetOutput o v = .raised "ValueError" o) := by
  constructor
  · intro hv
    cases hq : o.out.pyEq v <;>
      simp [aiSetOutput, sblockSetOutput, hv, hs, hq, Outcome.isDone, Outcome.obj, pyEq_self_of_not_undef v hv]
  · intro hv; simp [aiSetOutput, sblockSetOutput, hv]

/-- later outputs leave the released waiter as it is (it is never re-armed) -/
theorem asyncinit_waiter_stays_released (o : Obj) (v : Val) (hs : o.ev = some true) (hv : v.isUndef = false) :
    (aiSetOutput o v).isDone = true ∧ (aiSetOutput o v).obj.ev = some true := by
  cases hq : o.out.pyEq v <;> simp [aiSetOutput, sblockSetOutput, hv, hs, hq, Outcome.isDone, Outcome.obj]

/-- `init_async` of the add-on returns iff the waiter has been released; before that it stays suspended -/
theorem asyncinit_init_async_returns_iff_released (o : Obj) :
    ((aiInitAsync o).isDone = true ↔ o.ev = some true) ∧ (o.ev = some false → aiInitAsync o = .blocked o) := by
  constructor
  · cases he : o.ev with
    | none => simp [aiInitAsync, he, Outcome.isDone]
    | some b => cases b <;> simp [aiInitAsync, he, Outcome.isDone]
  · intro h; simp [aiInitAsync, h]

/-- ValuePoll: a poll result UNDEF is skipped (output and waiter untouched); any other result of a started,
    still waiting block becomes its output and releases the waiter, so that `init_async` returns -/
theorem valuepoll_poll_initialises_undef_skipped (env : Env) (o : Obj) (hs : o.ev = some false) :
    (env.polled.isUndef = true →
      (vpPass env o).isAgain = true ∧ (vpPass env o).obj.out = o.out ∧ (vpPass env o).obj.ev = o.ev) ∧
    (env.polled.isUndef = false →
      (vpPass env o).isAgain = true ∧ (vpPass env o).obj.out.pyEq env.polled = true ∧
      (vpPass env o).obj.ev = some true ∧ (aiInitAsync (vpPass env o).obj).isDone = true) := by
  constructor
  · intro hv; simp [vpPass, hv, Outcome.isAgain, Outcome.obj]
  · intro hv
    cases hq : o.out.pyEq env.polled <;>
      simp [vpPass, hv, hq, aiSetOutput, sblockSetOutput, hs, Outcome.isAgain, Outcome.obj, aiInitAsync,
        Outcome.isDone, pyEq_self_of_not_undef env.polled hv]

/-- ValuePoll's interval must be a positive period, InitAsync's `init_coro` a non-empty sequence -/
theorem valuepoll_interval_must_be_positive (env : Env) (o : Obj) :
    (vpInit env o).isDone = true ↔ ∃ p, env.periodOfInterval = some p ∧ ¬ p ≤ 0 := by
  unfold vpInit
  cases hp : env.periodOfInterval with
  | none => simp [Outcome.isDone]
  | some p => by_cases hle : p ≤ 0 <;> simp [hle, Outcome.isDone]

theorem initasync_init_coro_must_be_nonempty_sequence (env : Env) (o : Obj) :
    (iaInit env o).isDone = true ↔ (env.coroIsSequence = true ∧ env.coroNonEmpty = true) := by
  unfold iaInit
  cases env.coroIsSequence <;> cases env.coroNonEmpty <;> simp [Outcome.isDone]

/-- the source order of an InitAsync block over the TRANSLATED programs: when `init_async` has delivered a value
    its `init_regular` (Gen/TranslatedInit.lean) does nothing, so `init_sblock` leaves the delivered value alone
    (`translated_init_sblock_is_model`: initdef only if still uninitialised); when it has not, `init_regular` sets
    None only if there is no initdef -/
theorem initasync_delivered_value_survives_init_regular (env : Env) (o o' : Obj) (initdef : Val)
    (h : iaInitAsync env o = .done o' Option.none) :
    Edzed.Gen.TrInit.initAsyncRegular o'.out initdef = [] := by
  have hv : env.coroResult.isUndef = false := by
    cases hu : env.coroResult.isUndef with
    | false => rfl
    | true => simp [iaInitAsync, plainSetOutput, sblockSetOutput, hu] at h
  have ho : o'.out.isUndef = false := by
    cases hq : o.out.pyEq env.coroResult with
    | true =>
      simp [iaInitAsync, plainSetOutput, sblockSetOutput, hv, hq] at h
      rw [← h]; exact pyEq_not_undef _ _ hq hv
    | false =>
      simp [iaInitAsync, plainSetOutput, sblockSetOutput, hv, hq] at h
      rw [← h]; exact hv
  simp [Edzed.Gen.TrInit.initAsyncRegular, Edzed.Gen.TrInit.isInitialized, ho]

/-- `get_state` of an initialised block is its output; an uninitialised block has no state -/
theorem get_state_default (o : Obj) :
    (o.out.isUndef = false → getState o = .done o (some o.out)) ∧
    (o.out.isUndef = true → getState o = .raised "EdzedInvalidState" o) := by
  constructor <;> intro h <;> simp [getState, h]

/-- `with self._enable_event:` clears the recursion guard and puts back what it found -/
theorem enable_event_restores_flag (o : Obj) :
    (eeEnter o).active = false ∧ eeExit (eeEnter o) = .done { eeEnter o with active := o.active } Option.none := by
  simp [eeEnter, eeExit]

/-- ... which is what the early-initialisation site of the start-up model assumes (`earlyPrims`) -/
theorem enable_event_matches_early_init_site (rec : Call → St → St) (d : Nat) (s : St) (o : Obj)
    (ha : o.active = s.active d) :
    ((earlyPrims rec d).enableEnter s).1.active d = (eeEnter o).active ∧
    (eeEnter o).saved = some (s.active d) := by
  simp [earlyPrims, eeEnter, St.setActive, upd, ha]

example : ∃ o v, o.ev = some false ∧ v.isUndef = false ∧
    aiSetOutput o v = .done { o with ev := some true, out := v, trace := [.output v true] } Option.none :=
  ⟨{ ev := some false }, Val.int 5, rfl, rfl, by decide⟩

end asyncinit

/-- the states of the hypotheses exist: a block with all three synchronous sources, initialised early -/
example : ∃ c s, s.ok = true ∧ (initBody c (exec c 8) 0 true s).aborted = false ∧
    runM (init_sblock (isbPrims c (exec c 8)) 0 true) s = initBody c (exec c 8) 0 true s :=
  ⟨{ n := 1, blk := fun _ => { persist := .raises, regular := .sets (Val.int 3),
                               initdef := some (Val.int 1, .direct) }, fuel := 9 },
   init, rfl, by decide, translated_init_sblock_is_model _ _ _ _ _ rfl (by decide)⟩

end TrTie

/-- `init_async` is started only for a block that is still uninitialised and has a positive `init_timeout` -/
theorem async_only_if (c : Cfg) (b : Nat) (u : Bool) (t : Int)
    (h : Entry.async b u t ∈ (run c).log) : u = true ∧ t > 0 :=
  (run_inv c).log _ h

/-- `init_from_value(initdef)` is called only while the block is uninitialised -/
theorem initdef_only_if_uninitialised (c : Cfg) (b : Nat) (u : Bool)
    (h : Entry.initdef b u ∈ (run c).log) : u = true :=
  (run_inv c).log _ h

/-- an event handler never runs in a block with pending synchronous steps (`init_steps_completed` 0 or 1):
    the pending steps are run first -/
theorem event_runs_pending_steps_first (c : Cfg) (b : Nat) (v : Val) (k : Int)
    (h : Entry.handle b v k ∈ (run c).log) : k < 0 ∨ 2 ≤ k := by
  have := (run_inv c).log _ h
  simp only [EntryOK] at this
  omega

example : ∃ c b v, Entry.handle b v 2 ∈ (run c).log :=
  ⟨{ n := 2, blk := fun i => if i = 0 then { initdef := some (Val.int 1, .direct), dests := [1] } else {},
     fuel := 16 }, 1, Val.int 1, by decide⟩

/-- the asynchronous phase never takes longer than the largest `init_timeout` of the started routines --
    for ANY completion times, tie outcomes and list order -/
theorem bounded_wait (tasks : List Task) : (schedule tasks).1 ≤ maxTimeout tasks := by
  rw [schedule_fst]
  have := runTasks_le (sortDesc tasks) 0
  rw [maxTimeout_sortDesc] at this
  omega

/-- the same bound for the waiting loop alone, whatever the order of the list -/
theorem run_tasks_bounded (now : Nat) (l : List Task) :
    now ≤ (runTasks now l).1 ∧ (runTasks now l).1 ≤ max now (maxTimeout l) :=
  ⟨runTasks_ge l now, runTasks_le l now⟩

/-- Order independence, necessary direction only.  Full statement (validated by the correspondence over all
    creation orders and by the oracle, NOT proved): for acyclic on_output topologies and routines that do not
    raise, start-up succeeds iff every block is in `Reach` = the closure of the blocks with an own source under
    the edges.  Proved: a block gets an output only if it is in that closure -- for every topology, cyclic or
    not; `Reach` is defined from the scripts and edges alone, so this condition cannot depend on the creation
    order. -/
theorem order_independent_success_partial (c : Cfg) (v : View) (hv : v.of (run c))
    (h : waitInit v = .returned) : ∀ b, b < c.n → Reach c b := by
  intro b hb
  exact (run_inv c).out b ((wait_init_ok_implies_valid c v hv h).1 b hb)

/-- Order independence, both directions, for circuits whose blocks have synchronous sources only (persistent
    state, `init_regular`, initdef, a value set by the block's task right after `start()`; no `init_async`):
    if the init-event topology is ACYCLIC (`rk` grows along every on_output edge), no routine raises and the
    script values are defined (`Hyp`), then -- for EVERY creation order, since `c` is arbitrary and `Reach`
    is defined by scripts and edges alone -- after `_init_sblocks_sync_2` no error has occurred and the
    initialised blocks are EXACTLY the closure of the blocks with an own source under the edges.
    (`NF`: the model's recursion budget was not exhausted; `hwf`: only the circuit's blocks have scripts.)
    Not proved: the same with asynchronous routines (which of them complete in time is decided by
    `_run_tasks`; with exact ties between a completion and another block's timeout the model itself is order
    dependent) -- validated by the oracle over all creation orders. -/
theorem initialised_iff_closure_sync_partial (c : Cfg) (rk : Nat → Nat) (hyp : Hyp c rk)
    (hsync : ∀ b, (c.blk b).async = .none) (hwf : ∀ b, OwnSource (c.blk b) → b < c.n)
    (hnf : NF (syncPhase c (afterAsync c))) :
    (syncPhase c (afterAsync c)).ok = true ∧
    ∀ b, ((syncPhase c (afterAsync c)).out b ≠ .undef ↔ Reach c b) :=
  closure_sync c rk hyp hsync hwf hnf

/-- ... hence start-up succeeds iff the closure covers all blocks and the first evaluation pass does not
    fail: a condition in which the creation order does not occur -/
theorem order_independent_success_sync_partial (c : Cfg) (rk : Nat → Nat) (hyp : Hyp c rk)
    (hsync : ∀ b, (c.blk b).async = .none) (hwf : ∀ b, OwnSource (c.blk b) → b < c.n)
    (hnf : NF (syncPhase c (afterAsync c))) :
    (run c).failed = false ↔ ((∀ b, b < c.n → Reach c b) ∧ c.cblocks.any CScript.fails = false) := by
  obtain ⟨fok, hiff⟩ := closure_sync c rk hyp hsync hwf hnf
  constructor
  · intro hnf'
    have hok : (run c).ok = true := by
      have := failed_iff_not_ok (run c); rw [hnf'] at this; simpa using this.symm
    obtain ⟨hok1, _, _, _, hcb, _⟩ := firstPass_ok c (afterCheck c) hok
    obtain ⟨_, hall, _⟩ := check_ok c (syncPhase c (afterAsync c)) hok1
    refine ⟨fun b hb => (hiff b).mp ?_, hcb⟩
    simp only [allInitialised, List.all_eq_true, List.mem_range] at hall
    have := hall b hb
    intro hu; rw [hu] at this; simp [Val.isUndef] at this
  · intro ⟨hr, hcb⟩
    have hall : allInitialised c (syncPhase c (afterAsync c)) = true := by
      simp only [allInitialised, List.all_eq_true, List.mem_range]
      intro b hb
      have := (hiff b).mpr (hr b hb)
      simpa using isUndef_of_ne this
    have e1 : afterCheck c = syncPhase c (afterAsync c) := by
      show check c (syncPhase c (afterAsync c)) = _
      rw [check_of_ok c _ fok, if_pos hall]
    have hok : (run c).ok = true := by
      show (firstPass c (afterCheck c)).ok = true
      rw [e1, firstPass_of_ok c _ fok, hcb]
      exact fok
    rw [failed_iff_not_ok, hok]; rfl

/-- the hypotheses are satisfiable: a chain 0 → 1 → 2 whose first block has an initdef -/
example : ∃ c rk, Hyp c rk ∧ (∀ b, (c.blk b).async = .none) ∧ (∀ b, OwnSource (c.blk b) → b < c.n) ∧
    NF (syncPhase c (afterAsync c)) ∧ (run c).failed = false := by
  refine ⟨{ n := 3, blk := fun i => if i = 0 then { initdef := some (Val.int 1, .direct), dests := [1] }
      else if i = 1 then { dests := [2] } else {}, fuel := 64 }, id, ?_, ?_, ?_, by unfold NF; decide, by decide⟩
  · constructor <;> intro b <;> by_cases h0 : b = 0 <;> by_cases h1 : b = 1 <;>
      simp_all [Val.isUndef, Val.int]
  · intro b; by_cases h0 : b = 0 <;> by_cases h1 : b = 1 <;> simp_all
  · intro b; by_cases h0 : b = 0 <;> by_cases h1 : b = 1 <;> simp_all [OwnSource]

/-- a block without any source of its own and without an incoming edge makes every start-up fail -/
theorem unreachable_block_fails (c : Cfg) (b : Nat) (hb : b < c.n) (hn : ¬ Reach c b)
    (v : View) (hv : v.of (run c)) : waitInit v ≠ .returned :=
  fun h => hn (order_independent_success_partial c v hv h b hb)

end Edzed.Init
