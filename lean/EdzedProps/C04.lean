/-
C04 — a timed state yields its timed event exactly once, on time, unless left earlier.

Model: EdzedModel/FsmTimer.lean (mirrors `FSM._ctx_event`, `_start_timer`, `_set_timer`,
`_stop_timer`, `_timer_expired`, `get_state`, `stop` with the repairs of patches/C04-*.diff, and
the loop's `call_later` handles of the FSM).  The handles are a list and `_active_timer` an
optional id; `_set_timer` appends and `_stop_timer` cancels the active handle only, so every
statement about "the" timer below is a theorem.

All statements are for every configuration (table, durations, conditions, entry actions) and every
sequence of operations (initialisation, events placed before/after the timers of their instant,
clock advances, changes of the environment flag, stop) — `run c {} ops`, no bound on the length.
-/
import EdzedModel.FsmTimer
import EdzedProofs.FsmTimer
import EdzedModel.Gen.Constants

namespace Edzed.FsmTimer

/-- **one_timer**: in every reachable state all non-cancelled handles of the loop that belong to
    the FSM are exactly the active one: none pending and `_active_timer = None`, or exactly one
    pending handle and `_active_timer` is that handle -/
theorem one_timer (c : Cfg) (ops : List Op) :
    (live (run c {} ops) = [] ∧ (run c {} ops).active = none) ∨
    (∃ h, live (run c {} ops) = [h] ∧ (run c {} ops).active = some h.id) := by
  rcases (inv_run c ops {} (inv_init c)).timer with h | ⟨h, hl, ha, _⟩
  · exact .inl h
  · exact .inr ⟨h, hl, ha⟩

/-- the pending timer always belongs to the present: it was armed during the current visit of the
    current state, that state is a timed state, the handle carries that state's timed event, and
    (while the simulation has not been aborted) it is not overdue; a stopped FSM has none -/
theorem pending_timer_is_current (c : Cfg) (ops : List Op) (h : Handle)
    (hm : h ∈ live (run c {} ops)) :
    h.epoch = (run c {} ops).epoch ∧
    ((run c {} ops).failed = none → (run c {} ops).now ≤ h.when) ∧
    (run c {} ops).stopped = false ∧
    ∃ q dflt, (run c {} ops).state = some q ∧ c.tbl.timedOf q = some (h.ev, dflt) := by
  rcases (inv_run c ops {} (inv_init c)).timer with ⟨hl, _⟩ | ⟨h', hl, _, he, hw, hs, hq⟩
  · rw [hl] at hm; cases hm
  · rw [hl] at hm
    simp only [List.mem_singleton] at hm
    subst hm
    exact ⟨he, hw, hs, hq⟩

/-- **no_stale_event / on time**: every timed event that was ever delivered came from a handle
    armed during the very visit in which it was delivered (a handle armed by an earlier visit never
    delivers), and it was delivered exactly at the handle's expiry time -/
theorem no_stale_event (c : Cfg) (ops : List Op) (t : Nat) (h : Handle) (ep : Nat)
    (hx : (t, h, ep) ∈ fires (run c {} ops).log) : h.epoch = ep ∧ t = h.when := by
  have := (inv_run c ops {} (inv_init c)).logOk _ hx
  exact ⟨this.1, this.2.1⟩

/-- **fires at most once**: no two deliveries of timed events happen in the same visit of a state -/
theorem fires_at_most_once_per_visit (c : Cfg) (ops : List Op) :
    ((fires (run c {} ops).log).map (fun x => x.2.2)).Nodup :=
  (inv_run c ops {} (inv_init c)).nodup

/-- **stop_cancels**: right after `stop()` nothing is pending, and whatever happens afterwards
    (events delivered during the clean-up, the clock running on) no timer is pending and no timed
    event is delivered any more -/
theorem stop_cancels (c : Cfg) (ops ops' : List Op) :
    live (run c {} (ops ++ [.stop] ++ ops')) = [] ∧
    fires (run c {} (ops ++ [.stop] ++ ops')).log = fires (run c {} ops).log := by
  have i := inv_run c ops {} (inv_init c)
  have hrun : run c {} (ops ++ [.stop] ++ ops') = run c (stop (run c {} ops)) ops' := by
    simp [run, List.foldl_append, step]
  rw [hrun]
  have is := inv_stop i
  have r := run_stopped c ops' _ is.1 rfl
  refine ⟨(idle_of_stopped (inv_run c ops' _ is.1) r.1).1, r.2.trans ?_⟩
  exact (stopTimer_spec i.timer).2.1

/-- non-vacuity: a monostable Timer(t_on = 3 s) that is started at 1 s, restarted at 2 s with a
    per-event duration of 0.5 s, and expires at 2.5 s -/
example :
    let s := run (timerCfg (.us 3000000) .none true) {}
      [.init, .ev 1000000 .after (.ev "start") {}, .ev 2000000 .before (.ev "start") { dur := .us 500000 },
       .advance 5000000]
    s.state = some "off" ∧ live s = [] ∧
    (fires s.log).map (fun x => (x.1, x.2.1.id)) = [(2500000, 1)] := by decide +kernel

end Edzed.FsmTimer
