/-
C04 — a timed state yields its timed event exactly once, on time, unless left earlier.

Model: EdzedModel/FsmTimer.lean (mirrors `FSM._ctx_event`, `_start_timer`, `_set_timer`,
`_stop_timer`, `_timer_expired`, `get_state`, `stop` with the repairs of patches/C04-*.diff, and
the loop's `call_later` handles of the FSM).  The handles are a list and `_active_timer` an
optional id; `_set_timer` appends and `_stop_timer` cancels the active handle only, so every
statement about "the" timer below is a theorem.

All statements are for every configuration (table, durations, conditions, entry actions) and every
sequence of operations (initialisation, events placed before/after the timers of their instant,
clock advances, changes of the environment flag, stop, and the restoring of a saved state with a `calc_output()`
that works, raises or returns UNDEF) — `run c {} ops`, no bound on the length.
-/
import EdzedModel.FsmTimer
import EdzedProofs.FsmTimer
import EdzedProofs.FsmTie
import EdzedProofs.FsmTimerTie
import EdzedProofs.FsmRestoreTie
import EdzedProofs.TimerBlkTie
import EdzedModel.Gen.TranslatedFsmTimer
import EdzedModel.Gen.TranslatedFsm
import EdzedModel.Gen.TranslatedTimerBlk
import EdzedModel.Gen.Constants

namespace Edzed.FsmTimer

/-- **one_timer**: in every reachable state all non-cancelled handles of the loop that belong to
    the FSM are exactly the active one: none pending and `_active_timer = None`, or exactly one
    pending handle and `_active_timer` is that handle -/
theorem one_timer (c : Cfg) (ops : List Op) :
    (live (run c {} ops) = [] ∧ (run c {} ops).active = none) ∨
    (∃ h, live (run c {} ops) = [h] ∧ (run c {} ops).active = some h.id) := by
  rcases (inv_run c ops {} (inv_init c)).timer with h | ⟨h, hl, ha, _⟩
  · exact .inl h
  · exact .inr ⟨h, hl, ha⟩

/-- the pending timer always belongs to the present: it was armed during the current visit of the
    current state, that state is a timed state, the handle carries that state's timed event, and
    (while the simulation has not been aborted) it is not overdue; a stopped FSM has none -/
theorem pending_timer_is_current (c : Cfg) (ops : List Op) (h : Handle)
    (hm : h ∈ live (run c {} ops)) :
    h.epoch = (run c {} ops).epoch ∧
    ((run c {} ops).failed = none → (run c {} ops).now ≤ h.when) ∧
    (run c {} ops).stopped = false ∧
    ∃ q dflt, (run c {} ops).state = some q ∧ c.tbl.timedOf q = some (h.ev, dflt) := by
  rcases (inv_run c ops {} (inv_init c)).timer with ⟨hl, _⟩ | ⟨h', hl, _, he, hw, hs, hq⟩
  · rw [hl] at hm; cases hm
  · rw [hl] at hm
    simp only [List.mem_singleton] at hm
    subst hm
    exact ⟨he, hw, hs, hq⟩

/-- **no_stale_event / on time**: every timed event that was ever delivered came from a handle
    armed during the very visit in which it was delivered (a handle armed by an earlier visit never
    delivers), and it was delivered exactly at the handle's expiry time -/
theorem no_stale_event (c : Cfg) (ops : List Op) (t : Nat) (h : Handle) (ep : Nat)
    (hx : (t, h, ep) ∈ fires (run c {} ops).log) : h.epoch = ep ∧ t = h.when := by
  have := (inv_run c ops {} (inv_init c)).logOk _ hx
  exact ⟨this.1, this.2.1⟩

/-- **fires at most once**: no two deliveries of timed events happen in the same visit of a state -/
theorem fires_at_most_once_per_visit (c : Cfg) (ops : List Op) :
    ((fires (run c {} ops).log).map (fun x => x.2.2)).Nodup :=
  (inv_run c ops {} (inv_init c)).nodup

/-- **stop_cancels**: right after `stop()` nothing is pending, and whatever happens afterwards
    (events delivered during the clean-up, the clock running on) no timer is pending and no timed
    event is delivered any more -/
theorem stop_cancels (c : Cfg) (ops ops' : List Op) :
    live (run c {} (ops ++ [.stop] ++ ops')) = [] ∧
    fires (run c {} (ops ++ [.stop] ++ ops')).log = fires (run c {} ops).log := by
  have i := inv_run c ops {} (inv_init c)
  have hrun : run c {} (ops ++ [.stop] ++ ops') = run c (stop (run c {} ops)) ops' := by
    simp [run, List.foldl_append, step]
  rw [hrun]
  have is := inv_stop i
  have r := run_stopped c ops' _ is.1 rfl
  refine ⟨(idle_of_stopped (inv_run c ops' _ is.1) r.1).1, r.2.trans ?_⟩
  exact (stopTimer_spec i.timer).2.1

/-- **fires_once_on_time**: in a reachable state with a pending timer `h` (armed when the timed
    state was entered, see `entering_arms_timer`), letting the clock pass `h.when` (up to `t`;
    `strict` = the stimulus placed at `t` comes before the timers of `t`) while the state is kept
    delivers the timed event of this visit at `h.when`; by `fires_at_most_once_per_visit` and
    `no_stale_event` it is the only delivery of this visit and it is on time -/
theorem fires_once_on_time (c : Cfg) (ops : List Op) (h : Handle) (t : Nat) (strict : Bool)
    (hf : (run c {} ops).failed = none) (hl : live (run c {} ops) = [h])
    (hd : isDue t strict h = true) :
    (h.when, h, (run c {} ops).epoch) ∈ fires (advance c (run c {} ops) t strict).log :=
  advance_fires (inv_run c ops {} (inv_init c)) hf h hl t strict hd

/-- **leave_cancels**: an accepted event (the state is left or re-entered) cancels the pending
    timer: the old handle is not pending any more and whatever is pending afterwards was armed in a
    later visit -/
theorem leave_cancels (c : Cfg) (ops : List Op) (e : TEvent) (d : EvData) (h : Handle)
    (hf : (run c {} ops).failed = none) (hm : h ∈ live (run c {} ops))
    (hr : (deliver c (run c {} ops) e d).2 = .ret true) :
    h ∉ live (deliver c (run c {} ops) e d).1 ∧
    ∀ h' ∈ live (deliver c (run c {} ops) e d).1, h.epoch < h'.epoch :=
  deliver_accepted (inv_run c ops {} (inv_init c)) hf e d h hm hr

/-- **rejected_timed_event_leaves_no_timer** and **timer_state_none_after_fire**: when the timer
    expires and its timed event is rejected (no transition or a false condition), the FSM stays in
    the state, in the same visit, nothing is pending, `_active_timer` is None and `get_state()`
    reports no timer -/
theorem rejected_timed_event_leaves_no_timer (c : Cfg) (ops : List Op) (h : Handle) (q : String)
    (hf : (run c {} ops).failed = none) (hm : h ∈ live (run c {} ops))
    (hq : (run c {} ops).state = some q)
    (hr : (deliver c (popTimer (run c {} ops) h) h.ev {}).2 = .ret false) :
    (fire c (run c {} ops) h).state = some q ∧
    live (fire c (run c {} ops) h) = [] ∧ (fire c (run c {} ops) h).active = none ∧
    getState (fire c (run c {} ops) h) = some (q, none) := by
  have r := fire_rejected (inv_run c ops {} (inv_init c)) hf h hm hr
  exact ⟨r.2.1.trans hq, r.1.1, r.1.2, getState_idle r.1 q (r.2.1.trans hq)⟩

/-- **timer_state_none_after_fire**, general form: whenever `get_state()` reports a timer, that
    timer is the one pending handle of the loop (so it is never a timer that has already fired or
    was cancelled), and it is not in the past -/
theorem get_state_reports_the_pending_timer (c : Cfg) (ops : List Op) (q : String) (w : Nat)
    (h : getState (run c {} ops) = some (q, some w)) :
    ∃ hd, live (run c {} ops) = [hd] ∧ hd.when = w ∧
      ((run c {} ops).failed = none → (run c {} ops).now ≤ w) := by
  have i := inv_run c ops {} (inv_init c)
  obtain ⟨hd, hl, hw, _⟩ := getState_some i q w h
  refine ⟨hd, hl, hw, fun hf => ?_⟩
  have := (pending_timer_is_current c ops hd (by rw [hl]; simp)).2.1 hf
  omega

/-- **duration_precedence**: the event's 'duration' item overrides the instance's `t_STATE`, which
    overrides the class default; negative numbers count as zero -/
theorem duration_precedence (c : Cfg) (q : String) (item inst : Dur) :
    (item ≠ .none → effDur c q item = clamp item) ∧
    (c.tDur.lookup q = some inst → inst ≠ .none → effDur c q .none = clamp inst) ∧
    ((c.tDur.lookup q = none ∨ c.tDur.lookup q = some .none) →
      effDur c q .none = clamp (match c.tbl.timedOf q with | some (_, d) => d | none => .none)) ∧
    (∀ n : Int, clamp (.us n) = .us (if n < 0 then 0 else n)) := by
  refine ⟨?_, ?_, ?_, fun _ => rfl⟩
  · intro h; cases item <;> simp_all [effDur]
  · intro h1 h2; cases inst <;> simp_all [effDur, Cfg.instDur]
  · intro h; rcases h with h | h <;> simp only [effDur, Cfg.instDur, h] <;> cases c.tbl.timedOf q <;> rfl

/-- … and what `_start_timer` does with the effective duration: no duration at all is an error,
    INF_TIME sets no timer, zero or negative generates the timed event immediately (chained
    transition), a positive duration arms one handle due exactly `d` later -/
theorem start_timer_by_effective_duration (c : Cfg) (s : St) (q : String) (tev : TEvent) (item : Dur) :
    (effDur c q item = .none → startTimer c s q tev item = s.fail .circuitError) ∧
    (effDur c q item = .bad → startTimer c s q tev item = s.fail .valueError) ∧
    (effDur c q item = .inf → startTimer c s q tev item = s) ∧
    (∀ n, effDur c q item = .us n → n ≤ 0 → startTimer c s q tev item = (eventRec c s tev {}).1) ∧
    (∀ n, effDur c q item = .us n → 0 < n → s.stopped = false → live s = [] →
      live (startTimer c s q tev item) =
        [{ id := s.nextId, when := s.now + n.toNat, ev := tev, epoch := s.epoch }]) := by
  refine ⟨?_, ?_, ?_, ?_, ?_⟩
  · intro h; simp [startTimer, h]
  · intro h; simp [startTimer, h]
  · intro h; simp [startTimer, h]
  · intro n h hn; simp [startTimer, h, hn]
  · intro n h hn hs hl
    have : ¬ n ≤ 0 := by omega
    simp only [startTimer, h, this, ↓reduceIte]
    exact live_setTimer s n.toNat tev hs hl

/-- **entering_arms_timer**: one round of the transition loop that starts without pending timer
    (the exit part has cancelled it) ends without pending timer or with exactly one handle that
    belongs to the visit just begun, carries the timed event of the entered state and is due
    strictly later; the round never delivers a timed event -/
theorem entering_arms_timer (c : Cfg) (s : St) (d : EvData) (q : String)
    (hi : live s = [] ∧ s.active = none) :
    let s' := enterState c s d q
    s'.epoch = s.epoch + 1 ∧ fires s'.log = fires s.log ∧
    ((live s' = [] ∧ s'.active = none) ∨
     ∃ h, live s' = [h] ∧ s'.active = some h.id ∧ h.epoch = s'.epoch ∧ s'.now < h.when ∧
       ∃ q' dflt, s'.state = some q' ∧ c.tbl.timedOf q' = some (h.ev, dflt)) := by
  have es := enterState_ES c s d q hi
  refine ⟨es.epoch, es.fires, ?_⟩
  rcases es.timer with h | ⟨⟨h, hl, ha, he, hw, _, hq⟩, _⟩
  · exact .inl h
  · exact .inr ⟨h, hl, ha, he, hw, hq⟩

/-! ### restoring a saved state (`_restore_state`) -/

/-- **restore_failure_leaves_no_timer**: for every configuration, every state the simulation can be in when it
    restores a block (not aborted, the block not initialised) and every saved state `(q, exp, sdata)`: when
    `calc_output()` raises or yields UNDEF for the restored state -- i.e. whenever it does not deliver an output --
    the block is still not initialised afterwards, `_active_timer` is None and no handle of the FSM is pending in
    the loop.  (`hcalc` holds by definition for the modes `raises` and `undef`, see the examples below.) -/
theorem restore_failure_leaves_no_timer (c : Cfg) (ops : List Op) (q : String) (exp : Option Nat)
    (sd : Option Val) (m : CalcMode)
    (hf : (run c {} ops).failed = none) (hu : (run c {} ops).out.isUndef = true)
    (hcalc : ∀ v, calcFor c (((run c {} ops).enter q).setInput sd) m = some v → v.isUndef = true) :
    (step c (run c {} ops) (.restore q exp sd m)).1 = (restore c (run c {} ops) q exp sd m).1 ∧
    (restore c (run c {} ops) q exp sd m).1.out.isUndef = true ∧
    (restore c (run c {} ops) q exp sd m).1.active = none ∧
    live (restore c (run c {} ops) q exp sd m).1 = [] := by
  have i := inv_run c ops {} (inv_init c)
  generalize run c {} ops = s at hf hu hcalc i
  have hund : (restore c s q exp sd m).1.out.isUndef = true := by
    rcases restore_out c s q exp sd m hu with h | ⟨_, h⟩
    · exact h
    · exact hcalc _ h
  have sp := restore_spec i hf hu q exp sd m
  have hi := sp.2.2.2.2.2.2.2 hund
  refine ⟨?_, hund, hi.2, hi.1⟩
  simp [step, hf, hu]

/-- **restore_then_goto_has_one_live_timer**: after a restore -- failed or not -- followed by the initialisation
    `init_from_value(initdef)` = `Goto(initdef)`, at most one handle is pending, it is the active one, and it belongs
    to the current visit of the current state (it carries that state's timed event).  With the order of statements
    `_restore_state` had before the repair this is FALSE: see `restoreOld` and the example below. -/
theorem restore_then_goto_has_one_live_timer (c : Cfg) (ops : List Op) (q : String) (exp : Option Nat)
    (sd : Option Val) (m : CalcMode) :
    (live (run c {} (ops ++ [.restore q exp sd m, .init])) = [] ∧
      (run c {} (ops ++ [.restore q exp sd m, .init])).active = none) ∨
    ∃ h, live (run c {} (ops ++ [.restore q exp sd m, .init])) = [h] ∧
      (run c {} (ops ++ [.restore q exp sd m, .init])).active = some h.id ∧
      h.epoch = (run c {} (ops ++ [.restore q exp sd m, .init])).epoch ∧
      ∃ q' dflt, (run c {} (ops ++ [.restore q exp sd m, .init])).state = some q' ∧
        c.tbl.timedOf q' = some (h.ev, dflt) := by
  rcases (inv_run c (ops ++ [.restore q exp sd m, .init]) {} (inv_init c)).timer with h | ⟨h, hl, ha, he, _, _, hq⟩
  · exact .inl h
  · exact .inr ⟨h, hl, ha, he, hq⟩

/-- the hypotheses are satisfiable and the statements not empty: `Timer(t_on=5s, initdef='on')`, saved state
    `('on', expiry in 100 s)`, `calc_output()` raises (or returns UNDEF) during the restore: no timer afterwards, and
    after the initdef exactly one, due 5 s from now; a successful restore keeps the saved expiry -/
example :
    (∀ v, calcFor (timerCfg (.us 5000000) .none true "on") ((({} : St).enter "on").setInput none) .raises = some v →
      v.isUndef = true) ∧
    (∀ v, calcFor (timerCfg (.us 5000000) .none true "on") ((({} : St).enter "on").setInput none) .undef = some v →
      v.isUndef = true) ∧
    (let s := run (timerCfg (.us 5000000) .none true "on") {} [.restore "on" (some 100000000) none .raises]
     s.state = some "on" ∧ s.out.isUndef = true ∧ live s = [] ∧ s.active = none) ∧
    (let s := run (timerCfg (.us 5000000) .none true "on") {} [.restore "on" (some 100000000) none .raises, .init]
     (live s).map (fun h => (h.id, h.when)) = [(0, 5000000)] ∧ s.out = .bool true) ∧
    (let s := run (timerCfg (.us 5000000) .none true "on") {} [.restore "on" (some 100000000) none .undef, .init]
     (live s).map (fun h => (h.id, h.when)) = [(0, 5000000)]) ∧
    (let s := run (timerCfg (.us 5000000) .none true "on") {} [.restore "on" (some 100000000) none .normal]
     (live s).map (fun h => (h.id, h.when)) = [(0, 100000000)] ∧ s.out = .bool true) := by
  refine ⟨by intro v h; simp [calcFor] at h, by intro v h; simp [calcFor] at h; rw [← h]; rfl, ?_⟩
  decide +kernel

/-- **the finding, machine-checked**: with the statement order `_restore_state` had BEFORE the repair (`restoreOld`:
    timer first, then state and `calc_output()`), the same scenario ends with TWO live handles: the one armed by
    the failed restore (id 0, due at 100 s) is orphaned -- `_active_timer` points to the new one (id 1) -- it
    survives `stop()`, and when the clock reaches its expiry it fires into the FSM: the Timer switched on at 99 s
    (due off at 104 s) gets a stale `stop` at 100 s, and as `_timer_expired` forgets `_active_timer`, the handle for
    104 s is not cancelled either and stays pending in state `off`.  `restore_then_goto_has_one_live_timer` is
    false for `restoreOld`. -/
example :
    (let s := (initOp (timerCfg (.us 5000000) .none true "on")
        (restoreOld (timerCfg (.us 5000000) .none true "on") {} "on" (some 100000000) none .raises).1).1
     (live s).map (fun h => (h.id, h.when)) = [(0, 100000000), (1, 5000000)] ∧ s.active = some 1 ∧
     (live (stop s)).map (fun h => (h.id, h.when)) = [(0, 100000000)]) ∧
    (let s := run (timerCfg (.us 5000000) .none true "on")
        (initOp (timerCfg (.us 5000000) .none true "on")
          (restoreOld (timerCfg (.us 5000000) .none true "on") {} "on" (some 100000000) none .raises).1).1
        [.ev 99000000 .after (.ev "start") {}, .advance 100000000]
     (fires s.log).map (fun x => (x.1, x.2.1.id, x.2.1.ev)) = [(5000000, 1, .ev "stop"), (100000000, 0, .ev "stop")] ∧
     s.state = some "off" ∧ (live s).map (fun h => (h.id, h.when)) = [(2, 104000000)]) := by
  decide +kernel

/-! ### the library blocks, over the tables generated from the source -/

/-- the whole generated transition table of `Timer`: `start` leads to on and `stop` to off from
    every state, `toggle` swaps; both states are timed, on → `stop`, off → `start`, default INF -/
theorem timer_table : (∀ q ∈ timerTable.states,
      timerTable.lookup "start" q = some "on" ∧ timerTable.lookup "stop" q = some "off" ∧
      timerTable.lookup "toggle" q = some (if q == "on" then "off" else "on")) ∧
    timerTable.timedOf "on" = some (.ev "stop", .inf) ∧
    timerTable.timedOf "off" = some (.ev "start", .inf) ∧
    timerTable.states = ["off", "on"] ∧ timerTable.events = ["start", "stop", "toggle"] ∧
    timerTable.chainLimit = 3 * timerTable.states.length ∧
    Gen.timerMethods = [("cond", "start"), ("cond", "stop")] := by decide

/-- `restartable`: a not restartable Timer rejects `start` while on and `stop` while off, a
    restartable one accepts them (and thereby restarts the timer, `leave_cancels`); the other
    direction is always accepted -/
theorem timer_restartable (a b : Dur) (r : Bool) (s : St) (d : EvData) (ho : s.out.isUndef = false) :
    (s.state = some "on" →
      (resolve (timerCfg a b r) s (.ev "start") d).2 = if r then .target "on" else .reject) ∧
    (s.state = some "off" →
      (resolve (timerCfg a b r) s (.ev "stop") d).2 = if r then .target "off" else .reject) ∧
    (s.state = some "off" → (resolve (timerCfg a b r) s (.ev "start") d).2 = .target "on") ∧
    (s.state = some "on" → (resolve (timerCfg a b r) s (.ev "stop") d).2 = .target "off") := by
  have e1 : "start" ∈ timerTable.events := by decide
  have e2 : "stop" ∈ timerTable.events := by decide
  have l1 : timerTable.lookup "start" "on" = some "on" := by decide
  have l2 : timerTable.lookup "stop" "off" = some "off" := by decide
  have l3 : timerTable.lookup "start" "off" = some "on" := by decide
  have l4 : timerTable.lookup "stop" "on" = some "off" := by decide
  refine ⟨?_, ?_, ?_, ?_⟩ <;> intro hs <;> cases r <;>
    simp [resolve, timerCfg, e1, e2, l1, l2, l3, l4, hs, ho, Cfg.condsOf, evalConds, evalCond]

/-- the durations of a Timer: `t_on` / `t_off` of the instance, else the generated default INF -/
theorem timer_durations (a b : Dur) (r : Bool) :
    effDur (timerCfg a b r) "on" .none = clamp (if a = .none then .inf else a) ∧
    effDur (timerCfg a b r) "off" .none = clamp (if b = .none then .inf else b) := by
  have h1 : timerTable.timedOf "on" = some (.ev "stop", .inf) := by decide
  have h2 : timerTable.timedOf "off" = some (.ev "start", .inf) := by decide
  constructor
  · cases a <;> simp [effDur, Cfg.instDur, timerCfg, h1]
  · have hl : ∀ x : Dur, List.lookup "off" [("on", a), ("off", x)] = some x := by
      intro x; simp [List.lookup]
    cases b <;> simp [effDur, Cfg.instDur, timerCfg, h2, hl]

/-- monostable `Timer(t_on=1s)`, not restartable: `start` at 2 s, a second `start` at 2.5 s is
    rejected and does not prolong; one `stop` is delivered at 3 s; restartable: it is at 3.5 s -/
theorem timer_monostable :
    (let s := run (timerCfg (.us 1000000) .none false) {}
        [.init, .ev 2000000 .after (.ev "start") {}, .ev 2500000 .after (.ev "start") {}, .advance 9000000]
     s.state = some "off" ∧ live s = [] ∧ s.out = .bool false ∧
     (fires s.log).map (fun x => (x.1, x.2.1.ev)) = [(3000000, .ev "stop")]) ∧
    (let s := run (timerCfg (.us 1000000) .none true) {}
        [.init, .ev 2000000 .after (.ev "start") {}, .ev 2500000 .after (.ev "start") {}, .advance 9000000]
     s.state = some "off" ∧ live s = [] ∧
     (fires s.log).map (fun x => (x.1, x.2.1.ev)) = [(3500000, .ev "stop")]) := by decide +kernel

/-- bistable `Timer()` (both durations INF): no timer is ever armed; astable
    `Timer(t_on=0.3s, t_off=0.7s)` = `t_period` with unequal halves: it toggles for ever, one event
    per visit, on time; a stimulus placed before the timers of the expiry instant (B) wins -/
theorem timer_bistable_astable :
    (let s := run (timerCfg .none .none true) {}
        [.init, .ev 5 .after (.ev "start") {}, .advance 9000000, .ev 9000001 .before (.ev "toggle") {}]
     s.state = some "off" ∧ s.nextId = 0 ∧ fires s.log = []) ∧
    (let s := run (timerCfg (.us 300000) (.us 700000) true "on") {} [.init, .advance 2299999]
     s.state = some "on" ∧ (live s).map (·.when) = [2300000] ∧
     (fires s.log).map (fun x => (x.1, x.2.1.ev)) =
       [(300000, .ev "stop"), (1000000, .ev "start"), (1300000, .ev "stop"), (2000000, .ev "start")]) ∧
    (let s := run (timerCfg (.us 300000) (.us 700000) true "on") {}
        [.init, .ev 300000 .before (.ev "start") {}, .advance 600000]
     (fires s.log).map (fun x => (x.1, x.2.1.id)) = [(600000, 1)] ∧ s.state = some "off") := by
  decide +kernel

/-- the whole generated table of `InputExp`, and its behaviour: the value is replaced by the
    `expired` value after the default duration, a per-event duration overrides it, a `put` while
    valid restarts the timer, INF never expires, no duration at all is an error -/
theorem inputExp_table_and_expiry :
    (∀ q ∈ inputExpTable.states, inputExpTable.lookup "put" q = some "valid") ∧
    inputExpTable.timedOf "valid" = some (.goto "expired", .none) ∧
    inputExpTable.timedOf "expired" = none ∧
    (let s := run (inputExpCfg (.us 500000) (.str "x") none) {}
        [.init, .ev 100 .after (.ev "put") { value := some (.int 7) },
         .ev 400000 .after (.ev "put") { value := some (.int 8) },
         .ev 1000000 .after (.ev "put") { value := some (.int 9), dur := .us 90000000 }, .advance 91000000]
     s.out = .str "x" ∧ s.state = some "expired" ∧ live s = [] ∧
     (fires s.log).map (fun x => (x.1, x.2.1.id)) = [(900000, 1), (91000000, 2)]) ∧
    (let s := run (inputExpCfg .inf (.str "x") (some (.int 1))) {} [.init, .advance 99000000]
     s.out = .int 1 ∧ s.nextId = 0) ∧
    (run (inputExpCfg .none (.str "x") (some (.int 1))) {} [.init]).failed = some .circuitError := by
  decide +kernel

/-- non-vacuity: a monostable Timer(t_on = 3 s) that is started at 1 s, restarted at 2 s with a
    per-event duration of 0.5 s, and expires at 2.5 s -/
example :
    let s := run (timerCfg (.us 3000000) .none true) {}
      [.init, .ev 1000000 .after (.ev "start") {}, .ev 2000000 .before (.ev "start") { dur := .us 500000 },
       .advance 5000000]
    s.state = some "off" ∧ live s = [] ∧
    (fires s.log).map (fun x => (x.1, x.2.1.id)) = [(2500000, 1)] := by decide +kernel

end Edzed.FsmTimer

/-! ## Tie by translation: `FSM._ctx_event`

`Gen.TrM.ctxEvent` is the Lean program that tools/py2lean_fsm.py generates from the CURRENT source of
`FSM._ctx_event` (statement order, conditions, early returns, raises, `try … finally`, the chain loop with
`continue` / `break` / `else:`, the arguments of every call).  Everything the method calls or looks up is a
field of `FsmPrims`; `TrTie.prims c` (EdzedProofs/FsmTie.lean) instantiates these fields with the
operations of the model.  The theorems say that the translated method, run on the model's operations,
computes exactly the model's `ctxEvent` (event from outside) and `post` (recursive call while
`_fsm_event_active`).  A semantic edit of the method changes the generated program and these theorems stop
compiling. -/

namespace Edzed.TrTie
open Edzed.FsmTimer Edzed.Gen.TrM

/-- how the `try:` block of `_ctx_event` ends, in terms of the model's `enterLoop` -/
def TryPost (sM : St) (r : (TSt × Loc TEvent EvData String) × Flow ErrKind Bool) : Prop :=
  ∃ loc' st', r.1 = (T st', loc') ∧
    ((r.2 = Flow.ret true ∧ st' = sM ∧ sM.failed = none) ∨
     (∃ k, r.2 = Flow.raise k ∧ st'.fail k = sM ∧ sM.failed = some k ∧
       (k = .unknownEvent → st'.failed ≠ none)))

theorem translated_post_is_model (c : Cfg) (P : FsmPrims TSt TEvent EvData String TEvent Val Dur ErrKind) (hP : Agrees c P) (s : St) (e : TEvent) (d : EvData) (en : Bool)
    (hf : s.failed = none) :
    outcomePost (Gen.TrM.ctxEvent P e d ⟨s, true, en⟩) = post c s e d := by
  cases e with
  | goto q =>
    unfold Gen.TrM.ctxEvent ctxEventBody
    by_cases hq : q ∈ c.tbl.states
    · cases hn : s.next <;> tsimp [hP.same, hP.startTimer, hP.stopTimer, outcomePost, post, resolve, hq, hf, hn]
    · tsimp [hP.same, hP.startTimer, hP.stopTimer, outcomePost, post, resolve, hq, hf]
  | ev n =>
    by_cases hev : n ∈ c.tbl.events
    rotate_left
    · unfold Gen.TrM.ctxEvent ctxEventBody
      tsimp [hP.same, hP.startTimer, hP.stopTimer, outcomePost, post, resolve, hev, hf]
    · cases hst : s.state with
      | none =>
        unfold Gen.TrM.ctxEvent ctxEventBody
        tsimp [hP.same, hP.startTimer, hP.stopTimer, outcomePost, post, resolve, hev, hf, hst]
      | some cur =>
        -- the target found by the model's lookup
        have key : ∀ (o : Option String), Table.lookup c.tbl n cur = o →
            outcomePost (Gen.TrM.ctxEvent P (.ev n) d ⟨s, true, en⟩) = post c s (.ev n) d := by
          intro o ho
          unfold Gen.TrM.ctxEvent ctxEventBody
          unfold Table.lookup at ho
          cases h1 : c.tbl.lookupKey n (some cur) <;>
            cases h0 : c.tbl.lookupKey n none <;>
            simp only [h1, h0, Option.getD] at ho
          all_goals
            cases o with
            | none =>
              cases ho <;> tsimp [hP.same, hP.startTimer, hP.stopTimer, outcomePost, post, resolve, hev, hf, hst, Table.lookup, h1, h0]
            | some q =>
              cases ho <;>
              cases hu : s.out.isUndef with
              | true =>
                cases hn : s.next <;>
                  tsimp [hP.same, hP.startTimer, hP.stopTimer, outcomePost, post, resolve, hev, hf, hst, Table.lookup, h1, h0, hu, hn]
              | false =>
                cases hc : evalConds (setCtx s d) d (c.condsOf n) with
                | none => tsimp [hP.same, hP.startTimer, hP.stopTimer, outcomePost, post, resolve, hev, hf, hst, Table.lookup, h1, h0, hu, hc]
                | some r =>
                  obtain ⟨s', ok⟩ := r
                  have kp := evalConds_keeps d (c.condsOf n) _ _ _ hc
                  cases ok <;> cases hn : s'.next <;>
                    tsimp [hP.same, hP.startTimer, hP.stopTimer, outcomePost, post, resolve, hev, hf, hst, Table.lookup, h1, h0, hu, hc, hn, kp.2]
        exact key _ rfl

/-- one round of the translated loop = `popNext` + `enterState` of the model -/
theorem translated_round (c : Cfg) (P : FsmPrims TSt TEvent EvData String TEvent Val Dur ErrKind) (hP : Agrees c P) (s : St) (loc : Loc TEvent EvData String) (q : String)
    (hf : s.failed = none) (hq : s.next = none → loc.v3 = some q) :
    ∃ loc', ((ctxEventLoop0 P (T s, loc)).1 =
        (T (enterState c (popNext s loc.v1 q).1 (popNext s loc.v1 q).2.1 (popNext s loc.v1 q).2.2), loc') ∧
      RoundEnds (enterState c (popNext s loc.v1 q).1 (popNext s loc.v1 q).2.1 (popNext s loc.v1 q).2.2)
        (ctxEventLoop0 P (T s, loc)).2)
      ∧ loc'.v1 = (popNext s loc.v1 q).2.1 ∧ loc'.v3 = some (popNext s loc.v1 q).2.2 := by
  unfold ctxEventLoop0
  cases hn : s.next with
  | none =>
    have hq' := hq hn
    obtain ⟨v0, v1, v2, v3⟩ := loc
    simp only at hq'
    subst hq'
    refine ⟨⟨v0, v1, v2, some q⟩, ?_, by simp [popNext, hn], by simp [popNext, hn]⟩
    tsimp [hP.same, hP.startTimer, hP.stopTimer, T, hn, popNext, enterState, RoundEnds]
    round_tail hP (runEnter c (s.enter q) q) q (v1.dur)
  | some x =>
    obtain ⟨e', d', q'⟩ := x
    refine ⟨{ loc with v0 := e', v1 := d', v3 := some q' }, ?_, by simp [popNext, hn], by simp [popNext, hn]⟩
    cases hs : s.state with
    | none =>
      tsimp [hP.same, hP.startTimer, hP.stopTimer, T, hn, hf, hs, popNext, enterState, exitCur, RoundEnds]
      round_tail hP (runEnter c ((setCtx (s.setNextEv none) d').enter q') q') q' (d'.dur)
    | some cur =>
      tsimp [hP.same, hP.startTimer, hP.stopTimer, T, hn, hf, hs, popNext, enterState, exitCur, RoundEnds]
      round_tail hP (runEnter c (((setCtx (s.setNextEv none) d').emit (Entry.exit cur d')).enter q') q') q' (d'.dur)

/-- the translated `for _ in range(chainlimit): … else: raise …` = the loop of the model -/
theorem translated_loop (c : Cfg) (P : FsmPrims TSt TEvent EvData String TEvent Val Dur ErrKind) (hP : Agrees c P) : ∀ (n : Nat) (s : St) (loc : Loc TEvent EvData String) (q : String),
    s.failed = none → (s.next = none → loc.v3 = some q) →
    ∃ loc' st' fl,
      forRange (ctxEventLoop0 P) (Gen.TrM.raise (P.exc "EdzedCircuitError")) n (T s, loc)
        = ((T st', loc'), fl) ∧
      ((loopB c n s loc.v1 q = (st', true) ∧ fl = Flow.next ∧ st'.failed = none) ∨
       (∃ k, fl = Flow.raise k ∧ loopB c n s loc.v1 q = (st'.fail k, false) ∧ (st'.fail k).failed = some k ∧
         (k = .unknownEvent → st'.failed ≠ none))) := by
  intro n
  induction n with
  | zero =>
    intro s loc q hf _
    exact ⟨loc, s, Flow.raise .circuitError, by simp [forRange, Gen.TrM.raise, hP.same, prims_exc, excOf],
      .inr ⟨.circuitError, rfl, by simp [loopB], by simp [St.fail, hf], by simp⟩⟩
  | succ n ih =>
    intro s loc q hf hq
    obtain ⟨loc1, ⟨hst, hends⟩, hv1, hv3⟩ := translated_round c P hP s loc q hf hq
    unfold forRange loopB
    dsimp only
    generalize ctxEventLoop0 P (T s, loc) = r at hst hends ⊢
    obtain ⟨sl1, fl1⟩ := r
    simp only at hst hends
    subst hst
    generalize enterState c (popNext s loc.v1 q).1 (popNext s loc.v1 q).2.1 (popNext s loc.v1 q).2.2 = s2 at hends ⊢
    unfold RoundEnds at hends
    cases hf2 : s2.failed with
    | some k =>
      simp only [hf2] at hends
      subst hends
      exact ⟨loc1, s2, Flow.raise k, by simp, .inr ⟨k, rfl, by simp [hf2, fail_of_failed s2 k hf2],
        by rw [fail_of_failed s2 k hf2]; exact hf2, fun _ => by simp [hf2]⟩⟩
    | none =>
      cases hn2 : s2.next with
      | some x =>
        simp only [hf2, hn2, Option.isSome_some, if_true] at hends
        obtain ⟨loc', st', fl, heq, hres⟩ := ih s2 loc1 (popNext s loc.v1 q).2.2 hf2
          (fun h => by rw [hn2] at h; cases h)
        refine ⟨loc', st', fl, by rcases hends with h | h <;> subst h <;> simp [heq], ?_⟩
        rw [hv1] at hres
        simpa [hf2, hn2] using hres
      | none =>
        simp only [hf2, hn2, Option.isSome_none, Bool.false_eq_true, if_false] at hends
        subst hends
        exact ⟨loc1, s2, Flow.next, by simp, .inl ⟨by simp [hf2, hn2], rfl, hf2⟩⟩

theorem translated_try (c : Cfg) (P : FsmPrims TSt TEvent EvData String TEvent Val Dur ErrKind) (hP : Agrees c P) (s1 : St) (loc : Loc TEvent EvData String) (q : String)
    (hf : s1.failed = none) (hn : s1.next = none) (hq : loc.v3 = some q)
    (hinit : s1.out.isUndef = false → s1.state ≠ none) :
    TryPost (enterLoop c c.tbl.chainLimit (leave s1) loc.v1 q) (ctxEventTry0 P (T s1, loc)) := by
  unfold ctxEventTry0
  -- exit action, on_exit events, _stop_timer
  refine seq_elim (sl1 := (T (leave s1), loc)) ?_ ?_
  · cases hu : s1.out.isUndef with
    | true => tsimp [hP.same, hP.startTimer, hP.stopTimer, T, leave, hu]
    | false =>
      cases hs : s1.state with
      | none => exact absurd hs (hinit hu)
      | some cur => tsimp [hP.same, hP.startTimer, hP.stopTimer, T, leave, hu, hs, hf, (stopTimer_fields _).1]
  -- assert self._next_event is None
  refine seq_elim (sl1 := (T (leave s1), loc)) ?_ ?_
  · tsimp [hP.same, hP.startTimer, hP.stopTimer, T, (leave_fields s1).2, hn]
  -- the loop
  obtain ⟨loc', st', fl, hloop, hres⟩ := translated_loop c P hP c.tbl.chainLimit (leave s1) loc q
    (by rw [(leave_fields s1).1]; exact hf) (fun _ => hq)
  have hforN : ∀ (body orelse : Stmt (TSt × Loc TEvent EvData String) ErrKind Bool), forN (fun sl => P.chainLimit sl.1) body orelse (T (leave s1), loc)
      = forRange body orelse c.tbl.chainLimit (T (leave s1), loc) :=
    fun _ _ => by simp [forN, hP.same, prims_chainLimit]
  rw [enterLoop_eq_loopB]
  rcases hres with ⟨hB, hfl, hnf⟩ | ⟨k, hfl, hB, hk, hu⟩
  · -- the loop ended with `break`: output and on_enter events
    subst hfl
    refine seq_elim (sl1 := (T st', loc')) (by rw [hforN]; exact hloop) ?_
    rw [hB]
    simp only [finish]
    cases hco : calcOutput c st' with
    | none =>
      dsimp only
      refine ⟨loc', st', by tsimp [hP.same, hP.startTimer, hP.stopTimer, T, hco], .inr ⟨.keyError, by tsimp [hP.same, hP.startTimer, hP.stopTimer, T, hco], rfl, by simp [St.fail, hnf], by simp⟩⟩
    | some v =>
      have hfin : (sendOnEnter (setOut st' v)).failed = none := by
        rw [sendOnEnter_failed, setOut_failed]; exact hnf
      dsimp only
      cases huv : v.isUndef with
      | true =>
        rw [setOut_undef st' v huv] at hfin ⊢
        exact ⟨loc', _, by tsimp [hP.same, hP.startTimer, hP.stopTimer, T, hco, huv, hfin, hnf], .inl ⟨by tsimp [hP.same, hP.startTimer, hP.stopTimer, T, hco, huv, hfin, hnf], rfl, hfin⟩⟩
      | false =>
        have h1 : (setOut st' v).failed = none := by rw [setOut_failed]; exact hnf
        exact ⟨loc', _, by tsimp [hP.same, hP.startTimer, hP.stopTimer, T, hco, huv, hfin, h1], .inl ⟨by tsimp [hP.same, hP.startTimer, hP.stopTimer, T, hco, huv, hfin, h1], rfl, hfin⟩⟩
  · subst hfl
    rw [seq_stop (sl1 := (T st', loc')) (f := Flow.raise k) (by rw [hforN]; exact hloop) (by simp), hB]
    exact ⟨loc', st', rfl, .inr ⟨k, rfl, rfl, hk, hu⟩⟩

/-- **the tie**: `FSM._ctx_event`, as translated from the current source, run on the model's
    operations for an event arriving from outside computes exactly the model's `ctxEvent` -/
theorem translated_ctx_event_is_model (c : Cfg) (P : FsmPrims TSt TEvent EvData String TEvent Val Dur ErrKind) (hP : Agrees c P) (s : St) (e : TEvent) (d : EvData)
    (hf : s.failed = none) (hn : s.next = none) (hinit : s.out.isUndef = false → s.state ≠ none) :
    outcome (Gen.TrM.ctxEvent P e d ⟨s, false, false⟩) = FsmTimer.ctxEvent c s e d := by
  -- what happens once the target state `q` is known (state `s1`)
  have tail : ∀ (s1 : St) (q : String), s1.failed = none → s1.next = none →
      (s1.out.isUndef = false → s1.state ≠ none) →
      outcome
        ((ctxEventTry0 P (T s1, (⟨e, d, d, some q⟩ : Loc TEvent EvData String))).1.1,
         (ctxEventTry0 P (T s1, (⟨e, d, d, some q⟩ : Loc TEvent EvData String))).2)
      = resOf (enterLoop c c.tbl.chainLimit (leave s1) d q) := by
    intro s1 q hf1 hn1 hi1
    obtain ⟨loc', st', h1, hd⟩ := translated_try c P hP s1 ⟨e, d, d, some q⟩ q hf1 hn1 rfl hi1
    generalize ctxEventTry0 P (T s1, (⟨e, d, d, some q⟩ : Loc TEvent EvData String)) = r at h1 hd ⊢
    obtain ⟨⟨t', l'⟩, fl⟩ := r
    simp only [Prod.mk.injEq] at h1
    obtain ⟨rfl, rfl⟩ := h1
    rcases hd with ⟨hfl, rfl, hnf⟩ | ⟨k, hfl, hsM, hk, hu⟩
    · simp only at hfl; subst hfl
      simp only at hnf
      simp [outcome, resOf, hnf]
    · simp only at hfl; subst hfl
      simp only at hsM hk
      have hcond : ¬ (k = ErrKind.unknownEvent ∧ st'.failed = none) := fun h => hu h.1 h.2
      simp [outcome, resOf, hk, hcond, hsM]
  cases e with
  | goto q =>
    unfold Gen.TrM.ctxEvent ctxEventBody
    by_cases hq : q ∈ c.tbl.states
    · rw [ctxEvent_target (s1 := setCtx s d) (q := q) (by simp [resolve, hq])]
      tsimp [hP.same, hP.startTimer, hP.stopTimer, outcome, hq, hf, hn]
      simpa [outcome, T] using tail (setCtx s d) q hf hn hinit
    · tsimp [hP.same, hP.startTimer, hP.stopTimer, outcome, FsmTimer.ctxEvent, resolve, hq, hf]
  | ev n =>
    by_cases hev : n ∈ c.tbl.events
    rotate_left
    · unfold Gen.TrM.ctxEvent ctxEventBody
      tsimp [hP.same, hP.startTimer, hP.stopTimer, outcome, FsmTimer.ctxEvent, resolve, hev, hf]
    · cases hst : s.state with
      | none =>
        unfold Gen.TrM.ctxEvent ctxEventBody
        tsimp [hP.same, hP.startTimer, hP.stopTimer, outcome, FsmTimer.ctxEvent, resolve, hev, hf, hst]
      | some cur =>
        have key : ∀ (o : Option String), Table.lookup c.tbl n cur = o →
            outcome (Gen.TrM.ctxEvent P (.ev n) d ⟨s, false, false⟩)
              = FsmTimer.ctxEvent c s (.ev n) d := by
          intro o ho
          unfold Table.lookup at ho
          cases h1 : c.tbl.lookupKey n (some cur) <;>
            cases h0 : c.tbl.lookupKey n none <;>
            simp only [h1, h0, Option.getD] at ho
          all_goals
            cases o with
            | none =>
              unfold Gen.TrM.ctxEvent ctxEventBody
              cases ho <;> tsimp [hP.same, hP.startTimer, hP.stopTimer, outcome, FsmTimer.ctxEvent, resolve, hev, hf, hst, Table.lookup, h1, h0]
            | some q =>
              cases ho <;>
              cases hu : s.out.isUndef with
              | true =>
                rw [ctxEvent_target (s1 := setCtx s d) (q := q)
                  (by simp [resolve, hev, setCtx_proj, hst, Table.lookup, h1, h0, hu])]
                unfold Gen.TrM.ctxEvent ctxEventBody
                tsimp [hP.same, hP.startTimer, hP.stopTimer, outcome, hev, hf, hst, h1, h0, hu, hn]
                simpa [outcome, T] using tail (setCtx s d) q hf hn hinit
              | false =>
                cases hc : evalConds (setCtx s d) d (c.condsOf n) with
                | none =>
                  unfold Gen.TrM.ctxEvent ctxEventBody
                  tsimp [hP.same, hP.startTimer, hP.stopTimer, outcome, FsmTimer.ctxEvent, resolve, hev, hf, hst, Table.lookup, h1, h0, hu, hc]
                | some r =>
                  obtain ⟨s', ok⟩ := r
                  have kp := evalConds_keeps d (c.condsOf n) _ _ _ hc
                  have kn := evalConds_fields d (c.condsOf n) _ _ _ hc
                  cases ok with
                  | false =>
                    unfold Gen.TrM.ctxEvent ctxEventBody
                    tsimp [hP.same, hP.startTimer, hP.stopTimer, outcome, FsmTimer.ctxEvent, resolve, hev, hf, hst, Table.lookup, h1, h0, hu, hc, kp.2]
                  | true =>
                    have hf' : s'.failed = none := by rw [kp.2]; exact hf
                    have hn' : s'.next = none := by rw [kn.1]; exact hn
                    have hi' : s'.out.isUndef = false → s'.state ≠ none := by
                      rw [kp.1, kn.2]; exact hinit
                    rw [ctxEvent_target (s1 := s') (q := q)
                      (by simp [resolve, hev, setCtx_proj, hst, Table.lookup, h1, h0, hu, hc])]
                    unfold Gen.TrM.ctxEvent ctxEventBody
                    tsimp [hP.same, hP.startTimer, hP.stopTimer, outcome, hev, hf, hst, h1, h0, hu, hc, hf', hn']
                    simpa [outcome, T] using tail s' q hf' hn' hi'
        exact key _ rfl

/-- non-vacuity: a chained, timed transition evaluated through both.  `go` leads from `a` to `b`, whose
    entry action sends `Goto c` with a 'duration' item; `c` is a timed state.  The translated method and
    the model agree, the block ends in `c` with one timer armed from the chained event's duration, and the
    exit action of the intermediate state `b` read the chained event's data. -/
def exCfg : Cfg :=
  { tbl := { states := ["a", "b", "c"], events := ["go", "back"],
             trans := [("go", some "a", some "b"), ("back", none, some "a")],
             timed := [("c", .ev "back", .us 500000)], chainLimit := 9 }
    enterSend := [("b", .goto "c", .us 70000)], initState := "a" }

def exState : St := (deliver exCfg {} (.goto "a") {}).1

example :
    outcome (Gen.TrM.ctxEvent (prims exCfg) (.ev "go") { dur := .us 3 } ⟨exState, false, false⟩)
      = FsmTimer.ctxEvent exCfg exState (.ev "go") { dur := .us 3 } ∧
    (FsmTimer.ctxEvent exCfg exState (.ev "go") { dur := .us 3 }).2 = .ret true ∧
    (FsmTimer.ctxEvent exCfg exState (.ev "go") { dur := .us 3 }).1.state = some "c" ∧
    (live (FsmTimer.ctxEvent exCfg exState (.ev "go") { dur := .us 3 }).1).map (fun h => (h.when, h.ev))
      = [(70000, .ev "back")] ∧
    (.exit "b" { dur := .us 70000 }) ∈
      ((FsmTimer.ctxEvent exCfg exState (.ev "go") { dur := .us 3 }).1.log.map (·.2)) := by
  decide +kernel

/-- … and the recursive call: the entry action's `Goto c` while `_fsm_event_active` -/
example :
    outcomePost (Gen.TrM.ctxEvent (prims exCfg) (.goto "c") { dur := .us 70000 } ⟨exState, true, true⟩)
      = post exCfg exState (.goto "c") { dur := .us 70000 } ∧
    (post exCfg exState (.goto "c") { dur := .us 70000 }).1.next
      = some (.goto "c", { dur := .us 70000 }, "c") := by
  decide +kernel

/-- the hypotheses of `translated_ctx_event_is_model` hold in every state a running simulation can reach -/
theorem tie_hypotheses_hold_when_reachable (c : Cfg) (ops : List Op)
    (hf : (run c {} ops).failed = none) :
    (run c {} ops).next = none ∧ ((run c {} ops).out.isUndef = false → (run c {} ops).state ≠ none) :=
  quiet_run c ops {} (fun _ => ⟨rfl, fun h => by simp [Val.isUndef] at h⟩) hf

end Edzed.TrTie

/-! ## Tie by translation: the timer methods of `fsm.FSM`

`Gen.TrT.setTimer`, `timerExpired`, `startTimer`, `stopTimer`, `stop`, `start`, `getState`, `initDuration` are the
Lean programs that tools/py2lean_fsmtimer.py generates from the CURRENT source of `_set_timer`,
`_timer_expired`, `_start_timer`, `_stop_timer`, `stop`, `start`, `get_state` and of the `t_STATE` statement
of `__init__`.  Run on the model's meaning of the event loop (`tprims`, EdzedProofs/FsmTimerTie.lean) they
compute exactly the model's `setTimer`, `fire`, `startTimer`, `stopTimer`, `stop`, `getState` and the table
`Cfg.instDur`.  With them the primitives `_start_timer` / `_stop_timer` of the `_ctx_event` tie above are no
assumptions any more: `translated_fsmtimer_ctx_event_with_translated_timers`. -/

namespace Edzed.TrTie
open Edzed.FsmTimer Edzed.Gen.TrM Edzed.Gen.TrT

theorem translated_fsmtimer_set_timer_is_model (c : Cfg) (env : TEnv) (n : Int) (tev : TEvent) (t : TSt) :
    Gen.TrT.setTimer (tprims c env) (.us n) tev t = (t.map (FsmTimer.setTimer · n.toNat tev), .ok ()) := by
  unfold Gen.TrT.setTimer setTimerBody
  cases hs : t.st.stopped <;>
    ttsimp [FsmTimer.setTimer, hs, armHandle, newHandle, St.emit]

theorem translated_fsmtimer_stop_timer_is_model (c : Cfg) (env : TEnv) (t : TSt) :
    Gen.TrT.stopTimer (tprims c env) t = (t.map FsmTimer.stopTimer, .ok ()) := by
  unfold Gen.TrT.stopTimer stopTimerBody
  cases ha : t.st.active with
  | none => ttsimp [FsmTimer.stopTimer, ha]
  | some id =>
    cases hl : handleLive t.st id <;> ttsimp [FsmTimer.stopTimer, ha, hl, cancelHandle, St.emit]
    have := map_cancel_of_not_live t.st id hl
    simp only [beq_iff_eq] at this
    exact this.symm

theorem translated_fsmtimer_start_timer_is_model (c : Cfg) (env : TEnv) (hin : env.inside = true)
    (item : Dur) (tev : TEvent) (t : TSt) (q : String)
    (hq : t.st.state = some q) (hf : t.st.failed = none) :
    failOnError (Gen.TrT.startTimer (tprims c env) item tev t)
      = lift (fun s => FsmTimer.startTimer c s q tev item) t := by
  unfold Gen.TrT.startTimer startTimerBody
  cases item with
  | none =>
    cases hd : clamp (c.instDur q) with
    | none => ttsimp [hin, failOnError, FsmTimer.startTimer, effDur, hq, hf, hd, St.fail]
    | inf => ttsimp [hin, failOnError, FsmTimer.startTimer, effDur, hq, hf, hd]
    | bad => ttsimp [hin, failOnError, FsmTimer.startTimer, effDur, hq, hf, hd, St.fail]
    | us n =>
      by_cases hn : n ≤ 0
      · ttsimp [hin, failOnError, FsmTimer.startTimer, effDur, hq, hf, hd, hn, cmpInt]
        generalize (eventRec c t.st tev {}).1 = s1
        cases hf1 : s1.failed with
        | none => simp
        | some k => simp [fail_of_failed s1 k hf1]
      · have hfs : (FsmTimer.setTimer t.st n.toNat tev).failed = none := by
          rw [(setTimer_fields t.st n.toNat tev).2.2.2.2.2.1]; exact hf
        ttsimp [hin, failOnError, FsmTimer.startTimer, effDur, hq, hf, hd, hn, cmpInt,
          translated_fsmtimer_set_timer_is_model, hfs]
  | inf => ttsimp [hin, failOnError, FsmTimer.startTimer, effDur, clamp, hq, hf]
  | bad => ttsimp [hin, failOnError, FsmTimer.startTimer, effDur, clamp, hq, hf, St.fail]
  | us n =>
    by_cases hn0 : n < 0
    · ttsimp [hin, failOnError, FsmTimer.startTimer, effDur, clamp, hq, hf, hn0, cmpInt]
      generalize (eventRec c t.st tev {}).1 = s1
      cases hf1 : s1.failed with
      | none => simp
      | some k => simp [fail_of_failed s1 k hf1]
    · by_cases hn : n ≤ 0
      · ttsimp [hin, failOnError, FsmTimer.startTimer, effDur, clamp, hq, hf, hn0, hn, cmpInt]
        generalize (eventRec c t.st tev {}).1 = s1
        cases hf1 : s1.failed with
        | none => simp
        | some k => simp [fail_of_failed s1 k hf1]
      · have hfs : (FsmTimer.setTimer t.st n.toNat tev).failed = none := by
          rw [(setTimer_fields t.st n.toNat tev).2.2.2.2.2.1]; exact hf
        ttsimp [hin, failOnError, FsmTimer.startTimer, effDur, clamp, hq, hf, hn0, hn, cmpInt,
          translated_fsmtimer_set_timer_is_model, hfs]

theorem translated_fsmtimer_stop_is_model (c : Cfg) (env : TEnv) (t : TSt) :
    Gen.TrT.stop (tprims c env) t =
      (t.map FsmTimer.stop, if env.superFails then .error .fuel else .ok ()) := by
  unfold Gen.TrT.stop stopBody
  cases hs : env.superFails <;> ttsimp [translated_fsmtimer_stop_timer_is_model, FsmTimer.stop, hs]

/-- `stop()` switches the block's persistence off (and forbids new timers): an event that arrives during the rest of
    the clean-up cannot replace the state the simulator saved – with the timer's expiry – before it stopped the blocks
    (finding C06-late-event-overwrites-saved-timer; without the statement `self.persistent = False` the translated
    program leaves `persistOn` alone and `translated_fsmtimer_stop_is_model` fails) -/
theorem stop_switches_persistence_off (s : St) :
    (FsmTimer.stop s).persistOn = false ∧ (FsmTimer.stop s).stopped = true := by
  simp [FsmTimer.stop]

/-- `start()`: the timers are allowed only after the base classes have started -/
theorem translated_fsmtimer_start_enables_timers (c : Cfg) (env : TEnv) (t : TSt) :
    Gen.TrT.start (tprims c env) t =
      if env.superFails then (t, .error .fuel)
      else (t.map (fun s => { s with stopped := false }), .ok ()) := by
  unfold Gen.TrT.start startBody
  cases hs : env.superFails <;> ttsimp [hs]

theorem translated_fsmtimer_timer_expired_is_model (c : Cfg) (s : St) (h : Handle) (a e : Bool) :
    (Gen.TrT.timerExpired (tprims c { inside := false }) h.ev ⟨loopPop s h, a, e⟩).1.st = fire c s h := by
  unfold Gen.TrT.timerExpired timerExpiredBody
  ttsimp [fire, loopPop, popTimer]
  generalize (deliver c _ h.ev {}).1 = s1
  cases s1.failed <;> simp

theorem translated_fsmtimer_get_state_is_model (c : Cfg) (env : TEnv) (t : TSt) :
    Gen.TrT.getState (tprims c env) t =
      (t, match FsmTimer.getState t.st with
          | none => .error .invalidState
          | some (q, tm) => .ok (some q, tm.map (· + env.wall), t.st.input)) := by
  unfold Gen.TrT.getState getStateBody
  cases hs : t.st.state with
  | none => ttsimp [FsmTimer.getState, hs]
  | some q =>
    cases ha : t.st.active with
    | none => ttsimp [FsmTimer.getState, hs, ha]
    | some id =>
      cases hl : liveHandle t.st id <;> ttsimp [FsmTimer.getState, hs, ha, hl, handleLive]

/-- `FSM.__init__` builds the instance table of durations that the model calls `Cfg.instDur`: class default,
    overridden by a `t_STATE` argument that is not None (after `time_period`) -/
theorem translated_fsmtimer_init_duration_is_model (c : Cfg)
    (hnd : (c.tDur.map (·.1)).Nodup)
    (hall : ∀ p ∈ c.tDur, p.2 ≠ Dur.bad ∧ (c.tbl.timedOf p.1).isSome) :
    Gen.TrT.initDuration excOf timePeriodD (fun d => decide (d = Dur.none)) tblHas tblSet
      (classDurations c) c.tDur = .ok (instTable c) := by
  have key : ∀ T : DurTbl, (∀ k, T k = (match c.tDur.lookup k with
                  | some Dur.none => classDurations c k
                  | some d => if (classDurations c k).isSome then some (clamp d) else none
                  | none => classDurations c k)) → T = instTable c := by
    intro T hT
    funext k
    rw [hT k]
    unfold instTable Cfg.instDur classDurations
    cases ht : c.tbl.timedOf k with
    | none => cases hl : c.tDur.lookup k with
      | none => simp
      | some d => cases d <;> simp
    | some x => cases hl : c.tDur.lookup k with
      | none => simp
      | some d => cases d <;> simp
  have htab : tableAfter c.tDur (classDurations c) = instTable c := key _ (fun k => rfl)
  unfold Gen.TrT.initDuration
  split
  · refine (initDuration_fold _ ?_ c.tDur (classDurations c) hnd
      (fun p hp => ⟨(hall p hp).1, by unfold classDurations; simpa using (hall p hp).2⟩)).trans (by rw [htab])
    intro T0 q0 d0 hb hq
    cases d0 with
    | bad => exact absurd rfl hb
    | none =>
      simp only [tblHas, hq, timePeriodD, clamp]
      simp
      funext k; split
      · next h => rw [h]
      · rfl
    | inf => simp [tblHas, hq, timePeriodD, clamp]; rfl
    | us n => simp [tblHas, hq, timePeriodD, clamp]; rfl
  · next he =>
    have : c.tDur = [] := by simpa using he
    rw [← htab, this]; rfl

/-- the primitives of `_ctx_event` with `_start_timer` and `_stop_timer` replaced by their TRANSLATIONS
    (an exception leaving `_start_timer` marks the simulation as failed, like every handler error) -/
def primsT (c : Cfg) : FsmPrims TSt TEvent EvData String TEvent Val Dur ErrKind :=
  { prims c with
    startTimer := fun item tev t => failOnError (Gen.TrT.startTimer (tprims c { inside := true }) item tev t)
    stopTimer := fun t => Gen.TrT.stopTimer (tprims c { inside := true }) t }

theorem translated_fsmtimer_prims_agree (c : Cfg) : Agrees c (primsT c) := by
  refine ⟨⟨rfl, rfl, rfl, rfl, rfl, rfl, rfl, rfl, rfl, rfl, rfl, rfl, rfl, rfl, rfl, rfl, rfl, rfl, rfl, rfl,
    rfl, rfl, rfl, rfl, rfl, rfl, rfl, rfl⟩, ?_, ?_⟩
  · intro item tev t _ hf hs
    cases hq : t.st.state with
    | none => rw [hq] at hs; cases hs
    | some q =>
      show failOnError (Gen.TrT.startTimer (tprims c { inside := true }) item tev t) = (prims c).startTimer item tev t
      rw [translated_fsmtimer_start_timer_is_model c { inside := true } rfl item tev t q hq hf]
      simp [prims_startTimer, lift, TSt.map, hq]
  · intro t hf
    show Gen.TrT.stopTimer (tprims c { inside := true }) t = (prims c).stopTimer t
    rw [translated_fsmtimer_stop_timer_is_model]
    simp [prims_stopTimer, lift, (stopTimer_fields t.st).1, hf]

/-- **the composed tie**: `_ctx_event` as translated, calling the TRANSLATED `_start_timer` / `_stop_timer`
    (which call the translated `_set_timer`), computes the model's `ctxEvent` -/
theorem translated_fsmtimer_ctx_event_with_translated_timers (c : Cfg) (s : St) (e : TEvent) (d : EvData)
    (hf : s.failed = none) (hn : s.next = none) (hinit : s.out.isUndef = false → s.state ≠ none) :
    outcome (Gen.TrM.ctxEvent (primsT c) e d ⟨s, false, false⟩) = FsmTimer.ctxEvent c s e d :=
  translated_ctx_event_is_model c (primsT c) (translated_fsmtimer_prims_agree c) s e d hf hn hinit

/-- … and the recursive call -/
theorem translated_fsmtimer_post_with_translated_timers (c : Cfg) (s : St) (e : TEvent) (d : EvData) (en : Bool)
    (hf : s.failed = none) :
    outcomePost (Gen.TrM.ctxEvent (primsT c) e d ⟨s, true, en⟩) = post c s e d :=
  translated_post_is_model c (primsT c) (translated_fsmtimer_prims_agree c) s e d en hf

/-- non-vacuity: the chained, timed transition of the example above through the translated `_ctx_event`
    calling the translated `_start_timer` → `_set_timer`: one handle armed from the chained event's item -/
example :
    outcome (Gen.TrM.ctxEvent (primsT exCfg) (.ev "go") { dur := .us 3 } ⟨exState, false, false⟩)
      = FsmTimer.ctxEvent exCfg exState (.ev "go") { dur := .us 3 } ∧
    (live (outcome (Gen.TrM.ctxEvent (primsT exCfg) (.ev "go") { dur := .us 3 } ⟨exState, false, false⟩)).1).map
      (fun h => (h.when, h.ev)) = [(70000, .ev "back")] := by
  decide +kernel

/-- `_restore_state` (C06's subject, the same translated program): run on the meaning the primitives have in
    the model of persistent state it computes exactly `Persist.restore` for the FSM kind -- unknown state
    refused, remaining time = expiry - now, an expired state ignored (nothing restored), "cannot set a timer
    for a not timed state", then state, sdata and output, the timer re-armed for the saved expiry by the
    translated `_set_timer` once `calc_output` has delivered the output (assuming `calc_output` does not return
    UNDEF for the saved state); a restore that raises must not leave a timer behind (`restoreOutcome`) -- with the
    statement order before the repair (timer first) this theorem is false -/
theorem translated_fsmtimer_restore_is_persist_model (c : Persist.FsmCls) (cal : Val → Option Bool)
    (now : Nat) (st : String) (exp : Option Nat) (sd : Data)
    (hout : ∀ o, c.calcOut st sd = some o → o.isUndef = false) :
    restoreOutcome (Gen.TrT.restoreState (rprims c now) (st, exp, sd) {})
      = Persist.restore (.fsm c) cal now (.fsm st exp sd) := by
  unfold Gen.TrT.restoreState restoreStateBody
  by_cases hst : st ∈ c.states
  rotate_left
  · rtsimp [restoreOutcome, Persist.restore, hst]
  cases hco : c.calcOut st sd with
  | none =>
    cases exp with
    | none => rtsimp [restoreOutcome, Persist.restore, hst, hco]
    | some t =>
      have hz : ((t : Int) - (now : Int) ≤ 0) ↔ t ≤ now := by omega
      by_cases hle : t ≤ now
      · cases hte : c.timedEv st <;> rtsimp [restoreOutcome, Persist.restore, hst, hco, hz, hle, hte]
      · have htn : now + ((t : Int) - (now : Int)).toNat = t := by omega
        cases hte : c.timedEv st <;> rtsimp [restoreOutcome, Persist.restore, hst, hco, hz, hle, hte, htn]
  | some o =>
    have ho := hout o hco
    cases exp with
    | none => rtsimp [restoreOutcome, Persist.restore, hst, hco, ho]
    | some t =>
      have hz : ((t : Int) - (now : Int) ≤ 0) ↔ t ≤ now := by omega
      by_cases hle : t ≤ now
      · cases hte : c.timedEv st <;> rtsimp [restoreOutcome, Persist.restore, hst, hco, hz, hle, hte, ho]
      · have htn : now + ((t : Int) - (now : Int)).toNat = t := by omega
        cases hte : c.timedEv st <;> rtsimp [restoreOutcome, Persist.restore, hst, hco, hz, hle, hte, ho, htn]
        exact Nat.add_sub_of_le (Nat.le_of_lt (Nat.lt_of_not_le hle))

/-- result of `_restore_state` as the model reports it -/
def resExc : Res → Except ErrKind Unit
  | .err k => .error k
  | _ => .ok ()

/-- `_restore_state` run on the model's meaning of the event loop and of the block computes exactly the model's
    `restore` -- for every configuration, block state, saved state `(q, exp, sdata)` (the expiry as a wall-clock time
    stamp) and every behaviour of `calc_output()`: unknown state refused, an expired state ignored, "cannot set a
    timer for a not timed state", then state and sdata assigned, and the timer started by the translated
    `_set_timer` ONLY when `calc_output()` has returned an output (not when it raises: the exception propagates with
    state and sdata assigned and no timer; not when it returns UNDEF) -/
theorem translated_fsmtimer_restore_is_model (c : Cfg) (env : TEnv) (q : String) (exp : Option Nat)
    (sd : Option Val) (t : TSt) (hf : t.st.failed = none) :
    Gen.TrT.restoreState (tprims c env) (q, exp.map (· + env.wall), sd) t
      = (t.map (fun s => (FsmTimer.restore c s q exp sd env.calcMode).1),
         resExc (FsmTimer.restore c t.st q exp sd env.calcMode).2) := by
  unfold Gen.TrT.restoreState restoreStateBody
  by_cases hst : q ∈ c.tbl.states
  rotate_left
  · ttsimp [FsmTimer.restore, hst, resExc]
  cases exp with
  | none =>
    cases hc : calcFor c ((t.st.enter q).setInput sd) env.calcMode with
    | none => ttsimp [FsmTimer.restore, restoreTail, hst, resExc, hc] 
    | some v =>
      cases hv : v.isUndef with
      | true => ttsimp [FsmTimer.restore, restoreTail, hst, resExc, hc, hv]
      | false =>
        have hfs : (setOut ((t.st.enter q).setInput sd) v).failed = none := by
          rw [(setOut_fields _ _).1]; exact hf
        ttsimp [FsmTimer.restore, restoreTail, hst, resExc, hc, hv, hfs]
  | some w =>
    have hz : ((w : Int) + (env.wall : Int) - ((t.st.now : Int) + (env.wall : Int)) ≤ 0) ↔ w ≤ t.st.now := by omega
    by_cases hle : w ≤ t.st.now
    · ttsimp [FsmTimer.restore, hst, resExc, hle, hz, cmpInt]
    cases hte : c.tbl.timedOf q with
    | none => ttsimp [FsmTimer.restore, hst, resExc, hle, hz, cmpInt, hte]
    | some ed =>
      obtain ⟨ev, dflt⟩ := ed
      have hn : ((w : Int) + (env.wall : Int) - ((t.st.now : Int) + (env.wall : Int))).toNat = w - t.st.now := by omega
      cases hc : calcFor c ((t.st.enter q).setInput sd) env.calcMode with
      | none => ttsimp [FsmTimer.restore, restoreTail, hst, resExc, hle, hz, cmpInt, hte, hc]
      | some v =>
        cases hv : v.isUndef with
        | true => ttsimp [FsmTimer.restore, restoreTail, hst, resExc, hle, hz, cmpInt, hte, hc, hv]
        | false =>
          have hfs : (setOut (FsmTimer.setTimer ((t.st.enter q).setInput sd) (w - t.st.now) ev) v).failed = none := by
            rw [(setOut_fields _ _).1, (setTimer_fields _ _ _).2.2.2.2.2.1]; exact hf
          ttsimp [FsmTimer.restore, restoreTail, hst, resExc, hle, hz, cmpInt, hte, hc, hv,
            translated_fsmtimer_set_timer_is_model, hn, hfs]

end Edzed.TrTie

/-! ## Tie by translation: the block `Timer`, the body of `class FSM`, `FSM.__init_subclass__`

`Gen.TrB.timerInit`, `timerCondStart`, `timerCondStop`, `timerCalcOutput` are generated by tools/py2lean_timerblk.py
from the CURRENT source of `Timer.__init__`, `Timer.cond_start`, `Timer.cond_stop`, `Timer.calc_output`
(edzed/blocklib/fsms.py); `fsmCalcOutput`, `fsmState`, `fsmInitFromValue`, `fsmClassDefaults`, `fsmDeclaredTables`,
`initSubclassActs` from `FSM.calc_output`, `FSM.state`, `FSM.init_from_value`, the body of `class FSM` and
`FSM.__init_subclass__` (edzed/fsm.py).  `Timer.__init__` is translated over an abstract mapping; here it runs on the
model's keyword arguments (`TimerKw` with `kwHas` / `kwPop` / `kwSet`, EdzedProofs/TimerBlkTie.lean), `time_period` is
`timePeriodDur` (the function itself is tied in C19), `period / 2` is `halfDur`, `super().__init__` is `fsmInitKw`.
`translated_…_is_model` say that the translated code computes the model (`timerNew`, the conditions and the output
function of `timerCfg`, `initOp`); the `timer_…` theorems are the documented behaviour of the block, derived from the
translated callbacks, the extracted tables and the model of the FSM. -/

namespace Edzed.TrTie
open Edzed.FsmTimer Edzed.Gen.TrB

/-- `restartable` defaults to True -/
theorem translated_timer_restartable_by_default : timerRestartableDefault = true := rfl

/-- `Timer(**kw, restartable=…)` through the TRANSLATED `Timer.__init__`: the keyword arguments it passes to
    `FSM.__init__` and the flag it stores make the configuration of the block -/
def timerInitCfg (kw : TimerKw) (restartable : Bool) (init : String := Gen.timerDefault) : Except ErrKind Cfg :=
  match timerInit excOf kwHas kwPop kwSet timePeriodDur halfDur fsmInitKw (fun (b : Bool) => b) restartable kw with
  | .ok (some k, some b) => .ok (timerCfg (k.tOn.getD .none) (k.tOff.getD .none) b init)
  | .ok _ => .error .fuel
  | .error e => .error e

theorem translated_timer_init_is_model (kw : TimerKw) (restartable : Bool) (init : String) :
    timerInitCfg kw restartable init = timerNew kw restartable init := by
  obtain ⟨p, a, b⟩ := kw
  unfold timerInitCfg timerInit timerNew timerKwargs
  cases p with
  | none =>
    cases a with
    | none => cases b with
      | none => simp [kwHas, fsmInitKw]
      | some v => by_cases h : v = Dur.bad <;> simp [kwHas, fsmInitKw, h]
    | some u => cases b with
      | none => by_cases h : u = Dur.bad <;> simp [kwHas, fsmInitKw, h]
      | some v => by_cases h : u = Dur.bad <;> by_cases h2 : v = Dur.bad <;> simp [kwHas, fsmInitKw, h, h2]
  | some pv =>
    cases a with
    | some u => simp [kwHas]; rfl
    | none => cases b with
      | some v => simp [kwHas]; rfl
      | none =>
        cases pv with
        | none => simp [kwHas, kwPop, kwSet, fsmInitKw, timePeriodDur, halfDur, clamp]
        | inf => simp [kwHas, kwPop, kwSet, fsmInitKw, timePeriodDur, halfDur, clamp]
        | bad => simp [kwHas, kwPop, kwSet, fsmInitKw, timePeriodDur, halfDur, clamp]
        | us n => simp [kwHas, kwPop, kwSet, fsmInitKw, timePeriodDur, halfDur, clamp]

/-- the model's conditions of `start` / `stop` ARE `Timer.cond_start` / `cond_stop` as translated -/
theorem translated_timer_conds_are_model (a b : Dur) (r : Bool) (init : String) (s : St) (d : EvData) :
    evalConds s d ((timerCfg a b r init).condsOf "start") = some (s, timerCondStart r s.state) ∧
    evalConds s d ((timerCfg a b r init).condsOf "stop") = some (s, timerCondStop r s.state) := by
  cases r <;> simp [timerCfg, Cfg.condsOf, evalConds, evalCond, timerCondStart, timerCondStop, bne]
  constructor <;> (cases s.state <;> simp) <;> (rename_i v; first | (by_cases h : v = "on" <;> simp [h]) | (by_cases h : v = "off" <;> simp [h]))

/-- the model's output function of a Timer IS `Timer.calc_output` as translated (an FSM without state
    has no output yet) -/
theorem translated_timer_calc_output_is_model (a b : Dur) (r : Bool) (init : String) (s : St) :
    calcOutput (timerCfg a b r init) s =
      some (match s.state with
            | none => Val.undef
            | some _ => Val.bool (timerCalcOutput s.state)) := by
  cases hs : s.state with
  | none => simp [calcOutput, timerCfg, hs]
  | some v =>
    by_cases h : v = "on"
    · simp [calcOutput, timerCfg, timerCalcOutput, hs, h]
    · have hb : (v == "on") = false := by simpa using h
      simp [calcOutput, timerCfg, timerCalcOutput, hs, h, hb]

/-- the default `FSM.calc_output` (the state itself) and the property `FSM.state` -/
theorem translated_fsm_calc_output_is_model (c : Cfg) (s : St) (hc : c.outFn = .state) :
    calcOutput c s = some (match fsmCalcOutput s.state with
                           | none => Val.undef
                           | some q => Val.str q) ∧ fsmState s.state = s.state := by
  cases hs : s.state <;> simp [calcOutput, hc, fsmCalcOutput, fsmState, hs]

/-- `init_from_value(value)` sends `Goto(value)` without data: the model's `initOp` -/
theorem translated_fsm_init_from_value_is_model (c : Cfg) (s : St) :
    initOp c s = deliver c { s with input := c.initInput }
      (fsmInitFromValue (E := TEvent) (D := EvData) Gen.TEvent.goto {} c.initState).1
      (fsmInitFromValue (E := TEvent) (D := EvData) Gen.TEvent.goto {} c.initState).2 := rfl

/-- the body of `class FSM`: STATES / TIMERS / EVENTS default to empty, and exactly the nine `_ct_*` tables that
    `_build_tables` creates are declared -/
theorem translated_fsm_class_attributes :
    fsmClassDefaults = [("EVENTS", .emptyTuple), ("STATES", .emptyTuple), ("TIMERS", .emptyDict)] ∧
    fsmDeclaredTables.map (·.1) = ["_ct_chainlimit", "_ct_default_duration", "_ct_default_state", "_ct_events",
      "_ct_methods", "_ct_prefixes", "_ct_states", "_ct_timed_event", "_ct_transition"] := by decide

/-- `__init_subclass__`: the handler tables of the base class exist before `_build_tables` checks the event
    names against them, and an invalid table is NOT swallowed: the same error is re-raised (with a note) -/
theorem translated_fsm_init_subclass_order (buildRaises : Bool) :
    initSubclassActs buildRaises =
      [.superInitSubclass, .buildTables] ++ (if buildRaises then [.addNote, .reraise] else []) ∧
    (SubclassAct.reraise ∈ initSubclassActs buildRaises ↔ buildRaises = true) := by
  cases buildRaises <;> decide

/-! ### the documented behaviour of Timer, from the translated callbacks, the extracted tables and the model -/

/-- `start` while on, initialised: the event is known, the table leads to `on`, and the decision is the
    TRANSLATED `cond_start` (through `translated_timer_conds_are_model`) -/
theorem timer_resolve_start_on (a b : Dur) (r : Bool) (init : String) (s : St) (d : EvData)
    (hs : s.state = some "on") (ho : s.out.isUndef = false) :
    resolve (timerCfg a b r init) (setCtx s d) (.ev "start") d =
      (setCtx s d, if timerCondStart r s.state then Resolved.target "on" else Resolved.reject) := by
  have e1 : "start" ∈ timerTable.events := by decide
  have l1 : timerTable.lookup "start" "on" = some "on" := by decide
  have hc := (translated_timer_conds_are_model a b r init (setCtx s d) d).1
  have hs' : (setCtx s d).state = some "on" := hs
  have ho' : (setCtx s d).out.isUndef = false := ho
  have ht : (timerCfg a b r init).tbl = timerTable := rfl
  have hst : (setCtx s d).state = s.state := rfl
  simp only [resolve, ht, e1, l1, hs', ho', hc, hst, List.contains_eq_mem, decide_true, Bool.not_true,
    Bool.false_eq_true, if_false]
  rw [hs]
  cases timerCondStart r (some "on") <;> rfl

/-- **`start` while on, not restartable**: the event is not accepted (`cond_start` is false) and the pending
    timer -- the very handle with its expiry time -- is untouched -/
theorem timer_start_in_on_not_restartable (a b : Dur) (init : String) (s : St) (d : EvData)
    (hs : s.state = some "on") (ho : s.out.isUndef = false) :
    timerCondStart false s.state = false ∧
    (FsmTimer.ctxEvent (timerCfg a b false init) s (.ev "start") d).2 = .ret false ∧
    live (FsmTimer.ctxEvent (timerCfg a b false init) s (.ev "start") d).1 = live s ∧
    (FsmTimer.ctxEvent (timerCfg a b false init) s (.ev "start") d).1.active = s.active := by
  have hc : timerCondStart false s.state = false := by simp [timerCondStart, hs]
  have hr := timer_resolve_start_on a b false init s d hs ho
  rw [hc] at hr
  simp only [Bool.false_eq_true, if_false] at hr
  refine ⟨hc, ?_, ?_, ?_⟩ <;> (unfold FsmTimer.ctxEvent; rw [hr]) <;> simp [live, setCtx]

/-- **`start` while on, restartable**: the event is accepted (`cond_start` is true), the pending timer is
    cancelled and a new one is armed for the full `t_on` from now -/
theorem timer_start_in_on_restartable (n : Int) (hn : 0 < n) (b : Dur) (init : String) (ops : List Op) (d : EvData)
    (hd : d.dur = Dur.none)
    (hf : (run (timerCfg (.us n) b true init) {} ops).failed = none)
    (hs : (run (timerCfg (.us n) b true init) {} ops).state = some "on")
    (ho : (run (timerCfg (.us n) b true init) {} ops).out.isUndef = false)
    (hst : (run (timerCfg (.us n) b true init) {} ops).stopped = false) :
    timerCondStart true (run (timerCfg (.us n) b true init) {} ops).state = true ∧
    (FsmTimer.ctxEvent (timerCfg (.us n) b true init) (run (timerCfg (.us n) b true init) {} ops) (.ev "start") d).2
      = .ret true ∧
    ∃ h', live (FsmTimer.ctxEvent (timerCfg (.us n) b true init) (run (timerCfg (.us n) b true init) {} ops)
              (.ev "start") d).1 = [h'] ∧
      h'.when = (run (timerCfg (.us n) b true init) {} ops).now + n.toNat ∧ h'.ev = .ev "stop" ∧
      h'.epoch = (run (timerCfg (.us n) b true init) {} ops).epoch + 1 := by
  have i := inv_run (timerCfg (.us n) b true init) ops {} (inv_init _)
  have q := quiet_run (timerCfg (.us n) b true init) ops {}
    (fun _ => ⟨rfl, fun h => by simp [Val.isUndef] at h⟩) hf
  generalize run (timerCfg (.us n) b true init) {} ops = s at hf hs ho hst i q
  have hc : timerCondStart true s.state = true := by simp [timerCondStart]
  have hr := timer_resolve_start_on (.us n) b true init s d hs ho
  rw [hc] at hr
  simp only [if_true] at hr
  have i1 : Inv (timerCfg (.us n) b true init) (setCtx s d) :=
    inv_of_frame (frame_setCtx s d) rfl (fun h => h) i
  have lv := leave_spec i1 (by simpa [setCtx] using hf)
  have lf := leave_fields (setCtx s d)
  have key := timer_enter_on n hn b true init (leave (setCtx s d)) d hd lv.1.1
    (by rw [lf.2]; simpa [setCtx] using q.1) (by rw [lf.1]; simpa [setCtx] using hf)
    (by rw [lv.2.2.2.2]; simpa [setCtx] using hst)
  have hce : FsmTimer.ctxEvent (timerCfg (.us n) b true init) s (.ev "start") d
      = (enterLoop (timerCfg (.us n) b true init) (timerCfg (.us n) b true init).tbl.chainLimit
          (leave (setCtx s d)) d "on", .ret true) := by
    unfold FsmTimer.ctxEvent; rw [hr]; simp only [key.1]
  rw [hce]
  have hnow : (leave (setCtx s d)).now + n.toNat = s.now + n.toNat := by rw [lv.2.2.1]; rfl
  have hep : (leave (setCtx s d)).epoch + 1 = s.epoch + 1 := by rw [lv.2.2.2.1]; rfl
  exact ⟨hc, rfl, _, key.2, hnow, rfl, hep⟩

/-- **the output of a Timer is True exactly in state `on`**: whenever the simulation is not aborted and the
    block is initialised, the output is the translated `calc_output()` of the current state, i.e. `True` in
    `on` and `False` otherwise -/
theorem timer_output_true_exactly_in_on (a b : Dur) (r : Bool) (init : String) (ops : List Op)
    (hf : (run (timerCfg a b r init) {} ops).failed = none)
    (ho : (run (timerCfg a b r init) {} ops).out.isUndef = false) :
    (run (timerCfg a b r init) {} ops).out = .bool (timerCalcOutput (run (timerCfg a b r init) {} ops).state) ∧
    ((run (timerCfg a b r init) {} ops).out = .bool true ↔ (run (timerCfg a b r init) {} ops).state = some "on") := by
  have k := tout_run a b r init ops {} (fun _ => .inl rfl) hf
  have hco : ∀ st : Option String, (st == some "on") = timerCalcOutput st := by
    intro st; by_cases h : st = some "on" <;> simp [timerCalcOutput, h]
  have h1 : (run (timerCfg a b r init) {} ops).out
      = .bool (timerCalcOutput (run (timerCfg a b r init) {} ops).state) := by
    rcases k with k | k
    · rw [k] at ho; simp [Val.isUndef] at ho
    · rw [← hco]; exact k
  refine ⟨h1, ?_⟩
  rw [h1]
  by_cases hq : (run (timerCfg a b r init) {} ops).state = some "on" <;>
    simp [timerCalcOutput, hq, Val.bool]

/-- **`t_on` / `t_off` not given or None = INF**: the translated constructor then leaves the class default
    INF in force and entering the state starts no timer (`t_period` not given) -/
theorem timer_duration_none_is_inf (kw : TimerKw) (r : Bool) (init : String) (c : Cfg)
    (h : timerInitCfg kw r init = .ok c) (hp : kw.tPeriod = none) :
    ((kw.tOn = none ∨ kw.tOn = some .none) →
      effDur c "on" .none = .inf ∧ ∀ s tev, startTimer c s "on" tev .none = s) ∧
    ((kw.tOff = none ∨ kw.tOff = some .none) →
      effDur c "off" .none = .inf ∧ ∀ s tev, startTimer c s "off" tev .none = s) := by
  rw [translated_timer_init_is_model] at h
  obtain ⟨p, a, b⟩ := kw
  cases hp
  simp only [timerNew, timerKwargs] at h
  split at h
  · cases h
  · cases h
    have h1 : timerTable.timedOf "on" = some (.ev "stop", .inf) := by decide
    have h2 : timerTable.timedOf "off" = some (.ev "start", .inf) := by decide
    have hl : ∀ (x y : Dur), List.lookup "off" [("on", y), ("off", x)] = some x := by
      intro x y; simp [List.lookup]
    constructor
    · intro ha
      have : effDur (timerCfg (a.getD .none) (b.getD .none) r init) "on" .none = .inf := by
        rcases ha with rfl | rfl <;> simp [effDur, Cfg.instDur, timerCfg, h1, clamp]
      exact ⟨this, fun s tev => by simp only [startTimer, this]⟩
    · intro hb
      have : effDur (timerCfg (a.getD .none) (b.getD .none) r init) "off" .none = .inf := by
        rcases hb with rfl | rfl <;> simp [effDur, Cfg.instDur, timerCfg, h2, hl, clamp]
      exact ⟨this, fun s tev => by simp only [startTimer, this]⟩

/-- **`t_period`**: the two halves -- `Timer(t_period=p)` is `Timer(t_on=p/2, t_off=p/2)` -- and `t_period` excludes
    `t_on` and `t_off` (TypeError) -/
theorem timer_period_is_two_halves (n : Int) (hn : 0 ≤ n) (kw : TimerKw) (r : Bool) (init : String) :
    timerInitCfg { tPeriod := some (.us n) } r init = .ok (timerCfg (.us (n / 2)) (.us (n / 2)) r init) ∧
    timerInitCfg { tPeriod := some (.us n) } r init = timerInitCfg { tOn := some (.us (n / 2)), tOff := some (.us (n / 2)) } r init ∧
    (kw.tPeriod.isSome = true → (kw.tOn.isSome || kw.tOff.isSome) = true →
      timerInitCfg kw r init = .error .typeError) := by
  have hn' : ¬ n < 0 := by omega
  refine ⟨?_, ?_, ?_⟩
  · rw [translated_timer_init_is_model]; simp [timerNew, timerKwargs, timePeriodDur, halfDur, clamp, hn']
  · rw [translated_timer_init_is_model, translated_timer_init_is_model]
    simp [timerNew, timerKwargs, timePeriodDur, halfDur, clamp, hn']
  · intro h1 h2
    rw [translated_timer_init_is_model]
    obtain ⟨p, a, b⟩ := kw
    cases p with
    | none => cases h1
    | some pv => simp only [timerNew, timerKwargs, h2, if_true]

/-- the hypotheses of the four theorems above are satisfiable: a Timer(t_on=1s) that was started is on, with its
    timer pending, initialised, not stopped; the constructor succeeds for the durations used -/
example :
    (let s := run (timerCfg (.us 1000000) .none false) {} [.init, .ev 2000000 .after (.ev "start") {}]
     s.state = some "on" ∧ s.out.isUndef = false ∧ (live s).map (·.when) = [3000000]) ∧
    (let s := run (timerCfg (.us 1000000) .none true) {} [.init, .ev 2000000 .after (.ev "start") {}]
     s.failed = none ∧ s.state = some "on" ∧ s.out.isUndef = false ∧ s.stopped = false ∧
       (live s).map (·.when) = [3000000]) := by
  decide +kernel

example : timerInitCfg {} true = .ok (timerCfg .none .none true) ∧
    timerInitCfg { tOn := some .none, tOff := some (.us 5) } false = .ok (timerCfg .none (.us 5) false) :=
  ⟨rfl, rfl⟩

end Edzed.TrTie
