/-
C13 — interval specifications mean the same in every accepted notation.

Model: EdzedModel/Interval.lean (mirrors edzed/blocklib/timeinterval.py and the parse methods of
timedate.py; the driver executes exactly these definitions).  Endpoints are integer tuples; a
parsed interval is the sorted list of `(start, stop)` pairs that `as_list()` exports.

All statements are for every endpoint / every interval / every input (no bounds, no samples).
-/
import EdzedModel.Interval
import EdzedProofs.Interval
import EdzedProofs.IntervalText
import EdzedProofs.IntervalTables
import EdzedProofs.IntervalString
import EdzedProofs.IntervalNotations
import EdzedProofs.IntervalTie
import EdzedProofs.IntervalOrders
import EdzedProofs.IntervalTimeText
import EdzedProofs.IntervalWeekdays
import EdzedProofs.IntervalSummary
import EdzedModel.Gen.Constants
import EdzedModel.Gen.Translated

namespace Edzed.Interval

/-! ### membership -/

/-- time-of-day ranges are left-closed/right-open and cyclic: `x ∈ [a, b)` iff `a = b` (the whole
    day) or `x` comes, counted from `a` around the clock, strictly before `b` -/
theorem time_membership_cyclic {a x b : Ep} (ha : validTime a = true) (hx : validTime x = true)
    (hb : validTime b = true) :
    cmp .time a x b = true ↔
      (a = b ∨ (timeUs x + usPerDay - timeUs a) % usPerDay < (timeUs b + usPerDay - timeUs a) % usPerDay) := by
  show cmpOpen a x b = true ↔ _
  rw [cmpOpen_eq_inOpen ha hx hb,
    inOpen_cyclic usPerDay _ _ _ (timeUs_lt_day ha) (timeUs_lt_day hx) (timeUs_lt_day hb)]
  constructor
  · rintro (h | h)
    · exact Or.inl (timeUs_inj ha hb h)
    · exact Or.inr h
  · rintro (h | h)
    · exact Or.inl (by rw [h])
    · exact Or.inr h

/-- the same for a whole time interval (`x in interval` is `any` over its ranges) -/
theorem time_contains_cyclic (iv : List Range) {x : Ep} (hx : validTime x = true)
    (hv : ∀ r ∈ iv, validTime r.1 = true ∧ validTime r.2 = true) :
    contains .time iv x = true ↔
      ∃ r ∈ iv, r.1 = r.2 ∨
        (timeUs x + usPerDay - timeUs r.1) % usPerDay < (timeUs r.2 + usPerDay - timeUs r.1) % usPerDay := by
  simp only [contains, List.any_eq_true]
  constructor
  · rintro ⟨r, hr, h⟩
    exact ⟨r, hr, (time_membership_cyclic (hv r hr).1 hx (hv r hr).2).1 h⟩
  · rintro ⟨r, hr, h⟩
    exact ⟨r, hr, (time_membership_cyclic (hv r hr).1 hx (hv r hr).2).2 h⟩

/-- equal endpoints mean the whole day -/
theorem time_equal_endpoints_whole_day {a x : Ep} (ha : validTime a = true) (hx : validTime x = true) :
    cmp .time a x a = true :=
  (time_membership_cyclic ha hx ha).2 (Or.inl rfl)

/-- the start belongs to a time range, the stop does not (unless it is the whole day) -/
theorem time_left_closed_right_open {a b : Ep} (ha : validTime a = true) (hb : validTime b = true)
    (hne : a ≠ b) : cmp .time a a b = true ∧ cmp .time a b b = false := by
  have hne' : timeUs a ≠ timeUs b := fun h => hne (timeUs_inj ha hb h)
  have h1 := timeUs_lt_day ha
  have h2 := timeUs_lt_day hb
  constructor
  · rw [time_membership_cyclic ha ha hb]
    right
    rw [usPerDay_eq] at *
    omega
  · rw [Bool.eq_false_iff]
    intro h
    rcases (time_membership_cyclic ha hb hb).1 h with h | h
    · exact hne h
    · exact Nat.lt_irrefl _ h

/-- date ranges are inclusive and cyclic over the 366 days of the dummy leap year -/
theorem date_membership_cyclic_inclusive {a x b : Ep} (ha : validDate a = true) (hx : validDate x = true)
    (hb : validDate b = true) :
    cmp .date a x b = true ↔
      (dayIndex x + 366 - dayIndex a) % 366 ≤ (dayIndex b + 366 - dayIndex a) % 366 := by
  show cmpClosed a x b = true ↔ _
  rw [cmpClosed_eq_inClosed ha hx hb]
  exact inClosed_cyclic 366 _ _ _ (dayIndex_lt ha) (dayIndex_lt hx) (dayIndex_lt hb)

theorem date_contains_cyclic (iv : List Range) {x : Ep} (hx : validDate x = true)
    (hv : ∀ r ∈ iv, validDate r.1 = true ∧ validDate r.2 = true) :
    contains .date iv x = true ↔
      ∃ r ∈ iv, (dayIndex x + 366 - dayIndex r.1) % 366 ≤ (dayIndex r.2 + 366 - dayIndex r.1) % 366 := by
  simp only [contains, List.any_eq_true]
  constructor
  · rintro ⟨r, hr, h⟩
    exact ⟨r, hr, (date_membership_cyclic_inclusive (hv r hr).1 hx (hv r hr).2).1 h⟩
  · rintro ⟨r, hr, h⟩
    exact ⟨r, hr, (date_membership_cyclic_inclusive (hv r hr).1 hx (hv r hr).2).2 h⟩

/-- both endpoints of a date range belong to it; a single date is a range of one day -/
theorem date_endpoints_inclusive {a b : Ep} (ha : validDate a = true) (hb : validDate b = true) :
    cmp .date a a b = true ∧ cmp .date a b b = true := by
  have h1 := dayIndex_lt ha
  have h2 := dayIndex_lt hb
  constructor
  · rw [date_membership_cyclic_inclusive ha ha hb]; omega
  · rw [date_membership_cyclic_inclusive ha hb hb]; omega

theorem date_single_day {a x : Ep} (ha : validDate a = true) (hx : validDate x = true) :
    cmp .date a x a = true ↔ x = a := by
  rw [date_membership_cyclic_inclusive ha hx ha]
  have h1 := dayIndex_lt ha
  have h2 := dayIndex_lt hx
  constructor
  · intro h; exact dayIndex_inj hx ha (by omega)
  · intro h; subst h; omega

/-- date-time ranges never wrap: membership is `start ≤ x < stop` in the tuple (= chronological)
    order, and a range whose stop is not after its start contains nothing -/
theorem datetime_no_wrap (iv : List Range) (x : Ep) :
    contains .datetime iv x = true ↔ ∃ r ∈ iv, le r.1 x = true ∧ lt x r.2 = true := by
  simp [contains, cmp, cmpNoWrap]

theorem datetime_empty_when_stop_not_after_start (a x b : Ep) (h : le b a = true) :
    cmp .datetime a x b = false := by
  rw [Bool.eq_false_iff]
  intro hc
  simp only [cmp, cmpNoWrap, Bool.and_eq_true] at hc
  have := lt_of_le_of_lt hc.1 hc.2
  simp [le, this] at h

/-! ### piecewise constancy between endpoints (used by C07) -/

/-- membership in a time interval cannot change between two instants of one day unless an endpoint
    of some range lies in `(t1, t2]` -/
theorem time_contains_const (iv : List Range) {t1 t2 : Ep}
    (hv : ∀ r ∈ iv, validTime r.1 = true ∧ validTime r.2 = true)
    (h1 : validTime t1 = true) (h2 : validTime t2 = true) (h12 : timeUs t1 ≤ timeUs t2)
    (hb : ∀ r ∈ iv, ¬ (timeUs t1 < timeUs r.1 ∧ timeUs r.1 ≤ timeUs t2) ∧
                     ¬ (timeUs t1 < timeUs r.2 ∧ timeUs r.2 ≤ timeUs t2)) :
    contains .time iv t1 = contains .time iv t2 := by
  induction iv with
  | nil => rfl
  | cons r rs ih =>
    have hr := hv r (by simp)
    have hbr := hb r (by simp)
    have := ih (fun r' hr' => hv r' (by simp [hr'])) (fun r' hr' => hb r' (by simp [hr']))
    simp only [contains, List.any_cons] at this ⊢
    rw [this]
    show (cmpOpen r.1 t1 r.2 || _) = (cmpOpen r.1 t2 r.2 || _)
    rw [cmpOpen_eq_inOpen hr.1 h1 hr.2, cmpOpen_eq_inOpen hr.1 h2 hr.2,
      inOpen_const _ _ _ _ h12 hbr.1 hbr.2]

/-- membership in a date interval is the same for two days with no range start in `(d1, d2]` and no
    range stop in `[d1, d2)` -/
theorem date_contains_const (iv : List Range) {d1 d2 : Ep}
    (hv : ∀ r ∈ iv, validDate r.1 = true ∧ validDate r.2 = true)
    (h1 : validDate d1 = true) (h2 : validDate d2 = true) (h12 : dayIndex d1 ≤ dayIndex d2)
    (hb : ∀ r ∈ iv, ¬ (dayIndex d1 < dayIndex r.1 ∧ dayIndex r.1 ≤ dayIndex d2) ∧
                     ¬ (dayIndex d1 ≤ dayIndex r.2 ∧ dayIndex r.2 < dayIndex d2)) :
    contains .date iv d1 = contains .date iv d2 := by
  induction iv with
  | nil => rfl
  | cons r rs ih =>
    have hr := hv r (by simp)
    have hbr := hb r (by simp)
    have := ih (fun r' hr' => hv r' (by simp [hr'])) (fun r' hr' => hb r' (by simp [hr']))
    simp only [contains, List.any_cons] at this ⊢
    rw [this]
    show (cmpClosed r.1 d1 r.2 || _) = (cmpClosed r.1 d2 r.2 || _)
    rw [cmpClosed_eq_inClosed hr.1 h1 hr.2, cmpClosed_eq_inClosed hr.1 h2 hr.2,
      inClosed_const _ _ _ _ h12 hbr.1 hbr.2]

/-! ### normal form -/

/-- whatever the notation (string, nested sequences, set), an accepted specification yields a
    sorted list of ranges whose endpoints are valid and have the full length (4 / 2 / 7 integers) -/
theorem normal_form_sorted_full {k : Kind} {spec : IvIn} {iv : List Range}
    (h : parseInterval k spec = .ok iv) :
    Sorted iv ∧ ∀ r ∈ iv, (validEp k r.1 = true ∧ validEp k r.2 = true) ∧
      r.1.length = epLen k ∧ r.2.length = epLen k := by
  obtain ⟨l, raw, hraw, rfl⟩ := parseInterval_eq_ok h
  refine ⟨sortR_sorted raw, ?_⟩
  intro r hr
  have hv := parseRanges_valid hraw r (mem_sortR.1 hr)
  exact ⟨hv, validEp_length hv.1, validEp_length hv.2⟩

/-- the normal form does not depend on the notation or on the order in which the ranges were
    written: two accepted specifications denoting the same collection of ranges give the same list -/
theorem normal_form_unique {k : Kind} {s1 s2 : IvIn} {iv1 iv2 : List Range}
    (h1 : parseInterval k s1 = .ok iv1) (h2 : parseInterval k s2 = .ok iv2) (hp : iv1.Perm iv2) :
    iv1 = iv2 :=
  sorted_perm_unique iv1 iv2 (normal_form_sorted_full h1).1 (normal_form_sorted_full h2).1 hp

/-- the result is a permutation of the ranges as written (nothing dropped, nothing merged) -/
theorem parse_keeps_all_ranges {k : Kind} {l : List RangeIn} {iv : List Range}
    (h : parseInterval k (.seq l) = .ok iv) : iv.length = l.length := by
  obtain ⟨raw, h1, h2⟩ := Res.map_eq_ok (show (parseRanges k l).map sortR = .ok iv from h)
  rw [← h2, (sortR_perm raw).length_eq, parseRanges_length h1]

/-- `as_list()` fed back as nested sequences yields the same interval -/
theorem asList_roundtrip {k : Kind} (iv : List Range) (hs : Sorted iv)
    (hv : ∀ r ∈ iv, validEp k r.1 = true ∧ validEp k r.2 = true) :
    parseInterval k (listInput (asList iv)) = .ok iv := by
  have key : ∀ (l : List Range), (∀ r ∈ l, validEp k r.1 = true ∧ validEp k r.2 = true) →
      parseRanges k ((asList l).map fun r => RangeIn.seq (r.map fun e => EpIn.ints (e.map Int.ofNat))) = .ok l := by
    intro l
    induction l with
    | nil => intro _; rfl
    | cons r rs ih =>
      intro hv
      have hr := hv r (by simp)
      have := ih (fun r' hr' => hv r' (by simp [hr']))
      simp only [asList, List.map_cons, List.map_nil, parseRanges, parseRange, convert,
        convertSeq_valid_id hr.1, convertSeq_valid_id hr.2, Res.bind_ok] at this ⊢
      rw [this]; rfl
  show (parseRanges k _).map sortR = .ok iv
  rw [key iv hv]
  simp [sortR_of_sorted iv hs]

/-- in particular: parsing, exporting and parsing again is the identity on every accepted input -/
theorem parse_asList_idempotent {k : Kind} {spec : IvIn} {iv : List Range}
    (h : parseInterval k spec = .ok iv) : parseInterval k (listInput (asList iv)) = .ok iv :=
  asList_roundtrip iv (normal_form_sorted_full h).1 (fun r hr => ((normal_form_sorted_full h).2 r hr).1)

/-- `as_string()` fed back yields the same interval: for every normal-form interval (sorted list of
    valid ranges) of every kind, the rendering – ranges `start / stop;` (a single date for a one-day
    date range) joined by blanks – is split by the delimiter and the separator into exactly the
    original endpoints -/
theorem asString_roundtrip {k : Kind} (iv : List Range) (hs : Sorted iv)
    (hv : ∀ r ∈ iv, validEp k r.1 = true ∧ validEp k r.2 = true) :
    parseInterval k (.str (asString k iv)) = .ok iv := by
  obtain ⟨ha, hp⟩ := parseRanges_asString k iv hv
  simp only [parseInterval, ha, Bool.not_true, Bool.false_eq_true, ↓reduceIte, hp, Res.map_ok,
    sortR_of_sorted iv hs]

/-- parsing any accepted specification, printing it and parsing the text again is the identity -/
theorem parse_asString_idempotent {k : Kind} {spec : IvIn} {iv : List Range}
    (h : parseInterval k spec = .ok iv) : parseInterval k (.str (asString k iv)) = .ok iv :=
  asString_roundtrip iv (normal_form_sorted_full h).1 (fun r hr => ((normal_form_sorted_full h).2 r hr).1)

/-- both exports denote the same interval -/
theorem asString_asList_agree {k : Kind} {spec : IvIn} {iv : List Range}
    (h : parseInterval k spec = .ok iv) :
    parseInterval k (.str (asString k iv)) = parseInterval k (listInput (asList iv)) := by
  rw [parse_asString_idempotent h, parse_asList_idempotent h]

/-! ### range separators, in the code's priority (`Gen.rangeSeparatorsC`); endpoints in canonical
notation, any number of blanks around them -/

def blanks (p : List Char) : Prop := ∀ c ∈ p, c = ' '

/-- `/` (first priority): every kind, incl. date-times whose renderings contain hyphens -/
theorem range_separator_slash {k : Kind} {a b : Ep} (ha : validEp k a = true) (hb : validEp k b = true)
    (p1 q1 p2 q2 : List Char) (h1 : blanks p1) (h2 : blanks q1) (h3 : blanks p2) (h4 : blanks q2) :
    parseRange k (.str ((p1 ++ render k a ++ q1) ++ '/' :: (p2 ++ render k b ++ q2))) = .ok (a, b) :=
  parseRangeStr_slash ha hb p1 q1 p2 q2 h1 h2 h3 h4

/-- ` - ` (second priority): times and dates (their renderings contain neither `/` nor `-`) -/
theorem range_separator_spaced_hyphen {k : Kind} (hk : k ≠ .datetime) {a b : Ep}
    (ha : validEp k a = true) (hb : validEp k b = true)
    (p1 q1 p2 q2 : List Char) (h1 : blanks p1) (h2 : blanks q1) (h3 : blanks p2) (h4 : blanks q2) :
    parseRange k (.str ((p1 ++ render k a ++ q1) ++ ' ' :: '-' :: ' ' :: (p2 ++ render k b ++ q2))) = .ok (a, b) :=
  parseRangeStr_spaced hk ha hb p1 q1 p2 q2 h1 h2 h3 h4

/-- ` - ` between two date-times in canonical notation: their own hyphens are never preceded by a
    blank, so the separator is found (the bare `-` is ambiguous for date-times, see the docs) -/
theorem range_separator_spaced_hyphen_datetime {a b : Ep} (ha : validDateTime a = true)
    (hb : validDateTime b = true) (p1 q1 p2 q2 : List Char) (h1 : blanks p1) (h2 : blanks q1)
    (h3 : blanks p2) (h4 : blanks q2) :
    parseRange .datetime (.str ((p1 ++ renderDateTime a ++ q1) ++ ' ' :: '-' :: ' ' ::
      (p2 ++ renderDateTime b ++ q2))) = .ok (a, b) :=
  parseRangeStr_spaced_datetime ha hb p1 q1 p2 q2 h1 h2 h3 h4

/-- `-` (lowest priority) directly after the first endpoint: times and dates -/
theorem range_separator_hyphen {k : Kind} (hk : k ≠ .datetime) {a b : Ep}
    (ha : validEp k a = true) (hb : validEp k b = true)
    (p1 p2 q2 : List Char) (h1 : blanks p1) (h3 : blanks p2) (h4 : blanks q2) :
    parseRange k (.str ((p1 ++ render k a) ++ '-' :: (p2 ++ render k b ++ q2))) = .ok (a, b) :=
  parseRangeStr_hyphen hk ha hb p1 p2 q2 h1 h3 h4

/-- a single date stands for the one-day range -/
theorem single_date_is_one_day_range {a : Ep} (ha : validDate a = true) (p q : List Char)
    (h1 : blanks p) (h2 : blanks q) :
    parseRange .date (.str (p ++ renderDate a ++ q)) = .ok (a, a) :=
  parseRangeStr_single_date ha p q h1 h2

/-- blanks around an endpoint in canonical notation are ignored -/
theorem endpoint_blanks_ignored {k : Kind} {e : Ep} (h : validEp k e = true) (pre post : List Char)
    (h1 : blanks pre) (h2 : blanks post) : convertStr k (pre ++ render k e ++ post) = .ok e :=
  convertStr_render_padded h pre post h1 h2

/-! ### the canonical string notation (what `as_string()` prints) parses back, for every endpoint -/

/-- `HH:MM:SS[.ffffff]` (`str(dt.time)`) denotes the time it was rendered from -/
theorem parse_render_time {e : Ep} (h : validTime e = true) : convertStr .time (renderTime e) = .ok e := by
  simp only [convertStr, asciiOk_renderTime h, Bool.not_true, Bool.false_eq_true, ↓reduceIte, convertTimeStr,
    strip_renderTime h, parse_render_time_core h]

/-- `Mon D` (`date_to_string`) denotes the date it was rendered from – all 366 days -/
theorem parse_render_date {e : Ep} (h : validDate e = true) : convertStr .date (renderDate e) = .ok e := by
  obtain ⟨mo, d, rfl, -⟩ := validDate_shape h
  have := (List.all_eq_true.1 (dateTable_all h)) (renderDate [mo, d]) (by simp [dateNotations, renderDate])
  simpa using this

/-- `YYYY-MM-DD HH:MM:SS[.ffffff]` (`str(dt.datetime)`) denotes the date-time it was rendered from,
    for every year 1..9999 -/
theorem parse_render_datetime {e : Ep} (h : validDateTime e = true) :
    convertStr .datetime (renderDateTime e) = .ok e := by
  simp only [convertStr, asciiOk_renderDateTime h, Bool.not_true, Bool.false_eq_true, ↓reduceIte,
    convertDateTimeStr, strip_renderDateTime h, parse_render_datetime_core h]

/-- every day of the leap year in thirteen documented notations (full / abbreviated / upper / lower
    case month name, day first or last, with periods, without blank, with surrounding blanks,
    `--MMDD`, `--MM-DD`) denotes that day -/
theorem date_notations_agree {mo d : Nat} (h : validDate [mo, d] = true) :
    ∀ s ∈ dateNotations mo d, convertStr .date s = .ok [mo, d] := by
  intro s hs
  simpa using (List.all_eq_true.1 (dateTable_all h)) s hs

/-- every abbreviation of every month name to three or more letters (as written, lower case,
    upper case) denotes that month -/
theorem month_abbreviations_accepted : ∀ mo, mo < 13 → 1 ≤ mo → monthAbbrevOk mo = true :=
  month_abbreviations_table

/-- a month "name" of fewer than three letters is not recognised by `_RE_MONTH` -/
theorem month_shorter_than_three_not_matched (s : List Char) (h : (s.takeWhile isAlpha).length < 3) :
    reMonth s = none := by
  simp only [reMonth]
  split
  · omega
  · rfl

/-! ### further notations of a time of day, for every endpoint -/

/-- `H:M` (one or two digits each), `HH:MM`, `THH:MM`, `HHMM`, `THHMM` all denote h:m:00 -/
theorem time_notations_HM {h m : Nat} (hh : h < 24) (hm : m < 60) :
    ∀ s ∈ [tHM h m, tHMp h m, 'T' :: tHMp h m, tHMb h m, 'T' :: tHMb h m],
      convertStr .time s = .ok [h, m, 0, 0] := by
  have p := time_HM_padded hh hm false
  have pT := time_HM_padded hh hm true
  intro s hs
  simp only [List.mem_cons, List.not_mem_nil, or_false] at hs
  rcases hs with rfl | rfl | rfl | rfl | rfl
  · exact time_HM_unpadded hh hm
  · simpa [optT] using p.1
  · simpa [optT] using pT.1
  · simpa [optT] using p.2
  · simpa [optT] using pT.2

/-- `H:M:S` (one or two digits each), `HH:MM:SS`, `THH:MM:SS`, `HHMMSS`, `THHMMSS` all denote h:m:s -/
theorem time_notations_HMS {h m s : Nat} (hh : h < 24) (hm : m < 60) (hs : s < 60) :
    ∀ b ∈ timeBases h m s, convertStr .time b = .ok [h, m, s, 0] := by
  have p := time_HMS_padded hh hm hs false
  have pT := time_HMS_padded hh hm hs true
  intro b hb
  simp only [timeBases, List.mem_cons, List.not_mem_nil, or_false] at hb
  rcases hb with rfl | rfl | rfl | rfl | rfl
  · exact time_HMS_unpadded hh hm hs
  · simpa [optT] using p.1
  · simpa [optT] using pT.1
  · simpa [optT] using p.2
  · simpa [optT] using pT.2

/-- each of these five followed by a decimal point or a decimal comma and 1 to 6 digits: the digits,
    right-padded with zeros, are the microseconds (`fracUs`) -/
theorem time_notations_fraction {h m s : Nat} (hh : h < 24) (hm : m < 60) (hs : s < 60)
    (c : Char) (hc : c = '.' ∨ c = ',') (q : List Char) (hq : q ≠ [])
    (hd : ∀ z ∈ q, isDigit z = true) (hl : q.length ≤ 6) :
    ∀ b ∈ timeBases h m s, convertStr .time (b ++ c :: q) = .ok [h, m, s, fracUs q] :=
  time_fraction_notations hh hm hs c hc q hq hd hl

/-- `k` fraction digits writing the number `v` mean `v · 10^(6−k)` µs; a fraction is always below 1 s -/
theorem fraction_digits_value (k v : Nat) (hk : k ≤ 6) (hv : v < 10 ^ k) :
    fracUs (pad k v) = v * 10 ^ (6 - k) ∧ (pad k v).length = k ∧ ∀ z ∈ pad k v, isDigit z = true :=
  ⟨fracUs_pad k v hk hv, pad_length k v, pad_digits k v⟩

/-! ### further notations of a date-time, for every endpoint (years 1..9999) -/

/-- ISO 8601 extended `YYYY-MM-DDTHH:MM:SS[.ffffff]` (through `datetime.fromisoformat`) -/
theorem datetime_notation_iso_extended {e : Ep} (h : validDateTime e = true) :
    convertStr .datetime (isoExt e) = .ok e := iso_ext h

/-- traditional `D. Mon YYYY HH:MM:SS[.ffffff]` (day first with a period, month abbreviated to three
    letters as written or in lower case, year, time – through `_RE_TIME`, `_RE_YEAR`, `_RE_MONTH`, `_RE_DAY`) -/
theorem datetime_notation_traditional {e : Ep} (h : validDateTime e = true) (lower : Bool) :
    convertStr .datetime (tradCanon lower e) = .ok e := trad_canon h lower

/-- the same with ANY three letters `a b c` (none a capital `T`) that `_name_to_month` maps to the month -/
theorem datetime_notation_traditional_any_case (a b c : Char) (ha : isAlpha a = true) (hb : isAlpha b = true)
    (hc : isAlpha c = true) (hT : a ≠ 'T' ∧ b ≠ 'T' ∧ c ≠ 'T') {e : Ep} (h : validDateTime e = true)
    (hm : nameToMonth [a, b, c] = some (e.getD 1 0)) :
    convertStr .datetime (tradDMY a b c e) = .ok e :=
  convertStr_datetime_of_stripped (trad_clean a b c ha hb hc h).1 (trad_clean a b c ha hb hc h).2
    (trad_core a b c ha hb hc hT h hm)


/-! ### date-time notations whose parts come in any order; dashed dates; ISO basic; hour only (round 8) -/

/-- docs 1A "YYYY month day time-of-day … the listed parts may be given in any order": the year (four digits), the
    month name (three letters `a b c` that `_name_to_month` maps to the month), the day of the month (`D` or `DD`)
    and the time of day in ANY colon notation (`H:M`, `HH:MM`, `H:M:S`, `HH:MM:SS`, with a fraction of 1..6 digits
    after `.` or `,`, or `str(time)`), separated by blanks, in every one of the 24 orders, denote that date-time -/
theorem datetime_parts_in_any_order (a b c : Char) (ha : isAlpha a = true) (hb : isAlpha b = true)
    (hc : isAlpha c = true) (hT : a ≠ 'T' ∧ b ≠ 'T' ∧ c ≠ 'T') {y mo d : Nat} {tm : Ep} {tt : List Char}
    (ht : ColonTime tt tm) (hv : validDateTime ([y, mo, d] ++ tm) = true)
    (hm : nameToMonth [a, b, c] = some mo) (dtok : List Char) (hd : dtok ∈ dayTokens d) :
    ∀ ts ∈ perms [tt, pad 4 y, [a, b, c], dtok], convertStr .datetime (joinSp ts) = .ok ([y, mo, d] ++ tm) :=
  datetime_any_order a b c ha hb hc hT ht.timeText ht.convert hv hm dtok hd

/-- the same for ANY text that `_RE_TIME` matches as a whole and `convert_time_str` accepts -/
theorem datetime_parts_in_any_order_any_time (a b c : Char) (ha : isAlpha a = true) (hb : isAlpha b = true)
    (hc : isAlpha c = true) (hT : a ≠ 'T' ∧ b ≠ 'T' ∧ c ≠ 'T') {y mo d : Nat} {tm : Ep} {tt : List Char}
    (ht : TimeText tt) (hct : convertStr .time tt = .ok tm) (hv : validDateTime ([y, mo, d] ++ tm) = true)
    (hm : nameToMonth [a, b, c] = some mo) (dtok : List Char) (hd : dtok ∈ dayTokens d) :
    ∀ ts ∈ perms [tt, pad 4 y, [a, b, c], dtok], convertStr .datetime (joinSp ts) = .ok ([y, mo, d] ++ tm) :=
  datetime_any_order a b c ha hb hc hT ht hct hv hm dtok hd

/-- every time of day has colon notations (so the theorems above are about all endpoints): the canonical one,
    and `H:M` / `H:M:S` when the lower fields are zero -/
theorem colon_time_exists {e : Ep} (h : validTime e = true) : ColonTime (renderTime e) e := .canonical h

/-- `perms` lists every order: each permutation of the parts occurs in it -/
theorem perms_complete {α : Type} [DecidableEq α] (l ts : List α) (h : ts.Perm l) : ts ∈ perms l := by
  induction l generalizing ts with
  | nil => simp [List.perm_nil.mp h, perms]
  | cons x xs ih =>
    have hx : x ∈ ts := h.symm.subset (by simp)
    obtain ⟨pre, post, rfl⟩ := List.append_of_mem hx
    have hp : (pre ++ post).Perm xs := by
      have := (List.perm_middle (a := x) (l₁ := pre) (l₂ := post)).symm.trans h |>.symm
      exact (List.Perm.cons_inv (this.symm))
    simp only [perms, List.mem_flatMap]
    refine ⟨pre ++ post, ih _ hp, ?_⟩
    clear ih hp h hx
    induction pre with
    | nil => cases post <;> simp [insertAll]
    | cons p ps ihp => simp only [List.cons_append, insertAll, List.mem_cons, List.mem_map]; right; exact ⟨_, ihp, rfl⟩

/-- `YYYY-MM-DD` or `YYYY-mon-DD` (three letters) before or after the time of day (any colon notation) -/
theorem datetime_notation_dashed (a b c : Char) (ha : isAlpha a = true) (hb : isAlpha b = true)
    (hc : isAlpha c = true) (hT : a ≠ 'T' ∧ b ≠ 'T' ∧ c ≠ 'T') {y mo d : Nat} {tm : Ep} {tt : List Char}
    (ht : ColonTime tt tm) (hv : validDateTime ([y, mo, d] ++ tm) = true) (hm : nameToMonth [a, b, c] = some mo) :
    ∀ Z ∈ [ymdNum y mo d, ymdName a b c y d], ∀ ts ∈ [[tt, Z], [Z, tt]],
      convertStr .datetime (joinSp ts) = .ok ([y, mo, d] ++ tm) := by
  intro Z hZ ts hts
  simp only [List.mem_cons, List.not_mem_nil, or_false] at hZ
  exact datetime_dashed a b c ha hb hc hT ht.timeText ht.convert hv hm Z hZ ts (by simpa [insertAll] using hts)

/-- the year, then `--MMDD` or `--MM-DD`, the time of day before, between or after them -/
theorem datetime_notation_year_isoMD {y mo d : Nat} {tm : Ep} {tt : List Char} (ht : ColonTime tt tm)
    (hv : validDateTime ([y, mo, d] ++ tm) = true) :
    ∀ Z ∈ [isoMD mo d, isoMDd mo d], ∀ ts ∈ [[tt, pad 4 y, Z], [pad 4 y, tt, Z], [pad 4 y, Z, tt]],
      convertStr .datetime (joinSp ts) = .ok ([y, mo, d] ++ tm) := by
  intro Z hZ ts hts
  simp only [List.mem_cons, List.not_mem_nil, or_false] at hZ
  exact datetime_year_isoMD ht.timeText ht.convert hv Z hZ ts (by simpa [insertAll] using hts)

/-- ISO 8601 through `datetime.fromisoformat`: extended `YYYY-MM-DD` or basic `YYYYMMDD` date, `T`, and ANY ISO time
    (`HH`, `HH:MM`, `HHMM`, `HH:MM:SS`, `HHMMSS`, the last two with a fraction of 1..6 digits after `.` or `,`) -/
theorem datetime_notation_iso {y mo d : Nat} {tm : Ep} {t : List Char} (ht : IsoTime t tm)
    (hv : validDateTime ([y, mo, d] ++ tm) = true) :
    ∀ D ∈ [ymdNum y mo d, ymdBasic y mo d], convertStr .datetime (D ++ 'T' :: t) = .ok ([y, mo, d] ++ tm) := by
  intro D hD
  simp only [List.mem_cons, List.not_mem_nil, or_false] at hD
  exact iso_datetime ht.text hv D hD

/-- a time given as the hour only: `HH` and `THH` mean that hour at :00:00, for all 24 hours; 24..99 and a single
    digit (`7`, `T7`) are rejected -/
theorem time_notation_hour_only :
    (∀ h, h < 24 → convertStr .time (pad 2 h) = .ok [h, 0, 0, 0] ∧ convertStr .time ('T' :: pad 2 h) = .ok [h, 0, 0, 0]) ∧
    (∀ h, 24 ≤ h → h < 100 → convertStr .time (pad 2 h) = .err .value ∧ convertStr .time ('T' :: pad 2 h) = .err .value) ∧
    (∀ x, isDigit x = true → convertStr .time [x] = .err .value ∧ convertStr .time ['T', x] = .err .value) :=
  ⟨fun _ hh => time_hour_only hh, fun _ h1 h2 => time_hour_24_rejected h1 h2, time_single_digit_rejected⟩

/-! ### rejection of malformed input -/

/-- no notation whatsoever – string or integers – yields an endpoint with an out-of-range field
    (hour 24, minute 60, Feb 30, month 13, year 0, …): such input is an error -/
theorem out_of_range_never_accepted {k : Kind} {x : EpIn} {e : Ep} (h : convert k x = .ok e) :
    validEp k e = true := convert_valid h

/-- an integer sequence of the wrong length is a ValueError (time 1..4, date 2, date-time 5..7) -/
theorem seq_wrong_length_rejected (l : List Int) :
    ((l.length = 0 ∨ 4 < l.length) → convertSeq .time l = .err .value) ∧
    (l.length ≠ 2 → convertSeq .date l = .err .value) ∧
    ((l.length < 5 ∨ 7 < l.length) → convertSeq .datetime l = .err .value) := by
  refine ⟨fun h => ?_, fun h => ?_, fun h => ?_⟩ <;> simp only [convertSeq] <;> split <;> first | omega | rfl

/-- a negative field is a ValueError -/
theorem seq_negative_rejected (k : Kind) (l : List Int) (hneg : ∃ v ∈ l, v < 0)
    (hsmall : ∀ v ∈ l, -cIntLimit ≤ v ∧ v < cIntLimit) : convertSeq k l = .err .value := by
  have h1 : intsToNats l = .err .value := by
    unfold intsToNats
    have : l.any (fun v => decide (v ≥ cIntLimit) || decide (v < -cIntLimit)) = false := by
      rw [List.any_eq_false]
      intro v hv hc
      have := hsmall v hv
      rcases Bool.or_eq_true_iff.1 hc with h' | h' <;> (have h'' := of_decide_eq_true h'; omega)
    obtain ⟨v, hv, hlt⟩ := hneg
    have h2 : l.any (fun v => decide (v < 0)) = true := List.any_eq_true.2 ⟨v, hv, by simpa using hlt⟩
    simp [this, h2]
  cases k <;> simp only [convertSeq, h1, Res.bind_err] <;> split <;> rfl

/-- a range sequence with no or with three and more endpoints is a ValueError; a single value is
    accepted for dates only -/
theorem range_wrong_arity_rejected (k : Kind) (l : List EpIn) :
    ((l.length = 0 ∨ 3 ≤ l.length) → parseRange k (.seq l) = .err .value) ∧
    (l.length = 1 → k ≠ .date → parseRange k (.seq l) = .err .value) := by
  constructor
  · intro h
    match l, h with
    | [], _ => rfl
    | _ :: _ :: _ :: _, _ => rfl
  · intro h hk
    match l, h with
    | [a], _ => cases k <;> first | rfl | exact absurd rfl hk

/-- a time or date-time range string needs exactly one separator: a single value or three endpoints
    (no separator splits the string into two parts) is a ValueError -/
theorem range_string_without_two_parts_rejected (k : Kind) (hk : k ≠ .date) (s : List Char)
    (h : firstSplit2 Gen.rangeSeparatorsC s = none) : parseRangeStr k s = .err .value := by
  unfold parseRangeStr
  rw [h]
  cases k <;> first | rfl | exact absurd rfl hk

/-- objects of the wrong type are TypeErrors -/
theorem wrong_type_rejected (k : Kind) :
    parseInterval k .bad = .err .type ∧ parseRange k .bad = .err .type ∧ convert k .bad = .err .type :=
  ⟨rfl, rfl, rfl⟩

/-- one malformed range makes the whole specification an error (the first one decides which) -/
theorem malformed_range_rejects_interval (k : Kind) (pre : List RangeIn) (x : RangeIn) (post : List RangeIn)
    (e : Err) (hpre : ∀ p ∈ pre, ∃ r, parseRange k p = .ok r) (hx : parseRange k x = .err e) :
    parseInterval k (.seq (pre ++ x :: post)) = .err e := by
  have : parseRanges k (pre ++ x :: post) = .err e := by
    induction pre with
    | nil => simp [parseRanges, hx]
    | cons p ps ih =>
      obtain ⟨r, hr⟩ := hpre p (by simp)
      simp only [List.cons_append, parseRanges, hr, Res.bind_ok,
        ih (fun q hq => hpre q (by simp [hq])), Res.bind_err]
  show (parseRanges k _).map sortR = _
  rw [this]; rfl

/-! ### `TimeDate.parse`: weekday normalisation -/

/-- weekday numbers outside 0..7 are a ValueError -/
theorem weekday_out_of_range_rejected (l : List Int) (h : ∃ x ∈ l, x < 0 ∨ 7 < x) :
    parseWeekdays (.ints l) = .err .value := by
  obtain ⟨x, hx, hr⟩ := h
  have : l.all (fun x => decide (0 ≤ x) && decide (x ≤ 7)) = false := by
    rw [List.all_eq_false]
    refine ⟨x, hx, ?_⟩
    simp only [Bool.and_eq_true, decide_eq_true_eq]
    omega
  simp [parseWeekdays, weekdaysOfInts, this]

/-- accepted weekdays are exported sorted, without duplicates, as 1..7 with Sunday (0 or 7) as 7 -/
theorem weekdays_normal_form {l : List Int} {w : List Nat} (h : parseWeekdays (.ints l) = .ok w) :
    w.Pairwise (· < ·) ∧
    ∀ d, d ∈ w ↔ (1 ≤ d ∧ d ≤ 7 ∧ ((d : Int) ∈ l ∨ (d = 7 ∧ (0 : Int) ∈ l))) := by
  simp only [parseWeekdays, weekdaysOfInts] at h
  split at h
  · next hall =>
    cases h
    constructor
    · exact List.Pairwise.sublist List.filter_sublist (by decide)
    · intro d
      rw [List.all_eq_true] at hall
      simp only [List.mem_filter, List.contains_eq_mem, List.mem_map, decide_eq_true_eq]
      constructor
      · rintro ⟨hd, x, hx, hxd⟩
        have hr := hall x hx
        simp only [Bool.and_eq_true, decide_eq_true_eq] at hr
        have hd' : 1 ≤ d ∧ d ≤ 7 := by simp at hd; omega
        refine ⟨hd'.1, hd'.2, ?_⟩
        by_cases h0 : x = 0
        · subst h0; simp at hxd; exact Or.inr ⟨hxd.symm, hx⟩
        · simp only [h0, ↓reduceIte] at hxd
          left
          have : (d : Int) = x := by omega
          rw [this]; exact hx
      · rintro ⟨h1, h7, hm | ⟨rfl, hm⟩⟩
        · refine ⟨by simp; omega, (d : Int), hm, ?_⟩
          simp
          omega
        · exact ⟨by simp, 0, hm, by simp⟩
  · cases h


/-- a weekday STRING means the sequence of its digits (blanks and tabs skipped) -/
theorem weekday_string_is_digit_sequence {s : List Char} (ha : asciiOk s = true)
    (hd : ∀ c ∈ s, c = ' ' ∨ c = '\t' ∨ isDigit c = true) :
    parseWeekdays (.str s) = parseWeekdays (.ints (wdDigits s)) := parseWeekdays_str_digits ha hd

/-- … and any other character (ASCII) makes it a ValueError; so do the digits 8 and 9 -/
theorem weekday_string_rejected {s : List Char} (ha : asciiOk s = true) :
    ((∃ c ∈ s, c ≠ ' ' ∧ c ≠ '\t' ∧ isDigit c = false) → parseWeekdays (.str s) = .err .value) ∧
    ((∀ c ∈ s, c = ' ' ∨ c = '\t' ∨ isDigit c = true) → (∃ c ∈ s, isDigit c = true ∧ 8 ≤ dval c) →
      parseWeekdays (.str s) = .err .value) := by
  refine ⟨parseWeekdays_str_nondigit ha, fun hd ⟨c, hc, hcd, h8⟩ => ?_⟩
  rw [parseWeekdays_str_digits ha hd]
  apply weekday_out_of_range_rejected
  refine ⟨Int.ofNat (dval c), ?_, Or.inr (by simp; omega)⟩
  simp only [wdDigits, wdChars, List.mem_map, List.mem_filter]
  refine ⟨c, ⟨hc, ?_⟩, rfl⟩
  have p := isDigit_props hcd
  have h1 : (c == ' ') = false := by
    rw [beq_eq_false_iff_ne]; intro e; rw [e] at hcd; revert hcd; decide
  have h2 : (c == '\t') = false := by
    rw [beq_eq_false_iff_ne]; intro e; rw [e] at hcd; revert hcd; decide
  simp [h1, h2]

/-- what a string over `0`..`7` (with blanks/tabs) means: the set of the weekdays whose digit occurs in it, `0`
    standing for 7 – sorted, without duplicates -/
theorem weekday_string_meaning {s : List Char}
    (hs : ∀ c ∈ s, c = ' ' ∨ c = '\t' ∨ (isDigit c = true ∧ dval c ≤ 7)) :
    ∃ w, parseWeekdays (.str s) = .ok w ∧ w.Pairwise (· < ·) ∧
      ∀ d, d ∈ w ↔ (1 ≤ d ∧ d ≤ 7 ∧ (digitChar d ∈ s ∨ (d = 7 ∧ '0' ∈ s))) := by
  have ha : asciiOk s = true := by
    simp only [asciiOk, List.all_eq_true]
    intro c hc
    rcases hs c hc with rfl | rfl | ⟨h, -⟩
    · decide
    · decide
    · exact (isDigit_props h).2.1
  have hd : ∀ c ∈ s, c = ' ' ∨ c = '\t' ∨ isDigit c = true := fun c hc => by
    rcases hs c hc with h | h | h
    · exact Or.inl h
    · exact Or.inr (Or.inl h)
    · exact Or.inr (Or.inr h.1)
  have hmem : ∀ n : Nat, n ≤ 7 → ((n : Int) ∈ wdDigits s ↔ digitChar n ∈ s) := by
    intro n hn
    simp only [wdDigits, wdChars, List.mem_map, List.mem_filter]
    constructor
    · rintro ⟨c, ⟨hc, hnb⟩, he⟩
      rcases hs c hc with rfl | rfl | ⟨hcd, -⟩
      · simp at hnb
      · simp at hnb
      · have : dval c = n := Int.ofNat.inj he
        rw [← this, ← char_of_dval hcd]; exact hc
    · intro hc
      refine ⟨digitChar n, ⟨hc, ?_⟩, ?_⟩
      · have h1 : (digitChar n == ' ') = false := by
          rw [beq_eq_false_iff_ne]; exact digitChar_ne_blank n
        have h2 : (digitChar n == '\t') = false := by
          rw [beq_eq_false_iff_ne]; intro e
          have := isDigit_digitChar n; rw [e] at this; revert this; decide
        simp [h1, h2]
      · simp only [dval_digitChar]
        have : n % 10 = n := by omega
        rw [this]; rfl
  have hall : (wdDigits s).all (fun x => decide (0 ≤ x) && decide (x ≤ 7)) = true := by
    simp only [wdDigits, wdChars, List.all_eq_true, List.mem_map, List.mem_filter]
    rintro x ⟨c, ⟨hc, hnb⟩, rfl⟩
    rcases hs c hc with rfl | rfl | ⟨-, h7⟩
    · simp at hnb
    · simp at hnb
    · simp; omega
  have hok : ∃ w, parseWeekdays (.ints (wdDigits s)) = .ok w := by
    simp only [parseWeekdays, weekdaysOfInts, hall, ↓reduceIte]; exact ⟨_, rfl⟩
  obtain ⟨w, hw⟩ := hok
  refine ⟨w, by rw [parseWeekdays_str_digits ha hd, hw], ?_⟩
  obtain ⟨h1, h2⟩ := weekdays_normal_form hw
  refine ⟨h1, fun d => ?_⟩
  rw [h2 d]
  constructor
  · rintro ⟨a1, a2, h | ⟨rfl, h⟩⟩
    · exact ⟨a1, a2, Or.inl ((hmem d a2).1 h)⟩
    · exact ⟨a1, a2, Or.inr ⟨rfl, by simpa [digitChar] using (hmem 0 (by omega)).1 h⟩⟩
  · rintro ⟨a1, a2, h | ⟨rfl, h⟩⟩
    · exact ⟨a1, a2, Or.inl ((hmem d a2).2 h)⟩
    · refine ⟨a1, a2, Or.inr ⟨rfl, (hmem 0 (by omega)).2 ?_⟩⟩
      simpa [digitChar] using h

/-- order and duplicates are irrelevant, and 0 ≡ 7: two sequences with the same members give the same result;
    replacing every 0 by 7 changes nothing -/
theorem weekdays_order_duplicates_irrelevant (l1 l2 : List Int) (h : ∀ x, x ∈ l1 ↔ x ∈ l2) :
    parseWeekdays (.ints l1) = parseWeekdays (.ints l2) ∧
    parseWeekdays (.ints (l1.map fun x => if x = 0 then 7 else x)) = parseWeekdays (.ints l1) :=
  ⟨weekdaysOfInts_congr l1 l2 h, weekdaysOfInts_fold l1⟩

/-- export ∘ parse is idempotent: the exported weekday list (of a string or a sequence) parses to itself -/
theorem weekdays_export_idempotent {x : WdIn} {w : List Nat} (h : parseWeekdays x = .ok w) :
    parseWeekdays (.ints (w.map Int.ofNat)) = .ok w := by
  have key : ∀ l : List Int, weekdaysOfInts l = .ok w → weekdaysOfInts (w.map Int.ofNat) = .ok w := by
    intro l hl
    obtain ⟨p, rfl⟩ := weekdaysOfInts_eq_ok hl
    exact weekdaysOfInts_export p
  cases x with
  | ints l => exact key l h
  | str s =>
    simp only [parseWeekdays] at h
    split at h
    · cases h
    · split at h
      · exact key _ h
      · cases h


/-! ### the property in its own words: all notations of one interval mean the same -/

/-- Two specifications whose ranges are written in ANY notation of the endpoints proved above or in the earlier
    rounds (`convert k n = .ok e` is what every notation theorem establishes: canonical / padded / `H:M` / `H:M:S` /
    fractions / ISO basic and extended / hour only; the 13 date notations of all 366 days; date-times canonical, ISO
    extended and basic with any ISO time, traditional with the parts in any order, dashed, `--MMDD`; integer
    sequences), in any order of the ranges, and that denote the same collection of ranges: their normal forms
    (`as_list()`) are the same list, and `x in interval` agrees for every instant `x` – it is membership in one of
    the ranges as written -/
theorem any_notations_of_same_ranges_agree {k : Kind} {l1 l2 : List (EpIn × EpIn)} {rs1 rs2 : List Range}
    (h1 : Denotes k l1 rs1) (h2 : Denotes k l2 rs2)
    (hp : rs1.Perm rs2) :
    ∃ iv, parseInterval k (.seq (l1.map fun n => .seq [n.1, n.2])) = .ok iv ∧
      parseInterval k (.seq (l2.map fun n => .seq [n.1, n.2])) = .ok iv ∧
      (∀ x, contains k iv x = contains k rs1 x) ∧ (∀ x, contains k iv x = contains k rs2 x) := by
  have key : ∀ (l : List (EpIn × EpIn)) (rs : List Range), Denotes k l rs →
      parseRanges k (l.map fun n => RangeIn.seq [n.1, n.2]) = .ok rs := fun _ _ h => h.parseRanges
  have e : sortR rs1 = sortR rs2 :=
    sorted_perm_unique _ _ (sortR_sorted _) (sortR_sorted _)
      ((sortR_perm rs1).trans (hp.trans (sortR_perm rs2).symm))
  refine ⟨sortR rs1, ?_, ?_, fun x => ?_, fun x => ?_⟩
  · show (parseRanges k _).map sortR = _
    rw [key l1 rs1 h1]; rfl
  · show (parseRanges k _).map sortR = _
    rw [key l2 rs2 h2, e]; rfl
  · exact (sortR_perm rs1).any_eq
  · exact ((sortR_perm rs1).trans hp).any_eq

/-- the same for interval STRINGS in canonical notation with any accepted separator is `asString_roundtrip` and the
    `range_separator_*` theorems; an endpoint string is the same endpoint inside a string range and inside a
    sequence range: -/
theorem endpoint_string_same_in_sequence_and_string_range {k : Kind} {a b : Ep} (ha : validEp k a = true)
    (hb : validEp k b = true) :
    parseRange k (.str (render k a ++ '/' :: render k b)) = parseRange k (.seq [.str (render k a), .str (render k b)]) := by
  have h1 := range_separator_slash ha hb [] [] [] [] (by simp [blanks]) (by simp [blanks]) (by simp [blanks]) (by simp [blanks])
  simp only [List.nil_append, List.append_nil] at h1
  rw [h1]
  simp only [parseRange, convert, convertStr_render ha, convertStr_render hb, Res.bind_ok]

/-! ### tie to the source -/

/-- the tables and regular expressions of the current source are the ones the model implements -/
theorem tables_match_model :
    Gen.rangeSeparatorsC = [['/'], [' ', '-', ' '], ['-']] ∧ Gen.delimiterC = [';'] ∧
    Gen.delimiterLegacyC = [','] ∧ Gen.dummyYear = 404 ∧ Gen.monthNamesC.length = 13 ∧
    Gen.intervalRegexes =
      [("_RE_DAY", "(\\d{1,2})\\.?"), ("_RE_ISO_DM", "--(\\d{2})-?(\\d{2})"),
       ("_RE_MONTH", "([^\\W\\d_]{3,})\\.?"), ("_RE_TIME", "(\\d{1,2}:\\d{1,2}(:\\d{1,2})?([.,]\\d+)?)"),
       ("_RE_YEAR", "(\\d{4})"), ("_RE_YMD", "([0-9]{4})-([^\\W\\d_]{3,}|[0-9]{2})-([0-9]{2})")] := by
  decide

/-! ### non-vacuity -/

example : parseInterval .time (.str "23:50 - 01:30, 3:20-5:10".toList)
    = .ok [([3, 20, 0, 0], [5, 10, 0, 0]), ([23, 50, 0, 0], [1, 30, 0, 0])] := by decide +kernel

example : contains .time [([23, 50, 0, 0], [1, 30, 0, 0])] [0, 15, 0, 0] = true ∧
    contains .time [([23, 50, 0, 0], [1, 30, 0, 0])] [1, 30, 0, 0] = false := by decide

example : contains .date [([12, 10], [1, 15])] [12, 31] = true ∧
    contains .date [([12, 10], [1, 15])] [1, 15] = true ∧
    contains .date [([12, 10], [1, 15])] [1, 16] = false := by decide

example : tradCanon false [2020, 3, 1, 12, 0, 0, 0] = "1. Mar 2020 12:00:00".toList ∧
    isoExt [2020, 3, 1, 12, 0, 0, 500000] = "2020-03-01T12:00:00.500000".toList ∧
    tHM 7 5 = "7:5".toList ∧ timeBases 7 5 9 = ["7:5:9".toList, "07:05:09".toList, "T07:05:09".toList,
      "070509".toList, "T070509".toList] := by decide +kernel

example : asString .date [([3, 1], [3, 1]), ([12, 10], [1, 15])] = "Mar 1; Dec 10 / Jan 15;".toList := by
  decide +kernel


example : joinSp ["8:05".toList, "1984".toList, "Apr".toList, "1".toList] = "8:05 1984 Apr 1".toList ∧
    ["1".toList, "8:05".toList, "Apr".toList, "1984".toList] ∈ perms ["8:05".toList, "1984".toList, "Apr".toList, "1".toList] ∧
    (perms [1, 2, 3, 4]).length = 24 ∧ dayTokens 1 = ["1".toList, "01".toList] ∧ tHM 8 5 = "8:5".toList ∧
    ymdName 'a' 'p' 'r' 1984 1 = "1984-apr-01".toList ∧ ymdBasic 1984 4 1 ++ 'T' :: tHMSb 8 5 0 = "19840401T080500".toList ∧
    isoMD 4 1 = "--0401".toList := by decide +kernel

example : ColonTime (tHM 8 5) [8, 5, 0, 0] := .hm (by decide) (by decide)

example : IsoTime (pad 2 8) [8, 0, 0, 0] ∧ pad 2 8 = "08".toList := ⟨.hour (by decide), by decide⟩

example : convertStr .datetime "1 8:05 Apr 1984".toList = .ok [1984, 4, 1, 8, 5, 0, 0] ∧
    convertStr .datetime "19840401T08".toList = .ok [1984, 4, 1, 8, 0, 0, 0] ∧
    convertStr .time "T07".toList = .ok [7, 0, 0, 0] ∧ convertStr .time "7".toList = .err .value ∧
    parseWeekdays (.str "7 10".toList) = .ok [1, 7] ∧ parseWeekdays (.ints [0, 1, 7, 1]) = .ok [1, 7] ∧
    parseWeekdays (.str "18".toList) = .err .value := by decide +kernel

/-- KNOWN FINDING C13-digit-run-split (the library misreads instead of rejecting; the model mirrors it): the stray
    `1` of `123:45` becomes the day of the month -/
example : convertStr .datetime "jul 2028 123:45".toList = .ok [2028, 7, 1, 23, 45, 0, 0] := by decide +kernel

example : Denotes .time [(.str "7:5".toList, .ints [8])] [([7, 5, 0, 0], [8, 0, 0, 0])] ∧
    Denotes .time [(.str "T0705".toList, .str "08".toList)] [([7, 5, 0, 0], [8, 0, 0, 0])] := by
  refine ⟨⟨⟨?_, ?_⟩, trivial⟩, ⟨⟨?_, ?_⟩, trivial⟩⟩ <;> decide +kernel

end Edzed.Interval

/-! ### tie to the source by translation

`Gen.Tr.cmpOpen/cmpClosed/cmpNoWrap` are regenerated on every run by tools/py2lean.py from the Python text of
`_Interval._cmp_open`, `_Interval._cmp_closed` and `DateTimeInterval._cmp_open`. -/
namespace Edzed.TrTie

/-- the membership functions the theorems above talk about ARE the translated source functions
    (with tuple comparison for `<` and `<=`) -/
theorem translated_membership_is_model :
    (∀ lo x hi, Gen.Tr.cmpOpen Interval.lt Interval.le lo x hi = Interval.cmpOpen lo x hi) ∧
    (∀ lo x hi, Gen.Tr.cmpClosed Interval.lt Interval.le lo x hi = Interval.cmpClosed lo x hi) ∧
    (∀ lo x hi, Gen.Tr.cmpNoWrap Interval.lt Interval.le lo x hi = Interval.cmpNoWrap lo x hi) :=
  ⟨fun _ _ _ => rfl, fun _ _ _ => rfl, fun _ _ _ => rfl⟩

/-! ### tie by translation of the control flow of parsing, normalising and rendering

`Gen.TrIv.*` (EdzedModel/Gen/TranslatedInterval.lean) is regenerated on every run by tools/py2lean_interval.py
from the Python text of `_match_pattern`, `_name_to_month`, `_convert_str`, the `convert_*` functions,
`date_to_string` and the methods of `_Interval`; statement order, conditions, loops, `try/except` and the class
attribute tables come from the AST.  The primitives (regular-expression search, `fromisoformat`, `strptime`,
the `datetime` constructors, `str.split/strip/capitalize`, `int`, `sorted`) are instantiated with the model's
matchers and library functions (`IntervalTie.modelPrims`); `tzAware` is the one behaviour of
`datetime.fromisoformat` the model leaves open.  `Refines m t`: the model declares the input outside its
domain (`unsupported`) or the translated code computes exactly the model's result. -/
open Edzed.Interval Edzed.Gen.TrIv Edzed.IntervalTie in
/-- `_match_pattern` = the model's leftmost search and removal of the matched part (start / end / middle) -/
theorem translated_interval_match_pattern_is_model (tzAware : Bool) (s : List Char) (re : Re)
    (msg : Option (List Char)) :
    match_pattern (modelPrims tzAware) s re msg =
      match search (matcher re) s with
      | some (s', g) => .ok (s', some g)
      | none => if (match msg with | some v => !v.isEmpty | none => false) then .err .value else .ok (s, none) :=
  match_pattern_eq tzAware s re msg

open Edzed.Interval Edzed.Gen.TrIv Edzed.IntervalTie in
/-- `_name_to_month` = the model's `nameToMonth` (first month from index 1 whose name starts with the capitalised text) -/
theorem translated_interval_name_to_month_is_model (tzAware : Bool) (name : List Char) :
    name_to_month (modelPrims tzAware) name =
      match nameToMonth name with
      | some j => .ok (j : Int)
      | none => .err .value := name_to_month_eq tzAware name

open Edzed.Interval Edzed.Gen.TrIv Edzed.IntervalTie in
/-- `_convert_str` for dates and for date-times = the model's parsers: time first, then Y-M-D or year, then
    `--MMDD` or month and day, what each branch does with the groups, the "missing …" errors, the leftover check
    and the final constructor call -/
theorem translated_interval_convert_str_is_model (tzAware : Bool) (s : List Char) :
    convert_str (modelPrims tzAware) s false = convertDateCore s ∧
    convert_str (modelPrims tzAware) s true = convertDateTimeCore s :=
  ⟨convert_str_date_eq tzAware s, convert_str_datetime_eq tzAware s⟩

open Edzed.Interval Edzed.Gen.TrIv Edzed.IntervalTie in
/-- the string converters of the three classes: `convert_time_str` (ISO fast path, zone refused, the four
    `strptime` formats in order), `convert_date_str`, `convert_datetime_str` (ISO fast path only with a `T`,
    fall back to `_convert_str` after a ValueError) -/
theorem translated_interval_string_converters_are_model (tzAware : Bool) (k : Interval.Kind) (s : List Char) :
    Refines (convertStr k s) (convertStrOf (modelPrims tzAware) k s) ∧
    convert_time_str (modelPrims tzAware) s = convertTimeStr s ∧
    convert_date_str (modelPrims tzAware) s = convertDateStr s ∧
    Refines (convertDateTimeStr s) (convert_datetime_str (modelPrims tzAware) s) :=
  ⟨convertStrOf_refines tzAware k s, convert_time_str_eq tzAware s, convert_date_str_eq tzAware s,
   convert_datetime_str_refines tzAware s⟩

open Edzed.Interval Edzed.Gen.TrIv Edzed.IntervalTie in
/-- the sequence converters (length checks, constructor) and the class attribute tables -/
theorem translated_interval_sequence_converters_are_model (tzAware : Bool) (k : Interval.Kind) (l : List Int) :
    convertSeqOf (modelPrims tzAware) k l = convertSeq k l ∧ Gen.TrIv.rclosed k = Interval.rclosed k :=
  ⟨convertSeqOf_eq tzAware k l, rclosed_eq k⟩

open Edzed.Interval Edzed.Gen.TrIv Edzed.IntervalTie in
/-- `_Interval._convert` and `_parse_range`: the separators of `_RANGE_SEPARATORS` tried in order with
    `len(parts) == 2`, the single value only for right-closed intervals, sequences of two (or one) endpoints,
    TypeError otherwise -/
theorem translated_interval_parse_range_is_model (tzAware : Bool) (k : Interval.Kind) (r : RangeIn) (x : EpIn) :
    Refines (parseRange k r) (parse_range (modelPrims tzAware) k r) ∧
    Refines (convert k x) (interval_convert (modelPrims tzAware) k x
      (convertStrOf (modelPrims tzAware) k) (convertSeqOf (modelPrims tzAware) k)) :=
  ⟨parse_range_refines tzAware k r, interval_convert_refines tzAware k x⟩

open Edzed.Interval Edzed.Gen.TrIv Edzed.IntervalTie in
/-- `_Interval.__init__`: the choice of the delimiter, the split, the removal of a blank last piece, every
    range parsed in order, the result sorted (the whole `(start, stop)` tuples) -/
theorem translated_interval_init_is_model (tzAware : Bool) (k : Interval.Kind) (spec : IvIn) :
    Refines (parseInterval k spec) (interval_init (modelPrims tzAware) k spec) :=
  interval_init_refines tzAware k spec

open Edzed.Interval Edzed.Gen.TrIv Edzed.IntervalTie in
/-- `__contains__` / `_cmp`: `any` over the ranges of the closed or open comparison chosen by
    `_RCLOSED_INTERVAL`, with `DateTimeInterval`'s own `_cmp_open` (together with
    `translated_membership_is_model`) -/
theorem translated_interval_contains_is_model (k : Interval.Kind) (iv : List Range) (x : Ep) :
    interval_contains k iv x = Interval.contains k iv x := interval_contains_eq k iv x

open Edzed.Interval Edzed.Gen.TrIv Edzed.IntervalTie in
/-- `as_list`, `_range_string`, `as_string` (and `date_to_string`) = the model's renderer, for every interval
    in normal form -/
theorem translated_interval_rendering_is_model (tzAware : Bool) (k : Interval.Kind) (iv : List Range)
    (hv : ∀ r ∈ iv, validEp k r.1 = true ∧ validEp k r.2 = true) :
    Gen.TrIv.as_string (modelPrims tzAware) k iv = asString k iv ∧
    Gen.TrIv.as_list (modelPrims tzAware) k iv = (asList iv).map fun r => r.map fun e => e.map Int.ofNat :=
  ⟨as_string_eq tzAware k iv hv, as_list_eq tzAware k iv hv⟩

open Edzed.Interval Edzed.Gen.TrIv Edzed.IntervalTie in
/-- `_Interval.range_endpoints` (what TimeDate / TimeSpan register with cron): the set – no duplicates – of all
    range starts and stops, nothing else -/
theorem translated_interval_range_endpoints_is_model (tzAware : Bool) (k : Interval.Kind) (iv : List Range) :
    (Gen.TrIv.range_endpoints (modelPrims tzAware) k iv).Nodup ∧
    ∀ x, x ∈ Gen.TrIv.range_endpoints (modelPrims tzAware) k iv ↔ x ∈ rangeEndpoints iv :=
  range_endpoints_eq tzAware k iv

open Edzed.Interval Edzed.Gen.TrIv Edzed.IntervalTie in
/-- `export_dt` and the module table `_ATTRS`: the exported integers are the model's endpoint tuple (time: hour,
    minute, second, microsecond; date: month, day; date-time: all seven, year first) -/
theorem translated_interval_export_dt_is_model (tzAware : Bool) (k : Interval.Kind) {e : Ep}
    (h : validEp k e = true) :
    export_dt (modelPrims tzAware) k e = e.map Int.ofNat ∧ dtAttrs k = attrLayout k :=
  ⟨export_dt_eq tzAware k h, by cases k <;> rfl⟩

open Edzed.Interval Edzed.Gen.TrIv Edzed.IntervalTie in
/-- consequence for C07: the values returned by the translated `range_endpoints` are exactly the instants at which
    membership in a time interval can change – between two instants of one day with no returned endpoint in
    `(t1, t2]` the result of `x in interval` is the same -/
theorem translated_interval_membership_changes_only_at_range_endpoints (tzAware : Bool) (iv : List Range)
    {t1 t2 : Ep} (hv : ∀ r ∈ iv, validTime r.1 = true ∧ validTime r.2 = true)
    (h1 : validTime t1 = true) (h2 : validTime t2 = true) (h12 : timeUs t1 ≤ timeUs t2)
    (hb : ∀ e ∈ Gen.TrIv.range_endpoints (modelPrims tzAware) .time iv,
      ¬ (timeUs t1 < timeUs e ∧ timeUs e ≤ timeUs t2)) :
    Interval.contains .time iv t1 = Interval.contains .time iv t2 := by
  apply Interval.time_contains_const iv hv h1 h2 h12
  intro r hr
  have m := (range_endpoints_eq tzAware .time iv).2
  have ha : r.1 ∈ rangeEndpoints iv := by
    simp only [rangeEndpoints, List.mem_flatMap]; exact ⟨r, hr, by simp⟩
  have hb' : r.2 ∈ rangeEndpoints iv := by
    simp only [rangeEndpoints, List.mem_flatMap]; exact ⟨r, hr, by simp⟩
  exact ⟨hb _ ((m _).2 ha), hb _ ((m _).2 hb')⟩

open Edzed.Interval Edzed.Gen.TrIv Edzed.IntervalTie in
/-- … and conversely every returned value is a start or a stop of some range (nothing is registered in vain) -/
theorem translated_interval_range_endpoints_are_starts_and_stops (tzAware : Bool) (k : Interval.Kind)
    (iv : List Range) (x : Ep) (hx : x ∈ Gen.TrIv.range_endpoints (modelPrims tzAware) k iv) :
    ∃ r ∈ iv, x = r.1 ∨ x = r.2 := by
  have := ((range_endpoints_eq tzAware k iv).2 x).1 hx
  simp only [rangeEndpoints, List.mem_flatMap, List.mem_cons, List.not_mem_nil, or_false] at this
  exact this

open Edzed.Interval Edzed.Gen.TrIv Edzed.IntervalTie in
/-- non-vacuity: `23:50 – 01:30` and `03:20 – 05:10` have four endpoints; 02:00 and 03:00 lie between them -/
example : (Gen.TrIv.range_endpoints (modelPrims false) .time
      [([3, 20, 0, 0], [5, 10, 0, 0]), ([23, 50, 0, 0], [1, 30, 0, 0])]).length = 4 ∧
    [1, 30, 0, 0] ∈ Gen.TrIv.range_endpoints (modelPrims false) .time
      [([3, 20, 0, 0], [5, 10, 0, 0]), ([23, 50, 0, 0], [1, 30, 0, 0])] ∧
    Interval.contains .time [([3, 20, 0, 0], [5, 10, 0, 0]), ([23, 50, 0, 0], [1, 30, 0, 0])] [2, 0, 0, 0] =
    Interval.contains .time [([3, 20, 0, 0], [5, 10, 0, 0]), ([23, 50, 0, 0], [1, 30, 0, 0])] [3, 0, 0, 0] := by
  decide

end Edzed.TrTie
