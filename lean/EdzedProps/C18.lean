/-
C18 — Repeat re-sends the latest event at the configured pace and count.

Model: EdzedModel/Repeat.lean (mirrors `Repeat._event`, `Repeat._maintask`, `AddonMainTask.stop_async`
with the repairs patches/C18-repeat-chain.diff and patches/C18-stale-resend.diff applied; the
unrepaired code violates `newer_restarts_and_supersedes` and `chain_of_two`, which the oracle of
harness/props/c18.py shows with a replay).  Time is the integer-µs virtual clock.
All statements hold for every configuration, every state, every arrival time / placement /
data and every operation sequence (no bound on lengths).
-/
import EdzedModel.Repeat
import EdzedModel.Gen.TranslatedRepeat
import EdzedModel.RepeatCtor
import EdzedProofs.Repeat

namespace Edzed.Repeat

/-- An event of the configured type arriving at `t` is forwarded in that very step, stamped `t`,
    with `repeat=0` (whatever was going on before, stopped or not): it is the last thing offered
    to the destination in the step, after the timeouts preceding the arrival, whatever the answer;
    with an accepting destination (`s.resp = []`) it is the last thing sent in the step and the
    output becomes 0. -/
theorem forward_immediately_repeat0 (c : Cfg) (s : State) (t : Nat) (pl : Placement) (data : Data) :
    (event c s t pl c.etype data).2 =
        (advance c s (pl.horizon t)).2 ++
          [⟨t, c.etype, 0, outData c (withOrig data) 0, (advance c s (pl.horizon t)).1.answer⟩]
    ∧ (s.resp = [] →
        (event c s t pl c.etype data).2 =
          (advance c s (pl.horizon t)).2 ++ [⟨t, c.etype, 0, outData c (withOrig data) 0, .ok⟩]
        ∧ (event c s t pl c.etype data).1.out = 0) := by
  refine ⟨?_, fun h => ⟨event_sends c s t pl data h, by rw [event_state _ _ _ _ _ h]⟩⟩
  simp only [event, arrive_head c (advance c s (pl.horizon t)).1 t data]

/-- `n` is the number of repetitions due by time `t` for an event that arrived at `t0`:
    the `n`-th is due (`t0 + n·I ≤ t`), and either the count is exhausted or the next one
    is not due yet -/
def DueBy (c : Cfg) (t0 t n : Nat) : Prop :=
  (∀ m, c.count = some m → n ≤ m) ∧ t0 + n * c.interval ≤ t ∧
    (c.count = some n ∨ t < t0 + (n + 1) * c.interval)

/-- such an `n` exists for every `t ≥ t0` (the schedule theorem below is never vacuous) -/
theorem dueBy_exists (c : Cfg) (hI : 0 < c.interval) (t0 t : Nat) (h : t0 ≤ t) : ∃ n, DueBy c t0 t n := by
  have h1 : (t - t0) / c.interval * c.interval ≤ t - t0 := Nat.div_mul_le_self _ _
  have h2 : t - t0 < c.interval * ((t - t0) / c.interval + 1) := Nat.lt_mul_div_succ _ hI
  rw [Nat.mul_comm] at h2
  unfold DueBy
  cases hc : c.count with
  | none =>
    refine ⟨(t - t0) / c.interval, ?_, ?_, ?_⟩
    · intro m e; cases e
    · omega
    · exact Or.inr (by omega)
  | some m =>
    by_cases hm : m ≤ (t - t0) / c.interval
    · refine ⟨m, ?_, ?_, Or.inl rfl⟩
      · intro m' e; cases e; exact Nat.le_refl _
      · have : m * c.interval ≤ (t - t0) / c.interval * c.interval := Nat.mul_le_mul_right _ hm
        omega
    · refine ⟨(t - t0) / c.interval, ?_, by omega, Or.inr (by omega)⟩
      intro m' e; cases e; omega

/-- After an event arrived at `t0` (block not stopped), letting time pass until `t` sends exactly
    the repetitions `k = 1 … n`, the `k`-th at `t0 + k·interval` with `repeat = k` and the data of
    that event, where `n` is the number due by `t` – limited by `count`; the output then shows `n`. -/
theorem repetition_schedule (c : Cfg) (hI : 0 < c.interval) (s : State) (hs : s.stopped = false)
    (hacc : s.resp = [])
    (t0 : Nat) (pl : Placement) (data : Data) (t n : Nat) (hn : DueBy c t0 t n) :
    (advance c (event c s t0 pl c.etype data).1 t).2 =
        (List.range n).map (fun k =>
          ⟨t0 + (k + 1) * c.interval, c.etype, k + 1, outData c (withOrig data) (k + 1), .ok⟩)
      ∧ (advance c (event c s t0 pl c.etype data).1 t).1.out = n := by
  obtain ⟨hcnt, hdue, hend⟩ := hn
  rw [event_state _ _ _ _ _ hacc, hs]
  by_cases hr : repeating c 0 = true
  · -- repeating: closed form of `advance`
    have key := advance_spec c hI t n
      { out := 0, cur := some ⟨withOrig data, 0, t0 + c.interval⟩, stopped := false, resp := [] }
      ⟨withOrig data, 0, t0 + c.interval⟩ rfl rfl rfl
      (by
        intro k hk
        have : (k + 1) * c.interval ≤ n * c.interval := Nat.mul_le_mul_right _ (by omega)
        rw [Nat.succ_mul] at this
        show t0 + c.interval + k * c.interval ≤ t
        omega)
      (by
        intro k hk1 hk
        simp only [repeating, Nat.zero_add]
        cases hc : c.count with
        | none => rfl
        | some m => have := hcnt m hc; simp; omega)
      (by
        rcases hend with he | he
        · left
          have hn0 : 0 < n := by
            cases n with
            | zero => simp [repeating, he] at hr
            | succ n => omega
          exact ⟨hn0, by simp [repeating, he]⟩
        · right
          rw [Nat.succ_mul] at he
          show t < t0 + c.interval + n * c.interval
          omega)
    simp only [hr, Bool.not_false, Bool.true_and, if_true]
    rw [key]
    constructor
    · simp only [sends]
      apply List.map_congr_left
      intro k _
      simp only [nthSend, Nat.zero_add]
      rw [Nat.succ_mul]
      have : t0 + c.interval + k * c.interval = t0 + (k * c.interval + c.interval) := by omega
      rw [this]
    · cases n with
      | zero => simp [after]
      | succ n => simp [after]
  · -- count = 0: nothing is ever repeated
    have hr' : repeating c 0 = false := by simpa using hr
    have hn0 : n = 0 := by
      cases hc : c.count with
      | none => simp [repeating, hc] at hr'
      | some m =>
        have : m = 0 := by simpa [repeating, hc] using hr'
        have := hcnt m hc; omega
    subst hn0
    simp [hr', advance_none]

/-- A newer event restarts the block and supersedes the older one: (a) the state after the arrival
    is the same whatever was being repeated before, (b) hence every continuation behaves as if the
    older events had never been there – nothing of them is sent any more –, and (c) what the step
    itself still sent of older events precedes the forward and is stamped no later than the
    placement's horizon: strictly before `t` for an arrival before / in the loop iteration of a
    timeout due at `t` (`B`, `T`: the explicit same-iteration rule), at most `t` for `A`. -/
theorem newer_restarts_and_supersedes (c : Cfg) (s s' : State) (hst : s.stopped = s'.stopped)
    (hacc : s.resp = []) (hacc' : s'.resp = []) (t : Nat) (pl : Placement) (data : Data) :
    (event c s t pl c.etype data).1 = (event c s' t pl c.etype data).1
    ∧ (∀ ops, run c (event c s t pl c.etype data).1 ops = run c (event c s' t pl c.etype data).1 ops)
    ∧ (∀ x ∈ (event c s t pl c.etype data).2.dropLast,
        x.t ≤ t ∧ (pl ≠ .A → 0 < t → x.t < t)) := by
  have h1 : (event c s t pl c.etype data).1 = (event c s' t pl c.etype data).1 := by
    rw [event_state _ _ _ _ _ hacc, event_state _ _ _ _ _ hacc', hst]
  refine ⟨h1, fun ops => by rw [h1], ?_⟩
  intro x hx
  rw [event_sends _ _ _ _ _ hacc, List.dropLast_concat] at hx
  have := advanceFuel_times c (pl.horizon t) _ s x hx
  cases pl <;> simp only [Placement.horizon] at this <;> refine ⟨by omega, ?_⟩ <;> intro h ht
  · omega
  · omega
  · exact absurd rfl h

/-- Events of other types are ignored: the step is just the passing of time. -/
theorem other_types_ignored (c : Cfg) (s : State) (t : Nat) (pl : Placement) (etype : String)
    (data : Data) (h : etype ≠ c.etype) :
    event c s t pl etype data = advance c s (pl.horizon t) ∧ arrive c s t etype data = (s, []) := by
  simp [event, arrive_other c _ t etype data h]

/-- The items of an event sent for received data `d` with repeat number `rep`: `source` names the
    Repeat block, `orig_source` holds the received `source` (None when there was none), `repeat`
    is the number (replacing a `repeat` item of the received event), every other item is kept. -/
theorem data_preserved_source_rewritten (c : Cfg) (d : Data) (rep : Nat) :
    (outData c (withOrig d) rep).get? "source" = some (Val.str c.name)
    ∧ (outData c (withOrig d) rep).get? "orig_source" = some ((d.get? "source").getD Val.none)
    ∧ (outData c (withOrig d) rep).get? "repeat" = some (Val.int rep)
    ∧ ∀ k, k ≠ "source" → k ≠ "orig_source" → k ≠ "repeat" →
        (outData c (withOrig d) rep).get? k = d.get? k := by
  refine ⟨?_, ?_, ?_, ?_⟩
  · simp [outData, Data.get?_set]
  · simp [outData, withOrig, Data.get?_set]
  · simp [outData, Data.get?_set]
  · intro k h1 h2 h3
    simp [outData, withOrig, Data.get?_set, h1, h2, h3]

/-- … and every event a block ever sends (from its initial state, any operation sequence) has
    that shape for the data `d` of one of the received events, with the configured event type. -/
theorem every_send_is_a_received_event (c : Cfg) (answers : List Resp) (ops : List Op) :
    ∀ x ∈ (run c { resp := answers } ops).2,
      x.etype = c.etype ∧ ∃ d ∈ eventData ops, x.data = outData c (withOrig d) x.rep :=
  run_shape c (eventData ops) ops { resp := answers } (by intro p hp; cases hp) (fun _ h => h)

/-- The output equals the repeat number of the last event sent (the previous output if nothing
    was sent), after every operation sequence from every state; initially it is 0. -/
theorem output_is_repeat (c : Cfg) (s : State) (ops : List Op) :
    (run c s ops).1.out = ((run c s ops).2.getLast?.map (·.rep)).getD s.out
    ∧ (run c {} ops).1.out = ((run c {} ops).2.getLast?.map (·.rep)).getD 0 := by
  constructor
  · rw [run_out, lastRep_eq_getLast]
  · rw [run_out, lastRep_eq_getLast]

/-- After the stop nothing is re-sent: time alone produces nothing, and whatever operation
    sequence follows, every event sent is the immediate forward (`repeat=0`) of an event that
    arrived at that instant. -/
theorem nothing_after_stop (c : Cfg) (s : State) (hacc : s.resp = []) :
    (∀ t, advance c (stop s) t = (stop s, []))
    ∧ ∀ ops, ∀ x ∈ (run c (stop s) ops).2,
        x.rep = 0 ∧ ∃ pl d, Op.event x.t pl c.etype d ∈ ops := by
  refine ⟨fun t => advance_none c _ t rfl, ?_⟩
  intro ops x hx
  rw [run_stopped c (stop s) ops rfl rfl hacc] at hx
  obtain ⟨op, hop, hx⟩ := List.mem_flatMap.mp hx
  cases op with
  | event t pl e d =>
    simp only [forwardOf] at hx
    split at hx
    · next he =>
      simp only [List.mem_singleton] at hx
      subst hx; subst he
      exact ⟨rfl, pl, d, hop⟩
    · cases hx
  | advance t => cases hx
  | stop => cases hx

/-- A Repeat feeding a Repeat (same event type): an event arriving at the first block at `t`
    reaches the destination in the same step, stamped `t`, with `repeat=0`; it names the second
    block as `source` and the first one as `orig_source`, the `repeat` item written by the first
    block is replaced (the unrepaired code raises TypeError here), all other items are kept.
    More generally, whatever the first block sends – including its repetitions `repeat=k` – is
    forwarded by the second block at the same instant with `repeat=0`. -/
theorem chain_of_two (c1 c2 : Cfg) (hty : c2.etype = c1.etype) (ch : Chain) (t : Nat) (pl : Placement)
    (data : Data) (flags : List Bool) (r : Chain × List Sent) (hacc : ch.s1.resp = [])
    (hr : Chain.event c1 c2 ch t pl c1.etype data flags = some r) :
    (∃ a, (⟨t, c2.etype, 0, outData c2 (withOrig (outData c1 (withOrig data) 0)) 0, a⟩ : Sent) ∈ r.2)
    ∧ r.1.s1.out = 0
    ∧ (∀ x ∈ (event c1 ch.s1 t pl c1.etype data).2,
        ∃ a, (⟨x.t, c2.etype, 0, outData c2 (withOrig x.data) 0, a⟩ : Sent) ∈ r.2)
    ∧ ∀ k j, (outData c2 (withOrig (outData c1 (withOrig data) k)) j).get? "repeat" = some (Val.int j)
        ∧ (outData c2 (withOrig (outData c1 (withOrig data) k)) j).get? "source" = some (Val.str c2.name)
        ∧ (outData c2 (withOrig (outData c1 (withOrig data) k)) j).get? "orig_source" = some (Val.str c1.name)
        ∧ ∀ key, key ≠ "source" → key ≠ "orig_source" → key ≠ "repeat" →
            (outData c2 (withOrig (outData c1 (withOrig data) k)) j).get? key = data.get? key := by
  simp only [Chain.event, Chain.finish] at hr
  split at hr
  · next s2' ys hfeed =>
    cases hr
    have hall : ∀ x ∈ (event c1 ch.s1 t pl c1.etype data).2,
        ∃ a, (⟨x.t, c2.etype, 0, outData c2 (withOrig x.data) 0, a⟩ : Sent) ∈ ys := by
      intro x hx
      have hshape : x.etype = c2.etype := by
        rw [hty]
        rw [event_sends _ _ _ _ _ hacc] at hx
        rcases List.mem_append.mp hx with h | h
        · exact advanceFuel_etype c1 _ _ _ x h
        · simp only [List.mem_singleton] at h; subst h; rfl
      exact feed_forwards c2 _ _ _ _ _ hfeed x hx hshape
    refine ⟨?_, ?_, ?_, ?_⟩
    · have hm : (⟨t, c1.etype, 0, outData c1 (withOrig data) 0, .ok⟩ : Sent) ∈
          (event c1 ch.s1 t pl c1.etype data).2 := by
        rw [event_sends _ _ _ _ _ hacc]; simp
      obtain ⟨a, ha⟩ := hall _ hm
      exact ⟨a, List.mem_append_left _ ha⟩
    · show (event c1 ch.s1 t pl c1.etype data).1.out = 0
      rw [event_state _ _ _ _ _ hacc]
    · intro x hx
      obtain ⟨a, ha⟩ := hall x hx
      exact ⟨a, List.mem_append_left _ ha⟩
    · intro k j
      obtain ⟨a1, a2, a3, a4⟩ := data_preserved_source_rewritten c2 (outData c1 (withOrig data) k) j
      obtain ⟨b1, b2, b3, b4⟩ := data_preserved_source_rewritten c1 data k
      refine ⟨a3, a1, ?_, ?_⟩
      · rw [a2, b1]; rfl
      · intro key h1 h2 h3
        rw [a4 key h1 h2 h3, b4 key h1 h2 h3]
  · cases hr

/-! ### destinations that refuse a delivery

`Repeat._event` forwards the event synchronously and queues it for the main task only AFTERWARDS
(`send`, then `self._queue.put_nowait(data)`): an exception of the forward leaves the handler
before anything is queued. -/

/-- An event whose original forwarding the destination refuses with `EdzedUnknownEvent` (the
    destination does not know the event type) is never repeated and disturbs nothing:
    (a) apart from the output 0 and the consumed answer the state is the one just before the
    arrival – NO ITEM IS QUEUED, the block is not stopped (the simulation runs on), an event that
    was being repeated goes on with its own schedule and numbering;
    (b) the sender is told (`Ret.unknown`), the step sends the due older repetitions and this one
    refused forward;
    (c) if nothing was being repeated, then whatever time passes nothing is sent. -/
theorem refused_event_never_repeated (c : Cfg) (s : State) (t : Nat) (pl : Placement) (data : Data)
    (h : (advance c s (pl.horizon t)).1.answer = .unknown) :
    (event c s t pl c.etype data).1 =
        { (advance c s (pl.horizon t)).1 with
            out := 0, resp := (advance c s (pl.horizon t)).1.resp.tail }
    ∧ (event c s t pl c.etype data).2 =
        (advance c s (pl.horizon t)).2 ++ [⟨t, c.etype, 0, outData c (withOrig data) 0, .unknown⟩]
    ∧ (deliver c s t pl c.etype data false).2.2 = .unknown
    ∧ ((advance c s (pl.horizon t)).1.cur = none →
        ∀ t', (advance c (event c s t pl c.etype data).1 t').2 = []) := by
  have hst : (event c s t pl c.etype data).1 =
      { (advance c s (pl.horizon t)).1 with
          out := 0, resp := (advance c s (pl.horizon t)).1.resp.tail } := by
    simp only [event, arrive_unknown _ _ _ _ h]
  refine ⟨hst, by simp only [event, arrive_unknown _ _ _ _ h], ?_, ?_⟩
  · simp [deliver, h]
  · intro hn t'
    rw [hst, advance_none _ _ _ (by simpa using hn)]

/-- the same for a block that is idle: the refused event leaves no trace but the output 0 -/
theorem refused_first_forward_leaves_idle (c : Cfg) (rs : List Resp) (t : Nat) (pl : Placement)
    (data : Data) :
    (event c { resp := .unknown :: rs } t pl c.etype data).1 = { resp := rs } := by
  have h0 : advance c { resp := .unknown :: rs } (pl.horizon t) = ({ resp := .unknown :: rs }, []) :=
    advance_none _ _ _ rfl
  have h := (refused_event_never_repeated c { resp := .unknown :: rs } t pl data
    (by rw [h0]; rfl)).1
  rw [h, h0]
  rfl

/-- A repetition the destination refuses – for whatever reason – is the last thing the block
    does: the exception is raised inside the monitored main task, the simulation is aborted
    (block stopped, nothing pending), the output shows the number of the failed repetition. -/
theorem refused_repetition_stops_simulation (c : Cfg) (s : State) (p : Pending) (t : Nat)
    (hs : s.cur = some p) (hd : p.deadline ≤ t) (ha : s.answer ≠ .ok) :
    advance c s t =
      ({ out := p.rep + 1, cur := none, stopped := true, resp := s.resp.tail },
       [⟨p.deadline, c.etype, p.rep + 1, outData c p.data (p.rep + 1), s.answer⟩]) := by
  have hf : fire c s p =
      ({ out := p.rep + 1, cur := none, stopped := true, resp := s.resp.tail },
       ⟨p.deadline, c.etype, p.rep + 1, outData c p.data (p.rep + 1), s.answer⟩) := by
    unfold fire
    split
    · next e => exact absurd e ha
    · rfl
  simp only [advance, advanceFuel, hs, if_pos hd, hf]
  rw [advanceFuel_none _ _ _ _ rfl]

/-- A forward that fails with any other exception aborts the simulation (the exception passes
    through `Repeat`'s own `SBlock.event`): the block is stopped, nothing is queued for the
    event; at most a timeout of that very instant (deadline `≤ t`, the event that was being
    repeated) is still on its way, and once it has fired nothing is pending. -/
theorem failed_forward_stops_simulation (c : Cfg) (s : State) (t : Nat) (pl : Placement) (data : Data)
    (h : (advance c s (pl.horizon t)).1.answer = .fatal) :
    (event c s t pl c.etype data).1.stopped = true
    ∧ (∀ p, (event c s t pl c.etype data).1.cur = some p →
        (advance c s (pl.horizon t)).1.cur = some p ∧ p.deadline ≤ t)
    ∧ (deliver c s t pl c.etype data false).2.2 = .fatal
    ∧ ∀ (st : State) (p : Pending), st.stopped = true → (fire c st p).1.cur = none := by
  refine ⟨?_, ?_, by simp [deliver, h], ?_⟩
  · simp only [event, arrive, bne_self_eq_false, Bool.false_eq_true, if_false, h]
  · intro p hp
    simp only [event, arrive, bne_self_eq_false, Bool.false_eq_true, if_false, h] at hp
    split at hp
    · next q hq =>
      split at hp
      · next hd => cases hp; exact ⟨hq, hd⟩
      · cases hp
    · cases hp
  · intro st p hst
    unfold fire
    split
    · simp [hst]
    · rfl

/-- `deliver` is `event` plus the result for the sender; an external event (`ExtEvent.send`) is
    refused without reaching the block once the simulation is not running -/
theorem deliver_is_event (c : Cfg) (s : State) (t : Nat) (pl : Placement) (etype : String) (data : Data) :
    ((deliver c s t pl etype data false).1, (deliver c s t pl etype data false).2.1) =
        event c s t pl etype data
    ∧ ((advance c s (pl.horizon t)).1.stopped = true →
        deliver c s t pl etype data true =
          ((advance c s (pl.horizon t)).1, (advance c s (pl.horizon t)).2, .notReady)) := by
  constructor
  · simp [deliver, event]
  · intro h; simp [deliver, h]

/-! ### non-vacuity: concrete runs (interval 10 µs) -/

/-- count 3: an event at 5, a newer one at 35 in the loop iteration of the third timeout (`T`):
    the third repetition of the older event is superseded; then three repetitions and silence -/
example : ((run ⟨"r", "put", 10, some 3⟩ {}
      [.event 5 .T "put" [("value", Val.int 1)], .advance 30,
       .event 35 .T "put" [("value", Val.int 2)], .event 40 .B "other" [], .advance 100]).2.map
      fun x => (x.t, x.rep, x.data.get? "value")) =
    [(5, 0, some (Val.int 1)), (15, 1, some (Val.int 1)), (25, 2, some (Val.int 1)),
     (35, 0, some (Val.int 2)), (45, 1, some (Val.int 2)), (55, 2, some (Val.int 2)),
     (65, 3, some (Val.int 2))] := by decide +kernel

/-- the same arrival after the loop has settled (`A`): the third repetition comes first -/
example : ((run ⟨"r", "put", 10, some 3⟩ {}
      [.event 5 .T "put" [], .event 35 .A "put" [], .advance 50]).2.map fun x => (x.t, x.rep)) =
    [(5, 0), (15, 1), (25, 2), (35, 3), (35, 0), (45, 1)] := by decide +kernel

/-- a destination refusing deliveries: the event at 5 is accepted and repeated; the one at 18 is
    refused with EdzedUnknownEvent (third answer) – it is never repeated and the first event goes
    on (`repeat=2` at 25); the repetition at 35 fails (fifth answer): the block is stopped -/
example : ((run ⟨"r", "put", 10, none⟩ { resp := [.ok, .ok, .unknown, .ok, .fatal] }
      [.event 5 .A "put" [("value", Val.int 1)], .event 18 .T "put" [("value", Val.int 2)],
       .advance 100]).2.map fun x => (x.t, x.rep, x.data.get? "value", x.resp)) =
    [(5, 0, some (Val.int 1), Resp.ok), (15, 1, some (Val.int 1), Resp.ok),
     (18, 0, some (Val.int 2), Resp.unknown), (25, 2, some (Val.int 1), Resp.ok),
     (35, 3, some (Val.int 1), Resp.fatal)] := by decide +kernel

example : (run ⟨"r", "put", 10, none⟩ { resp := [.ok, .ok, .unknown, .ok, .fatal] }
      [.event 5 .A "put" [("value", Val.int 1)], .event 18 .T "put" [("value", Val.int 2)],
       .advance 100]).1 = { out := 3, cur := none, stopped := true, resp := [] } := by decide +kernel

example : DueBy ⟨"r", "put", 10, some 3⟩ 5 1000 3 := by
  refine ⟨?_, by decide, Or.inl rfl⟩
  intro m e; cases e; exact Nat.le_refl _

/-- a chain r1 (interval 10, count 1) → r2 (interval 4, count none): the hypotheses of
    `chain_of_two` are satisfiable and the second block repeats what the first one sends -/
example : ((Chain.event ⟨"r1", "put", 10, some 1⟩ ⟨"r2", "put", 4, none⟩ {} 5 .T "put"
      [("value", Val.int 1), ("source", Val.str "src")] []).bind fun r =>
      (Chain.advance ⟨"r1", "put", 10, some 1⟩ ⟨"r2", "put", 4, none⟩ r.1 20 [false]).map fun q =>
        (r.2 ++ q.2).map fun x => (x.t, x.rep, x.data.get? "orig_source")) =
    some [(5, 0, some (Val.str "r1")), (9, 1, some (Val.str "r1")), (13, 2, some (Val.str "r1")),
          (15, 0, some (Val.str "r1")), (19, 1, some (Val.str "r1"))] := by decide +kernel

end Edzed.Repeat

/-! ### tie by translation (`tools/py2lean_repeat.py`, scheme `TrAct`)

`Gen.TrR.repeatEventActs` is the list of primitive actions of `Repeat._event`, translated from
the current source in program order. -/

namespace Edzed.Repeat.TrTie

open Edzed.Repeat Edzed.Gen.TrR

/-- What a list of primitive actions of the handler does at time `t` to a block in state `s`
    holding the event data `d`.  `send` offers the event to the destination, whose answer is the
    next one of the script; when it REFUSES, the exception leaves the handler and the rest of the
    list is skipped (`unknown`: nothing else happens; `fatal`: `SBlock.event` of the Repeat block
    aborts the simulation – a timeout of that very instant is still on its way).  `enqueue`: the
    main task takes the item in the same instant and starts to wait for `interval`. -/
def runActs (c : Cfg) (t : Nat) : State → Data → List Act → State × List Sent
  | s, _, [] => (s, [])
  | s, _, .ret :: _ => (s, [])
  | s, d, .warnOnce :: r => runActs c t s d r
  | s, d, .setItemFromItem dst src :: r => runActs c t s (d.set dst ((d.get? src).getD Val.none)) r
  | s, d, .setOutput n :: r => runActs c t { s with out := n } d r
  | s, d, .send rep :: r =>
    let x : Sent := ⟨t, c.etype, rep, outData c d rep, s.answer⟩
    match s.answer with
    | .ok => let q := runActs c t { s with resp := s.resp.tail } d r; (q.1, x :: q.2)
    | .unknown => ({ s with resp := s.resp.tail }, [x])
    | .fatal =>
      ({ s with
          cur := match s.cur with
            | some p => if p.deadline ≤ t then some p else none
            | none => none
          stopped := true
          resp := s.resp.tail }, [x])
  | s, d, .enqueue :: r =>
    runActs c t { s with cur := if !s.stopped && repeating c 0 then some ⟨d, 0, t + c.interval⟩ else none } d r

/-- the model's handler `arrive` IS the meaning of the actions of `Repeat._event`, translated from the source -/
theorem translated_event_is_model (c : Cfg) (s : State) (t : Nat) (etype : String) (data : Data) :
    runActs c t s data (repeatEventActs (etype != c.etype)) = arrive c s t etype data := by
  unfold repeatEventActs arrive
  cases h : (etype != c.etype)
  · cases hr : s.resp with
    | nil => simp [runActs, withOrig, State.answer, hr]
    | cons a rs =>
      cases a <;> simp [runActs, withOrig, State.answer, hr]
      cases s.cur <;> rfl
  · simp [runActs]

/-- In the source the synchronous forward PRECEDES the queueing, which is the last action: an
    exception of the forward leaves the handler before anything is queued. -/
theorem send_precedes_queue :
    ∃ pre, repeatEventActs false = pre ++ [Act.send 0, Act.enqueue]
      ∧ Act.enqueue ∉ pre ∧ ∀ n, Act.send n ∉ pre := by
  refine ⟨(repeatEventActs false).take ((repeatEventActs false).length - 2), by decide, by decide, ?_⟩
  intro n; unfold repeatEventActs; simp

/-- … hence, by the meaning of the translated actions: a refused forward queues nothing -/
theorem translated_refused_forward_queues_nothing (c : Cfg) (s : State) (t : Nat) (data : Data)
    (h : s.answer = .unknown) :
    (runActs c t s data (repeatEventActs false)).1.cur = s.cur
    ∧ (runActs c t s data (repeatEventActs false)).1.stopped = s.stopped := by
  unfold repeatEventActs
  cases hr : s.resp with
  | nil => simp [State.answer, hr] at h
  | cons a rs =>
    cases a <;> simp [State.answer, hr] at h
    simp [runActs, State.answer, hr]

/-! #### `Repeat._maintask`: one iteration of its loop, translated (`Gen.TrR.maintaskIter`) -/

/-- What the actions of an iteration do to a block that is repeating `p` (time = the expired
    deadline).  A `send` the destination refuses raises inside the main task: the task dies, the
    monitor aborts the simulation (`true` in the last component), the rest is skipped. -/
def runMActs (c : Cfg) (p : Pending) : State → List MAct → State × List Sent × Bool
  | s, [] => (s, [], false)
  | s, .setOutput n :: r => runMActs c p { s with out := n } r
  | s, .send rep :: r =>
    let x : Sent := ⟨p.deadline, c.etype, rep, outData c p.data rep, s.answer⟩
    match s.answer with
    | .ok => let q := runMActs c p { s with resp := s.resp.tail } r; (q.1, x :: q.2.1, q.2.2)
    | _ => ({ out := s.out, cur := none, stopped := true, resp := s.resp.tail }, [x], true)

/-- … and the state in which the next iteration waits: with the new `repeat`, for `interval`
    again when `repeating` (a task that survived an abort is cancelled before it can wait). -/
def afterIter (c : Cfg) (p : Pending) (o : IterOut) (s : State) : State × List Sent :=
  let q := runMActs c p s o.acts
  if q.2.2 then (q.1, q.2.1)
  else
    ({ q.1 with
        cur := if !q.1.stopped && o.repeating
               then some { p with rep := o.rep, deadline := p.deadline + c.interval } else none },
     q.2.1)

/-- the model's `fire` IS the meaning of the translated iteration that ends with a timeout and an
    empty queue: `repeat += 1`, `set_output(repeat)`, the re-send with that `repeat`, then
    `repeating = count is None or repeat < count`; `data` is kept -/
theorem translated_timeout_is_fire (c : Cfg) (s : State) (p : Pending) :
    ∃ o, maintaskIter c.count true p.rep (.timeout true) = some o
      ∧ o.newData = false ∧ o.continued = false
      ∧ afterIter c p o s = ((fire c s p).1, [(fire c s p).2]) := by
  refine ⟨⟨false, p.rep + 1, [.setOutput (p.rep + 1), .send (p.rep + 1)], repeating c (p.rep + 1), false⟩,
    ?_, rfl, rfl, ?_⟩
  · unfold maintaskIter repeating
    cases c.count <;> simp
  · unfold afterIter fire
    cases hr : s.resp with
    | nil => simp [runMActs, State.answer, hr]
    | cons a rs => cases a <;> simp [runMActs, State.answer, hr]

/-- an iteration that gets an item (idle or repeating alike): `data` is the new item, the numbering
    restarts at 0, NOTHING is sent (the original was forwarded by the handler), and the task
    repeats iff `count is None or 0 < count` – this is the meaning of `Act.enqueue` in `runActs` -/
theorem translated_item_restarts (c : Cfg) (b : Bool) (r : Nat) :
    maintaskIter c.count b r .item = some ⟨true, 0, [], repeating c 0, false⟩ := by
  unfold maintaskIter repeating
  cases b <;> cases c.count <;> simp

theorem translated_item_is_enqueue (c : Cfg) (s : State) (t : Nat) (d : Data) (b : Bool) (r : Nat) :
    ∃ o, maintaskIter c.count b r .item = some o ∧ o.acts = [] ∧
      (runActs c t s d [Act.enqueue]).1.cur =
        (if !s.stopped && o.repeating then some ⟨d, o.rep, t + c.interval⟩ else none) :=
  ⟨_, translated_item_restarts c b r, rfl, rfl⟩

/-- THE SAME-ITERATION RULE in the source: a timeout that finds the queue non-empty sends nothing
    and changes nothing (`continue`) – the new item supersedes the event repeated so far -/
theorem translated_timeout_superseded (count : Option Nat) (r : Nat) :
    maintaskIter count true r (.timeout false) = some ⟨false, r, [], true, true⟩ := by
  unfold maintaskIter; simp

/-- an idle task waits without a timeout, and the task starts idle -/
theorem translated_idle_never_times_out (count : Option Nat) (r : Nat) (q : Bool) :
    maintaskIter count false r (.timeout q) = none ∧ maintaskInit = false := by
  unfold maintaskIter; simp [maintaskInit]

end Edzed.Repeat.TrTie

/-! ### tie by translation: constructors and task life-cycle (`tools/py2lean_ctor.py`)

`Gen.TrC.*` are the programs translated from the current source of `Event.__init__ / typecheck / dest`,
`_to_tuple`, `Repeat.__init__ / start / init_regular`, `AddonAsync.__init__ / _task_monitor /
_create_monitored_task`, `AddonMainTask.__init__ / start / stop_async`; `RepeatCtor.*` is the hand-written model. -/

namespace Edzed.TrTie

open Edzed.Gen.TrC Edzed.RepeatCtor

/-- an `Except` as a program -/
def ctorOfExcept {σ α : Type} (x : Except Exc α) : M σ α := fun s => (x, s)

/-! #### Event.typecheck / Event.__init__ / Event.dest / _to_tuple -/

theorem translated_ctor_typecheck_is_model {σ : Type} (etype : ETy) :
    (eventTypecheck etype : M σ Unit) = ctorOfExcept (typecheck etype) := by
  funext s
  cases etype with
  | str x => by_cases h : x = "" <;> simp [eventTypecheck, typecheck, ctorOfExcept, ETy.isStr, ETy.truthy, raise, M.pure, h]
  | other t => simp [eventTypecheck, typecheck, ctorOfExcept, ETy.isStr, ETy.isEventType, raise]
  | _ => simp [eventTypecheck, typecheck, ctorOfExcept, ETy.isStr, ETy.isEventType, M.pure]

/-- the primitives of `Event.__init__`: the Repeat constructor is the model's `repeatNew`, the filters are
    accepted or not, `resolve_name` is recorded -/
def ctorEvPrims (filtersOk : Bool) : EvPrims where
  mkRepeat dest etype interval count := fun s =>
    match repeatNew dest etype interval count with
    | .ok rc => (.ok (.repeatOf rc.dest rc.etype rc.interval rc.count), s)
    | .error e => (.error e, s)
  efilterTuple := if filtersOk then M.pure () else raise "TypeError"
  resolveDest := modifyS fun o => { o with resolveCalled := true }

/-- `Event.__init__` computes the model's `eventNew`: on success `_dest` / `_etype` are what the model says, the
    filters are stored and the name resolution is requested; otherwise the same exception is raised -/
theorem translated_ctor_event_init_is_model (dest : Dest) (etype : ETy) (repeatArg : Option Val)
    (count : Option Int) (filtersOk : Bool) :
    (eventInit (ctorEvPrims filtersOk) dest etype repeatArg count {}).1 =
        (eventNew dest etype repeatArg count filtersOk).map (fun _ => ())
    ∧ ∀ ec, eventNew dest etype repeatArg count filtersOk = .ok ec →
        (eventInit (ctorEvPrims filtersOk) dest etype repeatArg count {}).2 =
          { dest := some ec.dest, etype := some ec.etype, filtersSet := true, resolveCalled := true } := by
  unfold eventInit eventNew
  rw [translated_ctor_typecheck_is_model]
  cases repeatArg with
  | none =>
    cases count with
    | some n => simp [raise, Except.map]
    | none =>
      cases ht : typecheck etype <;> cases filtersOk <;>
        simp [M.bind, M.pure, raise, ctorOfExcept, ht, ctorEvPrims, modifyS, Except.map]
  | some r =>
    cases hr : repeatNew dest etype r count with
    | error e => simp [M.bind, ctorEvPrims, hr, Except.map]
    | ok rc =>
      cases ht : typecheck etype <;> cases filtersOk <;>
        simp [M.bind, M.pure, raise, ctorOfExcept, ht, hr, ctorEvPrims, modifyS, Except.map]

theorem translated_ctor_event_dest_is_model {σ : Type} (dest : Dest) :
    (Gen.TrC.eventDest dest : M σ Dest) = ctorOfExcept (RepeatCtor.eventDest dest) := by
  funext s
  cases dest <;> simp [Gen.TrC.eventDest, RepeatCtor.eventDest, ctorOfExcept, Dest.isName, raise, M.pure]

theorem ctor_forEach_ofExcept {σ ι : Type} (validator : ι → Except Exc Unit) (xs : List ι) :
    (forEach xs (fun x => M.bind (ctorOfExcept (validator x)) fun _ => M.pure ()) : M σ Unit) =
      ctorOfExcept (validateAll validator xs) := by
  induction xs with
  | nil => rfl
  | cons x xs ih =>
    funext s
    simp only [forEach, validateAll, M.bind, ctorOfExcept, M.pure]
    cases hv : validator x with
    | error e => simp
    | ok u => simp; rw [ih]; rfl

theorem translated_ctor_to_tuple_is_model {σ ι : Type} (args : ArgsT ι) (validator : ι → Except Exc Unit) :
    (Gen.TrC.toTuple args (fun x => ctorOfExcept (validator x)) : M σ (List ι)) =
      ctorOfExcept (RepeatCtor.toTuple args validator) := by
  funext s
  cases args with
  | none => simp [Gen.TrC.toTuple, RepeatCtor.toTuple, ArgsT.isNone, ctorOfExcept, M.pure]
  | tuple l =>
    simp only [Gen.TrC.toTuple, RepeatCtor.toTuple, ArgsT.isNone, ArgsT.isTuple, ArgsT.items, Bool.false_eq_true,
      if_false, if_true, ctor_forEach_ofExcept]
    cases validateAll validator l <;> simp [M.bind, ctorOfExcept, M.pure]
  | multiple l =>
    simp only [Gen.TrC.toTuple, RepeatCtor.toTuple, ArgsT.isNone, ArgsT.isTuple, ArgsT.isMultiple, ArgsT.items,
      Bool.false_eq_true, if_false, if_true, ctor_forEach_ofExcept]
    cases validateAll validator l <;> simp [M.bind, ctorOfExcept, M.pure]
  | single x =>
    simp only [Gen.TrC.toTuple, RepeatCtor.toTuple, ArgsT.isNone, ArgsT.isTuple, ArgsT.isMultiple, ArgsT.items,
      Bool.false_eq_true, if_false, ctor_forEach_ofExcept]
    cases validateAll validator [x] <;> simp [M.bind, ctorOfExcept, M.pure]

/-! #### Repeat.__init__ / start / init_regular -/

/-- the primitives of `Repeat`: `block.Event(dest, etype)` is the model's plain event constructor,
    `utils.time_period` the model of C19, the base classes and `set_output` are recorded -/
def ctorRPrims : RPrims where
  mkEvent dest etype := fun s =>
    match eventNew dest etype none none true with
    | .ok ec => (.ok (ec.dest, ec.etype), s)
    | .error e => (.error e, s)
  timePeriod v := ctorOfExcept (timePeriod v)
  superInit := modifyS fun o => { o with log := o.log ++ ["super().__init__"] }
  superStart := modifyS fun o => { o with log := o.log ++ ["super().start"] }
  setOutput n := modifyS fun o => { o with log := o.log ++ [s!"set_output({n})"] }

/-- `Repeat.__init__` performs exactly the model's checks, in the model's order, and stores the model's values:
    the repeated event goes to the ORIGINAL destination with the original type, the interval is
    `time_period(interval)`, the count as given, `_warning_logged = False`; the base class is initialised last -/
theorem translated_ctor_repeat_init_is_model (dest : Dest) (etype : ETy) (interval : Val) (count : Option Int) :
    (repeatInit ctorRPrims dest etype interval count {}).1 = (repeatNew dest etype interval count).map (fun _ => ())
    ∧ ∀ rc, repeatNew dest etype interval count = .ok rc →
        (repeatInit ctorRPrims dest etype interval count {}).2 =
          { repeated := some (rc.dest, rc.etype), interval := some rc.interval, count := rc.count,
            warningLogged := some false, queue := none, log := ["super().__init__"] }
        ∧ rc.dest = dest ∧ rc.etype = etype ∧ rc.count = count := by
  unfold repeatInit repeatNew
  cases hc : etype.isEventCond
  case true => simp [raise, Except.map]
  case false =>
    simp only [Bool.false_eq_true, if_false]
    cases ht : typecheck etype with
    | error e => simp [M.bind, ctorRPrims, eventNew, ht, Except.map]
    | ok u =>
      cases hp : RepeatCtor.timePeriod interval with
      | error e => simp [M.bind, ctorRPrims, eventNew, ht, hp, ctorOfExcept, modifyS, Except.map]
      | ok r =>
        cases r with
        | none => simp [M.bind, ctorRPrims, eventNew, ht, hp, ctorOfExcept, modifyS, getS, raise, Except.map]
        | some iv =>
          by_cases hiv : iv ≤ 0
          · simp [M.bind, ctorRPrims, eventNew, ht, hp, ctorOfExcept, modifyS, getS, raise, hiv, Except.map]
          · cases count with
            | none =>
              simp [M.bind, M.pure, ctorRPrims, eventNew, ht, hp, ctorOfExcept, modifyS, getS, raise, hiv, Except.map]
            | some n =>
              by_cases hn : n < 0 <;>
                simp [M.bind, M.pure, ctorRPrims, eventNew, ht, hp, ctorOfExcept, modifyS, getS, raise, hiv, hn, Except.map]

/-- `Repeat.start`: the base classes first (the main task is created there but cannot run before the
    caller yields), then the FIFO queue; `Repeat.init_regular`: the output starts as 0 -/
theorem translated_ctor_repeat_start_is_model (o : RepeatObj) :
    repeatStart ctorRPrims o = (.ok (), { o with queue := some .fifo, log := o.log ++ ["super().start"] })
    ∧ repeatInitRegular ctorRPrims o = (.ok (), { o with log := o.log ++ [s!"set_output({0})"] })
    ∧ ({} : Repeat.State).out = 0 := by
  refine ⟨?_, ?_, rfl⟩ <;> simp [repeatStart, repeatInitRegular, ctorRPrims, M.bind, M.pure, modifyS]

/-! #### AddonAsync.__init__ -/

def ctorAPrims (hasInit hasStop : Bool) (awaitMtask awaitCoro : M AsyncObj Unit) : APrims where
  hasInitAsync := hasInit
  hasStopAsync := hasStop
  timePeriod v := ctorOfExcept (RepeatCtor.timePeriod v)
  superInit := modifyS fun o => { o with log := o.log ++ ["super().__init__"] }
  superStart := modifyS fun o => { o with log := o.log ++ ["super().start"] }
  cancelMtask := modifyS fun o => { o with log := o.log ++ ["cancel"] }
  awaitMtask := awaitMtask
  superStopAsync := modifyS fun o => { o with log := o.log ++ ["super().stop_async"] }
  awaitCoro := awaitCoro
  addNote _ := M.pure ()
  abort e := modifyS fun o => { o with log := o.log ++ ["abort " ++ e] }

/-- how an awaited coroutine ends, as a program -/
def ctorEndOf {σ : Type} : CoroEnd → M σ Unit
  | .returned => M.pure ()
  | .raised e => raise e

theorem ctor_popKw_eq (key : String) (o : AsyncObj) :
    Gen.TrC.popKw key o = (.ok (RepeatCtor.popKw o.kwargs key).1, { o with kwargs := (RepeatCtor.popKw o.kwargs key).2 }) := rfl

theorem ctor_hasKw_eq (o : AsyncObj) (k : String) : o.hasKw k = RepeatCtor.hasKw o.kwargs k := rfl

/-- the defaults of the module: 10 s each (as `Gen.defaultInitTimeoutUs` / `defaultStopTimeoutUs` of the extractor) -/
theorem translated_ctor_default_timeouts :
    defaultInitTimeout = 10 ∧ defaultStopTimeout = 10
    ∧ defaultInitTimeout * 1000000 = (Gen.defaultInitTimeoutUs : Rat)
    ∧ defaultStopTimeout * 1000000 = (Gen.defaultStopTimeoutUs : Rat) := by
  refine ⟨rfl, rfl, ?_, ?_⟩ <;> decide +kernel

/-- `AddonAsync.__init__` computes the model's `asyncInit` with the defaults of the module
    (`DEFAULT_INIT_TIMEOUT`, `DEFAULT_STOP_TIMEOUT`, regenerated: 10 s); the keyword arguments it does not
    consume are the ones the next `__init__` sees -/
theorem translated_ctor_async_init_is_model (hasInit hasStop : Bool) (kwargs : List (String × Val))
    (aw ac : M AsyncObj Unit) :
    (addonAsyncInit (ctorAPrims hasInit hasStop aw ac) { kwargs := kwargs }).1 =
        (asyncInit hasInit hasStop defaultInitTimeout defaultStopTimeout kwargs).map (fun _ => ())
    ∧ ∀ t, asyncInit hasInit hasStop defaultInitTimeout defaultStopTimeout kwargs = .ok t →
        (addonAsyncInit (ctorAPrims hasInit hasStop aw ac) { kwargs := kwargs }).2 =
          { kwargs := t.rest, initTimeout := t.init, stopTimeout := t.stop, mtask := none,
            log := ["super().__init__"] } := by
  unfold addonAsyncInit asyncInit oneTimeout
  cases hasInit <;> cases hasStop <;> simp only [ctorAPrims, Bool.false_eq_true, if_false, if_true]
  · cases h1 : RepeatCtor.hasKw kwargs "init_timeout" <;> cases h2 : RepeatCtor.hasKw kwargs "stop_timeout" <;>
      simp [M.bind, getS, modifyS, raise, M.pure, ctor_popKw_eq, ctor_hasKw_eq, TrTie.ctorOfExcept, h1, h2, withDefault, Except.map]
  · cases h1 : RepeatCtor.hasKw kwargs "init_timeout"
    · cases hp : RepeatCtor.timePeriod (RepeatCtor.popKw kwargs "stop_timeout").1 with
      | error e => simp [M.bind, getS, modifyS, raise, M.pure, ctor_popKw_eq, ctor_hasKw_eq, TrTie.ctorOfExcept, h1, hp, Except.map]
      | ok r => cases r <;>
          simp [M.bind, getS, modifyS, raise, M.pure, ctor_popKw_eq, ctor_hasKw_eq, TrTie.ctorOfExcept, h1, hp, withDefault, Except.map]
    · simp [M.bind, getS, modifyS, raise, M.pure, ctor_popKw_eq, ctor_hasKw_eq, TrTie.ctorOfExcept, h1, Except.map]
  · cases hp : RepeatCtor.timePeriod (RepeatCtor.popKw kwargs "init_timeout").1 with
    | error e => simp [M.bind, getS, modifyS, raise, M.pure, ctor_popKw_eq, ctor_hasKw_eq, TrTie.ctorOfExcept, hp, Except.map]
    | ok r =>
      cases h2 : RepeatCtor.hasKw (RepeatCtor.popKw kwargs "init_timeout").2 "stop_timeout" <;> cases r <;>
        simp [M.bind, getS, modifyS, raise, M.pure, ctor_popKw_eq, ctor_hasKw_eq, TrTie.ctorOfExcept, hp, h2, withDefault, Except.map]
  · cases hp : RepeatCtor.timePeriod (RepeatCtor.popKw kwargs "init_timeout").1 with
    | error e => simp [M.bind, getS, modifyS, raise, M.pure, ctor_popKw_eq, ctor_hasKw_eq, TrTie.ctorOfExcept, hp, Except.map]
    | ok r =>
      cases hp2 : RepeatCtor.timePeriod
          (RepeatCtor.popKw (RepeatCtor.popKw kwargs "init_timeout").2 "stop_timeout").1 with
      | error e => simp [M.bind, getS, modifyS, raise, M.pure, ctor_popKw_eq, ctor_hasKw_eq, TrTie.ctorOfExcept, hp, hp2, Except.map]
      | ok r2 => cases r <;> cases r2 <;>
          simp [M.bind, getS, modifyS, raise, M.pure, ctor_popKw_eq, ctor_hasKw_eq, TrTie.ctorOfExcept, hp, hp2, withDefault, Except.map]

/-! #### the task monitor, the main task -/

/-- `AddonAsync._task_monitor` IS the model's `monitor`: the call ends as the model says and `circuit.abort(err)`
    is called exactly for the error the model names (after `add_note`) -/
theorem translated_monitor_task_monitor_is_model (hi hs isService : Bool) (aw : M AsyncObj Unit) (e : CoroEnd)
    (o : AsyncObj) :
    taskMonitor (ctorAPrims hi hs aw (ctorEndOf e)) isService o =
      ((monitor isService e).result,
       { o with log := o.log ++ (match (monitor isService e).aborted with
                                 | some x => ["abort " ++ x]
                                 | none => []) }) := by
  unfold taskMonitor monitor
  cases e with
  | returned =>
    cases isService <;>
      simp [ctorAPrims, ctorEndOf, M.bind, M.pure, tryExcept, raise, modifyS, excIsA]
  | raised x =>
    by_cases hx : excIsA x "Exception" = true
    · simp [ctorAPrims, ctorEndOf, M.bind, M.pure, tryExcept, raise, modifyS, hx]
    · have hx' : excIsA x "Exception" = false := by simpa using hx
      simp [ctorAPrims, ctorEndOf, M.bind, M.pure, tryExcept, raise, modifyS, hx']

/-- `_create_monitored_task(coro, is_service=False)` wraps the coroutine in the monitor with the flag as given -/
theorem translated_monitor_create_task_is_model (coro : Coro) (isService : Bool) (o : AsyncObj) :
    createMonitoredTask coro isService o = (.ok (coro, isService), o)
    ∧ createMonitoredTaskDefaultIsService = false ∧ taskMonitorDefaultIsService = false := by
  simp [createMonitoredTask, M.pure, createMonitoredTaskDefaultIsService, taskMonitorDefaultIsService]

/-- `AddonMainTask.__init__` clears `_mtask` before the base classes run; `start` starts the base classes, then
    creates the monitored task of `_maintask()` AS A SERVICE; a second `start` fails the assertion -/
theorem translated_ctor_main_task_start_is_model (hi hs : Bool) (aw ac : M AsyncObj Unit) (o : AsyncObj) :
    mainTaskInit (ctorAPrims hi hs aw ac) o =
        (.ok (), { o with mtask := none, log := o.log ++ ["super().__init__"] })
    ∧ (o.mtask = none → mainTaskStart (ctorAPrims hi hs aw ac) o =
        (.ok (), { o with mtask := some (.maintask, true), log := o.log ++ ["super().start"] }))
    ∧ (∀ t, o.mtask = some t → mainTaskStart (ctorAPrims hi hs aw ac) o =
        (.error "AssertionError", { o with log := o.log ++ ["super().start"] })) := by
  refine ⟨?_, ?_, ?_⟩
  · simp [mainTaskInit, ctorAPrims, M.bind, M.pure, modifyS]
  · intro h
    simp [mainTaskStart, ctorAPrims, M.bind, M.pure, modifyS, getS, assertM, createMonitoredTask, h]
  · intro t h
    simp [mainTaskStart, ctorAPrims, M.bind, M.pure, modifyS, getS, assertM, raise, h]

/-- `AddonMainTask.stop_async` IS the model's `stopAsync`: the task is cancelled and awaited; its
    CancelledError is swallowed; `_mtask` is cleared in every case (`finally`); another exception of the task
    propagates and the next `stop_async` in the MRO is then not awaited -/
theorem translated_monitor_stop_async_is_model (hi hs : Bool) (ac : M AsyncObj Unit) (e : CoroEnd) (o : AsyncObj) :
    mainTaskStopAsync (ctorAPrims hi hs (ctorEndOf e) ac) o =
      ((stopAsync o.mtask.isSome e).result,
       { o with
           mtask := if (stopAsync o.mtask.isSome e).mtaskCleared then none else o.mtask
           log := o.log ++ (if (stopAsync o.mtask.isSome e).cancelled then ["cancel"] else [])
                        ++ (if (stopAsync o.mtask.isSome e).superAwaited then ["super().stop_async"] else []) }) := by
  unfold mainTaskStopAsync stopAsync
  cases hm : o.mtask with
  | none =>
    cases o
    simp_all [M.bind, getS, assertM, raise]
  | some t =>
    cases e with
    | returned =>
      simp [ctorAPrims, ctorEndOf, M.bind, M.pure, getS, assertM, modifyS, tryExcept, Gen.TrC.tryFinally, hm]
    | raised x =>
      by_cases hx : excIsA x "CancelledError" = true
      · simp [ctorAPrims, ctorEndOf, M.bind, M.pure, getS, assertM, modifyS, tryExcept, Gen.TrC.tryFinally, raise, hm, hx]
      · have hx' : excIsA x "CancelledError" = false := by simpa using hx
        simp [ctorAPrims, ctorEndOf, M.bind, M.pure, getS, assertM, modifyS, tryExcept, Gen.TrC.tryFinally, raise, hm, hx']

/-! #### consequences, stated outright -/

/-- A main task (a service) that ENDS without being cancelled aborts the simulation – by returning
    (EdzedCircuitError) or by raising an Exception (that exception) –; a cancelled one does not. -/
theorem ctor_monitor_service_end_aborts_cancel_does_not (e : Exc) :
    (monitor true .returned).aborted = some "EdzedCircuitError"
    ∧ (excIsA e "Exception" = true → (monitor true (.raised e)).aborted = some e)
    ∧ (monitor true (.raised "CancelledError")).aborted = none
    ∧ (monitor false .returned).aborted = none := by
  refine ⟨rfl, ?_, by decide, rfl⟩
  intro h; simp [monitor, h]

/-- `stop_async` cancels the main task and awaits it; the cancellation is not an error and the rest of the
    clean-up chain runs; `_mtask` is cleared whatever happens; without `start` it is an assertion failure.
    (The bound by `stop_timeout` is applied by the caller, `Circuit._run_tasks`, not here.) -/
theorem ctor_stop_async_cancels_and_awaits (e : Exc) :
    stopAsync true (.raised "CancelledError") = ⟨true, true, true, .ok ()⟩
    ∧ stopAsync true .returned = ⟨true, true, true, .ok ()⟩
    ∧ (excIsA e "CancelledError" = false → stopAsync true (.raised e) = ⟨true, true, false, .error e⟩)
    ∧ (stopAsync false (.raised e)).result = .error "AssertionError" := by
  refine ⟨by simp [stopAsync, excIsA], rfl, ?_, rfl⟩
  intro h; simp [stopAsync, h]

/-- Which `Event(...)` calls create a Repeat block: exactly those with `repeat` given (not None).  The created
    block forwards to the ORIGINAL destination with the ORIGINAL event type, its interval is
    `time_period(repeat)`, its count the `count` argument unchanged (None stays None – unlimited –, 0 stays 0);
    the event itself keeps its type and is redirected to the new block. -/
theorem ctor_event_with_repeat_creates_repeat (dest : Dest) (etype : ETy) (r : Val) (count : Option Int)
    (filtersOk : Bool) (ec : EventCfg) (h : eventNew dest etype (some r) count filtersOk = .ok ec) :
    ∃ iv, RepeatCtor.timePeriod r = .ok (some iv) ∧ 0 < iv
      ∧ ec.dest = .repeatOf dest etype iv count ∧ ec.etype = etype := by
  unfold eventNew at h
  simp only at h
  cases hr : repeatNew dest etype r count with
  | error e => simp [hr] at h
  | ok rc =>
    simp only [hr] at h
    cases ht : typecheck etype with
    | error e => simp [ht] at h
    | ok u =>
      cases filtersOk <;> simp [ht] at h
      obtain ⟨a, b, c⟩ := (translated_ctor_repeat_init_is_model dest etype r count).2 rc hr |>.2
      unfold repeatNew at hr
      cases hc : etype.isEventCond <;> simp [hc, ht] at hr
      cases hp : RepeatCtor.timePeriod r with
      | error e => simp [hp] at hr
      | ok o =>
        cases o with
        | none => simp [hp] at hr
        | some iv =>
          by_cases hiv : iv ≤ 0
          · simp [hp, hiv] at hr
          · have hrc : rc.interval = iv := by
              cases count with
              | none => simp [hp, hiv] at hr; rw [← hr]
              | some n => by_cases hn : n < 0 <;> simp [hp, hiv, hn] at hr; rw [← hr]
            refine ⟨iv, rfl, Rat.not_le.mp hiv, ?_, by rw [← h]⟩
            rw [← h, a, b, c, hrc]

/-- without `repeat` no block is created: the event goes where it was sent; a `count` alone is refused -/
theorem ctor_event_without_repeat (dest : Dest) (etype : ETy) (n : Int) (filtersOk : Bool) :
    eventNew dest etype none (some n) filtersOk = .error "ValueError"
    ∧ ∀ ec, eventNew dest etype none none filtersOk = .ok ec → ec = ⟨dest, etype⟩ := by
  refine ⟨rfl, ?_⟩
  intro ec h
  unfold eventNew at h
  cases ht : typecheck etype <;> cases filtersOk <;> simp [ht] at h
  exact h.symm

/-- the refused argument combinations of `Repeat(...)` / `Event(..., repeat=…)` -/
theorem ctor_repeat_refused_arguments (dest : Dest) (etype : ETy) (interval : Val) (count : Option Int) (n : Int) (q : Rat)
    (k : Kind) (t : Bool) :
    repeatNew dest .eventCond interval count = .error "ValueError"
    ∧ repeatNew dest (.str "") interval count = .error "ValueError"
    ∧ repeatNew dest (.other t) interval count = .error "TypeError"
    ∧ repeatNew dest (.str "put") Val.none count = .error "ValueError"
    ∧ (q ≤ 0 → repeatNew dest (.str "put") (.atom (.num q k)) count = .error "ValueError")
    ∧ (0 < q → n < 0 → repeatNew dest (.str "put") (.atom (.num q k)) (some n) = .error "ValueError")
    ∧ (0 < q → 0 ≤ n → repeatNew dest (.str "put") (.atom (.num q k)) (some n) = .ok ⟨dest, .str "put", q, some n⟩)
    ∧ (0 < q → repeatNew dest (.str "put") (.atom (.num q k)) none = .ok ⟨dest, .str "put", q, none⟩) := by
  have hpos : ∀ {q : Rat}, 0 < q → ¬ q < 0 ∧ ¬ q ≤ 0 := fun h =>
    ⟨Rat.not_lt.mpr (Rat.le_of_lt h), Rat.not_le.mpr h⟩
  refine ⟨rfl, rfl, rfl, ?_, ?_, ?_, ?_, ?_⟩
  · simp [repeatNew, ETy.isEventCond, typecheck, RepeatCtor.timePeriod, TimeUnits.timePeriod, Val.none]
  · intro hq
    by_cases h0 : q < 0
    · simp [repeatNew, ETy.isEventCond, typecheck, RepeatCtor.timePeriod, TimeUnits.timePeriod, h0]
    · simp [repeatNew, ETy.isEventCond, typecheck, RepeatCtor.timePeriod, TimeUnits.timePeriod, h0, hq]
  · intro hq hn
    simp [repeatNew, ETy.isEventCond, typecheck, RepeatCtor.timePeriod, TimeUnits.timePeriod, (hpos hq).1, (hpos hq).2, hn]
  · intro hq hn
    have : ¬ n < 0 := by omega
    simp [repeatNew, ETy.isEventCond, typecheck, RepeatCtor.timePeriod, TimeUnits.timePeriod, (hpos hq).1, (hpos hq).2, this]
  · intro hq
    simp [repeatNew, ETy.isEventCond, typecheck, RepeatCtor.timePeriod, TimeUnits.timePeriod, (hpos hq).1, (hpos hq).2]

/-- `stop_timeout` / `init_timeout`: missing or None means the default (10 s) when the block has the method;
    a given value goes through `time_period`; given although the method is missing: TypeError -/
theorem ctor_async_timeouts_default_and_refusal (kwargs : List (String × Val))
    (h1 : hasKw kwargs "init_timeout" = false) (h2 : hasKw kwargs "stop_timeout" = false) :
    (∃ t, asyncInit true true 10 10 kwargs = .ok t ∧ t.init = some 10 ∧ t.stop = some 10)
    ∧ asyncInit false false 10 10 (("stop_timeout", Val.int 3) :: kwargs) = .error "TypeError" := by
  have hf : ∀ (l : List (String × Val)) k, hasKw l k = false → (RepeatCtor.popKw l k).1 = Val.none := by
    intro l k hk
    have : l.find? (fun x => x.1 == k) = none := by
      apply List.find?_eq_none.mpr
      intro x hx hxk
      have : hasKw l k = true := List.any_eq_true.mpr ⟨x, hx, hxk⟩
      rw [hk] at this; cases this
    simp [RepeatCtor.popKw, this]
  have htp : RepeatCtor.timePeriod Val.none = .ok none := rfl
  have hf2 : hasKw (popKw kwargs "init_timeout").2 "stop_timeout" = false := by
    cases h : hasKw (popKw kwargs "init_timeout").2 "stop_timeout" with
    | false => rfl
    | true =>
      obtain ⟨x, hx, hxk⟩ := List.any_eq_true.mp h
      have : hasKw kwargs "stop_timeout" = true :=
        List.any_eq_true.mpr ⟨x, (List.mem_filter.mp hx).1, hxk⟩
      rw [h2] at this; cases this
  constructor
  · refine ⟨⟨some 10, some 10, (popKw (popKw kwargs "init_timeout").2 "stop_timeout").2⟩, ?_, rfl, rfl⟩
    unfold asyncInit oneTimeout
    simp only [if_true, hf _ _ h1, hf _ _ hf2, htp, withDefault]
  · have h1' : (kwargs.any fun x => x.fst == "init_timeout") = false := h1
    simp [asyncInit, oneTimeout, hasKw, h1']

/-- non-vacuity: an event with `repeat=2.5, count=0` -/
example : (eventNew (.block "out") (.str "put") (some (Val.flt (5 / 2))) (some 0) true).toOption =
    some ⟨.repeatOf (.block "out") (.str "put") (5 / 2) (some 0), .str "put"⟩ := by decide +kernel

end Edzed.TrTie
